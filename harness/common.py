"""Common machinery of the correspondence harness (DESIGN.md section 3).

Everything random derives from one random.Random(VERIF_SEED).  The implementation is always the
working tree of /repo (asserted).  Coq is always run under a shell timeout.
"""
import os, sys, json, re, time, random, subprocess, hashlib, shutil, warnings, traceback
from fractions import Fraction
from concurrent.futures import ThreadPoolExecutor

VERIF = os.path.dirname(os.path.dirname(os.path.abspath(__file__)))
COQ = os.path.join(VERIF, 'coq')
BUILD = os.path.join(VERIF, 'build')
EVID = os.environ.get('VERIF_EVID', os.path.join(VERIF, 'evidence'))   # VERIF_EVID: only for evaluating seeded changes
REPLAYS = os.path.join(VERIF, 'replays')
CORPUS = os.path.join(VERIF, 'corpus')
KNOWN = os.path.join(VERIF, 'known_findings.txt')
NCPU = int(os.environ.get('VERIF_JOBS', '16'))

STD_AXIOMS_OK = {
    # axioms declared by Coq's standard library / libraries it ships with (named in DESIGN.md s.4)
    'ClassicalDedekindReals.sig_forall_dec', 'ClassicalDedekindReals.sig_not_dec',
    'FunctionalExtensionality.functional_extensionality_dep', 'Classical_Prop.classic',
    'Eqdep.Eq_rect_eq.eq_rect_eq', 'JMeq.JMeq_eq', 'ProofIrrelevance.proof_irrelevance',
    'PropExtensionality.propositional_extensionality', 'ClassicalEpsilon.constructive_indefinite_description',
    'Epsilon.epsilon_statement', 'ChoiceFacts.constructive_definite_description',
}


def import_pypose():
    """Import pypose from /repo's working tree, silencing its import-time warnings."""
    warnings.filterwarnings('ignore')
    repo = os.environ.get('VERIF_REPO', '/repo')     # VERIF_REPO: scratch worktree used only to evaluate seeded changes
    sys.path[:] = [p for p in sys.path if os.path.realpath(p or '.') != '/repo' or repo == '/repo']
    if repo not in sys.path:
        sys.path.insert(0, repo)
    import torch  # noqa
    import pypose as pp
    assert os.path.realpath(pp.__file__).startswith(os.path.realpath(repo) + '/'), pp.__file__
    torch.set_num_threads(1)
    return pp


# ---------------------------------------------------------------- exact numbers -> Coq literals
def F(x):
    """exact rational value of a python float / int / Fraction"""
    if isinstance(x, Fraction):
        return x
    if isinstance(x, int):
        return Fraction(x)
    return Fraction(float(x))


def qlit(x):
    f = F(x)
    return '(%d # %d)' % (f.numerator, f.denominator)


def rlit(x):
    f = F(x)
    if f.denominator == 1:
        return '(%d)' % f.numerator
    return '(%d / %d)' % (f.numerator, f.denominator)


def zlit(z):
    return '(%d)' % int(z)


def coq_list(items):
    return '[' + '; '.join(items) + ']'


def qlist(xs):
    return coq_list(qlit(x) for x in xs)


def rlist(xs):
    return coq_list(rlit(x) for x in xs)


def tolist(t):
    """flatten a torch tensor to python floats"""
    return [float(v) for v in t.detach().reshape(-1).tolist()]


# ---------------------------------------------------------------- running Coq
def coqc(path, timeout=600):
    """compile one .v file; returns (returncode, stdout+stderr)"""
    cmd = ['timeout', str(timeout), 'coqc', '-R', COQ, 'PV', '-w', '-all', path]
    p = subprocess.run(cmd, stdout=subprocess.PIPE, stderr=subprocess.STDOUT, text=True,
                       cwd=os.path.dirname(path))
    return p.returncode, p.stdout


_CASE_DIRS = {}


def case_dir(pid):
    """scratch directory of the generated case files: one per process, so that two runs of the same property at the
    same time (quick and thorough, a seed evaluation ...) do not overwrite each other's files; removed at exit"""
    if pid not in _CASE_DIRS:
        import atexit, shutil
        d = os.path.join(BUILD, 'cases', '%s.%d' % (pid, os.getpid()))
        os.makedirs(d, exist_ok=True)
        _CASE_DIRS[pid] = d
        atexit.register(shutil.rmtree, d, True)
    return _CASE_DIRS[pid]


def run_case_files(pid, files, timeout=900):
    """files: list of (name, text).  Compiles them in parallel.  Returns {name: (rc, out)}"""
    d = case_dir(pid)
    paths = []
    for name, text in files:
        p = os.path.join(d, name + '.v')
        with open(p, 'w') as f:
            f.write(text)
        paths.append((name, p))
    res = {}
    with ThreadPoolExecutor(max_workers=NCPU) as ex:
        futs = {name: ex.submit(coqc, p, timeout) for name, p in paths}
        for name, fu in futs.items():
            res[name] = fu.result()
    return res


_EVAL_RE = re.compile(r'^\s*=\s*(.*?)\n\s*:\s', re.S | re.M)


def parse_evals(out):
    """All results printed by `Eval vm_compute in ...`, whitespace-normalised, in order."""
    res = []
    for m in re.finditer(r'(?:^|\n)\s*= (.*?)\n\s*: [^\n]*(?:\n(?!\s*=)[ \t]+[^\n]*)*', out, re.S):
        res.append(' '.join(m.group(1).split()))
    return res


def parse_nat_list(s):
    s = s.strip()
    assert s.startswith('[') and s.endswith(']'), s
    body = s[1:-1].strip()
    if not body:
        return []
    return [int(x.replace('%nat', '').replace('%Z', '').replace('%N', '').strip()) for x in body.split(';')]


def parse_tags(out):
    """lines of the form `TAG n` printed by idtac in enclosure goals -> {'OK': [...], 'BAD': [...]}"""
    r = {'OK': [], 'BAD': []}
    for line in out.splitlines():
        m = re.match(r'^\s*(OK|BAD)\s+"?(\d+)"?\s*$', line)
        if m:
            r[m.group(1)].append(int(m.group(2)))
    return r


# ---------------------------------------------------------------- proofs
def build_props(pid, thorough=False, log=None):
    """(Re)check coq/Props/<pid>.v from source and parse `Print Assumptions`.

    Returns dict(ok, theorems, axioms, out, checker_cmd).  Quick: the dependency cone is brought
    up to date with make (unchanged files are not rebuilt) and the Props file itself is always
    recompiled; thorough: every .vo the Props file depends on is deleted first, so that each
    lemma is re-checked from source and coqchk -o is run on the result in a time slot (VERIF_COQCHK_TIMEOUT, default 240 s).
    """
    rel = 'Props/%s.v' % pid
    path = os.path.join(COQ, rel)
    if not os.path.exists(path):
        return dict(ok=False, theorems=[], axioms=[], out='missing ' + rel, checker_cmd='')
    ensure_makefile()
    vo = path + 'o'
    if thorough and not os.environ.get('VERIF_KEEP_VO'):   # VERIF_KEEP_VO=1: development runs in a tree shared with other runs
        deps = prop_cone(pid)
        for d in deps:
            for ext in ('.vo', '.glob', '.vos', '.vok'):
                try:
                    os.remove(os.path.join(COQ, d[:-2] + ext))
                except OSError:
                    pass
    for ext in ('o', 'os', 'ok'):
        try:
            os.remove(path + ext)
        except OSError:
            pass
    cmd = 'timeout 3000 make -C %s -j%d %so' % (COQ, NCPU, rel)
    p = subprocess.run(cmd, shell=True, stdout=subprocess.PIPE, stderr=subprocess.STDOUT, text=True)
    out = p.stdout
    ok = p.returncode == 0 and os.path.exists(vo)
    src = open(path).read()
    theorems = re.findall(r'^\s*Theorem\s+(\w+)', src, re.M)
    axioms = set()
    closed = out.count('Closed under the global context')
    for m in re.finditer(r'Axioms:\n((?:.+\n?)*?)(?=\n\S|\Z)', out):
        pass
    # Print Assumptions prints "name : type" lines (possibly wrapped with indentation) after "Axioms:"
    inax = False
    for line in out.splitlines():
        if line.startswith('Axioms:'):
            inax = True
            continue
        if inax and re.match(r'^(make(\[\d+\])?:|COQ\w+ |coqc |Closed under|File )', line):
            inax = False
            continue
        if inax:
            m = re.match(r'^([A-Za-z_][\w\.\']*)\s*(:|$)', line)
            if m:
                axioms.add(m.group(1))
            elif line.startswith(' ') or line.startswith('\t') or not line.strip():
                continue
            else:
                inax = False
    npa = len(re.findall(r'^\s*Print Assumptions', src, re.M))
    res = dict(ok=ok, theorems=theorems, axioms=sorted(axioms), out=out, checker_cmd=cmd,
               n_print_assumptions=npa, closed=closed)
    bad_ax = [a for a in axioms if a not in STD_AXIOMS_OK and not a.startswith(('Uint63.', 'PrimFloat.', 'FloatAxioms.', 'PrimInt63.', 'Sint63.'))]
    res['unexpected_axioms'] = bad_ax
    slot = int(os.environ.get('VERIF_COQCHK_TIMEOUT', '240'))
    if thorough and ok and slot <= 0:
        res['coqchk_skipped'] = True
    if thorough and ok and slot > 0:
        # coqchk re-checks every library the Props file loads.  It finishes within 1-2 minutes for the Props files whose
        # proofs do not rest on large vm_compute / interval computations (measured: C06 C07 C10 C11 C13 C14 C15 C17 C18 C20)
        # and needs 25 to 60+ minutes for the others (it re-evaluates those computations with its own slow reduction):
        # default slot 240 s, VERIF_COQCHK_TIMEOUT=<seconds> changes it, 0 switches it off.
        chk = 'flock /tmp/pv_coqchk.lock timeout %d coqchk -silent -o -R %s PV PV.Props.%s' % (slot, COQ, pid)
        p2 = subprocess.run(chk, shell=True, stdout=subprocess.PIPE, stderr=subprocess.STDOUT, text=True)
        res['coqchk_rc'] = p2.returncode
        res['coqchk_tail'] = p2.stdout[-3000:]
        res['checker_cmd'] = cmd + ' && ' + chk
        if p2.returncode == 124:
            # the independent re-check did not finish in its time slot (it re-checks Coquelicot, Interval and every
            # nsatz / field certificate from scratch): recorded, not a verdict on the proofs coqc has accepted
            res['coqchk_timed_out'] = True
        elif p2.returncode == 1:
            # coqchk's own error status (a library it cannot load or a term it rejects)
            res['ok'] = False
            res['out'] += '\n[coqchk]\n' + p2.stdout[-3000:]
        elif p2.returncode != 0:
            # killed or aborted (out of memory: 134, signals): a resource failure of the re-check, recorded, not a verdict
            res['coqchk_timed_out'] = True
    return res


def ensure_makefile():
    mk = os.path.join(COQ, 'Makefile')
    proj = os.path.join(COQ, '_CoqProject')
    files = []
    for sub in ('Base', 'Model', 'Proofs', 'Props'):
        d = os.path.join(COQ, sub)
        if os.path.isdir(d):
            files += sorted(os.path.join(sub, f) for f in os.listdir(d) if f.endswith('.v'))
    text = '-R . PV\n-arg -w -arg -all\n' + '\n'.join(files) + '\n'
    old = open(proj).read() if os.path.exists(proj) else ''
    if old != text or not os.path.exists(mk):
        with open(proj, 'w') as f:
            f.write(text)
        subprocess.run('coq_makefile -f _CoqProject -o Makefile', shell=True, cwd=COQ,
                       stdout=subprocess.DEVNULL, stderr=subprocess.DEVNULL)


def prop_cone(pid):
    """.v files (relative to coq/) that Props/<pid>.v transitively depends on, itself included."""
    p = subprocess.run('coqdep -R . PV $(find Base Model Proofs Props -name "*.v")', shell=True,
                       cwd=COQ, stdout=subprocess.PIPE, stderr=subprocess.DEVNULL, text=True)
    deps = {}
    for line in p.stdout.splitlines():
        if ':' not in line:
            continue
        lhs, rhs = line.split(':', 1)
        tgt = [t for t in lhs.split() if t.endswith('.vo')]
        if not tgt:
            continue
        v = tgt[0][:-1]
        deps[v] = [d[:-1] for d in rhs.split() if d.endswith('.vo')]
    seen, todo = set(), ['Props/%s.v' % pid]
    while todo:
        v = todo.pop()
        if v in seen:
            continue
        seen.add(v)
        todo += deps.get(v, [])
    return sorted(seen)


# ---------------------------------------------------------------- known findings
def known_findings(pid):
    """lines `finding: property=Cxx key=<key> <text>` of known_findings.txt -> {key: text}"""
    res = {}
    if os.path.exists(KNOWN):
        for line in open(KNOWN):
            m = re.match(r'^finding:\s+property=(\w+)\s+key=(\S+)\s+(.*)$', line.strip())
            if m and m.group(1) == pid:
                res[m.group(2)] = m.group(3)
    return res


# ---------------------------------------------------------------- the per-run context
class Ctx:
    def __init__(self, pid, tier, seed):
        self.pid, self.tier, self.seed = pid, tier, seed
        self.rng = random.Random(seed)
        self.t0 = time.time()
        self.thorough = (tier == 'thorough')
        self.evaluations = 0
        self.nontrivial = set()
        self.hist = {}
        self.samples = []
        self.mismatches = []      # model vs implementation disagreements (dicts)
        self.violations = []      # confirmed failing inputs (dicts with key, replay data)
        self.broken = []          # proof obligations / correspondence families that no longer check
        self.traces = 0
        self.notes = []
        self.known = known_findings(pid)
        self.known_hit = {}
        self.assumptions = []

    # --- bookkeeping
    def count(self, branch, n=1):
        self.hist[branch] = self.hist.get(branch, 0) + n

    def case(self, key, nontrivial=True, branch=None, sample=None):
        self.evaluations += 1
        if nontrivial:
            self.nontrivial.add(hashlib.md5(repr(key).encode()).hexdigest()[:12])
        if branch is not None:
            self.count(branch)
        if sample is not None and len(self.samples) < 6:
            self.samples.append(sample)

    def scale(self, quick, thorough):
        return thorough if self.thorough else quick

    # --- outcomes
    def mismatch(self, family, case, detail=''):
        self.mismatches.append(dict(family=family, case=case, detail=detail))

    def violation(self, key, what, replay):
        """a concrete failing input against the real code"""
        if key in self.known:
            self.known_hit[key] = what
            return
        self.violations.append(dict(key=key, what=what, replay=replay))

    def obligation_broken(self, name, detail=''):
        self.broken.append(dict(name=name, detail=detail))


def write_replay(pid, data):
    os.makedirs(REPLAYS, exist_ok=True)
    blob = json.dumps(data, sort_keys=True, default=str)
    h = hashlib.md5(blob.encode()).hexdigest()[:10]
    path = os.path.join(REPLAYS, '%s-%s.json' % (pid, h))
    with open(path, 'w') as f:
        json.dump(data, f, indent=1, sort_keys=True, default=str)
    return path


def finish(ctx, proofs, level_text=''):
    """Decide the exit status, print VIOLATION / KNOWN-FINDING lines, write the evidence file."""
    pid = ctx.pid
    lines = []
    nviol = 0
    for key, what in ctx.known_hit.items():
        lines.append('KNOWN-FINDING: property=%s %s [%s]' % (pid, ctx.known[key], key))
    seen = set()
    for v in ctx.violations:
        if v['key'] in seen:
            continue
        seen.add(v['key'])
        data = dict(property=pid, key=v['key'], what=v['what'], replay=v['replay'], seed=ctx.seed, tier=ctx.tier)
        path = write_replay(pid, data)
        lines.append('VIOLATION property=%s replay=%s' % (pid, path))
        nviol += 1
    # broken ties / obligations without a concrete failing input
    unexplained = list(ctx.broken)
    if ctx.mismatches and not ctx.violations and not ctx.known_hit:
        fams = sorted({m['family'] for m in ctx.mismatches})
        unexplained.append(dict(name='correspondence:' + ','.join(fams),
                                detail=json.dumps(ctx.mismatches[:3], default=str)[:4000]))
    elif ctx.mismatches and not ctx.violations and ctx.known_hit:
        # mismatches exist but every searched failing input is a listed finding: families that
        # were not explained by a finding still count as broken
        fams = sorted({m['family'] for m in ctx.mismatches if not m.get('explained')})
        if fams:
            unexplained.append(dict(name='correspondence:' + ','.join(fams),
                                    detail=json.dumps([m for m in ctx.mismatches if not m.get('explained')][:3], default=str)[:4000]))
    if not proofs.get('ok', False):
        unexplained.append(dict(name='proof:Props/%s.v' % pid, detail=proofs.get('out', '')[-3000:]))
    if proofs.get('unexpected_axioms'):
        unexplained.append(dict(name='axioms:Props/%s.v' % pid, detail=','.join(proofs['unexpected_axioms'])))
    if unexplained and nviol == 0:
        data = dict(property=pid, key='no-failing-input', broken=unexplained, seed=ctx.seed, tier=ctx.tier,
                    note='the named theorem / correspondence family no longer checks; the search produced no concrete failing input')
        path = write_replay(pid, data)
        lines.append('VIOLATION property=%s replay=%s no-failing-input-found' % (pid, path))
        nviol += 1
    ntheorems = len(proofs.get('theorems', []))
    cov = dict(
        obligations=max(ntheorems, 1), discharged=ntheorems if proofs.get('ok') else 0,
        checker_cmd=proofs.get('checker_cmd', ''), trusted_base=proofs.get('axioms', []) + ['Coq 8.16.1 kernel + vm_compute', 'hand-written Coq model tied to /repo by the correspondence harness'],
        theorems=proofs.get('theorems', []),
        evaluations=ctx.evaluations, distinct_nontrivial=len(ctx.nontrivial),
        rule=getattr(ctx, 'rule', ''), samples=ctx.samples or ['(none)'],
        traces_validated_against_impl=ctx.traces, branch_histogram=ctx.hist,
        model_impl_mismatches=len(ctx.mismatches), known_findings_reproduced=sorted(ctx.known_hit),
        notes=ctx.notes + (['coqchk -o not run (VERIF_COQCHK_TIMEOUT=0)']
                           if proofs.get('coqchk_skipped') else []) + ([('coqchk -o (independent re-check of the compiled proofs): ' +
                             ('did not finish within its time slot' if proofs.get('coqchk_timed_out') else 'exit status %s' % proofs.get('coqchk_rc')))]
                           if 'coqchk_rc' in proofs else []),
        exhaustive=bool(getattr(ctx, 'exhaustive', False)),
    )
    ev = dict(property_id=pid, tier=ctx.tier, seed=ctx.seed, level='proof', coverage=cov,
              assumptions=ctx.assumptions, wall_s=round(time.time() - ctx.t0, 2), violations=nviol)
    os.makedirs(EVID, exist_ok=True)
    with open(os.path.join(EVID, pid + '.json'), 'w') as f:
        json.dump(ev, f, indent=1, default=str)
    for l in lines:
        print(l)
    sys.stdout.flush()
    return 1 if nviol else 0


# ---------------------------------------------------------------- enclosure route
ENC_HEADER = ('From Coq Require Import Reals List ZArith.\nFrom Interval Require Import Tactic.\n'
              'From PV Require Import Base.Num Base.Enclose %s.\nImport ListNotations.\nOpen Scope R_scope.\n'
              '#[local] Remove Hints NumQ NumZ : typeclass_instances.\n')


def run_enclosure(pid, imports, cases, prec=200, per_file=40, timeout_goal=120, tag='enc'):
    """cases: list of dict(idx=int, expr=str (Coq term : list R), comps=[(i, impl_value, tol)]).
    Phase 1 proves  /\\_i Rabs (nth i expr 0 - v_i) <= tol_i  with `enclose`.
    Phase 2 (only for cases phase 1 could not prove) tries to prove, component by component, that
    the distance EXCEEDS the tolerance.  Returns dict(ok=[idx], bad=[(idx, comp)], undecided=[idx]).
    Only a proved excess counts as a disagreement; an undecided case (e.g. an input exactly on a
    branch boundary of the model) is reported as such and never as a mismatch."""
    hdr = ENC_HEADER % imports
    byidx = {c['idx']: c for c in cases}

    def goal1(c):
        conj = ' /\\ '.join('Rabs (nth %d r 0 - %s) <= %s' % (i, rlit(v), rlit(t)) for i, v, t in c['comps'])
        return ('Goal let r := %s in %s.\nProof. first [ timeout %d (solve [ enclose %d%%positive ]); idtac "OK" "%d" | idtac "BAD" "%d" ]. Abort.\n'
                % (c['expr'], conj, timeout_goal, prec, c['idx'], c['idx']))
    files = []
    for k, sh in enumerate([cases[j:j + per_file] for j in range(0, len(cases), per_file)]):
        files.append(('%s1_%03d' % (tag, k), hdr + ''.join(goal1(c) for c in sh)))
    res = run_case_files(pid, files, timeout=per_file * timeout_goal + 300)
    ok, notok = set(), set()
    broken = []
    for name, (rc, out) in res.items():
        t = parse_tags(out)
        ok.update(t['OK'])
        notok.update(t['BAD'])
        if rc != 0:
            broken.append((name, out[-800:]))
    seen = ok | notok
    missing = [c['idx'] for c in cases if c['idx'] not in seen]
    notok.update(missing)
    bad, undecided = [], []
    if notok:
        goals = []
        enc = {}
        for idx in sorted(notok):
            c = byidx[idx]
            for (i, v, t) in c['comps']:
                code = idx * 1000 + i
                enc[code] = (idx, i)
                goals.append('Goal let r := %s in %s < Rabs (nth %d r 0 - %s).\nProof. first [ timeout %d (solve [ enclose %d%%positive ]); idtac "OK" "%d" | idtac "BAD" "%d" ]. Abort.\n'
                             % (c['expr'], rlit(t), i, rlit(v), timeout_goal, prec, code, code))
        files2 = [('%s2_%03d' % (tag, k), hdr + ''.join(goals[j:j + per_file])) for k, j in enumerate(range(0, len(goals), per_file))]
        res2 = run_case_files(pid, files2, timeout=per_file * timeout_goal + 300)
        proved = set()
        for name, (rc, out) in res2.items():
            proved.update(parse_tags(out)['OK'])
        badidx = set()
        for code in proved:
            bad.append(enc[code])
            badidx.add(enc[code][0])
        undecided = sorted(notok - badidx)
    return dict(ok=sorted(ok), bad=sorted(bad), undecided=undecided, broken=broken)


# ---------------------------------------------------------------- interval-evaluation route (fast)
def ivlit(x):
    f = F(x)
    return '(ivq (%d) (%d))' % (f.numerator, f.denominator)


def ivlist(xs):
    return coq_list(ivlit(x) for x in xs)


IV_HEADER = ('From Coq Require Import ZArith List.\nFrom PV Require Import Base.Num Base.IvNum %s.\nImport ListNotations.\n'
             'Definition E64 := ivq 1 4503599627370496.\nDefinition E32 := ivq 1 8388608.\n')


def run_interval(pid, imports, cases, per_file=150, tag='iv', timeout=1200):
    """cases: list of dict(idx=int, expr=str with the placeholder @NF@ for the Num instance (a Coq term : list iv),
    comps=[(i, impl_value, tol)]).  The model is evaluated by vm_compute over Base/IvNum.v (256-bit interval
    floats of the Interval library; undecided comparisons are resolved both ways).  Per component the verdict is
    0 (|model - impl| <= tol), 1 (certainly > tol) or 2 (undecided).  Returns dict(ok, bad, undecided, broken) like
    run_enclosure; only a certain excess counts as a disagreement."""
    hdr = IV_HEADER % imports
    files = []
    byidx = {c['idx']: c for c in cases}
    for k, sh in enumerate([cases[j:j + per_file] for j in range(0, len(cases), per_file)]):
        items = []
        for c in sh:
            cs = coq_list('(%d%%nat, %s, %s)' % (i, ivlit(v), ivlit(t)) for i, v, t in c['comps'])
            et = c['expr'].replace('@NF@', 'NumIvT')
            ef = c['expr'].replace('@NF@', 'NumIvF')
            items.append('(%d%%nat, let cs := %s in comb_l (iv_check (%s) cs) (iv_check (%s) cs))' % (c['idx'], cs, et, ef))
        files.append(('%s_%03d' % (tag, k), hdr + 'Eval vm_compute in %s.\n' % coq_list(items)))
    res = run_case_files(pid, files, timeout=timeout)
    ok, bad, undecided, broken = [], [], [], []
    seen = set()
    for name, (rc, out) in res.items():
        if rc != 0:
            broken.append((name, out[-1000:]))
            continue
        flat = ' '.join(out.split())
        for m in re.finditer(r'\(\s*(\d+)(?:%nat)?\s*,\s*\[([0-9;\s%nat]*)\]\s*\)', flat):
            idx = int(m.group(1))
            codes = [int(x.replace('%nat', '').strip()) for x in m.group(2).split(';') if x.strip()]
            seen.add(idx)
            c = byidx[idx]
            if len(codes) != len(c['comps']):
                undecided.append(idx)
                continue
            if any(cd == 1 for cd in codes):
                bad += [(idx, c['comps'][j][0]) for j, cd in enumerate(codes) if cd == 1]
            elif any(cd == 2 for cd in codes):
                undecided.append(idx)
            else:
                ok.append(idx)
    for c in cases:
        if c['idx'] not in seen and not broken:
            undecided.append(c['idx'])
    return dict(ok=sorted(ok), bad=sorted(bad), undecided=sorted(set(undecided)), broken=broken)
