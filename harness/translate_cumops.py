"""Fail-closed translator for pypose/basics/ops.py (cumops_, cumops, cummul(_), cumprod(_)) -> Coq text, regenerated from
the working tree on every run of ./check C12 (second tie of C12; the first is the exact correspondence).

What is translated semantically: the NUMBER OF PASSES of the scan - the integer expression N in
`for i in torch.pow(2, torch.arange(N, ...))` - is translated into Coq integer arithmetic over Z (names `L`, integer
constants, + - * //, max / min, int.bit_length()) as `gen_count`, the stride list as `gen_strides L = [2^0 .. 2^(N-1)]`, and
the generated file proves `gen_strides L = strides L` for EVERY length L (`strides` is the hand-written model's
`pows (Nat.log2_up L) 1`), hence `gen_cumops = cumops_model`; the six wrappers are translated from their `if left:`
branches and lambdas into `gen_cumprod` and proved equal to the model's `cumprod_model`.  The index schedule depends only on
L, and the defect the pinned tree had (wrong number of passes for every non-power-of-two L) lived exactly in this expression.

What is matched as a pattern (trusted mapping, tied by the exact correspondence): the shape of `cumops_` around N - one
pass `index = arange(i, L); v.index_copy_(dim, index, ops(v.index_select(dim, index - i), v.index_select(dim, index)))`
is the model's `pass` (all reads before the write; `arange(i, L)` raises when i > L), `cumops` is `cumops_` on a clone.
Any other statement, argument or keyword raises `Untranslatable` (fail closed)."""
import ast
import os


class Untranslatable(Exception):
    pass


REF_CUMOPS_ = '''
def cumops_(input, dim, ops):
    L, v = input.shape[dim], input
    assert dim != -1 or dim != v.shape[-1], "Invalid dim"
    for i in torch.pow(2, torch.arange(__N__, device=v.device, dtype=torch.int64)):
        index = torch.arange(i, L, device=v.device, dtype=torch.int64)
        v.index_copy_(dim, index, ops(v.index_select(dim, index-i), v.index_select(dim, index)))
    return v
'''
REF_CUMOPS = '''
def cumops(input, dim, ops):
    return cumops_(input.clone(), dim, ops)
'''


def _strip_doc(fn):
    body = fn.body
    if body and isinstance(body[0], ast.Expr) and isinstance(body[0].value, ast.Constant) and isinstance(body[0].value.value, str):
        body = body[1:]
    return body


def _fn(tree, name):
    hits = [n for n in tree.body if isinstance(n, ast.FunctionDef) and n.name == name]
    if len(hits) != 1:
        raise Untranslatable('function %s: %d definitions' % (name, len(hits)))
    if hits[0].decorator_list:
        raise Untranslatable('function %s is decorated' % name)
    return hits[0]


def zexpr(e):
    """Python integer expression over the name L -> Coq term of type Z"""
    if isinstance(e, ast.Name) and e.id == 'L':
        return '(Z.of_nat L)'
    if isinstance(e, ast.Constant) and isinstance(e.value, int) and not isinstance(e.value, bool):
        return '(%d)%%Z' % e.value
    if isinstance(e, ast.BinOp) and isinstance(e.op, (ast.Add, ast.Sub, ast.Mult, ast.FloorDiv)):
        op = {ast.Add: '+', ast.Sub: '-', ast.Mult: '*', ast.FloorDiv: '/'}[type(e.op)]
        return '(%s %s %s)%%Z' % (zexpr(e.left), op, zexpr(e.right))
    if isinstance(e, ast.Call) and isinstance(e.func, ast.Name) and e.func.id in ('max', 'min') and len(e.args) == 2 and not e.keywords:
        return '(Z.%s %s %s)' % (e.func.id, zexpr(e.args[0]), zexpr(e.args[1]))
    if isinstance(e, ast.Call) and isinstance(e.func, ast.Attribute) and e.func.attr == 'bit_length' and not e.args and not e.keywords:
        return '(bit_length %s)' % zexpr(e.func.value)
    raise Untranslatable('integer expression ' + ast.unparse(e))


def _lambda(e):
    """lambda a, b: a @ b  |  b @ a  |  a * b  |  b * a   ->  (operator, 'fun a b => mul x y')"""
    if not (isinstance(e, ast.Lambda) and [a.arg for a in e.args.args] == ['a', 'b'] and not e.args.defaults
            and not e.args.vararg and not e.args.kwarg and not e.args.kwonlyargs):
        raise Untranslatable('callback ' + ast.unparse(e))
    b = e.body
    if not (isinstance(b, ast.BinOp) and isinstance(b.op, (ast.MatMult, ast.Mult)) and isinstance(b.left, ast.Name)
            and isinstance(b.right, ast.Name) and {b.left.id, b.right.id} == {'a', 'b'}):
        raise Untranslatable('callback body ' + ast.unparse(b))
    return ('@' if isinstance(b.op, ast.MatMult) else '*'), '(fun a b => mul %s %s)' % (b.left.id, b.right.id)


def _wrapper(tree, name, callee, oper):
    fn = _fn(tree, name)
    if [a.arg for a in fn.args.args] != ['input', 'dim', 'left'] or len(fn.args.defaults) != 1 or \
            not (isinstance(fn.args.defaults[0], ast.Constant) and fn.args.defaults[0].value is True):
        raise Untranslatable('%s: signature' % name)
    body = _strip_doc(fn)
    if len(body) != 1 or not isinstance(body[0], ast.If) or not (isinstance(body[0].test, ast.Name) and body[0].test.id == 'left'):
        raise Untranslatable('%s: body is not `if left: ... else: ...`' % name)
    lam = []
    for br in (body[0].body, body[0].orelse):
        if len(br) != 1 or not isinstance(br[0], ast.Return) or not isinstance(br[0].value, ast.Call):
            raise Untranslatable('%s: branch' % name)
        c = br[0].value
        if not (isinstance(c.func, ast.Name) and c.func.id == callee and len(c.args) == 3 and not c.keywords
                and isinstance(c.args[0], ast.Name) and c.args[0].id == 'input' and isinstance(c.args[1], ast.Name) and c.args[1].id == 'dim'):
            raise Untranslatable('%s: call %s' % (name, ast.unparse(c)))
        op, text = _lambda(c.args[2])
        if op != oper:
            raise Untranslatable('%s: operator %s' % (name, op))
        lam.append(text)
    return 'Definition gen_%s {A} (mul : A -> A -> A) (left : bool) (v : list A) :=\n  if left then gen_cumops %s v else gen_cumops %s v.\n' % (
        name.rstrip('_') + ('_inplace' if name.endswith('_') else ''), lam[0], lam[1])


PRELUDE = '''From Coq Require Import List Arith Lia PeanoNat ZArith.
Import ListNotations.
From PV Require Import Model.Cumops Proofs.Cumops Proofs.Cumops2 Props.C12.
(* int.bit_length() of Python *)
Definition bit_length (z : Z) : Z := if (z =? 0)%Z then 0%Z else (Z.log2 (Z.abs z) + 1)%Z.
'''
PROOFS = r'''
Lemma pows_map k : forall s, pows k s = map (fun j => s * 2 ^ j) (seq 0 k).
Proof.
  induction k as [|k IH]; intros s; cbn [pows seq map]; [reflexivity|].
  rewrite IH, <- seq_shift, map_map. f_equal; [cbn; lia|].
  apply map_ext. intros j. cbn [Nat.pow]. lia.
Qed.
Lemma log2_of_nat m : 0 < m -> Z.log2 (Z.of_nat m) = Z.of_nat (Nat.log2 m).
Proof.
  intros Hm. apply Z.log2_unique; [lia|].
  destruct (Nat.log2_spec m Hm) as [H1 H2].
  assert (E1 : Z.of_nat (2 ^ Nat.log2 m) = (2 ^ Z.of_nat (Nat.log2 m))%Z) by (rewrite Nat2Z.inj_pow; reflexivity).
  assert (E2 : Z.of_nat (2 ^ S (Nat.log2 m)) = (2 ^ Z.succ (Z.of_nat (Nat.log2 m)))%Z).
  { rewrite Nat2Z.inj_pow. rewrite (Nat2Z.inj_succ (Nat.log2 m)). reflexivity. }
  rewrite <- E1, <- E2. lia.
Qed.
(* the number of passes the source computes is log2_up L, for every length *)
Lemma gen_count_eq L : gen_count L = nstrides L.
Proof.
  unfold gen_count, nstrides, bit_length, Nat.log2_up.
  destruct L as [|[|n]]; [reflexivity | reflexivity |].
  replace (1 ?= S (S n)) with Lt by (symmetry; apply Nat.compare_lt_iff; lia).
  cbn [Nat.pred].
  replace (Z.max (Z.of_nat (S (S n)) - 1) 0) with (Z.of_nat (S n)) by lia.
  replace (Z.of_nat (S n) =? 0)%Z with false by (symmetry; apply Z.eqb_neq; lia).
  rewrite Z.abs_eq by lia. rewrite (log2_of_nat (S n)) by lia.
  rewrite Z2Nat.inj_add by lia. rewrite Nat2Z.id. cbn. lia.
Qed.
Lemma gen_strides_eq L : gen_strides L = strides L.
Proof. unfold gen_strides, strides. rewrite gen_count_eq, pows_map. apply map_ext. intros j. lia. Qed.
Lemma gen_cumops_eq {A} (op : A -> A -> A) (v : list A) : gen_cumops op v = cumops_model op v.
Proof. unfold gen_cumops, cumops_model. now rewrite gen_strides_eq. Qed.
Lemma gen_cumprod_inplace_eq {A} (mul : A -> A -> A) left v : gen_cumprod_inplace mul left v = cumprod_model mul left v.
Proof. unfold gen_cumprod_inplace, cumprod_model, flip_op. destruct left; apply gen_cumops_eq. Qed.
Lemma gen_cummul_inplace_eq {A} (mul : A -> A -> A) left v : gen_cummul_inplace mul left v = cumprod_model mul left v.
Proof. unfold gen_cummul_inplace, cumprod_model, flip_op. destruct left; apply gen_cumops_eq. Qed.
Lemma gen_cumprod_eq {A} (mul : A -> A -> A) left v : gen_cumprod mul left v = cumprod_model mul left v.
Proof. unfold gen_cumprod, cumprod_model, flip_op. destruct left; apply gen_cumops_eq. Qed.
Lemma gen_cummul_eq {A} (mul : A -> A -> A) left v : gen_cummul mul left v = cumprod_model mul left v.
Proof. unfold gen_cummul, cumprod_model, flip_op. destruct left; apply gen_cumops_eq. Qed.
(* the property theorems of Props/C12.v, restated for the functions generated from the source text *)
Theorem gen_cumops_is_fold :
  forall (A : Type) (op : A -> A -> A), (forall a b c, op (op a b) c = op a (op b c)) ->
  forall (d : A) (x : list A), 1 <= length x ->
  exists r, gen_cumops op x = Some r /\ length r = length x /\
            forall i, i < length x -> nth i r d = prefix A op d x i.
Proof. intros A op Ha d x Hx. rewrite gen_cumops_eq. exact (C12_cumops_is_fold A op Ha d x Hx). Qed.
Theorem gen_cumprod_left :
  forall (A : Type) (mul : A -> A -> A), (forall a b c, mul (mul a b) c = mul a (mul b c)) ->
  forall (d : A) (x : list A), 1 <= length x ->
  exists r, gen_cumprod mul true x = Some r /\ length r = length x /\
            forall i, i < length x -> nth i r d = lprefix A mul d x i.
Proof. intros A mul Ha d x Hx. rewrite gen_cumprod_eq. exact (C12_cumprod_left A mul Ha d x Hx). Qed.
Theorem gen_cumprod_right :
  forall (A : Type) (mul : A -> A -> A), (forall a b c, mul (mul a b) c = mul a (mul b c)) ->
  forall (d : A) (x : list A), 1 <= length x ->
  exists r, gen_cumprod mul false x = Some r /\ length r = length x /\
            forall i, i < length x -> nth i r d = rprefix A mul d x i.
Proof. intros A mul Ha d x Hx. rewrite gen_cumprod_eq. exact (C12_cumprod_right A mul Ha d x Hx). Qed.
Print Assumptions gen_cumops_is_fold. Print Assumptions gen_cumprod_left. Print Assumptions gen_cumprod_right.
Print Assumptions gen_strides_eq. Print Assumptions gen_cumops_eq. Print Assumptions gen_cumprod_inplace_eq.
Print Assumptions gen_cummul_inplace_eq. Print Assumptions gen_cumprod_eq. Print Assumptions gen_cummul_eq.
'''
N_LEMMAS = 9


def translate(repo):
    path = os.path.join(repo, 'pypose', 'basics', 'ops.py')
    tree = ast.parse(open(path).read())
    fn = _fn(tree, 'cumops_')
    body = _strip_doc(fn)
    loops = [s for s in body if isinstance(s, ast.For)]
    if len(loops) != 1:
        raise Untranslatable('cumops_: expected exactly one for loop')
    it = loops[0].iter
    try:
        inner = it.args[1]
        nnode = inner.args[0]
    except Exception:
        raise Untranslatable('cumops_: loop iterable ' + ast.unparse(it))
    count = zexpr(nnode)
    inner.args[0] = ast.Name(id='__N__', ctx=ast.Load())
    ref = _fn(ast.parse(REF_CUMOPS_), 'cumops_')
    got = ast.dump(ast.Module(body=[ast.FunctionDef(name=fn.name, args=fn.args, body=body, decorator_list=[], returns=fn.returns)], type_ignores=[]))
    want = ast.dump(ast.Module(body=[ast.FunctionDef(name=ref.name, args=ref.args, body=ref.body, decorator_list=[], returns=None)], type_ignores=[]))
    if got != want:
        raise Untranslatable('cumops_: the function around the pass count differs from the translated shape:\n' + ast.unparse(fn)[:1500])
    fo = _fn(tree, 'cumops')
    refo = _fn(ast.parse(REF_CUMOPS), 'cumops')
    if ast.dump(fo.args) != ast.dump(refo.args) or [ast.dump(s) for s in _strip_doc(fo)] != [ast.dump(s) for s in refo.body]:
        raise Untranslatable('cumops: not `return cumops_(input.clone(), dim, ops)`')
    out = '(* GENERATED by harness/translate_cumops.py from %s - do not edit *)\n' % path + PRELUDE
    out += '(* pass count: %s *)\n' % ast.unparse(nnode)
    out += 'Definition gen_count (L : nat) : nat := Z.to_nat %s.\n' % count
    out += 'Definition gen_strides (L : nat) : list nat := map (fun k => 2 ^ k) (seq 0 (gen_count L)).\n'
    out += 'Definition gen_cumops {A} (op : A -> A -> A) (v : list A) : option (list A) := scan op (gen_strides (length v)) v.\n'
    out += _wrapper(tree, 'cummul_', 'cumops_', '*') + _wrapper(tree, 'cumprod_', 'cumops_', '@')
    out += _wrapper(tree, 'cummul', 'cumops', '*') + _wrapper(tree, 'cumprod', 'cumops', '@')
    return out + PROOFS, ['pass count expression: ' + ast.unparse(nnode)]


if __name__ == '__main__':
    import sys
    text, notes = translate(sys.argv[1] if len(sys.argv) > 1 else '/repo')
    print(text)
