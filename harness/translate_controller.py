"""Fail-closed translator: the stopping controllers of /repo (pypose/utils/stepper.py, pypose/optim/scheduler.py and
the three driver loops) -> Coq text, regenerated from the working tree on every run of ./check C20.

What it does.  The bodies of `_Stepper.reset`, `ReduceToBason.reset`, `ReduceToBason.step`, `StopOnPlateau.step` are
read with `ast` and executed *symbolically* statement by statement: the object's mutable fields (steps,
patience_count, last, _continual) become SSA `let` bindings, an `if` merges the two environments with
`if c then a else b`, `super().reset()` is inlined from the parent class found in the same file.  The result is a Coq
definition `gen_rtb_step`, `gen_rtb_reset`, `gen_sop_step` over the records of Model/Controller.v, and the generated file
ends with lemmas proving the generated functions EQUAL to the hand-written model (`rtb_step`, `rtb_reset`, `sop_step`)
for every configuration, state and input - so every theorem of Props/C20.v is, through these equalities, a theorem
about the text of the source as it is now.  Anything outside the small statement / expression language below raises
`Untranslatable` (fail closed): the check then reports a broken obligation instead of guessing.

Primitive patterns (trusted, listed in DESIGN.md section 4): the two tensor tests
`torch.all(loss < self.tol)` and `torch.all((self.last - loss)/loss < self.decreasing)` are mapped to the model's
`forallb (fun x => x <? tol)` and `all_rel` (IEEE semantics of x/0 and inf - x, hand-written, tied by the
correspondence on every run); `torch.tensor(float('inf'))` is `None`; `self.optimizer.last/loss/reject_count` are the
inputs of a StopOnPlateau step; `hasattr(self.optimizer, 'reject_count')` is `true` (the tie feeds reject_count = 0
for optimizers without the attribute); `if self.verbose: print(...)`, `assert` and the tensor coercion of `loss`
are skipped.  The driver loops are checked for shape only (reset; while continual(): ...; step(x)).
"""
import ast
import os


class Untranslatable(Exception):
    pass


def _src(node):
    return ast.unparse(node)


def _find_class(tree, name):
    for n in tree.body:
        if isinstance(n, ast.ClassDef) and n.name == name:
            return n
    raise Untranslatable('class %s not found' % name)


def _find_method(cls, name):
    for n in cls.body:
        if isinstance(n, ast.FunctionDef) and n.name == name:
            return n
    raise Untranslatable('method %s.%s not found' % (cls.name, name))


def _resolve_method(tree, cls, name):
    """the method as Python would find it: in the class or, failing that, in its (single, same-file) base classes"""
    while True:
        for n in cls.body:
            if isinstance(n, ast.FunctionDef) and n.name == name:
                return cls, n
        if len(cls.bases) != 1 or not isinstance(cls.bases[0], ast.Name) or cls.bases[0].id == 'object':
            raise Untranslatable('method %s not found in %s or its bases' % (name, cls.name))
        cls = _find_class(tree, cls.bases[0].id)


def _is_self_attr(n, name=None):
    return (isinstance(n, ast.Attribute) and isinstance(n.value, ast.Name) and n.value.id == 'self'
            and (name is None or n.attr == name))


def _only_prints(body):
    return all(isinstance(s, ast.Expr) and isinstance(s.value, ast.Call) and isinstance(s.value.func, ast.Name)
               and s.value.func.id == 'print' for s in body)


_REF_REL = ast.dump(ast.parse('torch.all((self.last - loss)/loss < self.decreasing)', mode='eval').body)
_REF_TOL = ast.dump(ast.parse('torch.all(loss < self.tol)', mode='eval').body)
_REF_INF = ast.dump(ast.parse("torch.tensor(float('inf'))", mode='eval').body)
_REF_COERCE = ast.dump(ast.parse('if not torch.is_tensor(loss):\n    loss = torch.tensor(loss)').body[0])
_REF_HASREJ = ast.dump(ast.parse("hasattr(self.optimizer, 'reject_count')", mode='eval').body)
_REF_REJ = ast.dump(ast.parse('self.optimizer.reject_count > 0', mode='eval').body)
_REF_SOPFAIL = ast.dump(ast.parse('self.optimizer.last - self.optimizer.loss < self.decreasing', mode='eval').body)


class Sym:
    """symbolic executor of one method body; `kind` is 'rtb' or 'sop'"""
    STATE = {'steps': 'Z', 'patience_count': 'Z', '_continual': 'bool', 'last': 'olist'}

    def __init__(self, kind, tree, cls):
        self.kind, self.tree, self.cls = kind, tree, cls
        p = kind
        self.cfg = {'max_steps': ('Z', '%s_max c' % p), 'patience': ('Z', '%s_patience c' % p),
                    'decreasing': ('F', '%s_dec c' % p)}
        if kind == 'rtb':
            self.cfg['tol'] = ('F', 'rtb_tol c')
        self.env = {'steps': '%s_steps s' % p, 'patience_count': '%s_pc s' % p, '_continual': '%s_cont s' % p}
        if kind == 'rtb':
            self.env['last'] = 'rtb_last s'
        self.lets = []
        self.n = 0

    def bind(self, hint, expr):
        self.n += 1
        name = 'v%d_%s' % (self.n, hint.strip('_'))
        self.lets.append((name, expr))
        return name

    # ---- expressions: returns (type, coq text)
    def expr(self, e):
        d = ast.dump(e)
        if isinstance(e, ast.Constant):
            if e.value is True:
                return 'bool', 'true'
            if e.value is False:
                return 'bool', 'false'
            if isinstance(e.value, int):
                return 'Z', '%d%%Z' % e.value if e.value >= 0 else '(%d)%%Z' % e.value
            raise Untranslatable('constant ' + _src(e))
        if _is_self_attr(e):
            if e.attr in self.env:
                return self.STATE[e.attr], self.env[e.attr]
            if e.attr in self.cfg:
                return self.cfg[e.attr]
            raise Untranslatable('unknown attribute self.' + e.attr)
        if isinstance(e, ast.Name) and e.id == 'loss' and self.kind == 'rtb':
            return 'olist', 'Some loss'
        if d == _REF_INF:
            return 'olist', 'None'
        if self.kind == 'rtb' and d == _REF_TOL:
            return 'bool', 'forallb (fun x => x <? rtb_tol c) loss'
        if self.kind == 'rtb' and d == _REF_REL:
            return 'bool', 'all_rel (%s) loss (rtb_dec c)' % self.env['last']
        if self.kind == 'sop' and d == _REF_SOPFAIL:
            return 'bool', '((in_last i - in_loss i) <? sop_dec c)'
        if self.kind == 'sop' and d == _REF_REJ:
            return 'bool', 'negb (Nat.eqb (in_reject i) 0)'
        if self.kind == 'sop' and d == _REF_HASREJ:
            return 'bool', 'true'
        if isinstance(e, ast.BinOp) and isinstance(e.op, (ast.Add, ast.Sub)):
            (ta, a), (tb, b) = self.expr(e.left), self.expr(e.right)
            if ta == tb == 'Z':
                return 'Z', '(%s %s %s)%%Z' % (a, '+' if isinstance(e.op, ast.Add) else '-', b)
            raise Untranslatable('arithmetic on non-integers: ' + _src(e))
        if isinstance(e, ast.Compare) and len(e.ops) == 1:
            (ta, a), (tb, b) = self.expr(e.left), self.expr(e.comparators[0])
            if ta == tb == 'Z':
                op = e.ops[0]
                if isinstance(op, ast.GtE):
                    return 'bool', '(%s <=? %s)%%Z' % (b, a)
                if isinstance(op, ast.Gt):
                    return 'bool', '(%s <? %s)%%Z' % (b, a)
                if isinstance(op, ast.LtE):
                    return 'bool', '(%s <=? %s)%%Z' % (a, b)
                if isinstance(op, ast.Lt):
                    return 'bool', '(%s <? %s)%%Z' % (a, b)
                if isinstance(op, ast.Eq):
                    return 'bool', '(%s =? %s)%%Z' % (a, b)
            raise Untranslatable('comparison ' + _src(e))
        if isinstance(e, ast.UnaryOp) and isinstance(e.op, ast.Not):
            t, a = self.expr(e.operand)
            if t == 'bool':
                return 'bool', 'negb (%s)' % a
        if isinstance(e, ast.BoolOp):
            parts = [self.expr(v) for v in e.values]
            if all(t == 'bool' for t, _ in parts):
                return 'bool', '(' + (' && ' if isinstance(e.op, ast.And) else ' || ').join(a for _, a in parts) + ')'
        raise Untranslatable('expression ' + _src(e))

    def assign(self, target, value):
        if not _is_self_attr(target) or target.attr not in self.STATE or target.attr not in self.env:
            raise Untranslatable('assignment target ' + _src(target))
        t, v = self.expr(value)
        if t != self.STATE[target.attr]:
            raise Untranslatable('type of %s := %s' % (_src(target), _src(value)))
        self.env[target.attr] = self.bind(target.attr, v)

    # ---- statements
    def block(self, body):
        for s in body:
            self.stmt(s)

    def stmt(self, s):
        if isinstance(s, ast.Expr) and isinstance(s.value, ast.Constant) and isinstance(s.value.value, str):
            return                                                      # docstring
        if isinstance(s, ast.Assert):
            return
        if ast.dump(s) == _REF_COERCE and self.kind == 'rtb':
            return
        if isinstance(s, ast.If) and _is_self_attr(s.test, 'verbose') and not s.orelse and _only_prints(s.body):
            return
        if isinstance(s, ast.Expr) and ast.dump(s.value) == ast.dump(ast.parse('super().reset()', mode='eval').body):
            if len(self.cls.bases) != 1 or not isinstance(self.cls.bases[0], ast.Name):
                raise Untranslatable('super() of a class with several / computed bases')
            parent, meth = _resolve_method(self.tree, _find_class(self.tree, self.cls.bases[0].id), 'reset')
            saved = self.cls
            self.cls = parent
            self.block(meth.body)
            self.cls = saved
            return
        if isinstance(s, ast.Assign) and len(s.targets) == 1:
            tg = s.targets[0]
            if isinstance(tg, ast.Tuple):
                if not isinstance(s.value, ast.Tuple) or len(tg.elts) != len(s.value.elts):
                    raise Untranslatable('tuple assignment ' + _src(s))
                vals = [self.expr(v) for v in s.value.elts]             # right-hand sides first (Python order)
                for t, (ty, v) in zip(tg.elts, vals):
                    if not _is_self_attr(t) or t.attr not in self.env or self.STATE[t.attr] != ty:
                        raise Untranslatable('tuple assignment ' + _src(s))
                for t, (ty, v) in zip(tg.elts, vals):
                    self.env[t.attr] = self.bind(t.attr, v)
                return
            return self.assign(tg, s.value)
        if isinstance(s, ast.If):
            t, c = self.expr(s.test)
            if t != 'bool':
                raise Untranslatable('condition ' + _src(s.test))
            c = self.bind('c', c)
            env0 = dict(self.env)
            self.block(s.body)
            env1 = dict(self.env)
            self.env = dict(env0)
            self.block(s.orelse)
            env2 = self.env
            merged = {}
            for k in env0:
                merged[k] = env1[k] if env1[k] == env2[k] else self.bind(k, 'if %s then %s else %s' % (c, env1[k], env2[k]))
            self.env = merged
            return
        raise Untranslatable('statement ' + _src(s)[:200])

    def result(self, name, params):
        p = self.kind
        fields = [('%s_steps' % p, 'steps'), ('%s_pc' % p, 'patience_count')] + \
                 ([('rtb_last', 'last')] if p == 'rtb' else []) + [('%s_cont' % p, '_continual')]
        out = 'Definition %s %s : %s_state%s :=\n' % (name, params, p, ' (F:=F)' if p == 'rtb' else '')
        for n, e in self.lets:
            out += '  let %s := %s in\n' % (n, e)
        out += '  {| ' + '; '.join('%s := %s' % (f, self.env[k]) for f, k in fields) + ' |}.\n'
        return out


def _check_driver(path, cls, method, obj):
    """shape of a driver loop: [obj.reset()] ... while obj.continual(): ...; obj.step(x) - and no other use of obj's
    state.  Returns a description; raises Untranslatable otherwise."""
    tree = ast.parse(open(path).read())
    fn = _find_method(_find_class(tree, cls), method)
    whiles = [n for n in ast.walk(fn) if isinstance(n, ast.While)]
    objd = ast.dump(ast.parse(obj, mode='eval').body)

    def is_call(n, meth):
        return (isinstance(n, ast.Call) and isinstance(n.func, ast.Attribute) and n.func.attr == meth
                and ast.dump(n.func.value) == objd)
    loops = [w for w in whiles if is_call(w.test, 'continual') and not w.test.args]
    if len(loops) != 1:
        raise Untranslatable('%s.%s: expected exactly one `while %s.continual()` loop' % (cls, method, obj))
    w = loops[0]
    if w.orelse:
        raise Untranslatable('%s.%s: while ... else' % (cls, method))
    top = [b for b in w.body if isinstance(b, ast.Expr) and is_call(b.value, 'step') and len(b.value.args) == 1]
    if len(top) != 1:
        raise Untranslatable('%s.%s: the loop body does not call %s.step(x) exactly once, unconditionally' % (cls, method, obj))
    for n in ast.walk(w):
        if isinstance(n, (ast.Break, ast.Continue, ast.Return)):
            raise Untranslatable('%s.%s: break / continue / return inside the controlled loop' % (cls, method))
    steps = [n for n in ast.walk(fn) if is_call(n, 'step')]
    if len(steps) != 1:
        raise Untranslatable('%s.%s: more than one %s.step call' % (cls, method, obj))
    # every other mention of the controller inside the function: only reset() before the loop (drivers of a stepper)
    resets = [n for n in ast.walk(fn) if is_call(n, 'reset')]
    uses = [n for n in ast.walk(fn) if isinstance(n, ast.Attribute) and ast.dump(n.value) == objd]
    other = [u.attr for u in uses if u.attr not in ('continual', 'step', 'reset')]
    if obj != 'self' and other:
        raise Untranslatable('%s.%s: other uses of %s: %s' % (cls, method, obj, other))
    if obj != 'self':
        if len(resets) != 1 or not resets[0].lineno < w.lineno:
            raise Untranslatable('%s.%s: expected exactly one %s.reset() before the loop' % (cls, method, obj))
    return '%s.%s: %swhile %s.continual(): ...; %s.step(x)' % (cls, method, (obj + '.reset(); ') if obj != 'self' else '', obj, obj)


def _default_stepper(path, cls):
    """the constructor's `stepper` parameter must default to None and the default object must be built inside the body
    (`ReduceToBason(steps=N) if stepper is None else stepper`): a default evaluated once at definition time would be
    one controller shared by every object"""
    tree = ast.parse(open(path).read())
    fn = _find_method(_find_class(tree, cls), '__init__')
    names = [a.arg for a in fn.args.args]
    if 'stepper' not in names:
        raise Untranslatable('%s.__init__ has no stepper parameter' % cls)
    k = names.index('stepper') - (len(names) - len(fn.args.defaults))
    if k < 0 or not (isinstance(fn.args.defaults[k], ast.Constant) and fn.args.defaults[k].value is None):
        raise Untranslatable('%s.__init__: the default of `stepper` is not None' % cls)
    hits = [s for s in fn.body if isinstance(s, ast.Assign) and len(s.targets) == 1
            and _is_self_attr(s.targets[0], 'stepper')]
    if len(hits) != 1:
        raise Untranslatable('%s.__init__: self.stepper is not assigned exactly once at top level' % cls)
    v = hits[0].value
    ok = (isinstance(v, ast.IfExp) and ast.dump(v.test) == ast.dump(ast.parse('stepper is None', mode='eval').body)
          and isinstance(v.orelse, ast.Name) and v.orelse.id == 'stepper' and isinstance(v.body, ast.Call)
          and isinstance(v.body.func, ast.Name) and v.body.func.id == 'ReduceToBason')
    if not ok:
        raise Untranslatable('%s.__init__: self.stepper = %s' % (cls, _src(v)))
    return '%s.__init__: self.stepper = %s' % (cls, _src(v))


def _mpc_budget(path):
    """MPC.__init__: the statements that touch stepper.max_steps -> gen_mpc_budget"""
    tree = ast.parse(open(path).read())
    fn = _find_method(_find_class(tree, 'MPC'), '__init__')
    touched = []
    for n in ast.walk(fn):
        if isinstance(n, (ast.Assign, ast.AugAssign, ast.AnnAssign)):
            tgts = n.targets if isinstance(n, ast.Assign) else [n.target]
            for t in tgts:
                if isinstance(t, ast.Attribute) and t.attr == 'max_steps':
                    touched.append(n)
    if len(touched) != 1 or ast.dump(touched[0]) != ast.dump(ast.parse('self.stepper.max_steps -= 1').body[0]):
        raise Untranslatable('MPC.__init__: expected exactly `self.stepper.max_steps -= 1`, found ' +
                             '; '.join(_src(t) for t in touched))
    if touched[0] not in fn.body:
        raise Untranslatable('MPC.__init__: the budget decrement is conditional')
    return 'Definition gen_mpc_budget (m : Z) : Z := (m - 1)%Z.\n'


PROOFS = r'''
Lemma gen_rtb_step_eq : forall (c : rtb_cfg) (s : rtb_state) (loss : list F), gen_rtb_step c s loss = rtb_step c s loss.
Proof.
  intros c [st pc la ct] loss. unfold gen_rtb_step, rtb_step. cbn [rtb_steps rtb_pc rtb_last rtb_cont].
  destruct (forallb (fun x => x <? rtb_tol c) loss); destruct (rtb_max c <=? st + 1)%Z;
  destruct (all_rel la loss (rtb_dec c)); cbn zeta;
  try destruct (rtb_patience c <=? pc + 1)%Z; try destruct (rtb_patience c <=? 0)%Z; destruct ct; reflexivity.
Qed.
Lemma gen_rtb_reset_eq : forall (s : rtb_state (F:=F)), gen_rtb_reset s = rtb_reset s.
Proof. intros s. reflexivity. Qed.
Lemma gen_sop_step_eq : forall (c : sop_cfg) (s : sop_state) (i : sop_in), gen_sop_step c s i = sop_step c s i.
Proof.
  intros c [st pc ct] i. unfold gen_sop_step, sop_step, sop_fail. cbn [sop_steps sop_pc sop_cont].
  destruct (sop_max c <=? st + 1)%Z; destruct ((in_last i - in_loss i) <? sop_dec c); cbn zeta;
  try destruct (sop_patience c <=? pc + 1)%Z; try destruct (sop_patience c <=? 0)%Z;
  destruct (Nat.eqb (in_reject i) 0); destruct ct; reflexivity.
Qed.
Lemma gen_mpc_budget_eq : forall (c : rtb_cfg (F:=F)), rtb_max (mpc_cfg c) = gen_mpc_budget (rtb_max c).
Proof. intros c. reflexivity. Qed.
(* whole runs: a fold of the generated step is the model's run, hence every Props/C20 theorem transfers *)
Lemma gen_rtb_run_eq : forall (c : rtb_cfg) (s : rtb_state) (ls : list (list F)),
  fold_left (gen_rtb_step c) ls s = fold_left (rtb_step c) ls s.
Proof. intros c s ls. revert s. induction ls as [|l r IH]; intros s; cbn [fold_left]; [reflexivity|]. rewrite gen_rtb_step_eq. apply IH. Qed.
Lemma gen_sop_run_eq : forall (c : sop_cfg) (s : sop_state) (ins : list sop_in),
  fold_left (gen_sop_step c) ins s = fold_left (sop_step c) ins s.
Proof. intros c s ins. revert s. induction ins as [|l r IH]; intros s; cbn [fold_left]; [reflexivity|]. rewrite gen_sop_step_eq. apply IH. Qed.
(* the property theorems of Props/C20.v, restated for the functions generated from the source text *)
Theorem gen_sop_stops_exactly_when : forall (c : sop_cfg (F:=F)) (ins : list sop_in),
  sop_cont (fold_left (gen_sop_step c) ins sop_init) = forallb (fun k => negb (sop_cause c (firstn k ins))) (seq 1 (length ins)).
Proof. intros c ins. rewrite gen_sop_run_eq. exact (sop_cont_iff c ins). Qed.
Theorem gen_rtb_stops_exactly_when : forall (c : rtb_cfg (F:=F)) (ls : list (list F)),
  rtb_cont (fold_left (gen_rtb_step c) ls rtb_init) = forallb (fun k => negb (rtb_cause c (firstn k ls))) (seq 1 (length ls)).
Proof. intros c ls. rewrite gen_rtb_run_eq. exact (rtb_cont_iff c ls). Qed.
Theorem gen_rtb_stays_false : forall (c : rtb_cfg (F:=F)) ls more,
  rtb_cont (fold_left (gen_rtb_step c) ls rtb_init) = false -> rtb_cont (fold_left (gen_rtb_step c) (ls ++ more) rtb_init) = false.
Proof. intros c ls more. rewrite !gen_rtb_run_eq. exact (rtb_stays_false c ls more). Qed.
Theorem gen_reset_restores_initial_state : forall (s : rtb_state (F:=F)), gen_rtb_reset s = rtb_init.
Proof. intros s. rewrite gen_rtb_reset_eq. exact (rtb_reset_is_init s). Qed.
End Gen.
Print Assumptions gen_sop_stops_exactly_when. Print Assumptions gen_rtb_stops_exactly_when.
Print Assumptions gen_rtb_stays_false. Print Assumptions gen_reset_restores_initial_state.
Print Assumptions gen_rtb_step_eq. Print Assumptions gen_rtb_reset_eq. Print Assumptions gen_sop_step_eq.
Print Assumptions gen_mpc_budget_eq. Print Assumptions gen_rtb_run_eq. Print Assumptions gen_sop_run_eq.
'''


N_LEMMAS = 10


def translate(repo):
    """returns (coq_text, notes).  Raises Untranslatable."""
    sp = os.path.join(repo, 'pypose', 'utils', 'stepper.py')
    sc = os.path.join(repo, 'pypose', 'optim', 'scheduler.py')
    st = ast.parse(open(sp).read())
    sct = ast.parse(open(sc).read())
    rtb = _find_class(st, 'ReduceToBason')
    sop = _find_class(sct, 'StopOnPlateau')
    out = ('(* GENERATED by harness/translate_controller.py from %s and %s - do not edit *)\n' % (sp, sc) +
           'From Coq Require Import ZArith List Bool Arith.\nImport ListNotations.\n'
           'From PV Require Import Base.Num Model.Controller Proofs.Controller Proofs.Controller2.\n'
           'Section Gen.\nContext {F : Type} {NF : Num F}.\nLocal Open Scope num_scope.\n')
    k, m = _resolve_method(st, rtb, 'step')
    a = Sym('rtb', st, k)
    a.block(m.body)
    out += a.result('gen_rtb_step', '(c : rtb_cfg (F:=F)) (s : rtb_state (F:=F)) (loss : list F)')
    k, m = _resolve_method(st, rtb, 'reset')
    r = Sym('rtb', st, k)
    r.block(m.body)
    out += r.result('gen_rtb_reset', '(s : rtb_state (F:=F))')
    k, m = _resolve_method(sct, sop, 'step')
    b = Sym('sop', sct, k)
    b.block(m.body)
    out += b.result('gen_sop_step', '(c : sop_cfg (F:=F)) (s : sop_state) (i : sop_in (F:=F))')
    out += _mpc_budget(os.path.join(repo, 'pypose', 'module', 'mpc.py'))
    notes = [_check_driver(sc, 'StopOnPlateau', 'optimize', 'self'),
             _check_driver(os.path.join(repo, 'pypose', 'module', 'mpc.py'), 'MPC', 'forward', 'self.stepper'),
             _check_driver(os.path.join(repo, 'pypose', 'module', 'icp.py'), 'ICP', 'forward', 'self.stepper'),
             _default_stepper(os.path.join(repo, 'pypose', 'module', 'mpc.py'), 'MPC'),
             _default_stepper(os.path.join(repo, 'pypose', 'module', 'icp.py'), 'ICP')]
    return out + PROOFS, notes


if __name__ == '__main__':
    import sys
    text, notes = translate(sys.argv[1] if len(sys.argv) > 1 else '/repo')
    print(text)
    for n in notes:
        print('(* driver shape: %s *)' % n)
