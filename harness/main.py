import sys, os, json, argparse, importlib, subprocess, time, traceback
from . import common
from .common import Ctx


def setup():
    """build what the checks need: every Base and Model file (the evaluators the case files import) and the
    dependency cone of every Props file.  Proofs files that no Props file imports are not part of any claim and
    are not built.  A Props cone that fails to build does not fail the setup: the check of that property
    re-builds its own cone and reports the broken obligation itself."""
    import glob
    common.ensure_makefile()
    rel = lambda pat: sorted(os.path.relpath(f, common.COQ)[:-2] + '.vo' for f in glob.glob(os.path.join(common.COQ, pat)))
    need = rel('Base/*.v') + rel('Model/*.v')
    p = subprocess.run('timeout 7200 make -C %s -j%d %s' % (common.COQ, common.NCPU, ' '.join(need)), shell=True)
    if p.returncode != 0:
        return p.returncode
    subprocess.run('timeout 7200 make -k -C %s -j%d %s' % (common.COQ, common.NCPU, ' '.join(rel('Props/*.v'))), shell=True)
    return 0


def main():
    ap = argparse.ArgumentParser()
    ap.add_argument('pid', nargs='?')
    ap.add_argument('--setup', action='store_true')
    ap.add_argument('--tier', default=os.environ.get('VERIF_TIER', 'quick'))
    ap.add_argument('--replay')
    a = ap.parse_args()
    if a.setup:
        sys.exit(setup())
    pid = a.pid
    seed = int(os.environ.get('VERIF_SEED', '0'))
    mod = importlib.import_module('harness.props.' + pid.lower())
    ctx = Ctx(pid, a.tier, seed)
    if a.replay:
        data = json.load(open(a.replay))
        if data.get('key') == 'no-failing-input':
            print('replay names broken obligations only:', [b['name'] for b in data.get('broken', [])])
            print('re-running the check to see whether they still fail')
        else:
            common.import_pypose()
            still = mod.replay(ctx, data['replay'])
            if still:
                print('VIOLATION property=%s replay=%s' % (pid, a.replay))
                sys.exit(1)
            print('replay passes: property holds on this input now')
            sys.exit(0)
    proofs = common.build_props(pid, thorough=ctx.thorough)
    if not proofs['ok']:
        sys.stderr.write(proofs['out'][-3000:] + '\n')
    common.import_pypose()
    try:
        mod.run(ctx)
    except Exception:
        # a harness crash is reported as a broken tie (never silently passed)
        tb = traceback.format_exc()
        sys.stderr.write(tb)
        ctx.obligation_broken('harness-crash', tb[-3000:])
    sys.exit(common.finish(ctx, proofs))


if __name__ == '__main__':
    main()
