import sys, os, json, argparse, importlib, subprocess, time, traceback
from . import common
from .common import Ctx


def setup():
    common.ensure_makefile()
    cmd = 'timeout 7200 make -C %s -j%d' % (common.COQ, common.NCPU)
    p = subprocess.run(cmd, shell=True)
    return p.returncode


def main():
    ap = argparse.ArgumentParser()
    ap.add_argument('pid', nargs='?')
    ap.add_argument('--setup', action='store_true')
    ap.add_argument('--tier', default=os.environ.get('VERIF_TIER', 'quick'))
    ap.add_argument('--replay')
    a = ap.parse_args()
    if a.setup:
        sys.exit(setup())
    pid = a.pid
    seed = int(os.environ.get('VERIF_SEED', '0'))
    mod = importlib.import_module('harness.props.' + pid.lower())
    ctx = Ctx(pid, a.tier, seed)
    if a.replay:
        data = json.load(open(a.replay))
        if data.get('key') == 'no-failing-input':
            print('replay names broken obligations only:', [b['name'] for b in data.get('broken', [])])
            print('re-running the check to see whether they still fail')
        else:
            common.import_pypose()
            still = mod.replay(ctx, data['replay'])
            if still:
                print('VIOLATION property=%s replay=%s' % (pid, a.replay))
                sys.exit(1)
            print('replay passes: property holds on this input now')
            sys.exit(0)
    proofs = common.build_props(pid, thorough=ctx.thorough)
    if not proofs['ok']:
        sys.stderr.write(proofs['out'][-3000:] + '\n')
    common.import_pypose()
    try:
        mod.run(ctx)
    except Exception:
        # a harness crash is reported as a broken tie (never silently passed)
        tb = traceback.format_exc()
        sys.stderr.write(tb)
        ctx.obligation_broken('harness-crash', tb[-3000:])
    sys.exit(common.finish(ctx, proofs))


if __name__ == '__main__':
    main()
