"""Writes /verif/MANIFEST.json from harness/manifest/Cxx.json (one file per claimed property)."""
import json, os
V = os.path.dirname(os.path.dirname(os.path.abspath(__file__)))
BASELINE = "cd /repo && /venv/bin/python -m pytest -ra -q -p no:cacheprovider --timeout=900 --continue-on-collection-errors"


def main():
    props = [json.loads(l) for l in open(os.path.join(V, 'properties.jsonl'))]
    checks, na = [], []
    enabled = set(open(os.path.join(V, 'harness', 'manifest', 'ENABLED')).read().split())
    for p in props:
        pid = p['id']
        mf = os.path.join(V, 'harness', 'manifest', pid + '.json')
        if pid in enabled and os.path.exists(mf) and os.path.exists(os.path.join(V, 'harness', 'props', pid.lower() + '.py')) \
                and os.path.exists(os.path.join(V, 'coq', 'Props', pid + '.v')):
            c = json.load(open(mf))
            checks.append(dict(property_id=pid, quick_cmd='./check %s --tier quick' % pid, thorough_cmd='./check %s --tier thorough' % pid,
                               evidence_file='evidence/%s.json' % pid, replay_cmd_template='./check %s --replay {path}' % pid, engine='coq-model+corr-harness',
                               level_claimed=dict(category='proof', text=c['text'], design_ref=c.get('design', '5/' + pid)), level_note=c['note'], technique=c['technique']))
        else:
            na.append(dict(property_id=pid, reason='not claimed at this commit: the Coq model, proofs and correspondence check for this property are not finished (plan: DESIGN.md section 5)'))
    m = dict(version=1, setup_cmd='./check --setup',
             hooks=dict(guard='PYPOSE_VERIF', enable='no source hooks are needed: checks import the working tree of /repo with PYPOSE_VERIF=1 set (unused by the source)',
                        baseline_off_cmd=BASELINE, source_commits=[], add_only=True),
             engines=[dict(name='coq-model+corr-harness', path='coq/ , harness/', serves_properties=[c['property_id'] for c in checks],
                           kind_free_text='Coq 8.16 models + theorems; Python harness running /repo and the model (vm_compute / interval) on the same inputs')],
             checks=checks, not_applicable=na,
             notes='see DESIGN.md; known_findings.txt lists recorded findings and fix: commits')
    json.dump(m, open(os.path.join(V, 'MANIFEST.json'), 'w'), indent=1)


if __name__ == '__main__':
    main()
