"""Writes /verif/MANIFEST.json from the table below (kept in one place so that the file is always valid)."""
import json, os
V = os.path.dirname(os.path.dirname(os.path.abspath(__file__)))
BASELINE = "cd /repo && /venv/bin/python -m pytest -ra -q -p no:cacheprovider --timeout=900 --continue-on-collection-errors"
TB = ("Trusted: Coq 8.16.1 kernel and vm_compute (no native_compute); the hand-written Gallina model (coq/Model) of the anchored code; "
      "the Python correspondence harness (harness/) that runs /repo's working tree and the model on the same inputs; ")

CHECKS = {
 'C12': dict(
   text="Proof (Coq): for every length L>=1 and every associative operation the modelled stride-doubling scan (stride schedule (L-1).bit_length(), "
        "one pass = reads before writes) returns the ordered prefix products, left and right variants, pure variant keeps / in-place variant overwrites the input "
        "(theorems C12_* in coq/Props/C12.v, axiom-free). Tie: the real cumops/cumops_ are run for every L in 1..4096 and on rank<=4 tensors over every dim with a free "
        "non-commutative 'segment' monoid and compared item-for-item with the model evaluated by vm_compute; LieTensor cumprod/cummul on exactly representable group elements "
        "are compared with the model instantiated with the C03 group product over Q.",
   note=TB + "axioms: none (Print Assumptions: closed). Not modelled: torch index_select/index_copy_ semantics beyond 'gather then scatter along dim' (observed through the tie).",
   technique="Coq proof by induction (window invariant) + exact differential correspondence (vm_compute)", design="5/C12"),
 'C03': dict(
   text="Proof (Coq, over R): associativity, two-sided inverse, neutral identity for SO3/SE3/RxSO3/Sim3; matrix() has the documented blocks [[sR,t],[0,1]], "
        "Act on 3- and homogeneous 4-vectors (incl. w=0) equals multiplication by it, matrix() is a homomorphism, act(XY)=act X . act Y; validity (unit quaternion, positive scale) "
        "is preserved by every history of products and inverses (induction over the op list, any length), and |q|^2 after a history is the product of the factors' |.|^2 (drift law). "
        "Tie: exact route - all ops of all four groups on Hurwitz-unit / dyadic operands, float64 == model over Q bit for bit, incl. op histories compared after every step; "
        "floating histories (mixed @, Inv, Retr, +) up to 10^4 ops are measured against the 16 n eps drift bound. Search: exact group-law checker on the implementation over all 24 Hurwitz units.",
   note=TB + "axioms: Coq Reals (ClassicalDedekindReals.sig_forall_dec, sig_not_dec, FunctionalExtensionality.functional_extensionality_dep). IEEE rounding is not modelled: the round-off clause is tie-only.",
   technique="Coq proof (ring/field/nsatz over R, induction over histories) + exact differential correspondence", design="5/C03"),
 'C20': dict(
   text="Proof (Coq, any number type): for every sequence of (batched) losses, continual() of StopOnPlateau / ReduceToBason after a history equals 'no documented cause (budget, `patience` consecutive "
        "non-decreases, rejection / all-below-tol) held at any step so far' (induction over the sequence, no length bound); once false it stays false; after reset every future non-negative loss sequence "
        "is handled exactly as by a fresh controller; the driver loops of scheduler.optimize, ICP and MPC (incl. MPC's max_steps-=1) make at most max(1,steps) controller steps. "
        "Tie: exact route - the real objects are put into every state of a grid (steps 0..7 x patience_count 0..5 x continual x last) and stepped with every input class, for configs steps 1..6 x patience 1..4 "
        "(exhaustive at the transition level, a superset of all sequences up to length 12), random long traces with resets, and recorded loss streams of the real optimize/ICP/MPC loops replayed through the model loop.",
   note=TB + "axioms: none for the generic theorems; the reset theorem is over R (Coq Reals axioms). IEEE inf/nan semantics of (last-loss)/loss is written into the model (rel_lt) and validated by the tie; NaN losses are not modelled.",
   technique="Coq proof by induction over loss sequences + exhaustive transition-level exact correspondence", design="5/C20"),
 'C08': dict(
   text="Proof (Coq, over R, abstract parameter space / loss / retraction with retract(retract t d)(-d)=t / arbitrary solver oracle incl. raising at any solve): one LevenbergMarquardt.step terminates, returns and caches "
        "the true loss of the parameters it leaves behind, which is <= the loss it was given unless reject_count reached `reject`, makes <= reject+1 solves, leaves the parameters either exactly as given "
        "(all trials rejected / solver raised; loss unchanged) or as the single last trial; rejected trials restore the parameters; GN.step returns the new loss and records the old one; by induction over any "
        "sequence of calls every returned value is the true loss. Strategies: documented transition tables (Constant/Adaptive/TrustRegion) and damping/radius/down within [min,max] after every update of any history. "
        "Tie: scripted universe (scalar parameter, loss theta^2, user solver returning scripted steps or raising at solve j for every j, first k trials worse for k=0..reject+1, reject 0..16, three real strategies "
        "with power-of-two hyper-parameters): full observable traces of up to 30 step() calls equal the model bit for bit; real (ill-)conditioned residual models with kernels are checked against the proved clauses.",
   note=TB + "axioms: Coq Reals. Strategies with non-dyadic hyper-parameters and NaN losses are not in the exact tie; group retraction undo (Exp(-d)Exp(d)X = X) is an explicit hypothesis of the theorem (holds up to round-off in floats).",
   technique="Coq proof (loop invariant, induction over calls) + exact trace correspondence in a scripted universe", design="5/C08"),
}

NOT_YET = {}

def main():
    props = [json.loads(l) for l in open(os.path.join(V, 'properties.jsonl'))]
    checks, na = [], []
    for p in props:
        pid = p['id']
        if pid in CHECKS and os.path.exists(os.path.join(V, 'harness', 'props', pid.lower() + '.py')):
            c = CHECKS[pid]
            checks.append(dict(property_id=pid, quick_cmd='./check %s --tier quick' % pid, thorough_cmd='./check %s --tier thorough' % pid,
                               evidence_file='evidence/%s.json' % pid, replay_cmd_template='./check %s --replay {path}' % pid, engine='coq-model+corr-harness',
                               level_claimed=dict(category='proof', text=c['text'], design_ref=c['design']), level_note=c['note'], technique=c['technique']))
        else:
            na.append(dict(property_id=pid, reason=NOT_YET.get(pid, 'not claimed yet: model and proofs for this property are not built at this commit (see DESIGN.md section 5 for the plan)')))
    m = dict(version=1, setup_cmd='./check --setup',
             hooks=dict(guard='PYPOSE_VERIF', enable='no source hooks are needed: checks import /repo working tree with PYPOSE_VERIF=1 set (unused by the source)',
                        baseline_off_cmd=BASELINE, source_commits=[], add_only=True),
             engines=[dict(name='coq-model+corr-harness', path='coq/ , harness/', serves_properties=[c['property_id'] for c in checks],
                           kind_free_text='Coq 8.16 models + theorems; Python harness running /repo and the model (vm_compute / interval) on the same inputs')],
             checks=checks, not_applicable=na,
             notes='see DESIGN.md; known_findings.txt lists recorded findings and fix: commits')
    json.dump(m, open(os.path.join(V, 'MANIFEST.json'), 'w'), indent=1)

if __name__ == '__main__':
    main()
