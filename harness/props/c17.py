"""C17 correspondence: pp.svdtf / pp.svdstf / pp.module.ICP / pp.module.EPnP vs Model/Align.v.

Tie.  torch.linalg.svd (and pypose.knn inside ICP) are oracles of the model; the harness records the
implementation's own calls (inputs and answers) while the real function runs and feeds exactly those
answers to the model, so the oracle contract (U, Vh orthogonal, S sorted >= 0, M = U diag(S) Vh with
M the EXACT cross-covariance of the float inputs; knn index = a nearest target point) is checked
numerically on every case, by Coq, over Q.  The rational part of the model (centroids, cross-covariance,
R = U diag(1, 1, 1 - 2 mask) Vh with mask = `|det(U Vh) + 1| < 1e-6`, Umeyama sign and scale, translation) is evaluated
by vm_compute on the float inputs taken as exact rationals and compared with the implementation's
output (quaternion turned back into a matrix by the C03 model) within k*eps*magnitude.  The
matrix -> LieTensor conversion (mat2SO3 regions, sqrt, cube root) is tied by the enclosure route
(`interval`) on small clouds.  ICP: every recorded pass (temporal_k, knn answer, SVD answer,
temporal_k+1) is a transition of the model's loop body.

Property oracle (independent of the Coq model: numpy Kabsch/Umeyama + random transforms of the class,
brute-force closest points): run on EVERY case; it is what turns a disagreement into a failing input.
It also requires a finite answer whose quaternion has unit norm (checked BEFORE anything is turned into a Coq literal: a
non-finite / degenerate answer is a reported input, not a harness crash).  Regimes generated on purpose: every support pattern
of the rotation's quaternion (rotations about coordinate axes, half turns about axes in coordinate planes: all regions of the
matrix -> quaternion conversion and their boundaries) in batches mixed with generic rotations; clouds far from the origin
relative to their spacing and ICP clouds below / above two dozen / a hundred points (distance computations that lose the
spacing in the magnitude of the coordinates, or switch algorithm with the size, show up there); regular / symmetric point sets next
to the random clouds (EPnP: odd regular grids, box corners + centre, a cloud + its own mean, point-symmetric sets, repeated points,
integer coordinates - a point exactly or numerically ON the centroid, tied singular values -, kept inside the property by an
independent non-degeneracy test: >= 6 different points and a one-dimensional null space of the textbook DLT system; svdtf / svdstf /
ICP: point-symmetric clouds around a point on the centroid).
History: the source before fix 23d9fa1 negated the whole matrix in svdtf's reflection branch (and ICP
on planar clouds failed through it); the recorded witnesses of both are regression cases of every
run, a recurrence is reported as a VIOLATION (known_findings.txt lists them as `fixed:`).
"""
import math, contextlib, sys
from ..common import *

EPS = 2.0 ** -52
K_EPS = 256
# keys of the two defects found by this check and since repaired in /repo (known_findings.txt: `fixed:` lines,
# which suppress nothing): a recurrence is reported under the same key as a VIOLATION
K_TF = 'svdtf:reflection-branch:det(U@Vh)=-1:whole-matrix-negated'
K_ICP = 'ICP.forward:planar-cloud:svdtf-reflection-branch'

RULE = ('clouds: generic / planar (axis-aligned and tilted) / collinear / duplicated points / minimal 3-point, N in 3..200, spreads 0.1..10, '
        'offsets up to 10 or far from the origin (1e2..1e6 x spread); target = s R source + t + noise with R uniform on SO(3) or a special rotation (identity, '
        'half turns about x/y/z, quarter turns, near-pi, tiny; every support pattern of the quaternion: rotations about a coordinate axis by any angle, half turns '
        'about axes in the coordinate planes, exact / tied magnitudes / just off the pattern, in batches mixed with generic ones: every mat2SO3 region and its '
        'boundaries; the returned quaternion must be finite and of unit norm), s in 0.1..10 (svdstf), noise sigma in {0, 1e-3..0.5} (isotropic or in-plane: reflection-prone), '
        'batch shapes (), (1,), (2,), (3,), (2,2); a case = one (source, target) pair of one call; non-trivial = N >= 3 and source not a single point; '
        'distinct by value; directed block first (every flip branch x mat2SO3 region x with_scale), then random; tolerances %d eps x magnitude '
        '(rotation entries, translation, scale), oracle contract 64 eps (orthogonality) and %d eps x sum|t||s| (factorisation); '
        'ICP: generic (in-basin exact perturbations about the centroid: must be recovered to ~1e-12 x magnitude) and planar clouds, 4..200 points (below / above two dozen '
        '/ a hundred), at the origin or 1e2..5e9 smallest-point-distances away from it, permuted targets, init / no init, batched, call forms (ord / dim given or not), '
        'judged call = 2nd call on its object; knn contract up to 64 eps x squared diameter; '
        'EPnP: 6..100 points in front of the camera, exact projections, refine on/off, batched; generic clouds and regular / symmetric point sets '
        '(odd regular grids, box corners + centre (+ face centres), a cloud + its own mean, point-symmetric sets, repeated points, small-integer '
        'coordinates; axis-aligned or rotated; at the origin / a dyadic / a generic offset, i.e. a point exactly or only numerically on the centroid; '
        'poses uniform or frontal), at least 6 different points and a one-dimensional null space of the textbook DLT system (sigma_11/sigma_1 > 1e-3), '
        'alone and in batches mixed with generic clouds; svdtf / svdstf / ICP also on point-symmetric clouds (box corners / 3x3x3 grid / pairs +-v '
        'around a point on the centroid)' % (K_EPS, K_EPS))


# ------------------------------------------------------------------------------------ Coq literals
def q3(v):
    return '(%s, %s, %s)' % (qlit(v[0]), qlit(v[1]), qlit(v[2]))


def qm3(M):
    return '(%s, %s, %s)' % (q3(M[0]), q3(M[1]), q3(M[2]))


def qpts(P):
    return coq_list(q3(p) for p in P)


def r3(v):
    return '(%s, %s, %s)' % (rlit(v[0]), rlit(v[1]), rlit(v[2]))


def rm3(M):
    return '(%s, %s, %s)' % (r3(M[0]), r3(M[1]), r3(M[2]))


def rpts(P):
    return coq_list(r3(p) for p in P)


def qtol(x):
    """a tolerance as an exact rational with a short literal (rounded up to 3 significant digits)"""
    x = float(x)
    if x <= 0:
        return '(0 # 1)'
    e = math.floor(math.log10(x)) - 2
    m = int(math.ceil(x / 10 ** e))
    f = Fraction(m) * (Fraction(10) ** e)
    return '(%d # %d)' % (f.numerator, f.denominator)


HDR = ('From PV Require Import Base.Num Model.LieGroup Model.Controller Model.Align.\n'
       'From Coq Require Import List ZArith QArith Bool. Import ListNotations.\n')


# ------------------------------------------------------------------------------------ small linear algebra (lists)
def fl(t):
    return [[float(v) for v in r] for r in t.detach().tolist()]


def quat_R(q):
    x, y, z, w = q
    n = x * x + y * y + z * z + w * w
    s = 2.0 / n if n != 0 else float('nan')
    return [[1 - s * (y * y + z * z), s * (x * y - z * w), s * (x * z + y * w)],
            [s * (x * y + z * w), 1 - s * (x * x + z * z), s * (y * z - x * w)],
            [s * (x * z - y * w), s * (y * z + x * w), 1 - s * (x * x + y * y)]]


SPECIAL = {
    'identity': [[1, 0, 0], [0, 1, 0], [0, 0, 1]],
    'turn-x': [[1, 0, 0], [0, -1, 0], [0, 0, -1]],
    'turn-y': [[-1, 0, 0], [0, 1, 0], [0, 0, -1]],
    'turn-z': [[-1, 0, 0], [0, -1, 0], [0, 0, 1]],
    'quarter-z': [[0, -1, 0], [1, 0, 0], [0, 0, 1]],
    'quarter-x': [[1, 0, 0], [0, 0, -1], [0, 1, 0]],
    'cyclic': [[0, 0, 1], [1, 0, 0], [0, 1, 0]],
}


def sparse_quat(rng, mask, near, equal):
    """quaternion (x, y, z, w) supported on the components named by the bits of mask (1 x, 2 y, 4 z, 8 w): every rotation
    about a coordinate axis by any angle (support {axis, w}: more / less than 90 degrees, both senses), every half turn about
    an axis in a coordinate plane (two of x y z) or a generic axis (x y z), rotations about axes in a coordinate plane;
    `equal`: all supported components of the same magnitude (ties between the diagonal entries of R: quarter turns, 120 degree
    turns, half turns about a face diagonal); `near`: the other components are tiny instead of zero (just off those sets)"""
    q = []
    for j in range(4):
        if mask >> j & 1:
            q.append(rng.choice([-1.0, 1.0]) if equal else rng.gauss(0, 1) or 1.0)
        else:
            q.append(rng.gauss(0, 1) * 10 ** rng.uniform(-12, -4) if near else 0.0)
    return q


def gen_rot(rng, kind):
    if kind in SPECIAL:
        return [[float(v) for v in r] for r in SPECIAL[kind]]
    if kind.startswith('sparse') or kind.startswith('near-sparse'):
        # 'sparse' | 'sparse:<mask>' | 'sparse-eq:<mask>' | 'near-sparse[:<mask>]'
        head, _, m = kind.partition(':')
        mask = int(m) if m else rng.randint(1, 15)
        while True:
            q = sparse_quat(rng, mask, head.startswith('near'), head.endswith('-eq') or (not m and rng.random() < 0.25))
            if sum(a * a for a in q) > 1e-3:
                return quat_R(q)
    if kind == 'near-turn':
        ax = unit(rng)
        th = math.pi - 10 ** rng.uniform(-9, -2)
        return quat_R([ax[0] * math.sin(th / 2), ax[1] * math.sin(th / 2), ax[2] * math.sin(th / 2), math.cos(th / 2)])
    if kind == 'small':
        ax = unit(rng)
        th = 10 ** rng.uniform(-9, -1)
        return quat_R([ax[0] * math.sin(th / 2), ax[1] * math.sin(th / 2), ax[2] * math.sin(th / 2), math.cos(th / 2)])
    while True:
        q = [rng.gauss(0, 1) for _ in range(4)]
        if sum(a * a for a in q) > 1e-3:
            return quat_R(q)


def unit(rng):
    while True:
        v = [rng.gauss(0, 1) for _ in range(3)]
        n = math.sqrt(sum(a * a for a in v))
        if n > 1e-3:
            return [a / n for a in v]


def mv(R, p):
    return [R[i][0] * p[0] + R[i][1] * p[1] + R[i][2] * p[2] for i in range(3)]


CLOUD_KINDS = ['generic', 'planar', 'planar-tilted', 'collinear', 'duplicated', 'minimal', 'grid', 'symmetric']


def symmetric_points(rng, N, spread):
    """N points symmetric about the origin, one of them (two for the sizes that leave a point over) ON the centroid: the corners
    of a box + its centre (N >= 9) or an odd regular 3x3x3 grid (N >= 27) - or just the centre -, filled up with pairs +-v"""
    h = [spread * rng.choice([1.0, 1.0, 0.5, rng.uniform(0.3, 1.5)]) for _ in range(3)]
    form = rng.random()
    if N >= 27 and form < 0.6:
        pts = [[h[0] * i, h[1] * j, h[2] * k] for i in (-1, 0, 1) for j in (-1, 0, 1) for k in (-1, 0, 1)]
    elif N >= 9 and form < 0.8:
        pts = [[sx * h[0], sy * h[1], sz * h[2]] for sx in (-1, 1) for sy in (-1, 1) for sz in (-1, 1)] + [[0.0, 0.0, 0.0]]
    else:
        pts = [[0.0, 0.0, 0.0]]
    while len(pts) + 2 <= N:
        v = [rng.gauss(0, spread) for _ in range(3)]
        pts += [v, [-a for a in v]]
    if len(pts) < N:
        pts.append([0.0, 0.0, 0.0])
    rng.shuffle(pts)
    return pts


def gen_cloud(rng, kind, N, far=0.0):
    """far > 0: the cloud sits at distance ~ far x spread from the origin (map / world coordinates)"""
    spread = rng.choice([0.1, 1.0, 1.0, 3.0, 10.0])
    off = [rng.uniform(-10, 10) if rng.random() < 0.6 else 0.0 for _ in range(3)]
    if far > 0:
        d = unit(rng)
        off = [d[j] * far * spread for j in range(3)]
    if kind == 'minimal':
        N = 3
    if kind == 'grid':
        # small integers: many exact ties / symmetric clouds
        pts = [[float(rng.randint(-3, 3)) for _ in range(3)] for _ in range(N)]
        if all(p == pts[0] for p in pts):
            pts[0][0] += 1.0
        return pts
    pts = [[rng.gauss(0, spread) for _ in range(3)] for _ in range(N)]
    if kind == 'symmetric':
        pts = symmetric_points(rng, N, spread)
        if rng.random() < 0.5:
            R = gen_rot(rng, 'uniform')
            pts = [mv(R, p) for p in pts]
    elif kind == 'planar':
        ax = rng.randrange(3)
        for p in pts:
            p[ax] = 0.0
    elif kind == 'planar-tilted':
        R = gen_rot(rng, 'uniform')
        pts = [mv(R, [p[0], p[1], 0.0]) for p in pts]
    elif kind == 'collinear':
        d = unit(rng)
        pts = [[d[0] * p[0], d[1] * p[0], d[2] * p[0]] for p in pts]
    elif kind == 'duplicated':
        k = rng.randint(1, max(1, N // 2))
        for _ in range(k):
            i, j = rng.randrange(N), rng.randrange(N)
            pts[i] = list(pts[j])
        if all(p == pts[0] for p in pts):
            pts[0] = [pts[0][0] + spread, pts[0][1], pts[0][2]]
    return [[p[0] + off[0], p[1] + off[1], p[2] + off[2]] for p in pts]


def gen_pair(rng, kind, N, rkind, scale, noise, noise_kind, far=0.0):
    src = gen_cloud(rng, kind, N, far)
    R = gen_rot(rng, rkind)
    t = [rng.uniform(-10, 10) if rng.random() < 0.7 else 0.0 for _ in range(3)]
    tgt = []
    nrm = unit(rng)
    for p in src:
        q = mv(R, p)
        q = [scale * q[i] + t[i] for i in range(3)]
        if noise > 0:
            e = [rng.gauss(0, noise) for _ in range(3)]
            if noise_kind == 'in-plane':
                d = sum(e[i] * nrm[i] for i in range(3))
                e = [e[i] - d * nrm[i] for i in range(3)]
            q = [q[i] + e[i] for i in range(3)]
        tgt.append(q)
    # the values float64 really holds
    src = [[float(v) for v in p] for p in src]
    tgt = [[float(v) for v in p] for p in tgt]
    return src, tgt, dict(R=R, t=t, s=scale)


# ------------------------------------------------------------------------------------ recording the oracles
@contextlib.contextmanager
def record_svd(torch, log):
    orig = torch.linalg.svd

    def rec(A, *a, **k):
        out = orig(A, *a, **k)
        log.append((A.detach().clone(), out[0].detach().clone(), out[1].detach().clone(), out[2].detach().clone()))
        return out
    torch.linalg.svd = rec
    try:
        yield
    finally:
        torch.linalg.svd = orig


# ------------------------------------------------------------------------------------ independent oracle (numpy)
def np_():
    import numpy as np
    return np


def kabsch_np(src, tgt, with_scale=False, fix_scale=None):
    """Kabsch / Umeyama optimum computed independently (numpy SVD, last singular direction flipped)"""
    np = np_()
    X, Y = np.asarray(src, dtype=float), np.asarray(tgt, dtype=float)
    cs, ct = X.mean(0), Y.mean(0)
    Xc, Yc = X - cs, Y - ct
    M = Yc.T @ Xc
    U, S, Vh = np.linalg.svd(M)
    d = 1.0 if np.linalg.det(U @ Vh) >= 0 else -1.0
    R = U @ np.diag([1.0, 1.0, d]) @ Vh
    s = 1.0
    if with_scale:
        sx = float((Xc ** 2).sum())
        s = float((S[0] + S[1] + d * S[2]) / sx) if sx > 0 else 1.0
    t = ct - s * R @ cs
    return s, R, t


def resid_np(s, R, t, src, tgt):
    np = np_()
    X, Y = np.asarray(src, dtype=float), np.asarray(tgt, dtype=float)
    return float(((Y - (s * X @ np.asarray(R).T + np.asarray(t))) ** 2).sum())


def best_t(s, R, src, tgt):
    np = np_()
    X, Y = np.asarray(src, dtype=float), np.asarray(tgt, dtype=float)
    return Y.mean(0) - s * np.asarray(R) @ X.mean(0)


def out_transform(pp, torch, T, sim):
    """(s, R, t) of an SE3 / Sim3 LieTensor item (R from the library's own matrix())"""
    v = [float(x) for x in T.tensor().reshape(-1).tolist()]
    R = quat_R(v[3:7])
    return (v[7] if sim else 1.0), R, v[0:3], v


def finite(x):
    """every number in a nested list / tuple is finite"""
    if isinstance(x, (list, tuple)):
        return all(finite(v) for v in x)
    return math.isfinite(x)


def oracle_align(rng, src, tgt, s, R, t, sim, with_scale, exact, q=None):
    """property text on one output: a valid group element (unit quaternion, i.e. a proper rotation), residual not larger
    than the optimum of the class nor than random members of the class, exact correspondences reproduced.
    q: the raw quaternion of the returned LieTensor (R is its rotation matrix).  Returns None | str"""
    np = np_()
    if q is not None:
        if not finite(list(q) + list(t) + [s]):
            return 'non-finite output: translation %s, quaternion %s%s' % (list(t), list(q), ', scale %r' % s if sim else '')
        qn = math.sqrt(sum(a * a for a in q))
        if abs(qn - 1) > 1e-9:
            return 'the returned element is not a rigid / similarity transform: its quaternion %s has norm %.6g, not 1' % (list(q), qn)
    Rn = np.asarray(R)
    if not all(math.isfinite(v) for v in list(Rn.reshape(-1)) + list(t) + [s]):
        return 'non-finite output'
    if abs(np.linalg.det(Rn) - 1) > 1e-9 or np.abs(Rn @ Rn.T - np.eye(3)).max() > 1e-9:
        return 'output rotation is not a proper rotation (det %.6g)' % np.linalg.det(Rn)
    if sim and not (s > 0):
        return 'scale %.6g is not positive' % s
    X, Y = np.asarray(src, dtype=float), np.asarray(tgt, dtype=float)
    mag = float(((Y - Y.mean(0)) ** 2).sum() + max(s, 1.0) ** 2 * ((X - X.mean(0)) ** 2).sum()) + 1e-300
    r_impl = resid_np(s, R, t, src, tgt)
    so, Ro, to = kabsch_np(src, tgt, with_scale=(sim and with_scale))
    r_opt = resid_np(so, Ro, to, src, tgt)
    tol = 1e-9 * mag
    if r_impl > r_opt + tol:
        return ('sum of squared residuals %.9g exceeds that of the %s optimum %.9g (relative to the clouds\' spread: %.3g)'
                % (r_impl, 'Umeyama' if sim and with_scale else 'Kabsch', r_opt, (r_impl - r_opt) / mag))
    for _ in range(4):
        Rr = np.asarray(gen_rot(rng, 'uniform'))
        sr = s if not (sim and with_scale) else s * math.exp(rng.uniform(-0.5, 0.5))
        r_rand = resid_np(sr, Rr, best_t(sr, Rr, src, tgt), src, tgt)
        if r_impl > r_rand + tol:
            return 'sum of squared residuals %.9g exceeds that of a random transform of the class (%.9g)' % (r_impl, r_rand)
    if exact:
        err = float(np.abs(Y - (s * X @ Rn.T + np.asarray(t))).max())
        if err > 1e-9 * (float(np.abs(Y).max()) + 1.0):
            return 'exact correspondences not reproduced: max |T p - q| = %.3g' % err
    return None


# ------------------------------------------------------------------------------------ calling the implementation
def call_align(pp, torch, fn, srcs, tgts, shape, with_scale=True):
    """run svdtf / svdstf once on a batch of same-size pairs; returns list of per-item dicts with the
    implementation's own SVD answer"""
    B = len(srcs)
    S = torch.tensor(srcs, dtype=torch.float64)
    T = torch.tensor(tgts, dtype=torch.float64)
    if shape == ():
        S, T = S[0], T[0]
    else:
        S, T = S.reshape(shape + S.shape[-2:]), T.reshape(shape + T.shape[-2:])
    log = []
    with record_svd(torch, log):
        out = pp.svdtf(S, T) if fn == 'svdtf' else pp.svdstf(S, T, with_scale=with_scale)
    assert len(log) == 1, 'expected exactly one SVD call'
    A, U, Sg, Vh = log[0][0].reshape(B, 3, 3), log[0][1].reshape(B, 3, 3), log[0][2].reshape(B, 3), log[0][3].reshape(B, 3, 3)
    o = out.tensor().reshape(B, -1)
    items = []
    for b in range(B):
        items.append(dict(U=fl(U[b]), S=[float(v) for v in Sg[b].tolist()], Vh=fl(Vh[b]), M=fl(A[b]),
                          out=[float(v) for v in o[b].tolist()], ltype=str(out.ltype)))
    return items


def tolerances(src, tgt, s):
    np = np_()
    X, Y = np.abs(np.asarray(src)), np.abs(np.asarray(tgt))
    cs, ct = float(X.max()), float(Y.max())
    # sum_k (|t_k| + |ct|)(|s_k| + |cs|): magnitude of the terms of the cross-covariance as computed
    sm = float(((Y.max(1) + ct) * (X.max(1) + cs)).sum()) * 3
    return dict(o=64 * EPS, f=K_EPS * EPS * sm + 1e-300, R=K_EPS * EPS, t=K_EPS * EPS * (ct + 3 * max(s, 1.0) * cs + 1e-300),
                s=K_EPS * EPS * max(s, 1e-300) * (1 + len(src) / 16.0))


def tf_case_lit(i, src, tgt, it, tol, flip):
    o = it['out']
    return '(%d%%nat, %s, %s, (%s, %s, %s), (%s, (%s, %s)), (%s, %s, %s, %s), %s)' % (
        i, qpts(src), qpts(tgt), qm3(it['U']), q3(it['S']), qm3(it['Vh']), q3(o[0:3]), q3(o[3:6]), qlit(o[6]),
        qtol(tol['o']), qtol(tol['f']), qtol(tol['R']), qtol(tol['t']), 'true' if flip else 'false')


def stf_case_lit(i, ws, src, tgt, it, tol):
    o = it['out']
    return '(%d%%nat, %s, %s, %s, (%s, %s, %s), (%s, (%s, %s), %s), (%s, %s, %s, %s, %s))' % (
        i, 'true' if ws else 'false', qpts(src), qpts(tgt), qm3(it['U']), q3(it['S']), qm3(it['Vh']),
        q3(o[0:3]), q3(o[3:6]), qlit(o[6]), qlit(o[7]),
        qtol(tol['o']), qtol(tol['f'] / len(src)), qtol(tol['R']), qtol(tol['t']), qtol(tol['s']))


def det3(M):
    return (M[0][0] * (M[1][1] * M[2][2] - M[1][2] * M[2][1]) - M[0][1] * (M[1][0] * M[2][2] - M[1][2] * M[2][0])
            + M[0][2] * (M[1][0] * M[2][1] - M[1][1] * M[2][0]))


def mm(A, B):
    return [[sum(A[i][k] * B[k][j] for k in range(3)) for j in range(3)] for i in range(3)]


def region_of(R):
    if R[2][2] < 1e-5:
        return 0 if R[1][1] < R[0][0] else 1
    return 2 if R[0][0] < -R[1][1] else 3


def rank_class(S):
    if S[0] <= 0:
        return 'rank0'
    if S[1] <= 1e-9 * S[0]:
        return 'rank1'
    if S[2] <= 1e-9 * S[0]:
        return 'rank2'
    return 'rank3'


# ------------------------------------------------------------------------------------ svdtf / svdstf blocks
def plan_align(ctx):
    rng = ctx.rng
    plan = []
    # directed: flip branch x mat2SO3 region come from (cloud kind x rotation kind); both with_scale values
    for fn in ('svdtf', 'svdstf'):
        rks = ['identity', 'turn-x', 'turn-y', 'turn-z', 'quarter-z', 'uniform']
        for ci, ck in enumerate(('generic', 'planar', 'planar-tilted', 'minimal', 'collinear', 'duplicated', 'grid', 'symmetric')):
            for rk in (rks if ctx.thorough else [rks[(ci + j) % 6] for j in (0, 2, 3)]):
                N = 3 if ck == 'minimal' else rng.choice([3, 4, 5, 8])
                plan.append(dict(fn=fn, ck=ck, rk=rk, N=N, noise=0.0, nk='iso', s=(1.0 if fn == 'svdtf' else rng.choice([0.5, 2.0, 1.0])),
                                 ws=(rng.random() < 0.7), shape=()))
        # reflection-prone noisy: few points, noise comparable with the spread
        for _ in range(ctx.scale(4, 12)):
            plan.append(dict(fn=fn, ck=rng.choice(['generic', 'minimal', 'planar']), rk='uniform', N=rng.choice([3, 4, 5]),
                             noise=rng.choice([0.3, 0.5]), nk=rng.choice(['iso', 'in-plane']), s=1.0, ws=True, shape=()))
        # every support pattern of the rotation's quaternion (rotations about the coordinate axes by any angle, half turns about
        # axes in the coordinate planes, ...: every way a branch of the matrix -> quaternion conversion can be the wrong one),
        # generic / tied magnitudes / just off the pattern; each batch mixes them with generic rotations and is judged item by item
        for rep in range(ctx.scale(1, 4)):
            for head in ('sparse', 'near-sparse', 'sparse-eq'):
                rks = ['%s:%d' % (head, m) for m in range(1, 16)] + ['uniform']
                rng.shuffle(rks)
                ck = rng.choice(['generic', 'generic', 'planar-tilted', 'minimal'])
                plan.append(dict(fn=fn, ck=ck, rk='uniform', rks=rks, N=3 if ck == 'minimal' else rng.choice([4, 6]),
                                 noise=0.0, nk='iso', s=(1.0 if fn == 'svdtf' else rng.choice([0.5, 2.5])), ws=True,
                                 shape=rng.choice([(16,), (4, 4), (2, 8)])))
    n = ctx.scale(60, 800)
    for _ in range(n):
        fn = rng.choice(['svdtf', 'svdstf'])
        ck = rng.choice(CLOUD_KINDS)
        r = rng.random()
        N = 3 if ck == 'minimal' else (rng.randint(3, 12) if r < 0.75 else (rng.randint(13, 60) if r < 0.95 else rng.randint(61, 200)))
        noise = rng.choice([0.0, 0.0, 10 ** rng.uniform(-3, -1), rng.uniform(0.1, 0.5)])
        plan.append(dict(fn=fn, ck=ck, rk=rng.choice(['uniform'] * 6 + ['near-turn', 'small', 'identity', 'turn-x', 'turn-y', 'turn-z', 'cyclic', 'quarter-x',
                                                                        'sparse', 'sparse', 'near-sparse']),
                         far=(0.0 if rng.random() < 0.8 else 10 ** rng.uniform(2, 6)),
                         N=N, noise=noise, nk=rng.choice(['iso', 'iso', 'in-plane']),
                         s=(1.0 if fn == 'svdtf' else math.exp(rng.uniform(math.log(0.1), math.log(10)))),
                         ws=(rng.random() < 0.75), shape=rng.choice([(), (), (1,), (2,), (3,), (2, 2)] if N <= 60 else [(), (1,)])))
    return plan


def align_block(ctx, pp, torch):
    rng = ctx.rng
    meta, tf_lits, stf_lits = [], [], []
    for pl in plan_align(ctx):
        fn, shape = pl['fn'], pl['shape']
        B = 1
        for d in shape:
            B *= d
        pairs = []
        for _ in range(B):
            s = pl['s'] if (fn == 'svdstf' and pl['ws']) else 1.0
            pairs.append(gen_pair(rng, pl['ck'], pl['N'], pl['rks'][len(pairs)] if 'rks' in pl else pl['rk'], s, pl['noise'], pl['nk'], pl.get('far', 0.0)))
        srcs, tgts = [p[0] for p in pairs], [p[1] for p in pairs]
        try:
            items = call_align(pp, torch, fn, srcs, tgts, shape, with_scale=pl['ws'])
        except Exception as e:          # noqa
            ctx.violation('%s:raises' % fn, '%s raised %s: %s' % (fn, type(e).__name__, str(e)[:200]),
                          dict(fn=fn, src=srcs, tgt=tgts, shape=list(shape), with_scale=pl['ws']))
            continue
        for b, it in enumerate(items):
            src, tgt, true = pairs[b]
            sim = fn == 'svdstf'
            o = it['out']
            s_out = o[7] if sim else 1.0
            R_out = quat_R(o[3:7])
            flip = det3(mm(it['U'], it['Vh'])) < 0      # (False for a non-finite answer)
            i = len(meta)
            rec = dict(fn=fn, src=src, tgt=tgt, with_scale=pl['ws'], shape=list(shape), item=b, exact=(pl['noise'] == 0.0))
            br = '%s:%s:%s:region%d' % (fn, 'reflection' if flip else 'no-reflection', rank_class(it['S']), region_of(R_out))
            ctx.count('%s:%s' % (fn, 'noisy' if pl['noise'] > 0 else 'exact-correspondences'))
            ctx.count('%s:%s' % (fn, 'batched' if shape else 'single'))
            ctx.case((fn, pl['ws'], tuple(map(tuple, src)), tuple(map(tuple, tgt))), nontrivial=len(src) >= 3, branch=br,
                     sample=dict(fn=fn, source=src, target=tgt, impl_out=o, U=it['U'], S=it['S'], Vh=it['Vh']) if (i % 97 == 3 and len(src) <= 5) else None)
            ctx.count('cloud:' + pl['ck'])
            ctx.count('N:%s' % ('3' if len(src) == 3 else '4-12' if len(src) <= 12 else '13-60' if len(src) <= 60 else '61-200'))
            if pl.get('far', 0.0) > 0:
                ctx.count('cloud-far-from-origin:%s' % fn)
            if 'rks' in pl:
                ctx.count('rotation-quaternion-support:%s' % pl['rks'][b])
            meta.append(dict(rec, flip=flip, kind=pl['ck'], it=it))
            # ---- the property itself, on this output
            why = oracle_align(rng, src, tgt, s_out, R_out, o[0:3], sim, pl['ws'], rec['exact'], q=o[3:7])
            meta[-1]['why'] = why
            if finite([o, it['U'], it['S'], it['Vh']]):
                tol = tolerances(src, tgt, s_out if sim else 1.0)
                if sim:
                    stf_lits.append((i, stf_case_lit(i, pl['ws'], src, tgt, it, tol)))
                else:
                    tf_lits.append((i, tf_case_lit(i, src, tgt, it, tol, flip)))
            elif not why:
                why = meta[-1]['why'] = 'non-finite SVD answer / output: %s' % o
            if why:
                ctx.violation(align_key(fn, flip), '%s(source, target)%s, N=%d %s cloud: %s' % (
                    fn, '' if not sim else ' with_scale=%s' % pl['ws'], len(src), pl['ck'], why), rec)
    return meta, tf_lits, stf_lits


def align_key(fn, flip):
    if fn == 'svdtf' and flip:
        return K_TF
    return '%s:%s:residual-or-properness' % (fn, 'reflection-branch' if flip else 'no-reflection-branch')


def shard_by_size(lits, budget=110000):
    """shards of bounded text size"""
    out, cur, size = [], [], 0
    for i, l in lits:
        if cur and size + len(l) > budget:
            out.append(cur)
            cur, size = [], 0
        cur.append(l)
        size += len(l)
    if cur:
        out.append(cur)
    return out


CODE_TF = {1: 'svd-contract', 2: 'rotation', 4: 'translation', 8: 'flip-branch'}
CODE_STF = {1: 'svd-contract', 2: 'rotation', 4: 'translation', 8: 'scale'}
CODE_ICP = {1: 'svd-contract', 2: 'knn-contract', 4: 'next-cloud'}


def decode(k, table):
    return '+'.join(n for b, n in sorted(table.items()) if k & b)


def run_coq(ctx, groups, extra=()):
    """groups: [(tag, evaluator, lits, code table)] -> {tag: {idx: code}}, {extra file name: (rc, out)}"""
    files, owner = list(extra), {}
    for tag, ev, lits, _ in groups:
        for k, sh in enumerate(shard_by_size(lits)):
            name = '%s_%03d' % (tag, k)
            owner[name] = tag
            files.append((name, HDR + 'Eval vm_compute in %s %s.\n' % (ev, coq_list(sh))))
    res = run_case_files('C17', files, timeout=900)
    bad = {tag: {} for tag, _, _, _ in groups}
    raw = {}
    for name, (rc, out) in res.items():
        if name not in owner:
            raw[name] = (rc, out)
            continue
        ev = parse_evals(out)
        if rc != 0 or len(ev) != 1:
            ctx.obligation_broken('correspondence-file:' + name, out[-1500:])
            continue
        for v in parse_nat_list(ev[0]):
            bad[owner[name]][v // 16] = v % 16
    return bad, raw


# ------------------------------------------------------------------------------------ conversion tie (two stages)
LTAC = """
Ltac dec_var prec :=
  repeat (match goal with
  | |- context [Rlt_dec ?a ?b] =>
      tryif (first [has_dec a | has_dec b]) then fail else
      (let H := fresh "Hb" in destruct (Rlt_dec a b) as [H|H];
       [ try (exfalso; revert H; apply Rle_not_lt; apply Rminus_le; interval with (i_prec prec))
       | try (exfalso; apply H; apply Rminus_lt; interval with (i_prec prec)) ])
  | |- context [Rle_dec ?a ?b] =>
      tryif (first [has_dec a | has_dec b]) then fail else
      (let H := fresh "Hb" in destruct (Rle_dec a b) as [H|H];
       [ try (exfalso; revert H; apply Rlt_not_le; apply Rminus_lt; interval with (i_prec prec))
       | try (exfalso; apply H; apply Rminus_le; interval with (i_prec prec)) ])
  end; cbv iota beta).
Ltac enclose_sim3 prec :=
  unfold mat2Sim3_k_enc; rewrite mat2Sim3_k_checked;
  [ model_cbv; dec_var prec; repeat match goal with |- _ /\\ _ => split end; interval with (i_prec prec)
  | unfold checks_ok; model_cbv; repeat match goal with |- _ /\\ _ => split end; interval with (i_prec prec) ].
"""


def run_goals(ctx, tag, cases, per_file=6, tmo=100):
    """cases: dict(idx, prefix, intros, expr, comps=[(i, value, tol)], tactic).  Phase 1 proves all
    components within tolerance; phase 2 (only for the rest) tries to prove a component OUTSIDE.
    Returns (ok idx set, {idx: [components proved outside]}, undecided idx list)"""
    hdr = ENC_HEADER % 'Model.LieGroup Model.Controller Model.Align Proofs.Align' + LTAC

    def goal(c, concl, code):
        return ('Goal %slet r := %s in %s.\nProof. %sfirst [ timeout %d (solve [ %s ]); idtac "OK" "%d" | idtac "BAD" "%d" ]. Abort.\n'
                % (c['prefix'], c['expr'], concl, c['intros'], tmo, c['tactic'], code, code))
    files = []
    for k in range(0, len(cases), per_file):
        txt = ''.join(goal(c, ' /\\ '.join('Rabs (nth %d r 0 - %s) <= %s' % (i, rlit(v), rlit(t)) for i, v, t in c['comps']), c['idx'])
                      for c in cases[k:k + per_file])
        files.append(('%s1_%03d' % (tag, k // per_file), hdr + txt))
    res = run_case_files('C17', files, timeout=per_file * tmo + 300)
    ok, seen = set(), set()
    for name, (rc, out) in res.items():
        t = parse_tags(out)
        ok.update(t['OK'])
        seen.update(t['OK'])
        seen.update(t['BAD'])
        if rc != 0:
            ctx.obligation_broken('correspondence-file:' + name, out[-1500:])
    rest = [c for c in cases if c['idx'] not in ok]
    outside, undec = {}, []
    if rest:
        goals, enc = [], {}
        for c in rest:
            for (i, v, t) in c['comps']:
                code = c['idx'] * 100 + i
                enc[code] = (c['idx'], i)
                goals.append(goal(c, '%s < Rabs (nth %d r 0 - %s)' % (rlit(t), i, rlit(v)), code))
        files2 = [('%s2_%03d' % (tag, k // per_file), hdr + ''.join(goals[k:k + per_file])) for k in range(0, len(goals), per_file)]
        res2 = run_case_files('C17', files2, timeout=per_file * tmo + 300)
        for name, (rc, out) in res2.items():
            for code in parse_tags(out)['OK']:
                outside.setdefault(enc[code][0], []).append(enc[code][1])
        undec = [c['idx'] for c in rest if c['idx'] not in outside]
    return ok, outside, undec


def parse_zz_lists(text, per):
    """`[[(a%Z, b%Z); ...]; ...]` -> list of lists of Fractions (per numbers each)"""
    import re
    nums = [int(x) for x in re.findall(r'-?\d+', text)]
    assert len(nums) % (2 * per) == 0, (len(nums), per)
    out = []
    for k in range(0, len(nums), 2 * per):
        out.append([Fraction(nums[k + 2 * j], nums[k + 2 * j + 1]) for j in range(per)])
    return out


def cbrt_frac(x, digits=45):
    """rational approximation of the real cube root of the positive Fraction x"""
    import mpmath as mp
    mp.mp.dps = digits + 15
    v = mp.cbrt(mp.mpf(x.numerator) / mp.mpf(x.denominator))
    sc = 10 ** digits
    return Fraction(int(mp.floor(v * sc + mp.mpf(1) / 2)), sc)


def fm3(f9):
    return '((%s, %s, %s), (%s, %s, %s), (%s, %s, %s))' % tuple(rlit(x) for x in f9)


def fdet(f9):
    a, b, c, d, e, f, g, h, i = f9
    return a * (e * i - f * h) - b * (d * i - f * g) + c * (d * h - e * g)


def conversion_stage1(ctx, meta):
    """choose the cases and write stage 1 (Q, vm_compute): the exact matrix / translation the model
    hands to mat2SE3 / mat2Sim3"""
    want = ctx.scale(12, 40)
    chosen, seen = [], set()
    for i, m in enumerate(meta):
        if len(m['src']) > 12 or m.get('why'):
            continue
        o = m['it']['out']
        key = (m['fn'], region_of(quat_R(o[3:7])), m['flip'], m['with_scale'])
        if key in seen and len(seen) < 16 and i < len(meta) * 2 // 3:
            continue
        if sum(1 for j in chosen if meta[j]['fn'] == m['fn']) >= (want + 1) // 2:
            continue
        seen.add(key)
        chosen.append(i)
        if len(chosen) >= want:
            break
    tfc = [i for i in chosen if meta[i]['fn'] == 'svdtf']
    stc = [i for i in chosen if meta[i]['fn'] == 'svdstf']
    txt = HDR
    txt += 'Eval vm_compute in map tf_stage1 %s.\n' % coq_list(
        '(%s, %s, (%s, %s))' % (qpts(meta[i]['src']), qpts(meta[i]['tgt']), qm3(meta[i]['it']['U']), qm3(meta[i]['it']['Vh'])) for i in tfc)
    txt += 'Eval vm_compute in map stf_stage1 %s.\n' % coq_list(
        '(%s, %s, %s, (%s, %s, %s))' % ('true' if meta[i]['with_scale'] else 'false', qpts(meta[i]['src']), qpts(meta[i]['tgt']),
                                      qm3(meta[i]['it']['U']), q3(meta[i]['it']['S']), qm3(meta[i]['it']['Vh'])) for i in stc)
    return tfc, stc, txt


def conversion_block(ctx, pp, torch, meta, tfc, stc, rc, out):
    """stage 2 (R, interval): the model's conversion of exactly the stage-1 matrix (mat2SO3 regions,
    sqrt; for Sim3: cube root of the determinant enclosed to 1e-40, then the rest of mat2Sim3 for
    EVERY s in that enclosure, the ten allclose tests discharged through
    Proofs/Align.mat2Sim3_k_checked) against the implementation's output"""
    if not tfc and not stc:
        return
    ev = parse_evals(out)
    if rc != 0 or len(ev) != 2:
        ctx.obligation_broken('correspondence-file:stage1', out[-1500:])
        return
    st_tf, st_stf = parse_zz_lists(ev[0], 12), parse_zz_lists(ev[1], 12)
    if len(st_tf) != len(tfc) or len(st_stf) != len(stc):
        ctx.obligation_broken('correspondence-file:stage1', 'unexpected number of results')
        return
    cases = []
    for i, f in zip(tfc, st_tf):
        m = meta[i]
        o = m['it']['out']
        tol = tolerances(m['src'], m['tgt'], 1.0)
        cases.append(dict(idx=i, prefix='', intros='', tactic='enclose 120%positive',
                          expr='mat2SE3_enc %s (%s, %s, %s)' % (fm3(f[:9]), rlit(f[9]), rlit(f[10]), rlit(f[11])),
                          comps=[(j, o[j], tol['t']) for j in range(3)] + [(3 + j, o[3 + j], K_EPS * EPS) for j in range(4)]))
        ctx.count('conversion:svdtf:region%d' % region_of(quat_R(o[3:7])))
    cb = []
    for i, f in zip(stc, st_stf):
        m = meta[i]
        o = m['it']['out']
        tol = tolerances(m['src'], m['tgt'], o[7])
        d = fdet(f[:9])
        if d <= 0:
            continue
        smid = cbrt_frac(d)
        w = Fraction(1, 10 ** 40)
        if abs(smid - Fraction(o[7])) > Fraction(tol['s']):
            mm_ = dict(family='conversion:svdstf:scale', case=dict(fn='svdstf', src=m['src'], tgt=m['tgt'], out=o, model_scale=float(smid)), detail='')
            ctx.mismatches.append(mm_)
            continue
        cb.append(dict(idx=i, prefix='', intros='', tactic='enclose 160%positive', expr='cbrt_enc %s' % fm3(f[:9]), comps=[(0, smid, w / 2)]))
        cases.append(dict(idx=i, prefix='forall s : R, %s <= s <= %s -> ' % (rlit(smid - w), rlit(smid + w)), intros='intros s Hs. ',
                          tactic='enclose_sim3 120%positive',
                          expr='mat2Sim3_k_enc %s (%s, %s, %s) s' % (fm3(f[:9]), rlit(f[9]), rlit(f[10]), rlit(f[11])),
                          comps=[(j, o[j], tol['t']) for j in range(3)] + [(3 + j, o[3 + j], K_EPS * EPS) for j in range(4)] + [(7, o[7], tol['s'])]))
        ctx.count('conversion:svdstf:region%d' % region_of(quat_R(o[3:7])))
    OFF = 10 ** 6
    for c in cb:
        c['idx'] += OFF
    okA, outA, undA = run_goals(ctx, 'conv', cb + cases, per_file=ctx.scale(2, 8), tmo=100)
    ok1, ok2 = set(i - OFF for i in okA if i >= OFF), set(i for i in okA if i < OFF)
    out1, out2 = {i - OFF: v for i, v in outA.items() if i >= OFF}, {i: v for i, v in outA.items() if i < OFF}
    und1, und2 = [i - OFF for i in undA if i >= OFF], [i for i in undA if i < OFF]
    und = sorted(set(und1) | set(und2))
    ctx.notes.append('conversion tie: %d cases proved within tolerance (%d cube roots enclosed), %d proved outside, %d undecided'
                     % (len(ok2), len(ok1), len(out1) + len(out2), len(und)))
    ctx.hist['conversion-undecided'] = len(und)
    if len(und) > max(2, len(cases) // 4):
        ctx.obligation_broken('conversion-undecided', '%d of %d conversion cases could be neither proved nor refuted, e.g. %s'
                              % (len(und), len(cases), [dict(fn=meta[i]['fn'], src=meta[i]['src'], tgt=meta[i]['tgt']) for i in und[:2]]))
    for i in sorted(set(out1) | set(out2)):
        m = meta[i]
        rec = dict(fn=m['fn'], src=m['src'], tgt=m['tgt'], with_scale=m['with_scale'], shape=[], item=0, exact=m['exact'])
        mm_ = dict(family='conversion:' + m['fn'], case=dict(rec, out=m['it']['out'], components=out1.get(i, []) + out2.get(i, [])), detail='')
        ctx.mismatches.append(mm_)
        why = replay(ctx, rec)
        if why:
            mm_['explained'] = True
            ctx.violation(align_key(m['fn'], m['flip']), why, rec)


# ------------------------------------------------------------------------------------ ICP
def msd_np(P, Q):
    """mean squared closest-point distance, brute force"""
    np = np_()
    P, Q = np.asarray(P), np.asarray(Q)
    d = ((P[:, None, :] - Q[None, :, :]) ** 2).sum(-1)
    return float(d.min(1).mean())


def se3_apply_np(v, P):
    np = np_()
    R = np.asarray(quat_R(v[3:7]))
    return np.asarray(P) @ R.T + np.asarray(v[0:3])


def gen_icp(rng, kind, N, far=0.0):
    """source, target = permuted exact rigid perturbation of the source (a small rotation about the cloud's centroid and a
    small translation) that is inside the basin: every displacement < 1/4 of the smallest distance between two target points
    (so the very first closest-point assignment is the true correspondence, with margin left for an init / a shift).
    far > 0: the cloud sits at distance far x (smallest point distance) from the origin; the spacing of the points stays far
    above the resolution of float64 there (far <= 1e10: one ulp of a coordinate <= 2e-6 of the smallest point distance)"""
    np = np_()
    while True:
        src = gen_cloud(rng, kind if kind in ('planar', 'planar-tilted', 'symmetric') else 'generic', N)
        X = np.asarray(src)
        D = ((X[:, None, :] - X[None, :, :]) ** 2).sum(-1) ** 0.5 + np.eye(N) * 1e9
        dmin = float(D.min())
        # no nearly coincident points (the basin is a fraction of dmin); the bound follows the typical spacing of N points
        if not dmin > 0.02 * min(1.0, 30.0 / N) * float(np.abs(X - X.mean(0)).max()):
            continue
        if far > 0:
            d = unit(rng)
            X = X + np.asarray([d[j] * far * dmin for j in range(3)])       # rounded to float64: the cloud as the implementation sees it
            D = ((X[:, None, :] - X[None, :, :]) ** 2).sum(-1) ** 0.5 + np.eye(N) * 1e300
            dmin = float(D.min())
        c = X.mean(0)
        ext = float(((X - c) ** 2).sum(-1).max() ** 0.5) + 1e-9             # radius about the centroid
        ax = unit(rng)
        th = rng.uniform(0.2, 1.0) * 0.25 * dmin / (2 * ext)
        R = quat_R([ax[0] * math.sin(th / 2), ax[1] * math.sin(th / 2), ax[2] * math.sin(th / 2), math.cos(th / 2)])
        d = unit(rng)
        tm = rng.uniform(0.0, 1.0) * 0.12 * dmin
        t = [d[i] * tm for i in range(3)]
        Y = (X - c) @ np.asarray(R).T + c + np.asarray(t)
        if float((((Y - X) ** 2).sum(-1) ** 0.5).max()) < 0.25 * dmin:
            break
    perm = list(range(N))
    rng.shuffle(perm)
    tgt = [[float(v) for v in Y[j]] for j in perm]
    src = [[float(v) for v in p] for p in X]
    return src, tgt, dict(R=R, t=t, dmin=dmin, ext=float(((X ** 2).sum(-1)).max() ** 0.5) + 1e-9)


ICP_FORMS = [dict(), dict(ord=2), dict(dim=-1), dict(ord=2, dim=-1)]


def run_icp(pp, torch, srcs, tgts, shape, steps, patience, init, share_target, form=0):
    """one real ICP call with its knn / svdtf / SVD calls recorded"""
    icpmod = sys.modules['pypose.module.icp']
    S = torch.tensor(srcs, dtype=torch.float64)
    T = torch.tensor(tgts, dtype=torch.float64)
    if shape == ():
        S, T = S[0], T[0]
    elif share_target:
        T = T[0]
    klog, alog, slog = [], [], []
    oknn, osvdtf = icpmod.knn, icpmod.svdtf

    def rknn(a, b, *ar, **kw):
        out = oknn(a, b, *ar, **kw)
        klog.append((a.detach().clone(), b.detach().clone(), out[0].detach().clone(), out[1].detach().clone()))
        return out

    def rsvdtf(a, b):
        n0 = len(slog)
        out = osvdtf(a, b)
        alog.append((a.detach().clone(), b.detach().clone(), out.tensor().detach().clone(), slog[n0]))
        return out
    stepper = pp.utils.ReduceToBason(steps=steps, patience=patience, verbose=False)
    icp = pp.module.ICP(init=None, stepper=stepper)
    # the judged call is the SECOND call on this object: the first one registers another pair from an explicit, far
    # initial transform; nothing of it (its init, its stepper state) may carry over into the judged call
    try:
        far = pp.SE3(torch.tensor([3.0, -2.0, 1.5, 0.5, 0.5, 0.5, 0.5], dtype=torch.float64))
        icp(S + 0.25, T, init=far)
    except Exception:      # noqa  (only the judged call matters)
        pass
    icpmod.knn, icpmod.svdtf = rknn, rsvdtf
    try:
        with record_svd(torch, slog):
            out = icp(S, T, init=init, **ICP_FORMS[form])
    finally:
        icpmod.knn, icpmod.svdtf = oknn, osvdtf
    return out, klog, alog


def icp_block(ctx, pp, torch):
    np = np_()
    rng = ctx.rng
    n = ctx.scale(10, 100)
    icp_lits, tf_lits, meta = [], [], []
    big = ctx.scale(60, 200)
    # directed: the basic forms, then the regimes of (number of points) x (distance of the clouds from the origin relative to their
    # spacing): few / more than two dozen / a hundred points, at the origin / far / very far away (float64 still resolves the spacing
    # to better than 1e-6 there), single and batched, planar too
    plan = [dict(kind='generic', shape=()), dict(kind='planar', shape=()), dict(kind='planar-tilted', shape=()), dict(kind='generic', shape=(2,)),
            # a regular / point-symmetric cloud with a point on its centroid (odd sizes: no repeated point)
            dict(kind='symmetric', shape=(), N=rng.choice([7, 9, 11, 27])),
            dict(kind='generic', shape=(), N=rng.randint(26, 40)),
            dict(kind='generic', shape=(), N=rng.randint(8, 24), far=10 ** rng.uniform(8.5, 9.7)),
            dict(kind='generic', shape=(), N=rng.randint(26, 60), far=10 ** rng.uniform(8.5, 9.7)),
            dict(kind='generic', shape=(2,), N=rng.randint(26, 40), far=10 ** rng.uniform(7.5, 9.5)),
            dict(kind=rng.choice(['planar', 'planar-tilted']), shape=(), N=rng.randint(26, 40), far=10 ** rng.uniform(3, 9.5)),
            dict(kind='generic', shape=(), N=rng.randint(100, 200), far=10 ** rng.uniform(8.5, 9.7))]
    n += len(plan) - 5
    for k in range(n):
        pl = plan[k] if k < len(plan) else dict(kind=rng.choice(['generic', 'generic', 'generic', 'planar', 'planar-tilted']),
                                                shape=rng.choice([(), (), (), (2,), (3,)]))
        kind, shape = pl['kind'], pl['shape']
        B = 1
        for d in shape:
            B *= d
        N = pl['N'] if 'N' in pl else (rng.randint(4, 14) if rng.random() < 0.7 else rng.randint(15, big // B))
        far = pl['far'] if 'far' in pl else (0.0 if k < len(plan) or rng.random() < 0.6 else 10 ** rng.uniform(2, 9.7))
        share = bool(shape) and rng.random() < 0.3
        trip = [gen_icp(rng, kind, N, far) for _ in range(B)]
        if share:
            # one target cloud for the whole batch: sources are the target moved back by different small motions
            base = trip[0]
            trip = [base] + [(list(map(list, np.asarray(base[0]) + np.asarray([rng.uniform(-1, 1) * 0.05 * base[2]['dmin'] for _ in range(3)]))), base[1], base[2]) for _ in range(B - 1)]
            trip = [([[float(v) for v in p] for p in s_], t_, tr_) for s_, t_, tr_ in trip]
        srcs, tgts = [t_[0] for t_ in trip], [t_[1] for t_ in trip]
        use_init = rng.random() < 0.35
        init = None
        if use_init:
            # small enough to stay inside the basin: rotation moves no point by more than 0.09 dmin, translation 0.05 dmin
            dm = min(t_[2]['dmin'] for t_ in trip)
            ex = max(t_[2]['ext'] for t_ in trip)
            ax, dr = unit(rng), unit(rng)
            x = torch.tensor([dr[j] * 0.05 * dm for j in range(3)] + [ax[j] * 0.1 * dm / (2 * ex) for j in range(3)], dtype=torch.float64)
            init = pp.se3(x).Exp()
        steps, patience = rng.randint(3, 25), rng.randint(1, 5)
        form = k % len(ICP_FORMS)
        rec = dict(call='ICP', src=srcs, tgt=tgts, shape=list(shape), steps=steps, patience=patience,
                   init=None if init is None else [float(v) for v in init.tensor().tolist()], share_target=share, kind=kind, form=form)
        try:
            out, klog, alog = run_icp(pp, torch, srcs, tgts, shape, steps, patience, init, share, form)
        except Exception as e:      # noqa
            ctx.violation('ICP.forward:raises', 'ICP raised %s: %s' % (type(e).__name__, str(e)[:200]), rec)
            continue
        ctx.traces += 1
        ctx.case(('icp', kind, tuple(map(tuple, srcs[0])), steps, patience, use_init), nontrivial=True,
                 branch='icp:%s:%s:%s' % (kind, 'batched' if shape else 'single', 'init' if use_init else 'no-init'))
        ctx.count('icp-passes', len(klog))
        ctx.count('icp:N:%s' % ('4-25' if N <= 25 else '26-60' if N <= 60 else '61-200'))
        ctx.count('icp:distance-from-origin/spacing:%s' % ('<1e2' if far < 1e2 else '1e2-1e7' if far < 1e7 else '1e7-1e10'))
        ctx.count('icp:call-form:%s' % (','.join(sorted(ICP_FORMS[form])) or 'defaults'))
        why = oracle_icp(pp, torch, rec, out)
        if why:
            ctx.violation(icp_key(rec), why, rec)
        if not all(bool(torch.isfinite(x).all()) for e in klog for x in (e[0], e[2])) or \
                not all(bool(torch.isfinite(x).all()) for e in alog for x in (e[0], e[1], e[2]) + tuple(e[3])):
            # nothing exact can be said about a run with non-finite intermediate clouds / SVD answers; it is a finding by itself
            if not why:
                ctx.violation(icp_key(rec), 'ICP: non-finite intermediate cloud / transform during the run (the result is finite), N=%d %s cloud'
                              % (N, kind), rec)
            continue
        # ---- transitions of the loop body (first, middle, last pass of item 0 and of the last item)
        passes = len(klog)
        pick = (sorted(set([0, passes // 2, passes - 1])) if N <= 24 else [0]) if passes else []
        coq_too = N <= 60 or ctx.thorough       # the largest clouds are judged by the property oracle only in the quick tier
        if not coq_too:
            continue
        for b in sorted(set([0, B - 1])):
            tgt_b = tgts[0] if share else tgts[b]
            for kpass in pick:
                a, bt, dist, idx = klog[kpass]
                temporal = fl(a.reshape(B, N, 3)[b])
                idxs = [int(v) for v in idx.reshape(B, N)[b].tolist()]
                sa, sb, so, sv = alog[kpass]
                U, Sg, Vh = sv[1].reshape(B, 3, 3)[b], sv[2].reshape(B, 3)[b], sv[3].reshape(B, 3, 3)[b]
                if kpass + 1 < passes:
                    nxt = fl(klog[kpass + 1][0].reshape(B, N, 3)[b])
                else:
                    nxt = fl(alog[-1][1].reshape(B, N, 3)[b])     # second argument of the final svdtf(source, temporal)
                i = len(meta)
                pm = float(np.abs(np.asarray(temporal)).max() + np.abs(np.asarray(tgt_b)).max()) + 1.0
                # knn contract: the matched point is a closest one up to the rounding of the squared distances themselves
                # (differences of the coordinates, not their magnitudes: the clouds may be far from the origin)
                diam2 = float(((np.asarray(temporal)[:, None, :] - np.asarray(tgt_b)[None, :, :]) ** 2).sum(-1).max())
                tol = tolerances(temporal, [tgt_b[j] for j in idxs], 1.0)
                lit = '(%d%%nat, %s, %s, %s, (%s, %s, %s), %s, (%s, %s, %s, %s))' % (
                    i, qpts(temporal), qpts(tgt_b), coq_list('%d%%nat' % j for j in idxs), qm3(fl(U)), q3([float(v) for v in Sg.tolist()]), qm3(fl(Vh)),
                    qpts(nxt), qtol(tol['o']), qtol(tol['f']), qtol(64 * EPS * diam2 + 1e-300), qtol(4 * K_EPS * EPS * pm))
                icp_lits.append((i, lit))
                meta.append(dict(rec, item=b, kpass=kpass, kindcase='icp-pass'))
                ctx.case(('icp-pass', tuple(map(tuple, temporal)), tuple(idxs)), nontrivial=True, branch='icp-pass:%s' % kind)
        # ---- the final svdtf(source, temporal) is an ordinary svdtf case
        sa, sb, so, sv = alog[-1]
        for b in sorted(set([0, B - 1])):
            U, Sg, Vh = sv[1].reshape(B, 3, 3)[b], sv[2].reshape(B, 3)[b], sv[3].reshape(B, 3, 3)[b]
            src_b, tm_b = fl(sa.reshape(B, N, 3)[b]), fl(sb.reshape(B, N, 3)[b])
            o = [float(v) for v in so.reshape(B, 7)[b].tolist()]
            it = dict(U=fl(U), S=[float(v) for v in Sg.tolist()], Vh=fl(Vh), out=o)
            flip = det3(mm(it['U'], it['Vh'])) < 0
            i = 100000 + len(tf_lits)
            tf_lits.append((i, tf_case_lit(i, src_b, tm_b, it, tolerances(src_b, tm_b, 1.0), flip)))
            ctx.case(('icp-final', tuple(map(tuple, src_b)), tuple(map(tuple, tm_b))), nontrivial=True,
                     branch='icp-final-svdtf:%s' % ('reflection' if flip else 'no-reflection'))
    return meta, icp_lits, tf_lits


def planar_cloud(P):
    np = np_()
    X = np.asarray(P)
    s = np.linalg.svd(X - X.mean(0), compute_uv=False)
    return s[0] == 0 or s[2] <= 1e-9 * s[0]


def icp_key(rec):
    if any(planar_cloud(s) for s in rec['src']):
        return K_ICP
    return 'ICP.forward:non-planar-cloud:worse-than-init-or-not-recovered'


def oracle_icp(pp, torch, rec, out=None):
    """final mean squared closest-point distance <= initial one; in-basin exact perturbations recovered"""
    np = np_()
    srcs, tgts, shape = rec['src'], rec['tgt'], tuple(rec['shape'])
    init = None if rec['init'] is None else pp.SE3(torch.tensor(rec['init'], dtype=torch.float64))
    if out is None:
        out, _, _ = run_icp(pp, torch, srcs, tgts, shape, rec['steps'], rec['patience'], init, rec['share_target'], rec.get('form', 0))
    o = out.tensor().reshape(len(srcs), 7)
    for b in range(len(srcs)):
        src = np.asarray(srcs[b])
        tgt = np.asarray(tgts[0] if rec['share_target'] else tgts[b])
        v = [float(x) for x in o[b].tolist()]
        if not all(math.isfinite(x) for x in v):
            return 'ICP returned a non-finite transform %s' % v
        start = src if rec['init'] is None else se3_apply_np(rec['init'], src)
        e0, e1 = msd_np(start, tgt), msd_np(se3_apply_np(v, src), tgt)
        # resolution of the result: a few thousand ulps of the coordinates (the clouds may be far from the origin, where float64
        # resolves less; the spacing of the generated clouds is > 1e5 times that), squared
        ext = float(np.abs(tgt).max()) + 1.0
        res2 = (1e-12 * ext) ** 2
        if e1 > e0 * (1 + 1e-9) + res2:
            return ('ICP result has a larger mean squared closest-point distance (%.6g) than its initial transform (%.6g), item %d, N=%d %s cloud'
                    % (e1, e0, b, len(src), rec['kind']))
        if not rec['share_target'] and e1 > res2:
            return ('ICP did not recover a small exact rigid perturbation inside the basin (every displacement < 1/4 of the smallest point distance): '
                    'final mean squared closest-point distance %.6g, item %d, N=%d %s cloud' % (e1, b, len(src), rec['kind']))
    return None


# ------------------------------------------------------------------------------------ EPnP
def gen_epnp(rng, N):
    np = np_()
    f = rng.uniform(200, 900)
    K = [[f, 0.0, rng.uniform(200, 400)], [0.0, f * rng.uniform(0.8, 1.25), rng.uniform(150, 300)], [0.0, 0.0, 1.0]]
    depth0 = rng.uniform(3, 8)
    pc = [[rng.uniform(-2, 2), rng.uniform(-2, 2), depth0 + rng.uniform(-1.5, 3)] for _ in range(N)]
    R = gen_rot(rng, 'uniform')
    t = [rng.uniform(-3, 3) for _ in range(3)]
    # pose maps world -> camera: pc = R pw + t
    Rn, tn = np.asarray(R), np.asarray(t)
    pw = (np.asarray(pc) - tn) @ Rn          # R^T (pc - t)
    return K, [[float(v) for v in p] for p in pw], R, t


def pnp_gap(X, pc):
    """non-degeneracy of a point set for camera resection, from the textbook direct linear transform (nothing of the
    implementation): the 2N x 12 system  [Xh 0 -x Xh; 0 Xh -y Xh] p = 0  (Xh = centred, normalised homogeneous world points,
    (x, y) = normalised image points) determines the camera up to scale iff its null space has dimension one; returns
    sigma_11 / sigma_1 (0 for coplanar sets, fewer than six different points, points on a twisted cubic through the centre)"""
    np = np_()
    X, pc = np.asarray(X, dtype=float), np.asarray(pc, dtype=float)
    Xc = X - X.mean(0)
    Xc = Xc / (np.sqrt((Xc ** 2).sum(-1).mean()) + 1e-300)
    Xh = np.concatenate([Xc, np.ones((len(X), 1))], 1)
    x, y = pc[:, 0:1] / pc[:, 2:3], pc[:, 1:2] / pc[:, 2:3]
    Z = np.zeros_like(Xh)
    A = np.concatenate([np.concatenate([Xh, Z, -x * Xh], 1), np.concatenate([Z, Xh, -y * Xh], 1)], 0)
    s = np.linalg.svd(A, compute_uv=False)
    return float(s[10] / s[0]) if s[0] > 0 else 0.0


EPNP_KINDS = ['grid-odd', 'cube+centre', 'centroid-added', 'point-symmetric', 'duplicated', 'integer']


def gen_epnp_structured(rng, kind, N):
    """regular / symmetric world point sets, the kind calibration targets and synthetic scenes are made of, all genuinely
    three-dimensional (smallest / largest singular value of the centred set > 0.2) and strictly in front of the camera:
    odd regular grids (3x3x3, 3x3x5, 5x3x3, ... <= 100 points; they contain their own centroid), the corners of a box + its
    centre, a generic cloud + the mean of its points, point-symmetric sets (c +- v, and c itself), generic clouds with repeated
    points (also a repeated point on the centroid), small-integer coordinates (ties); axis-aligned or rotated in the world,
    placed at the origin / a dyadic / a generic offset (a point ON the centroid exactly or only up to rounding); the pose is
    uniform on SO(3) or a special one (identity, half / quarter turns: the set seen frontally).  Returns K, pw, R, t"""
    np = np_()
    while True:
        if kind == 'grid-odd':
            dims = [(3, 3, 3), (3, 3, 3), (3, 3, 5), (5, 3, 3), (3, 5, 3), (5, 5, 3)]
            dims = rng.choice([d for d in dims if d[0] * d[1] * d[2] == N] or dims)
            h = [rng.choice([1.0, 0.5, rng.uniform(0.3, 1.0)]) for _ in range(3)] if rng.random() < 0.6 else [1.0] * 3
            P = [[h[0] * (i - dims[0] // 2), h[1] * (j - dims[1] // 2), h[2] * (k - dims[2] // 2)]
                 for i in range(dims[0]) for j in range(dims[1]) for k in range(dims[2])]
        elif kind == 'cube+centre':
            h = [rng.choice([1.0, rng.uniform(0.5, 1.5)]) for _ in range(3)]
            P = [[sx * h[0], sy * h[1], sz * h[2]] for sx in (-1, 1) for sy in (-1, 1) for sz in (-1, 1)] + [[0.0, 0.0, 0.0]]
            if N >= 15:        # + the face centres
                P += [[s * h[0] if a == 0 else 0.0, s * h[1] if a == 1 else 0.0, s * h[2] if a == 2 else 0.0] for a in range(3) for s in (-1, 1)]
        elif kind == 'centroid-added':
            P = [[rng.uniform(-1.5, 1.5) for _ in range(3)] for _ in range(max(N, 6) - 1)]
            P.append([float(v) for v in np.asarray(P).mean(0)])
        elif kind == 'point-symmetric':
            V = [[rng.uniform(-1.5, 1.5) for _ in range(3)] for _ in range(max(N, 7) // 2)]
            P = [list(v) for v in V] + [[-a for a in v] for v in V] + [[0.0, 0.0, 0.0]]
        elif kind == 'duplicated':
            P = [[rng.uniform(-1.5, 1.5) for _ in range(3)] for _ in range(max(N, 9) - 3)]
            c = [float(v) for v in np.asarray(P + [P[0]]).mean(0)]
            P = P + [list(P[0])] + ([c, list(c)] if rng.random() < 0.5 else [list(P[1]), list(P[1])])
        else:               # 'integer'
            P = [[float(rng.randint(-2, 2)) for _ in range(3)] for _ in range(max(N, 6))]
        rng.shuffle(P)
        X = np.asarray(P, dtype=float)
        sv = np.linalg.svd(X - X.mean(0), compute_uv=False)
        if not (sv[0] > 0 and sv[2] > 0.2 * sv[0]):
            continue
        r = rng.random()
        if r < 0.5:
            X = X @ np.asarray(gen_rot(rng, 'uniform')).T          # not aligned with the world axes
        r = rng.random()
        off = [0.0] * 3 if r < 0.25 else ([rng.randint(-16, 16) / 4.0 for _ in range(3)] if r < 0.5 else [rng.uniform(-5, 5) for _ in range(3)])
        X = X + np.asarray(off)
        rad = float(((X - X.mean(0)) ** 2).sum(-1).max() ** 0.5)
        R = gen_rot(rng, rng.choice(['uniform', 'uniform', 'uniform', 'identity', 'turn-x', 'quarter-z', 'sparse']))
        cam = [rng.uniform(-1, 1), rng.uniform(-1, 1), rad + rng.uniform(1.5, 6)]      # centroid in the camera frame
        t = [float(v) for v in (np.asarray(cam) - np.asarray(R) @ X.mean(0))]
        pc = X @ np.asarray(R).T + np.asarray(t)
        if float(pc[:, 2].min()) < 1.0:
            continue
        if len(set(map(tuple, X.tolist()))) < 6 or pnp_gap(X, pc) < 1e-3:
            continue            # fewer than 6 different points / projections that do not determine the camera: outside the property
        f = rng.uniform(200, 900)
        K = [[f, 0.0, rng.uniform(200, 400)], [0.0, f * rng.uniform(0.8, 1.25), rng.uniform(150, 300)], [0.0, 0.0, 1.0]]
        return K, [[float(v) for v in p] for p in X], R, t


EPNP_ROUTES = ['call', 'ctor', 'ctor-deepcopy', 'call', 'ctor-state_dict', 'ctor-pickle', 'call-overrides-ctor', 'ctor-to-double']


def run_epnp(pp, torch, rec):
    """returns the worst pose error (rotation entries, translation relative) over the batch and the
    null-space defect of the true control points"""
    np = np_()
    B = len(rec['pw'])
    shape = tuple(rec['shape'])
    worst = None
    Ks = torch.tensor(rec['K'], dtype=torch.float64)
    pw = torch.tensor(rec['pw'], dtype=torch.float64)
    Rt = torch.tensor(rec['R'], dtype=torch.float64)
    tt = torch.tensor(rec['t'], dtype=torch.float64)
    pc = pw @ Rt.mT + tt.unsqueeze(-2)
    pix = pp.point2pixel(pc, Ks)
    if shape == ():
        a = (pw[0], pix[0], Ks[0])
    else:
        a = (pw.reshape(shape + pw.shape[-2:]), pix.reshape(shape + pix.shape[-2:]), Ks.reshape(shape + (3, 3)))
    # how the solver object gets its camera: per call (documented override), from the constructor, or from the constructor of an
    # object that was then copied / pickled / restored from a checkpoint (state_dict loaded into a solver built with ANOTHER camera);
    # chosen from the case itself so that a replay takes the same route
    route = rec.get('route') or EPNP_ROUTES[(len(rec['pw'][0]) + B + int(bool(rec['refine'])) + int(1000 * abs(rec['K'][0][0][2]))) % len(EPNP_ROUTES)]
    rec['route'] = route
    other = a[2].clone()
    other[..., 0, 0] = other[..., 0, 0] * 1.7 + 11.0
    other[..., 1, 2] = other[..., 1, 2] - 37.0
    if route == 'call':
        epnp, kw = pp.module.EPnP(refine=rec['refine']), dict(intrinsics=a[2])
    elif route == 'call-overrides-ctor':
        epnp, kw = pp.module.EPnP(intrinsics=other, refine=rec['refine']), dict(intrinsics=a[2])
    else:
        epnp, kw = pp.module.EPnP(intrinsics=a[2].clone(), refine=rec['refine']), {}
        if route == 'ctor-deepcopy':
            import copy
            epnp = copy.deepcopy(epnp)
        elif route == 'ctor-pickle':
            import pickle
            epnp = pickle.loads(pickle.dumps(epnp))
        elif route == 'ctor-state_dict':
            import io
            buf = io.BytesIO()
            torch.save(epnp.state_dict(), buf)
            buf.seek(0)
            fresh = pp.module.EPnP(intrinsics=other, refine=rec['refine'])
            fresh.load_state_dict(torch.load(buf))
            epnp = fresh
        elif route == 'ctor-to-double':
            epnp = epnp.to(torch.float64)
    est = epnp(a[0], a[1], **kw).tensor().reshape(B, 7)
    for b in range(B):
        v = [float(x) for x in est[b].tolist()]
        if not all(math.isfinite(x) for x in v):
            return 'EPnP returned a non-finite pose %s (item %d)' % (v, b)
        Re = np.asarray(quat_R(v[3:7]))
        er = float(np.abs(Re - np.asarray(rec['R'][b])).max())
        et = float(np.abs(np.asarray(v[0:3]) - np.asarray(rec['t'][b])).max()) / (1.0 + float(np.abs(np.asarray(rec['t'][b])).max()))
        if er > 1e-6 or et > 1e-6:
            worst = ('EPnP(refine=%s) [camera given by route %s] did not recover the pose from exact projections of %d points in front of the camera (%s point set): '
                     'rotation entries off by %.3g, translation off by %.3g (relative), item %d'
                     % (rec['refine'], route, len(rec['pw'][b]), rec.get('kind', 'generic'), er, et, b))
            break
    if worst:
        return worst
    # the linear system: true camera-frame control points span the (1-dim) null space that _compute_nullv returns last
    E = pp.module.EPnP
    bases = E._svd_basis(pw)
    alpha = E._compute_alpha(pw, bases)
    if float((alpha.sum(-1) - 1).abs().max()) > 1e-8 or float((alpha @ bases - pw).abs().max()) > 1e-8 * (1 + float(pw.abs().max())):
        return 'EPnP._compute_alpha: weights do not sum to one / do not reproduce the points'
    nullv = E._compute_nullv(pix, alpha, Ks)
    cc = (bases @ Rt.mT + tt.unsqueeze(-2)).reshape(B, 12)
    v = nullv[..., 3, :]
    cos = (cc * v).sum(-1).abs() / (cc.norm(dim=-1) * v.norm(dim=-1))
    if float((1 - cos).max()) > 1e-6:
        return ('EPnP._compute_nullv: the true control points are not in the null space it returns (1 - |cos| = %.3g)' % float((1 - cos).max()))
    return None


def epnp_block(ctx, pp, torch):
    rng = ctx.rng
    n = ctx.scale(16, 150)
    # directed: 6, 7, 100 generic points; then every kind of regular / symmetric point set (a point on the centroid, repeated points,
    # ties), single and in batches that mix them with generic clouds of the same size; then random ones (2 in 5 structured)
    kinds = list(EPNP_KINDS)
    rng.shuffle(kinds)
    for k in range(n):
        shape = () if k < 3 else rng.choice([(), (), (2,), (3,), (2, 2)])
        B = 1
        for d in shape:
            B *= d
        N = [6, 7, 100][k] if k < 3 else (rng.randint(6, 20) if rng.random() < 0.6 else rng.randint(21, 100))
        kind = 'generic' if k < 3 else (kinds[k - 3] if k - 3 < len(kinds) else (rng.choice(EPNP_KINDS) if rng.random() < 0.4 else 'generic'))
        if kind == 'generic':
            gens = [gen_epnp(rng, N) for _ in range(B)]
        else:
            gens = [gen_epnp_structured(rng, kind, min(N, 40))]
            N = len(gens[0][1])
            while len(gens) < B:
                g = gen_epnp_structured(rng, kind, N) if len(gens) % 2 == 0 else None
                gens.append(g if g is not None and len(g[1]) == N else gen_epnp(rng, N))
        rec = dict(call='EPnP', K=[g[0] for g in gens], pw=[g[1] for g in gens], R=[g[2] for g in gens], t=[g[3] for g in gens],
                   shape=list(shape), refine=(k % 2 == 0), kind=kind)
        ctx.count('epnp:point-set:' + kind)
        ctx.case(('epnp', N, rec['refine'], tuple(map(tuple, rec['pw'][0]))), nontrivial=True,
                 branch='epnp:%s:%s:N%s' % ('refine' if rec['refine'] else 'no-refine', 'batched' if shape else 'single', '6-20' if N <= 20 else '21-100'))
        try:
            why = run_epnp(pp, torch, rec)
        except Exception as e:      # noqa
            why = 'EPnP raised %s: %s' % (type(e).__name__, str(e)[:200])
        ctx.count('epnp:camera-route:' + str(rec.get('route')))
        if why:
            ctx.violation('EPnP.forward:exact-projections:' + ('nullspace' if '_compute_' in why else 'pose-not-recovered'), why, rec)


# ------------------------------------------------------------------------------------ known-finding witnesses
def witnesses():
    """small exact inputs (target = source or a quarter turn of it) on which LAPACK's answer has
    det(U Vh) = -1 for many of them (the sign LAPACK picks depends on the layout): the source before
    23d9fa1 returned residual 32 instead of 0 on 13 of these"""
    base = [[2.0, 0.0, 0.0], [-1.0, 1.0, 0.0], [-1.0, -1.0, 0.0]]
    # the witness of Props/C17.v (C17_svdtf_old_refuted: same cloud, same residual 32), target = half turn about x
    out = [dict(fn='svdtf', src=base, tgt=[[2.0, 0.0, 0.0], [-1.0, -1.0, 0.0], [-1.0, 1.0, 0.0]], with_scale=True, shape=[], item=0, exact=True)]
    for perm in ([0, 1, 2], [1, 2, 0], [2, 0, 1], [0, 2, 1], [1, 0, 2], [2, 1, 0]):
        for rk in ('identity', 'quarter-z', 'cyclic', 'quarter-x', 'turn-x'):
            src = [[p[j] for j in perm] for p in base]
            R = SPECIAL[rk]
            tgt = [[float(v) for v in mv(R, p)] for p in src]
            out.append(dict(fn='svdtf', src=src, tgt=tgt, with_scale=True, shape=[], item=0, exact=True))
    return out


ICP_WITNESS = dict(call='ICP', kind='planar', shape=[], steps=10, patience=3, init=None, share_target=False,
                   src=[[[0.0, 0.0, 0.0], [2.0, 0.0, 0.0], [2.0, 0.0, 1.0], [0.0, 0.0, 3.0], [-1.0, 0.0, 1.0]]],
                   tgt=[[[0.0625, 0.0, 0.0], [2.0625, 0.0, 0.0], [2.0625, 0.0, 1.0], [0.0625, 0.0, 3.0], [-0.9375, 0.0, 1.0]]])


def regression_block(ctx, pp, torch):
    """the recorded witnesses of the two repaired defects, on every run"""
    for w in witnesses():
        ctx.case(('regression', 'svdtf', tuple(map(tuple, w['src'])), tuple(map(tuple, w['tgt']))), nontrivial=True, branch='regression:svdtf-reflection-witness')
        why = replay(ctx, w)
        if why:
            ctx.violation(K_TF, 'svdtf(source, target): ' + why, w)
            break
    cands = [ICP_WITNESS]
    for perm in ([1, 0, 2], [2, 1, 0], [0, 2, 1], [1, 2, 0], [2, 0, 1]):
        cands.append(dict(ICP_WITNESS, src=[[[p[j] for j in perm] for p in ICP_WITNESS['src'][0]]],
                          tgt=[[[p[j] for j in perm] for p in ICP_WITNESS['tgt'][0]]]))
    for w in cands:
        ctx.case(('regression', 'icp', tuple(map(tuple, w['src'][0]))), nontrivial=True, branch='regression:icp-planar-witness')
        why = replay(ctx, w)
        if why:
            ctx.violation(K_ICP, why, w)
            break


# ------------------------------------------------------------------------------------ entry points
def run(ctx):
    pp = import_pypose()
    import torch
    import warnings
    warnings.filterwarnings('ignore')
    ctx.rule = RULE
    import time as _t
    t0 = _t.time()
    meta, tf_lits, stf_lits = align_block(ctx, pp, torch)
    t1 = _t.time()
    imeta, icp_lits, tf2 = icp_block(ctx, pp, torch)
    t2 = _t.time()
    epnp_block(ctx, pp, torch)
    t3 = _t.time()
    tfc, stc, st1 = conversion_stage1(ctx, meta)
    bad, raw = run_coq(ctx, [('tf', 'tf_bad', tf_lits + tf2, CODE_TF), ('stf', 'stf_bad', stf_lits, CODE_STF), ('icp', 'icp_bad', icp_lits, CODE_ICP)],
                       extra=[('stage1', st1)])
    for tag, table in (('tf', CODE_TF), ('stf', CODE_STF)):
        for i, code in sorted(bad[tag].items()):
            if i >= 100000:
                mm_ = dict(family='svdtf-inside-ICP:' + decode(code, table), case=dict(index=i), detail='')
                ctx.mismatches.append(mm_)
                continue
            m = meta[i]
            rec = {k: m[k] for k in ('fn', 'src', 'tgt', 'with_scale', 'shape', 'item', 'exact')}
            mm_ = dict(family='%s:%s' % (m['fn'], decode(code, table)), case=dict(rec, impl_out=m['it']['out'], U=m['it']['U'], S=m['it']['S'], Vh=m['it']['Vh']), detail='')
            ctx.mismatches.append(mm_)
            # search: the property on this very input (already evaluated), then on its unbatched form
            why = m.get('why') or replay(ctx, dict(rec, shape=[], item=0, src=m['src'], tgt=m['tgt']))
            if why:
                mm_['explained'] = True
                ctx.violation(align_key(m['fn'], m['flip']), '%s: %s' % (m['fn'], why), rec)
    for i, code in sorted(bad['icp'].items()):
        m = imeta[i]
        mm_ = dict(family='icp-pass:' + decode(code, CODE_ICP), case={k: m[k] for k in ('src', 'tgt', 'shape', 'steps', 'patience', 'init', 'item', 'kpass')}, detail='')
        ctx.mismatches.append(mm_)
        why = oracle_icp(pp, torch, m)
        if why:
            mm_['explained'] = True
            ctx.violation(icp_key(m), why, {k: m[k] for k in ('call', 'src', 'tgt', 'shape', 'steps', 'patience', 'init', 'share_target', 'kind')})
    t4 = _t.time()
    conversion_block(ctx, pp, torch, meta, tfc, stc, *raw.get('stage1', (1, 'stage1 did not run')))
    t5 = _t.time()
    regression_block(ctx, pp, torch)
    ctx.notes.append('seconds: align %.0f, icp %.0f, epnp %.0f, coq exact route %.0f, conversion tie %.0f' % (t1 - t0, t2 - t1, t3 - t2, t4 - t3, t5 - t4))
    ctx.notes.append('model-vs-implementation disagreements: svdtf %d, svdstf %d, icp passes %d' % (len(bad['tf']), len(bad['stf']), len(bad['icp'])))


def replay(ctx, c):
    pp = import_pypose()
    import torch
    import random as _r
    if c.get('call') == 'ICP':
        return oracle_icp(pp, torch, c)
    if c.get('call') == 'EPnP':
        try:
            return run_epnp(pp, torch, c)
        except Exception as e:      # noqa
            return 'EPnP raised %s: %s' % (type(e).__name__, str(e)[:200])
    fn = c['fn']
    src, tgt = c['src'], c['tgt']
    batched = bool(src) and isinstance(src[0][0], list)
    srcs, tgts = (src, tgt) if batched else ([src], [tgt])
    shape = tuple(c.get('shape', [])) if batched else ()
    try:
        items = call_align(pp, torch, fn, srcs, tgts, shape, with_scale=c.get('with_scale', True))
    except Exception as e:          # noqa
        return '%s raised %s: %s' % (fn, type(e).__name__, str(e)[:200])
    rng = _r.Random(12345)
    for b, it in enumerate(items):
        o = it['out']
        sim = fn == 'svdstf'
        why = oracle_align(rng, srcs[b], tgts[b], o[7] if sim else 1.0, quat_R(o[3:7]), o[0:3], sim, c.get('with_scale', True), c.get('exact', False), q=o[3:7])
        if why:
            return why
    return None
