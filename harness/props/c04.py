"""C04 correspondence: autograd gradients of every LieTensor Function vs Model/LieJac.v.

* polynomial Functions (Mul, Inv, Act, Act4, Adj, AdjT of all four groups): exact route - gradients from
  torch.autograd.grad with dyadic cotangents at Hurwitz-unit / dyadic points must equal the modelled
  backward over Q bit for bit (incl. the trailing zero slot and the use of grad_output[..., :-1]);
* Exp / Log of all four types: enclosure route on the modelled Jl / Jl_inv / calcQ / truncated sim3 series;
* search oracle, independent of the model: central finite differences of the LEFT-PERTURBED real
  forward program (Exp(h e_j) @ X for group inputs), for single Functions and for random well-typed
  expression trees; NaN/Inf scan at the identity and the zero vector."""
import math
from ..common import *
from ..lie import *
from .c01 import K_EPS, K_SQRT, direction

RULE = ('per Function: (group, op, operands, cotangent) -> input cotangents; exact route on dyadic data for polynomial ops, enclosure for Exp/Log; '
        'non-trivial = operands not identity/zero; distinct by value; composite programs: random well-typed trees over '
        '{Exp, Log, Inv, @, Act, Act4, Adj, AdjT, Retr, matrix} of depth <= 6 checked against left-perturbation finite differences')

OPC = {'Mul': 0, 'Inv': 1, 'Act': 2, 'Act4': 3, 'Adj': 4, 'AdjT': 5}


def alg_type(pp, g):
    return getattr(pp, ALGS[GROUPS.index(g)] + '_type')


def grp(pp, torch, g, data, dtype=None, rg=True):
    X = pp.LieTensor(torch.tensor(data, dtype=dtype or torch.float64), ltype=getattr(pp, g + '_type'))
    return X.requires_grad_() if rg else X


def alg(pp, torch, g, data, dtype=None, rg=True):
    x = pp.LieTensor(torch.tensor(data, dtype=dtype or torch.float64), ltype=alg_type(pp, g))
    return x.requires_grad_() if rg else x


def dy_list(rng, n, bits=4, lim=2.0):
    return [dy(rng, bits, lim) for _ in range(n)]


def poly_case(pp, torch, rng, g, op, kind):
    """returns (args for the model, impl gradients concatenated) ; args follow Model/LieJacEval.v"""
    elt = unit_elt if kind == 'unit' else dyadic_elt
    x = elt(rng, g)
    if kind == 'identity':
        x = [float(v) for v in getattr(pp, 'identity_' + g)().tolist()]
    X = grp(pp, torch, g, x)
    T = torch.tensor
    if op == 'Mul':
        y = elt(rng, g)
        Y = grp(pp, torch, g, y)
        gz = dy_list(rng, GDIM[g])
        gx, gy = torch.autograd.grad((X @ Y).tensor(), [X, Y], T(gz, dtype=torch.float64))
        return [x, gz], fr(gx) + fr(gy), dict(X=x, Y=y, gz=gz)
    if op == 'Inv':
        gz = dy_list(rng, GDIM[g])
        Yv = X.Inv()
        gx, = torch.autograd.grad(Yv.tensor(), [X], T(gz, dtype=torch.float64))
        return [[float(v) for v in Yv.tensor().tolist()], gz], fr(gx), dict(X=x, gz=gz)
    if op in ('Act', 'Act4'):
        n = 3 if op == 'Act' else 4
        p = dy_list(rng, n)
        if op == 'Act4' and rng.random() < 0.3:
            p[3] = rng.choice([0.0, 1.0])
        P = T(p, dtype=torch.float64, requires_grad=True)
        gp = dy_list(rng, n)
        out = X.Act(P)
        gx, gpp = torch.autograd.grad(out, [X, P], T(gp, dtype=torch.float64))
        return [x, [float(v) for v in out.tolist()], gp], fr(gx) + fr(gpp), dict(X=x, p=p, gp=gp)
    a = dy_list(rng, ADIM[g], 4, 1.0)
    A = alg(pp, torch, g, a)
    gz = dy_list(rng, ADIM[g])
    out = X.Adj(A) if op == 'Adj' else X.AdjT(A)
    gx, ga = torch.autograd.grad(out.tensor(), [X, A], T(gz, dtype=torch.float64))
    if op == 'Adj':
        return [x, [float(v) for v in out.tensor().tolist()], gz], fr(gx) + fr(ga), dict(X=x, a=a, gz=gz)
    return [x, a, gz], fr(gx) + fr(ga), dict(X=x, a=a, gz=gz)


# ------------------------------------------------------------------------------------------------
# independent oracle: finite differences of the left-perturbed forward program
def basis(torch, n, j, h, dtype):
    e = torch.zeros(n, dtype=dtype)
    e[j] = h
    return e


def tangent_diff(pp, torch, out_p, out_m, out_0, h):
    """(f(+h) - f(-h)) / 2h in tangent coordinates of the output"""
    if isinstance(out_0, pp.LieTensor) and not out_0.ltype.on_manifold:
        inv = out_0.Inv()
        return ((out_p @ inv).Log().tensor() - (out_m @ inv).Log().tensor()) / (2 * h)
    t = lambda z: z.tensor() if isinstance(z, pp.LieTensor) else z
    return (t(out_p) - t(out_m)) / (2 * h)


def fd_grads(pp, torch, fn, inputs, cot, h=1e-6):
    """inputs: list of tensors / LieTensors (no grad); cot: cotangent (tangent coordinates for group-valued
    outputs: first k slots); returns list of gradients in the library's layout (zero slot for groups)"""
    out0 = fn(*inputs)
    res = []
    for k, x in enumerate(inputs):
        isgrp = isinstance(x, pp.LieTensor) and not x.ltype.on_manifold
        n = x.ltype.manifold[0] if isinstance(x, pp.LieTensor) else x.shape[-1]
        gr = []
        for j in range(n):
            def pert(s):
                e = basis(torch, n, j, s * h, x.dtype)
                if isgrp:
                    al = pp.LieTensor(e, ltype=getattr(pp, ALGS[GROUPS.index(type(x.ltype).__name__.replace('Type', ''))] + '_type'))
                    return al.Exp() @ x
                if isinstance(x, pp.LieTensor):
                    return pp.LieTensor(x.tensor() + e, ltype=x.ltype)
                return x + e
            ins_p = list(inputs)
            ins_p[k] = pert(+1)
            ins_m = list(inputs)
            ins_m[k] = pert(-1)
            d = tangent_diff(pp, torch, fn(*ins_p), fn(*ins_m), out0, h)
            gr.append(float((d.reshape(-1) * cot.reshape(-1)[:d.numel()]).sum()))
        if isgrp:
            gr.append(0.0)
        res.append(gr)
    return res


def impl_grads(pp, torch, fn, inputs, cot):
    ins = [x.detach().clone().requires_grad_() for x in inputs]
    out = fn(*ins)
    t = out.tensor() if isinstance(out, pp.LieTensor) else out
    full = torch.zeros_like(t).reshape(-1)
    full[:cot.numel()] = cot.reshape(-1)
    gs = torch.autograd.grad(t, ins, full.reshape(t.shape), allow_unused=True)
    return [[float(v) for v in (g.reshape(-1).tolist() if g is not None else [0.0] * x.numel())] for g, x in zip(gs, ins)]


def compare_fd(pp, torch, fn, inputs, cot, tol=2e-5):
    """returns description of disagreement between autograd and left-perturbation finite differences"""
    try:
        ig = impl_grads(pp, torch, fn, inputs, cot)
    except Exception as e:
        return 'autograd raised %r' % (e,)
    for gvec in ig:
        if any(not math.isfinite(v) for v in gvec):
            return 'gradient contains NaN/Inf: %s' % gvec
    # the gradient of an input must not depend on which OTHER inputs require grad
    if len(inputs) > 1:
        for k in range(len(inputs)):
            ins = [x.detach().clone().requires_grad_(i == k) for i, x in enumerate(inputs)]
            try:
                out = fn(*ins)
                t = out.tensor() if isinstance(out, pp.LieTensor) else out
                full = torch.zeros_like(t).reshape(-1)
                full[:cot.numel()] = cot.reshape(-1)
                gk = None
                if t.requires_grad:      # otherwise the output does not depend on input k at all
                    gk, = torch.autograd.grad(t, [ins[k]], full.reshape(t.shape), allow_unused=True)
            except Exception as e:
                return 'autograd raised %r when only input %d requires grad' % (e, k)
            gk = [float(v) for v in gk.reshape(-1).tolist()] if gk is not None else None
            if gk is None and any(v != 0.0 for v in ig[k]):
                return 'input %d: autograd returns no gradient (None) when it is the only input requiring grad, but %s when all inputs require grad' % (k, [round(z, 6) for z in ig[k]])
            if gk is not None and any(abs(u - v) > 1e-12 * max(1.0, abs(v)) for u, v in zip(gk, ig[k])):
                return 'input %d: gradient %s when it is the only input requiring grad differs from %s when all inputs require grad' % (k, [round(z, 6) for z in gk], [round(z, 6) for z in ig[k]])
    fg = fd_grads(pp, torch, fn, inputs, cot)
    for k, (a, b) in enumerate(zip(ig, fg)):
        scale = max(1.0, max(abs(v) for v in b + a))
        for j, (u, v) in enumerate(zip(a, b)):
            if abs(u - v) > tol * scale:
                return 'input %d slot %d: autograd %.9g vs left-perturbation finite difference %.9g (all: %s vs %s)' % (k, j, u, v, [round(z, 6) for z in a], [round(z, 6) for z in b])
    return None


def mp_ad(g, x):
    """ad matrix of an algebra element at 60 digits (so3 3x3, se3 6x6, rxso3 4x4, sim3 7x7), as in sim3_adj etc."""
    import mpmath as mp
    mp.mp.dps = 60
    X = [mp.mpf(Fraction(v).numerator) / mp.mpf(Fraction(v).denominator) for v in x]
    sk = lambda v: [[0, -v[2], v[1]], [v[2], 0, -v[0]], [-v[1], v[0], 0]]
    k = ADIM[g]
    A = mp.zeros(k, k)
    if g == 'SO3':
        P = sk(X)
        for i in range(3):
            for j in range(3):
                A[i, j] = P[i][j]
    elif g == 'RxSO3':
        P = sk(X[:3])
        for i in range(3):
            for j in range(3):
                A[i, j] = P[i][j]
    else:
        tau, phi = X[:3], X[3:6]
        sg = X[6] if g == 'Sim3' else 0
        P, T = sk(phi), sk(tau)
        for i in range(3):
            for j in range(3):
                A[i, j] = P[i][j] + (sg if i == j else 0)
                A[i, j + 3] = T[i][j]
                A[i + 3, j + 3] = P[i][j]
            if g == 'Sim3':
                A[i, 6] = -tau[i]
    return A


def mp_Jl(g, x):
    """left Jacobian sum_k ad^k/(k+1)! at 60 digits"""
    import mpmath as mp
    A = mp_ad(g, x)
    J = mp.eye(A.rows)
    term = mp.eye(A.rows)
    for k in range(1, 80):
        term = term * A / (k + 1)
        J += term
    return J, A


def angle_regime(g, x):
    rot = {'SO3': x[0:3], 'SE3': x[3:6], 'RxSO3': x[0:3], 'Sim3': x[3:6]}[g]
    th = math.sqrt(sum(a * a for a in rot))
    eps = 2.0 ** -52
    return 'theta<=eps' if th <= eps else ('eps<theta<=1e-7' if th <= 1e-7 else 'theta>1e-7')


def confirm_explog(pp, torch, c):
    """Exp / Log backward against the series of ad at 60 digits (independent of the Coq model)"""
    import mpmath as mp
    g, op = c['g'], c['op']
    dt = torch.float64
    if op == 'Exp':
        X = alg(pp, torch, g, c['x'])
        out = X.Exp().tensor()
        saved = c['x']
    else:
        X = grp(pp, torch, g, c['x'])
        out = X.Log().tensor()
        saved = [float(v) for v in out.tolist()]
    gx, = torch.autograd.grad(out, [X], torch.tensor(c['gz'], dtype=dt))
    gx = [float(v) for v in gx.tolist()]
    if any(not math.isfinite(v) for v in gx):
        return 'gradient contains NaN/Inf: %s' % gx
    J, A = mp_Jl(g, saved)
    k = ADIM[g]
    M = J if op == 'Exp' else J ** -1
    gz = [mp.mpf(v) for v in c['gz'][:k]]
    ref = [sum(gz[i] * M[i, j] for i in range(k)) for j in range(k)]
    scale = max(1.0, max(abs(v) for v in gx))
    tol = 0.99e-7 * scale
    if g == 'Sim3':
        # documented truncation of the sim3 series: Jl = sum_{k<=5} ad^k/(k+1)!  (remainder <= |ad|^6/5040 e^|ad|),
        # Jl^-1 = I - ad/2 + ad^2/12 - ad^4/720  (next Bernoulli term ad^6/30240)
        # |.| = spectral norm; the error of cotangent @ (series remainder) is bounded in every component by |cotangent|_2 |remainder|_2
        import numpy as _np
        na = float(_np.linalg.norm(_np.array([[float(A[i, j]) for j in range(A.cols)] for i in range(A.rows)]), 2)) * (1 + 1e-12)
        g1 = math.sqrt(float(sum(v * v for v in gz)))
        if op == 'Exp':
            tol += 1.05 * g1 * na ** 6 / 5040.0 * math.exp(na)
        elif na < 3.0:
            tol += 1.05 * g1 * na ** 6 / 30240.0 / (1.0 - (na / 6.0) ** 2)
        else:
            tol += 4.0 * na ** 6 * scale
    err = max(abs(mp.mpf(gx[j]) - ref[j]) for j in range(k))
    if op == 'Log' and abs(gx[k]) != 0.0:
        return 'the extra slot of the gradient is %r, not 0' % gx[k]
    if err > tol:
        return '%s %s backward at %s: gradient differs from cotangent @ %s by %.3g (tolerance %.3g); autograd %s' % (
            g, op, c['x'], 'Jl' if op == 'Exp' else 'Jl^-1', float(err), tol, [round(v, 9) for v in gx])
    return None


def single_op_fn(pp, op):
    return {'Mul': lambda X, Y: X @ Y, 'Inv': lambda X: X.Inv(), 'Act': lambda X, p: X.Act(p), 'Act4': lambda X, p: X.Act(p),
            'Adj': lambda X, a: X.Adj(a), 'AdjT': lambda X, a: X.AdjT(a), 'Exp': lambda x: x.Exp(), 'Log': lambda X: X.Log(),
            'Retr': lambda X, a: X.Retr(a), 'matrix': lambda X: X.matrix(), 'Jinvp': lambda X, a: X.Jinvp(a)}[op]


SERIES_OPS = ('Exp', 'Log', 'Retr', 'Jinvp')


def generic_inputs(pp, torch, rng, g, op, point='generic'):
    dt = torch.float64
    small = (g == 'Sim3' and op in SERIES_OPS)       # truncated sim3 series: stay where |ad xi|^6 is small
    def G():
        if small and point == 'generic':
            a = [0.2 * rng.uniform(-1, 1) for _ in range(ADIM[g])]
            return pp.LieTensor(torch.tensor(a, dtype=dt), ltype=alg_type(pp, g)).Exp()
        if point == 'identity':
            return pp.LieTensor(getattr(pp, 'identity_' + g)().to(dt).tensor(), ltype=getattr(pp, g + '_type'))
        x = generic_elt(rng, g, torch, dt)
        if point == 'tiny':
            a = [1e-9 * rng.uniform(-1, 1) for _ in range(ADIM[g])]
            return pp.LieTensor(torch.tensor(a, dtype=dt), ltype=alg_type(pp, g)).Exp()
        return pp.LieTensor(torch.tensor(x, dtype=dt), ltype=getattr(pp, g + '_type'))
    def A(scale=0.7):
        if point == 'identity':
            return pp.LieTensor(torch.zeros(ADIM[g], dtype=dt), ltype=alg_type(pp, g))
        s = 1e-9 if point == 'tiny' else (0.2 if small else scale)
        return pp.LieTensor(torch.tensor([rng.uniform(-1, 1) * s for _ in range(ADIM[g])], dtype=dt), ltype=alg_type(pp, g))
    P = lambda n: torch.tensor([rng.uniform(-2, 2) for _ in range(n)], dtype=dt)
    return {'Mul': lambda: [G(), G()], 'Inv': lambda: [G()], 'Act': lambda: [G(), P(3)], 'Act4': lambda: [G(), P(4)],
            'Adj': lambda: [G(), A()], 'AdjT': lambda: [G(), A()], 'Exp': lambda: [A(1.2)], 'Log': lambda: [G()],
            'Retr': lambda: [G(), A()], 'matrix': lambda: [G()], 'Jinvp': lambda: [G(), A()]}[op]()


def out_cot_dim(g, op):
    return {'Mul': ADIM[g], 'Inv': ADIM[g], 'Act': 3, 'Act4': 4, 'Adj': ADIM[g], 'AdjT': ADIM[g], 'Exp': ADIM[g], 'Log': ADIM[g],
            'Retr': ADIM[g], 'matrix': 9 if g == 'SO3' else 16, 'Jinvp': ADIM[g]}[op]


def fd_single(pp, torch, rng, g, op, point):
    if op == 'Jinvp' and point == 'identity':
        return None          # the property speaks about Jinvp away from the zero rotation only
    ins = generic_inputs(pp, torch, rng, g, op, point)
    cot = torch.tensor([rng.uniform(-1, 1) for _ in range(out_cot_dim(g, op))], dtype=torch.float64)
    tol = 2e-5
    if g == 'Sim3' and op in SERIES_OPS:
        # documented truncation of the sim3 series: error <= const * |ad xi|^6
        xi = 0.0
        for x in ins:
            if isinstance(x, pp.LieTensor):
                v = x.tensor() if x.ltype.on_manifold else x.Log().tensor()
                xi = max(xi, float(v.norm()))
        tol = 2e-5 + 4.0 * xi ** 6
    why = compare_fd(pp, torch, single_op_fn(pp, op), ins, cot, tol=tol)
    if why:
        return dict(kind='fd-single', g=g, op=op, point=point, inputs=[[float(v) for v in (x.tensor() if isinstance(x, pp.LieTensor) else x).tolist()] for x in ins],
                    cot=[float(v) for v in cot.tolist()], what='%s %s at a %s point: %s' % (g, op, point, why))
    return None


# ------------------------------------------------------------------------------------------------
def run(ctx):
    pp = import_pypose()
    import torch
    ctx.rule = RULE
    rng = ctx.rng
    # ---------------------------------------------------------------- polynomial Functions, exact route
    n = ctx.scale(1200, 20000)
    combos = [(g, op, kind) for g in GROUPS for op in OPC for kind in ('unit', 'dyadic', 'identity')]
    cases, meta = [], []
    k = 0
    while len(meta) < n:
        g, op, kind = combos[k % len(combos)]
        k += 1
        try:
            args, out, info = poly_case(pp, torch, rng, g, op, kind)
        except Exception as e:
            ctx.violation('grad-raises:%s:%s' % (g, op), 'autograd raised %r' % (e,), dict(kind='poly', g=g, op=op, pkind=kind))
            continue
        if any(not math.isfinite(float(v)) for v in out):
            ctx.violation('grad-nonfinite:%s:%s' % (g, op), 'gradient contains NaN/Inf', dict(kind='poly', g=g, op=op, info=info))
            continue
        i = len(meta)
        ctx.case((g, op, repr(info)), nontrivial=(kind != 'identity'), branch='%s-%s-%s' % (g, op, kind),
                 sample=dict(group=g, op=op, **info, impl_grads=[float(v) for v in out]) if i % 173 == 11 else None)
        meta.append(dict(kind='poly', g=g, op=op, pkind=kind, info=info))
        cases.append('(%d%%nat, %d%%nat, %d%%nat, %s, %s)' % (i, GID[g], OPC[op], coq_list(qlist(a) for a in args), qlist(out)))
    hdr = 'From PV Require Import Base.Num Model.LieGroup Model.LieJac Model.LieJacEval.\nFrom Coq Require Import List ZArith QArith Bool. Import ListNotations.\n'
    files = [('poly_%03d' % si, hdr + 'Eval vm_compute in jac_bad %s.\n' % coq_list(sh)) for si, sh in enumerate(shard(cases, 250))]
    res = run_case_files('C04', files, timeout=900)
    for name, (rc, out) in sorted(res.items()):
        ev = parse_evals(out)
        if rc != 0 or len(ev) != 1:
            ctx.obligation_broken('correspondence-file:' + name, out[-1500:])
            continue
        for i in parse_nat_list(ev[0]):
            ctx.mismatch('poly:%s:%s' % (meta[i]['g'], meta[i]['op']), meta[i])
    # ---------------------------------------------------------------- Exp / Log backward, enclosure route
    ecases, emeta = [], []
    ne = ctx.scale(60, 1500)
    for g in GROUPS:
        for op in ('Exp', 'Log'):
            for t in range(ne if g in ('SO3', 'SE3') else max(6, ne // 2)):
                point = ['zero', 'tiny', 'generic', 'generic', 'large'][t % 5]
                dt = torch.float64
                if op == 'Exp':
                    mag = {'zero': 0.0, 'tiny': 10 ** rng.uniform(-12, -5), 'generic': rng.uniform(0.1, 1.5), 'large': rng.uniform(1.5, 2.9)}[point]
                    d = direction(rng)
                    rot = [mag * a for a in d]
                    tr = [rng.uniform(-2, 2) for _ in range(3)]      # translation generic also when the rotation is zero / tiny
                    sg = [rng.uniform(-1, 1)]
                    x = {'SO3': rot, 'SE3': tr + rot, 'RxSO3': rot + sg, 'Sim3': tr + rot + sg}[g]
                    X = alg(pp, torch, g, x)
                    saved = x
                    outT = X.Exp().tensor()
                    gz = [rng.uniform(-1, 1) for _ in range(GDIM[g])]
                else:
                    xg = generic_elt(rng, g, torch, dt)
                    if point in ('zero', 'tiny'):
                        a0 = [0.0] * ADIM[g] if point == 'zero' else [1e-8 * rng.uniform(-1, 1) for _ in range(ADIM[g])]
                        xg = [float(v) for v in alg(pp, torch, g, a0, rg=False).Exp().tensor().tolist()]
                        if t % 2:
                            # identity / tiny rotation but generic translation and scale (small-angle branches of calcQ, Ws)
                            tt, qq, ss = split_elt(g, generic_elt(rng, g, torch, dt))
                            t0, q0, s0 = split_elt(g, xg)
                            xg = join_elt(g, tt, q0, ss)
                    X = grp(pp, torch, g, xg)
                    x = xg
                    outT = X.Log().tensor()
                    saved = [float(v) for v in outT.tolist()]
                    gz = [rng.uniform(-1, 1) for _ in range(ADIM[g])]
                gz = [float(v) for v in torch.tensor(gz, dtype=dt).tolist()]
                gx, = torch.autograd.grad(outT, [X], torch.tensor(gz, dtype=dt))
                gx = [float(v) for v in gx.tolist()]
                if any(not math.isfinite(v) for v in gx):
                    ctx.violation('grad-nonfinite:%s:%s' % (g, op), '%s %s gradient at %s contains NaN/Inf: %s' % (g, op, x, gx), dict(kind='explog', g=g, op=op, x=x, gz=gz))
                    continue
                i = len(emeta)
                ctx.case((g, op, tuple(x), tuple(gz)), nontrivial=(point != 'zero'), branch='%s-%s-%s' % (g, op, point))
                emeta.append(dict(kind='explog', g=g, op=op, x=x, gz=gz, impl=gx, point=point))
                eps = 2.0 ** -52
                scale = max(1.0, max(abs(v) for v in gx))
                # the truncated sim3 series are compared with the model, which carries the same truncation
                tol = 1e-7 * scale
                fnm = 'exp_bwd' if op == 'Exp' else 'log_bwd'
                ecases.append(dict(idx=i, expr='%s (NF:=@NF@) (TF:=TransIv) E64 %d %s %s' % (fnm, GID[g], ivlist(saved), ivlist(gz)),
                                   comps=[(j, gx[j], tol) for j in range(len(gx))]))
    r = run_interval('C04', 'Model.LieGroup Model.LieExp Model.LieLog Model.LieJac', ecases, tag='jac')
    for name, out in r['broken']:
        ctx.obligation_broken('correspondence-file:' + name, out)
    ctx.notes.append('Exp/Log backward enclosure: %d within tolerance, %d outside, %d undecided' % (len(r['ok']), len(set(i for i, _ in r['bad'])), len(r['undecided'])))
    if len(r['undecided']) > max(3, len(ecases) // 10):
        ctx.obligation_broken('enclosure-undecided', '%d of %d Exp/Log backward cases undecided, e.g. %s' % (len(r['undecided']), len(ecases), [emeta[i] for i in r['undecided'][:2]]))
    for i in sorted(set(i for i, _ in r['bad'])):
        m = emeta[i]
        mm = dict(family='explog:%s:%s' % (m['g'], m['op']), case=m, detail='')
        ctx.mismatches.append(mm)
        why = confirm_explog(pp, torch, m)
        if why:
            mm['explained'] = True
            saved = m['x'] if m['op'] == 'Exp' else [float(v) for v in grp(pp, torch, m['g'], m['x'], rg=False).Log().tensor().tolist()]
            ctx.violation('grad-accuracy:%s:%s:%s' % (m['g'], m['op'], angle_regime(m['g'], saved)), why, m)
    # search around an unexplained Exp / Log backward disagreement: the same family at mid-range arguments, where a wrong
    # series coefficient exceeds both the round-off floor and the documented truncation bound
    for (g, op) in sorted({(m['case']['g'], m['case']['op']) for m in ctx.mismatches if not m.get('explained') and m['case'].get('kind') == 'explog'}):
        hit = None
        for mag in (0.5, 0.25, 0.8, 0.12, 1.0, 0.35, 0.06, 0.6):
            for _ in range(3):
                xa = [rng.uniform(-1, 1) for _ in range(ADIM[g])]
                nx = math.sqrt(sum(v * v for v in xa)) or 1.0
                xa = [mag * v / nx for v in xa]
                x = xa if op == 'Exp' else [float(v) for v in alg(pp, torch, g, xa, rg=False).Exp().tensor().tolist()]
                cnd = dict(kind='explog', g=g, op=op, x=x, gz=[rng.uniform(-1, 1) for _ in range(GDIM[g] if op == 'Exp' else ADIM[g])], point='search')
                why = confirm_explog(pp, torch, cnd)
                if why:
                    hit = (cnd, why)
                    break
            if hit:
                break
        if hit:
            for m in ctx.mismatches:
                if (m['case']['g'], m['case']['op']) == (g, op) and m['case'].get('kind') == 'explog':
                    m['explained'] = True
            saved = hit[0]['x'] if op == 'Exp' else [float(v) for v in grp(pp, torch, g, hit[0]['x'], rg=False).Log().tensor().tolist()]
            ctx.violation('grad-accuracy:%s:%s:%s' % (g, op, angle_regime(g, saved)), hit[1], hit[0])
    ctx.traces = len(meta) + len(r['ok'])
    # ---------------------------------------------------------------- search: finite-difference oracle per (group, op) family
    fams = sorted({(m['case']['g'], m['case']['op']) for m in ctx.mismatches if not m.get('explained')})
    for (g, op) in fams:
        found = None
        for point in ('generic', 'generic', 'generic', 'identity', 'tiny'):
            found = fd_single(pp, torch, rng, g, op, point)
            if found:
                break
        if found:
            for m in ctx.mismatches:
                if (m['case']['g'], m['case']['op']) == (g, op):
                    m['explained'] = True
            ctx.violation('grad-wrong:%s:%s' % (g, op), found['what'], found)
    for key in list(ctx.known):
        if key in ctx.known_hit or key not in KNOWN_WITNESS:
            continue
        if confirm_explog(pp, torch, KNOWN_WITNESS[key]):
            ctx.known_hit[key] = 'witness still fails'
    # ---------------------------------------------------------------- known findings: replay their family on every run
    for key in list(ctx.known):
        if key in ctx.known_hit or not key.startswith('grad-wrong:'):
            continue
        _, g, op = key.split(':')
        for point in ('generic', 'generic', 'generic'):
            f = fd_single(pp, torch, rng, g, op, point)
            if f:
                ctx.known_hit[key] = f['what']
                break
    # ---------------------------------------------------------------- every (group, op), every run: autograd of the real
    # call (not the backward function in isolation) against left-perturbation finite differences at a generic point,
    # including that an input's gradient does not depend on which other inputs require grad
    for g in GROUPS:
        for op in ('Mul', 'Inv', 'Act', 'Act4', 'Adj', 'AdjT', 'Exp', 'Log', 'Retr', 'matrix'):
            ctx.case(('op-fd', g, op, rng.random()), branch='autograd-vs-fd-%s' % g)
            f = fd_single(pp, torch, rng, g, op, 'generic')
            if f:
                ctx.violation('grad-wrong:%s:%s' % (g, op), f['what'], f)
    # ---------------------------------------------------------------- Jinvp is differentiated by plain autograd through
    # Log and so3_Jl_inv / calcQ (no hand-written backward): left-perturbation finite differences, every run
    for g in GROUPS:
        for point in ('generic', 'generic', 'generic', 'tiny'):
            ctx.case(('jinvp-fd', g, point, rng.random()), branch='Jinvp-grad-%s' % g)
            f = fd_single(pp, torch, rng, g, 'Jinvp', point)
            if f:
                ctx.violation('grad-wrong:%s:Jinvp' % g, f['what'], f)
                break
    # ---------------------------------------------------------------- composite programs and finiteness scan (implementation level)
    composite(ctx, pp, torch)


def shard(items, n):
    return [items[k:k + n] for k in range(0, len(items), n)]


# recorded witnesses of listed findings (float cancellation in calcQ's closed-form coefficients for tiny angles)
KNOWN_WITNESS = {
    'grad-accuracy:SE3:Exp:eps<theta<=1e-7': dict(kind='explog', g='SE3', op='Exp',
        x=[1.1, 0.2, -1.2, 3.030457633656632e-14, -5.050762722761053e-14, 8.081220356417687e-14], gz=[0.3, -0.7, 0.1, 0.4, 0.2, -0.6, 0.5]),
    'grad-accuracy:SE3:Log:eps<theta<=1e-7': dict(kind='explog', g='SE3', op='Log',
        x=[1.1, 0.2, -1.2, 1.515228816828316e-14, -2.5253813613805266e-14, 4.0406101782088436e-14, 1.0], gz=[0.3, -0.7, 0.1, 0.4, 0.2, -0.6]),
}


def composite(ctx, pp, torch):
    """random well-typed trees; autograd vs left-perturbation finite differences.  A disagreement in a
    tree whose every Function family agrees with the (proved) model would be an autograd-plumbing
    defect; trees that contain a family with a listed finding are skipped."""
    rng = ctx.rng
    known_ops = {tuple(k.split(':')[1:3]) for k in ctx.known if k.startswith('grad-wrong:')}
    for t in range(ctx.scale(30, 400)):
        g = rng.choice(GROUPS)
        depth = rng.randint(2, 6)
        point = rng.choice(['generic', 'generic', 'identity', 'tiny'])
        X0 = generic_inputs(pp, torch, rng, g, 'Inv', point)[0]
        a0 = generic_inputs(pp, torch, rng, g, 'Exp', point)[0]
        p0 = torch.tensor([rng.uniform(-2, 2) for _ in range(3)], dtype=torch.float64)
        ops = []
        for _ in range(depth):
            ops.append(rng.choice(['Mul', 'Inv', 'ExpLog', 'Retr', 'MulExp', 'AdjRetr', 'AdjTRetr']))
        final = rng.choice(['Act', 'Log', 'matrix', 'Act4'])
        if g == 'Sim3':
            # trees through the truncated sim3 series are covered per Function (with the documented truncation bound)
            ops = [o if o in ('Mul', 'Inv') else rng.choice(['Mul', 'Inv']) for o in ops]
            final = rng.choice(['Act', 'matrix', 'Act4'])
        used = {(g, {'AdjRetr': 'Adj', 'AdjTRetr': 'AdjT'}.get(o, o)) for o in ops}
        if used & known_ops:
            continue

        def prog(X, a, p, ops=tuple(ops), final=final):
            Z = X
            for o in ops:
                if o == 'Mul':
                    Z = Z @ X
                elif o == 'Inv':
                    Z = Z.Inv()
                elif o == 'ExpLog':
                    Z = Z.Log().Exp()
                elif o == 'Retr':
                    Z = Z.Retr(a)
                elif o == 'MulExp':
                    Z = a.Exp() @ Z
                elif o == 'AdjRetr':
                    Z = Z.Retr(X.Adj(a))
                else:
                    Z = Z.Retr(X.AdjT(a))
            if final == 'Act':
                return Z.Act(p)
            if final == 'Act4':
                return Z.Act(torch.cat([p, torch.ones(1, dtype=p.dtype)]))
            if final == 'Log':
                return Z.Log()
            return Z.matrix().reshape(-1)
        n_out = {'Act': 3, 'Act4': 4, 'Log': ADIM[g], 'matrix': 9 if g == 'SO3' else 16}[final]
        cot = torch.tensor([rng.uniform(-1, 1) for _ in range(n_out)], dtype=torch.float64)
        ctx.case(('tree', g, tuple(ops), final, point, t), branch='tree-depth%d' % depth)
        why = compare_fd(pp, torch, prog, [X0, a0, p0], cot, tol=5e-5)
        if why:
            # rotation angle of an intermediate may sit near pi, where Log is not differentiable: retry decides
            big = False
            try:
                Z = X0
                big = float(prog(X0, a0, p0).abs().max()) > 1e6
            except Exception:
                pass
            if 'NaN' in why or not big:
                ctx.violation('grad-wrong:tree:%s' % g, 'composite program %s -> %s on %s at a %s point: %s' % (ops, final, g, point, why),
                              dict(kind='tree', g=g, ops=ops, final=final, point=point, X=X0.tensor().tolist(), a=a0.tensor().tolist(), p=p0.tolist(), cot=cot.tolist()))


def replay(ctx, c):
    pp = import_pypose()
    import torch
    import random
    if c.get('kind') == 'fd-single':
        g, op = c['g'], c['op']
        rng = random.Random(0)
        ins = generic_inputs(pp, torch, rng, g, op, 'generic')
        new = []
        for x, v in zip(ins, c['inputs']):
            t = torch.tensor(v, dtype=torch.float64)
            new.append(pp.LieTensor(t, ltype=x.ltype) if isinstance(x, pp.LieTensor) else t)
        return compare_fd(pp, torch, single_op_fn(pp, op), new, torch.tensor(c['cot'], dtype=torch.float64))
    if c.get('kind') == 'tree':
        return 're-run the check: tree replays are regenerated from the seed'
    if c.get('kind') == 'explog':
        return confirm_explog(pp, torch, c)
    if c.get('kind') in ('poly',):
        rng = random.Random(1)
        for point in ('generic', 'generic', 'identity'):
            f = fd_single(pp, torch, rng, c['g'], c['op'], point)
            if f:
                return f['what']
    return None
