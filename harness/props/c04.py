"""C04 correspondence: autograd gradients of every LieTensor Function vs Model/LieJac.v.

* polynomial Functions (Mul, Inv, Act, Act4, Adj, AdjT of all four groups): exact route - gradients from
  torch.autograd.grad with dyadic cotangents at Hurwitz-unit / dyadic points must equal the modelled
  backward over Q bit for bit (incl. the trailing zero slot and the use of grad_output[..., :-1]);
* Exp / Log of all four types: enclosure route on the modelled Jl / Jl_inv / calcQ / truncated sim3 series;
* search oracle, independent of the model: central finite differences of the LEFT-PERTURBED real
  forward program (Exp(h e_j) @ X for group inputs), for single Functions and for random well-typed
  expression trees; NaN/Inf scan at the identity and the zero vector;
* multi_node: the same oracle for graphs in which several nodes of one Function (or of a sibling Function) with different
  operands are alive at once, for forward calls made between a forward and its backward, for batched / broadcast /
  non-contiguous operands mixing special and generic items, and for float32;
* special_values: every Function at operands with one or two components EXACTLY special (scale 1 / sigma 0, zero rotation with
  generic translation and scale, zero translation, coordinate-axis rotation, half turn, zero point) and the rest generic -
  the regimes on which rxso3_Ws, so3_Jl, calcQ and Log switch formulas - against extrapolated finite differences, tolerance 5e-7
  plus the documented sim3 truncation bound."""
import math
from ..common import *
from ..lie import *
from .c01 import K_EPS, K_SQRT, direction

RULE = ('per Function: (group, op, operands, cotangent) -> input cotangents; exact route on dyadic data for polynomial ops, enclosure for Exp/Log; '
        'non-trivial = operands not identity/zero; distinct by value; composite programs: random well-typed trees over '
        '{Exp, Log, Inv, @, Act, Act4, Adj, AdjT, Retr, matrix} of depth <= 6 over two group and two algebra leaves checked against left-perturbation finite differences; '
        'per (group, Function): several nodes alive at once (sum / interleaved forward and backward calls / nested / shared operand), batches mixing identity, tiny and '
        'generic items and one item with exactly special components in several memory layouts, broadcast operand, float32 - against finite differences of the single-element program; '
        'per (group, Function, operand): each exactly special component value (scale 1, zero rotation, zero translation, axis rotation, half turn, zero point; singly and in pairs) '
        'with generic other components against extrapolated finite differences (tolerance 5e-7 + documented sim3 truncation bound)')

OPC = {'Mul': 0, 'Inv': 1, 'Act': 2, 'Act4': 3, 'Adj': 4, 'AdjT': 5}


def alg_type(pp, g):
    return getattr(pp, ALGS[GROUPS.index(g)] + '_type')


def grp(pp, torch, g, data, dtype=None, rg=True):
    X = pp.LieTensor(torch.tensor(data, dtype=dtype or torch.float64), ltype=getattr(pp, g + '_type'))
    return X.requires_grad_() if rg else X


def alg(pp, torch, g, data, dtype=None, rg=True):
    x = pp.LieTensor(torch.tensor(data, dtype=dtype or torch.float64), ltype=alg_type(pp, g))
    return x.requires_grad_() if rg else x


def dy_list(rng, n, bits=4, lim=2.0):
    return [dy(rng, bits, lim) for _ in range(n)]


def poly_case(pp, torch, rng, g, op, kind):
    """returns (args for the model, impl gradients concatenated) ; args follow Model/LieJacEval.v"""
    elt = unit_elt if kind == 'unit' else dyadic_elt
    x = elt(rng, g)
    if kind == 'identity':
        x = [float(v) for v in getattr(pp, 'identity_' + g)().tolist()]
    X = grp(pp, torch, g, x)
    T = torch.tensor
    if op == 'Mul':
        y = elt(rng, g)
        Y = grp(pp, torch, g, y)
        gz = dy_list(rng, GDIM[g])
        gx, gy = torch.autograd.grad((X @ Y).tensor(), [X, Y], T(gz, dtype=torch.float64))
        return [x, gz], fr(gx) + fr(gy), dict(X=x, Y=y, gz=gz)
    if op == 'Inv':
        gz = dy_list(rng, GDIM[g])
        Yv = X.Inv()
        gx, = torch.autograd.grad(Yv.tensor(), [X], T(gz, dtype=torch.float64))
        return [[float(v) for v in Yv.tensor().tolist()], gz], fr(gx), dict(X=x, gz=gz)
    if op in ('Act', 'Act4'):
        n = 3 if op == 'Act' else 4
        p = dy_list(rng, n)
        if op == 'Act4' and rng.random() < 0.3:
            p[3] = rng.choice([0.0, 1.0])
        P = T(p, dtype=torch.float64, requires_grad=True)
        gp = dy_list(rng, n)
        out = X.Act(P)
        gx, gpp = torch.autograd.grad(out, [X, P], T(gp, dtype=torch.float64))
        return [x, [float(v) for v in out.tolist()], gp], fr(gx) + fr(gpp), dict(X=x, p=p, gp=gp)
    a = dy_list(rng, ADIM[g], 4, 1.0)
    A = alg(pp, torch, g, a)
    gz = dy_list(rng, ADIM[g])
    out = X.Adj(A) if op == 'Adj' else X.AdjT(A)
    gx, ga = torch.autograd.grad(out.tensor(), [X, A], T(gz, dtype=torch.float64))
    if op == 'Adj':
        return [x, [float(v) for v in out.tensor().tolist()], gz], fr(gx) + fr(ga), dict(X=x, a=a, gz=gz)
    return [x, a, gz], fr(gx) + fr(ga), dict(X=x, a=a, gz=gz)


# ------------------------------------------------------------------------------------------------
# independent oracle: finite differences of the left-perturbed forward program
def basis(torch, n, j, h, dtype):
    e = torch.zeros(n, dtype=dtype)
    e[j] = h
    return e


def tangent_diff(pp, torch, out_p, out_m, out_0, h):
    """(f(+h) - f(-h)) / 2h in tangent coordinates of the output"""
    if isinstance(out_0, pp.LieTensor) and not out_0.ltype.on_manifold:
        inv = out_0.Inv()
        return ((out_p @ inv).Log().tensor() - (out_m @ inv).Log().tensor()) / (2 * h)
    t = lambda z: z.tensor() if isinstance(z, pp.LieTensor) else z
    return (t(out_p) - t(out_m)) / (2 * h)


def fd_grads(pp, torch, fn, inputs, cot, h=1e-6):
    """inputs: list of tensors / LieTensors (no grad); cot: cotangent (tangent coordinates for group-valued
    outputs: first k slots); returns list of gradients in the library's layout (zero slot for groups)"""
    out0 = fn(*inputs)
    res = []
    for k, x in enumerate(inputs):
        isgrp = isinstance(x, pp.LieTensor) and not x.ltype.on_manifold
        n = x.ltype.manifold[0] if isinstance(x, pp.LieTensor) else x.shape[-1]
        gr = []
        for j in range(n):
            def pert(s):
                e = basis(torch, n, j, s * h, x.dtype)
                if isgrp:
                    al = pp.LieTensor(e, ltype=getattr(pp, ALGS[GROUPS.index(type(x.ltype).__name__.replace('Type', ''))] + '_type'))
                    return al.Exp() @ x
                if isinstance(x, pp.LieTensor):
                    return pp.LieTensor(x.tensor() + e, ltype=x.ltype)
                return x + e
            ins_p = list(inputs)
            ins_p[k] = pert(+1)
            ins_m = list(inputs)
            ins_m[k] = pert(-1)
            d = tangent_diff(pp, torch, fn(*ins_p), fn(*ins_m), out0, h)
            gr.append(float((d.reshape(-1) * cot.reshape(-1)[:d.numel()]).sum()))
        if isgrp:
            gr.append(0.0)
        res.append(gr)
    return res


def impl_grads(pp, torch, fn, inputs, cot):
    ins = [x.detach().clone().requires_grad_() for x in inputs]
    out = fn(*ins)
    t = out.tensor() if isinstance(out, pp.LieTensor) else out
    full = torch.zeros_like(t).reshape(-1)
    full[:cot.numel()] = cot.reshape(-1)
    gs = torch.autograd.grad(t, ins, full.reshape(t.shape), allow_unused=True)
    return [[float(v) for v in (g.reshape(-1).tolist() if g is not None else [0.0] * x.numel())] for g, x in zip(gs, ins)]


def compare_fd(pp, torch, fn, inputs, cot, tol=2e-5, fd=None):
    """returns description of disagreement between autograd and left-perturbation finite differences"""
    try:
        ig = impl_grads(pp, torch, fn, inputs, cot)
    except Exception as e:
        return 'autograd raised %r' % (e,)
    for gvec in ig:
        if any(not math.isfinite(v) for v in gvec):
            return 'gradient contains NaN/Inf: %s' % gvec
    # "with the remaining slot zero" - for EVERY upstream cotangent: when the program's value is a group element consumed through its raw
    # components, the cotangent's extra slot is not zero; the extra slot of every group input's gradient must still be exactly 0
    try:
        ins = [x.detach().clone().requires_grad_() for x in inputs]
        out = fn(*ins)
        if isinstance(out, pp.LieTensor) and not out.ltype.on_manifold and out.tensor().requires_grad:
            t = out.tensor()
            full = torch.zeros_like(t).reshape(-1)
            full[:cot.numel()] = cot.reshape(-1)
            full = full.reshape(t.shape).clone()
            full[..., -1] = 0.75
            gs = torch.autograd.grad(t, ins, full, allow_unused=True)
            for k, (gk, x) in enumerate(zip(gs, inputs)):
                if gk is not None and isinstance(x, pp.LieTensor) and not x.ltype.on_manifold and float(gk[..., -1].abs().max()) != 0.0:
                    return ('input %d: the remaining slot of the gradient is %r, not 0, when the upstream cotangent of the (group-valued) result has a '
                            'non-zero extra slot (0.75)' % (k, [float(v) for v in gk[..., -1].reshape(-1).tolist()]))
    except Exception as e:
        return 'autograd raised %r for an upstream cotangent with a non-zero extra slot' % (e,)
    # the gradient of an input must not depend on which OTHER inputs require grad
    if len(inputs) > 1:
        for k in range(len(inputs)):
            ins = [x.detach().clone().requires_grad_(i == k) for i, x in enumerate(inputs)]
            try:
                out = fn(*ins)
                t = out.tensor() if isinstance(out, pp.LieTensor) else out
                full = torch.zeros_like(t).reshape(-1)
                full[:cot.numel()] = cot.reshape(-1)
                gk = None
                if t.requires_grad:      # otherwise the output does not depend on input k at all
                    gk, = torch.autograd.grad(t, [ins[k]], full.reshape(t.shape), allow_unused=True)
            except Exception as e:
                return 'autograd raised %r when only input %d requires grad' % (e, k)
            gk = [float(v) for v in gk.reshape(-1).tolist()] if gk is not None else None
            if gk is None and any(v != 0.0 for v in ig[k]):
                return 'input %d: autograd returns no gradient (None) when it is the only input requiring grad, but %s when all inputs require grad' % (k, [round(z, 6) for z in ig[k]])
            if gk is not None and any(abs(u - v) > 1e-12 * max(1.0, abs(v)) for u, v in zip(gk, ig[k])):
                return 'input %d: gradient %s when it is the only input requiring grad differs from %s when all inputs require grad' % (k, [round(z, 6) for z in gk], [round(z, 6) for z in ig[k]])
    fg = (fd or fd_grads)(pp, torch, fn, inputs, cot)
    for k, (a, b) in enumerate(zip(ig, fg)):
        scale = max(1.0, max(abs(v) for v in b + a))
        for j, (u, v) in enumerate(zip(a, b)):
            if abs(u - v) > tol * scale:
                return 'input %d slot %d: autograd %.9g vs left-perturbation finite difference %.9g (all: %s vs %s)' % (k, j, u, v, [round(z, 6) for z in a], [round(z, 6) for z in b])
    return None


def mp_ad(g, x):
    """ad matrix of an algebra element at 60 digits (so3 3x3, se3 6x6, rxso3 4x4, sim3 7x7), as in sim3_adj etc."""
    import mpmath as mp
    mp.mp.dps = 60
    X = [mp.mpf(Fraction(v).numerator) / mp.mpf(Fraction(v).denominator) for v in x]
    sk = lambda v: [[0, -v[2], v[1]], [v[2], 0, -v[0]], [-v[1], v[0], 0]]
    k = ADIM[g]
    A = mp.zeros(k, k)
    if g == 'SO3':
        P = sk(X)
        for i in range(3):
            for j in range(3):
                A[i, j] = P[i][j]
    elif g == 'RxSO3':
        P = sk(X[:3])
        for i in range(3):
            for j in range(3):
                A[i, j] = P[i][j]
    else:
        tau, phi = X[:3], X[3:6]
        sg = X[6] if g == 'Sim3' else 0
        P, T = sk(phi), sk(tau)
        for i in range(3):
            for j in range(3):
                A[i, j] = P[i][j] + (sg if i == j else 0)
                A[i, j + 3] = T[i][j]
                A[i + 3, j + 3] = P[i][j]
            if g == 'Sim3':
                A[i, 6] = -tau[i]
    return A


def mp_Jl(g, x):
    """left Jacobian sum_k ad^k/(k+1)! at 60 digits"""
    import mpmath as mp
    A = mp_ad(g, x)
    J = mp.eye(A.rows)
    term = mp.eye(A.rows)
    for k in range(1, 80):
        term = term * A / (k + 1)
        J += term
    return J, A


def angle_regime(g, x):
    rot = {'SO3': x[0:3], 'SE3': x[3:6], 'RxSO3': x[0:3], 'Sim3': x[3:6]}[g]
    th = math.sqrt(sum(a * a for a in rot))
    eps = 2.0 ** -52
    return 'theta<=eps' if th <= eps else ('eps<theta<=1e-7' if th <= 1e-7 else 'theta>1e-7')


def confirm_explog(pp, torch, c):
    """Exp / Log backward against the series of ad at 60 digits (independent of the Coq model)"""
    import mpmath as mp
    g, op = c['g'], c['op']
    dt = torch.float64
    if op == 'Exp':
        X = alg(pp, torch, g, c['x'])
        out = X.Exp().tensor()
        saved = c['x']
    else:
        X = grp(pp, torch, g, c['x'])
        out = X.Log().tensor()
        saved = [float(v) for v in out.tolist()]
    gx, = torch.autograd.grad(out, [X], torch.tensor(c['gz'], dtype=dt))
    gx = [float(v) for v in gx.tolist()]
    if any(not math.isfinite(v) for v in gx):
        return 'gradient contains NaN/Inf: %s' % gx
    J, A = mp_Jl(g, saved)
    k = ADIM[g]
    M = J if op == 'Exp' else J ** -1
    gz = [mp.mpf(v) for v in c['gz'][:k]]
    ref = [sum(gz[i] * M[i, j] for i in range(k)) for j in range(k)]
    scale = max(1.0, max(abs(v) for v in gx))
    tol = 0.99e-7 * scale
    if g == 'Sim3':
        # documented truncation of the sim3 series: Jl = sum_{k<=5} ad^k/(k+1)!  (remainder <= |ad|^6/5040 e^|ad|),
        # Jl^-1 = I - ad/2 + ad^2/12 - ad^4/720  (next Bernoulli term ad^6/30240)
        # |.| = spectral norm; the error of cotangent @ (series remainder) is bounded in every component by |cotangent|_2 |remainder|_2
        import numpy as _np
        na = float(_np.linalg.norm(_np.array([[float(A[i, j]) for j in range(A.cols)] for i in range(A.rows)]), 2)) * (1 + 1e-12)
        g1 = math.sqrt(float(sum(v * v for v in gz)))
        if op == 'Exp':
            tol += 1.05 * g1 * na ** 6 / 5040.0 * math.exp(na)
        elif na < 3.0:
            tol += 1.05 * g1 * na ** 6 / 30240.0 / (1.0 - (na / 6.0) ** 2)
        else:
            tol += 4.0 * na ** 6 * scale
    err = max(abs(mp.mpf(gx[j]) - ref[j]) for j in range(k))
    if op == 'Log' and abs(gx[k]) != 0.0:
        return 'the extra slot of the gradient is %r, not 0' % gx[k]
    if err > tol:
        return '%s %s backward at %s: gradient differs from cotangent @ %s by %.3g (tolerance %.3g); autograd %s' % (
            g, op, c['x'], 'Jl' if op == 'Exp' else 'Jl^-1', float(err), tol, [round(v, 9) for v in gx])
    return None


def single_op_fn(pp, op):
    return {'Mul': lambda X, Y: X @ Y, 'Inv': lambda X: X.Inv(), 'Act': lambda X, p: X.Act(p), 'Act4': lambda X, p: X.Act(p),
            'Adj': lambda X, a: X.Adj(a), 'AdjT': lambda X, a: X.AdjT(a), 'Exp': lambda x: x.Exp(), 'Log': lambda X: X.Log(),
            'Retr': lambda X, a: X.Retr(a), 'matrix': lambda X: X.matrix(), 'Jinvp': lambda X, a: X.Jinvp(a)}[op]


SERIES_OPS = ('Exp', 'Log', 'Retr', 'Jinvp')


def generic_inputs(pp, torch, rng, g, op, point='generic'):
    dt = torch.float64
    small = (g == 'Sim3' and op in SERIES_OPS)       # truncated sim3 series: stay where |ad xi|^6 is small
    def G():
        if point == 'special':
            # one or two components exactly special (scale 1, zero rotation, zero translation, axis, half turn), rest generic
            kind = rng.choice(special_kinds(g, 'G', op) + [()])
            if small:
                kind = tuple(k for k in kind if k != 'w0')
            return pp.LieTensor(torch.tensor(special_grp(pp, torch, rng, g, kind, small), dtype=dt), ltype=getattr(pp, g + '_type'))
        if small and point == 'generic':
            a = [0.2 * rng.uniform(-1, 1) for _ in range(ADIM[g])]
            return pp.LieTensor(torch.tensor(a, dtype=dt), ltype=alg_type(pp, g)).Exp()
        if point == 'identity':
            return pp.LieTensor(getattr(pp, 'identity_' + g)().to(dt).tensor(), ltype=getattr(pp, g + '_type'))
        x = generic_elt(rng, g, torch, dt)
        if point == 'tiny':
            a = [1e-9 * rng.uniform(-1, 1) for _ in range(ADIM[g])]
            return pp.LieTensor(torch.tensor(a, dtype=dt), ltype=alg_type(pp, g)).Exp()
        return pp.LieTensor(torch.tensor(x, dtype=dt), ltype=getattr(pp, g + '_type'))
    def A(scale=0.7):
        if point == 'special':
            kind = rng.choice(special_kinds(g, 'A', op))
            return pp.LieTensor(torch.tensor(special_alg(pp, torch, rng, g, kind, 0.2 if small else scale), dtype=dt), ltype=alg_type(pp, g))
        if point == 'identity':
            return pp.LieTensor(torch.zeros(ADIM[g], dtype=dt), ltype=alg_type(pp, g))
        s = 1e-9 if point == 'tiny' else (0.2 if small else scale)
        return pp.LieTensor(torch.tensor([rng.uniform(-1, 1) * s for _ in range(ADIM[g])], dtype=dt), ltype=alg_type(pp, g))
    P = lambda n: torch.tensor([rng.uniform(-2, 2) for _ in range(n)], dtype=dt)
    return {'Mul': lambda: [G(), G()], 'Inv': lambda: [G()], 'Act': lambda: [G(), P(3)], 'Act4': lambda: [G(), P(4)],
            'Adj': lambda: [G(), A()], 'AdjT': lambda: [G(), A()], 'Exp': lambda: [A(1.2)], 'Log': lambda: [G()],
            'Retr': lambda: [G(), A()], 'matrix': lambda: [G()], 'Jinvp': lambda: [G(), A()]}[op]()


def out_cot_dim(g, op):
    return {'Mul': ADIM[g], 'Inv': ADIM[g], 'Act': 3, 'Act4': 4, 'Adj': ADIM[g], 'AdjT': ADIM[g], 'Exp': ADIM[g], 'Log': ADIM[g],
            'Retr': ADIM[g], 'matrix': 9 if g == 'SO3' else 16, 'Jinvp': ADIM[g]}[op]


def fd_single(pp, torch, rng, g, op, point):
    if op == 'Jinvp' and point == 'identity':
        return None          # the property speaks about Jinvp away from the zero rotation only
    ins = generic_inputs(pp, torch, rng, g, op, point)
    cot = torch.tensor([rng.uniform(-1, 1) for _ in range(out_cot_dim(g, op))], dtype=torch.float64)
    tol = 2e-5
    if g == 'Sim3' and op in SERIES_OPS:
        # documented truncation of the sim3 series: error <= const * |ad xi|^6
        xi = 0.0
        for x in ins:
            if isinstance(x, pp.LieTensor):
                v = x.tensor() if x.ltype.on_manifold else x.Log().tensor()
                xi = max(xi, float(v.norm()))
        tol = 2e-5 + 4.0 * xi ** 6
    why = compare_fd(pp, torch, single_op_fn(pp, op), ins, cot, tol=tol)
    if why:
        return dict(kind='fd-single', g=g, op=op, point=point, inputs=[[float(v) for v in (x.tensor() if isinstance(x, pp.LieTensor) else x).tolist()] for x in ins],
                    cot=[float(v) for v in cot.tolist()], what='%s %s at a %s point: %s' % (g, op, point, why))
    return None


# ------------------------------------------------------------------------------------------------
# exact special values of ONE (or two) component(s) of an operand combined with generic other components: scale exactly 1
# (sigma == 0), rotation exactly the identity (phi == 0) with generic translation / scale, translation exactly 0, rotation
# about a coordinate axis (two quaternion components exactly 0), exact half turn (w == 0), zero point / zero homogeneous
# coordinate - for every Function whose Jacobian is judged.  The code under test switches coefficient formulas on exactly
# these values (rxso3_Ws: four regimes of (sigma, theta); so3_Jl / calcQ / Log: theta <= eps), and random generic points never
# visit them.  Oracle: Richardson-extrapolated central differences (h = 1e-3 and 2e-3, error O(h^4)) of the left-perturbed
# real forward program - far enough from the special value that the closed-form coefficients beside the regime boundary
# are evaluated without cancellation (h = 1e-6 next to theta == 0 with a generic translation is off by 2e-5) - with a tight
# tolerance (5e-7); for the truncated sim3 series the documented bound
# |cotangent| |ad xi|^6 / 5040 e^|ad xi| (spectral norm) is added.
G_ATOMS = {'SO3': ['axis', 'w0'], 'SE3': ['r0', 't0', 'axis', 'w0'], 'RxSO3': ['s1', 'r0', 'axis', 'w0'], 'Sim3': ['s1', 'r0', 't0', 'axis', 'w0']}
A_ATOMS = {'SO3': ['axis'], 'SE3': ['phi0', 'tau0', 'axis'], 'RxSO3': ['sig0', 'phi0', 'axis'], 'Sim3': ['sig0', 'phi0', 'tau0', 'axis']}
G2A = {'s1': 'sig0', 'r0': 'phi0', 't0': 'tau0', 'axis': 'axis'}
PARTS = {'SO3': 1, 'SE3': 2, 'RxSO3': 2, 'Sim3': 3}


def special_kinds(g, what, op=None):
    """tuples of atoms: every single special value, every pair of special parts that is not the whole identity / zero
    element, and scale exactly 1 with the other rotation specials"""
    atoms = (G_ATOMS if what == 'G' else A_ATOMS)[g]
    if what == 'G' and op in ('Log', 'Jinvp'):
        atoms = [a for a in atoms if a != 'w0']              # Log is not differentiable at the half turn
    if what == 'G' and op == 'Jinvp':
        atoms = [a for a in atoms if a != 'r0']              # the property speaks about Jinvp away from the zero rotation
    part = [a for a in atoms if a in ('s1', 'r0', 't0', 'sig0', 'phi0', 'tau0')]
    kinds = [(a,) for a in atoms]
    kinds += [(a, b) for i, a in enumerate(part) for b in part[i + 1:] if PARTS[g] > 2]
    kinds += [(part[0], a) for a in atoms if a in ('axis', 'w0') and part and part[0] in ('s1', 'sig0')]
    return kinds


def special_alg(pp, torch, rng, g, atoms, scale):
    d = direction(rng)
    if 'axis' in atoms:
        k = rng.randrange(3)
        d = [rng.choice([-1.0, 1.0]) if i == k else 0.0 for i in range(3)]
    mag = rng.uniform(0.3, 1.0) * scale * 1.7
    phi = [0.0] * 3 if 'phi0' in atoms else [mag * v for v in d]
    tau = [0.0] * 3 if 'tau0' in atoms else [rng.uniform(-1, 1) * scale for _ in range(3)]
    sg = [0.0] if 'sig0' in atoms else [rng.choice([-1, 1]) * rng.uniform(0.2, 1.0) * scale]
    return {'SO3': phi, 'SE3': tau + phi, 'RxSO3': phi + sg, 'Sim3': tau + phi + sg}[g]


def special_grp(pp, torch, rng, g, atoms, small):
    if small:
        # stay where the truncated sim3 series are accurate: Exp of a small algebra element, special parts made exact
        a = special_alg(pp, torch, rng, g, [G2A[k] for k in atoms], 0.2)
        t, q, s = split_elt(g, [float(v) for v in alg(pp, torch, g, a, rg=False).Exp().tensor().tolist()])
    else:
        ang = rng.uniform(0.2, 2.6)
        u = direction(rng)
        if 'axis' in atoms:
            k = rng.randrange(3)
            u = [rng.choice([-1.0, 1.0]) if i == k else 0.0 for i in range(3)]
        q = [math.sin(ang / 2) * v for v in u] + [math.cos(ang / 2)]
        if 'w0' in atoms:
            q = list(u) + [0.0]
        t, s = [rng.uniform(-3, 3) for _ in range(3)], math.exp(rng.uniform(-1, 1))
    if 's1' in atoms:
        s = 1.0
    if 'r0' in atoms:
        q = [0.0, 0.0, 0.0, 1.0]
    if 't0' in atoms:
        t = [0.0, 0.0, 0.0]
    return join_elt(g, t, q, s)


def special_point(rng, n, kind):
    p = [rng.uniform(-2, 2) for _ in range(n)]
    if kind == 'p0':
        p = [0.0] * n
    elif kind == 'pz':
        p[rng.randrange(3)] = 0.0
    elif kind == 'w0':
        p[3] = 0.0
    elif kind == 'w1':
        p[3] = 1.0
    elif kind == 'xyz0':
        p[:3] = [0.0] * 3
    return p


OPERANDS = {'Mul': 'GG', 'Inv': 'G', 'Act': 'GP', 'Act4': 'GQ', 'Adj': 'GA', 'AdjT': 'GA', 'Exp': 'A', 'Log': 'G', 'Retr': 'GA', 'matrix': 'G', 'Jinvp': 'GA'}


def ad_norm(g, x):
    """spectral norm of ad(x) for a sim3 / se3 / rxso3 / so3 vector (floats)"""
    import numpy as np
    A = mp_ad(g, x)
    return float(np.linalg.norm(np.array([[float(A[i, j]) for j in range(A.cols)] for i in range(A.rows)]), 2)) * (1 + 1e-12)


def fd_rich(pp, torch, fn, inputs, cot, h=1e-3):
    a, b = fd_grads(pp, torch, fn, inputs, cot, h=h), fd_grads(pp, torch, fn, inputs, cot, h=2 * h)
    return [[(4.0 * u - v) / 3.0 for u, v in zip(x, y)] for x, y in zip(a, b)]


def special_tol(pp, torch, g, op, ins, cot, base):
    if g != 'Sim3' or op not in SERIES_OPS:
        return base
    na, amax = 0.0, 0.0
    for x, w in zip(ins, OPERANDS[op]):
        if w == 'A':
            amax = max(amax, float(x.tensor().norm()))
        if (w == 'A' and op in ('Exp', 'Retr')) or (w == 'G' and op in ('Log', 'Jinvp')):
            v = x.tensor() if w == 'A' else x.Log().tensor()
            na = max(na, ad_norm(g, [float(z) for z in v.tolist()]))
    return base + 4.0 * float(cot.norm()) * (1.0 + amax) * na ** 6 / 5040.0 * math.exp(na)


def special_eval(pp, torch, c):
    g, op = c['g'], c['op']
    ins = [dec(pp, torch, g, e) for e in c['ins']]
    cot = torch.tensor(c['cot'], dtype=torch.float64)
    tol = special_tol(pp, torch, g, op, ins, cot, c.get('tol', 5e-7))
    # one central difference with h = 1e-4 first (error ~1e-9 on these operands); a disagreement is reported only if the
    # extrapolated differences (error ~1e-11) confirm it
    why = compare_fd(pp, torch, single_op_fn(pp, op), ins, cot, tol=tol, fd=lambda *a: fd_grads(*a, h=1e-4))
    return why and compare_fd(pp, torch, single_op_fn(pp, op), ins, cot, tol=tol, fd=fd_rich)


def special_values(ctx, pp, torch):
    rng = ctx.rng
    known_ops = {tuple(k.split(':')[1:3]) for k in ctx.known if k.startswith('grad-wrong:')}
    dt = torch.float64
    for g in GROUPS:
        for op in ALL_OPS:
            if (g, op) in known_ops:
                continue
            sig = OPERANDS[op]
            smallG = g == 'Sim3' and op in ('Log', 'Jinvp')
            smallA = g == 'Sim3' and op in ('Exp', 'Retr')
            opts = []
            for w in sig:
                if w == 'G':
                    opts.append(special_kinds(g, 'G', op) if not smallG else [k for k in special_kinds(g, 'G', op) if 'w0' not in k])
                elif w == 'A':
                    opts.append(special_kinds(g, 'A', op))
                else:
                    opts.append([('p0',), ('pz',)] + ([('w0',), ('w1',), ('xyz0',)] if w == 'Q' else []))
            combos = []
            for k, ks in enumerate(opts):
                for kind in ks:
                    combos.append([kind if i == k else () for i in range(len(sig))])
            if len(sig) == 2:
                for _ in range(ctx.scale(2, 12)):
                    combos.append([rng.choice(opts[0]), rng.choice(opts[1])])
            for rep in range(ctx.scale(1, 4)):
                for kinds in combos:
                    ins = []
                    for w, kind in zip(sig, kinds):
                        if w == 'G':
                            if kind:
                                v = special_grp(pp, torch, rng, g, kind, smallG)
                            else:
                                v = generic_inputs(pp, torch, rng, g, op, 'generic')[0].tensor().tolist()
                            ins.append(grp(pp, torch, g, v, rg=False))
                        elif w == 'A':
                            ins.append(alg(pp, torch, g, special_alg(pp, torch, rng, g, kind, 0.2 if smallA else 0.7), rg=False))
                        else:
                            n = 3 if w == 'P' else 4
                            ins.append(torch.tensor(special_point(rng, n, kind[0] if kind else ''), dtype=dt))
                    if op in ('Log', 'Jinvp') and near_pi(pp, torch, ins):
                        continue
                    name = '/'.join('+'.join(k) or 'generic' for k in kinds)
                    c = dict(kind='special', g=g, op=op, special=name, ins=[enc(pp, x) for x in ins], cot=[rng.uniform(-1, 1) for _ in range(out_cot_dim(g, op))])
                    ctx.case(('special', g, op, name, rep, rng.random()), branch='special-%s-%s' % (g, name))
                    try:
                        why = special_eval(pp, torch, c)
                    except Exception as e:
                        why = 'the case could not be evaluated: %r' % (e,)
                    if why:
                        ctx.violation('grad-wrong:%s:%s' % (g, op), '%s %s with exact special components (%s; operands %s): %s' % (
                            g, op, name, [e['v'] for e in c['ins']], why), c)
                        break
                else:
                    continue
                break


# ------------------------------------------------------------------------------------------------
# several nodes of the same (or a sibling) Function alive at once, state between forward and backward, batches mixing
# special and generic elements, broadcast / non-contiguous operands.  Oracle: left-perturbation finite differences of the
# real forward program (fd_grads), nothing else.
ALL_OPS = ('Mul', 'Inv', 'Act', 'Act4', 'Adj', 'AdjT', 'Exp', 'Log', 'Retr', 'matrix', 'Jinvp')
ARITY = {'Mul': 2, 'Inv': 1, 'Act': 2, 'Act4': 2, 'Adj': 2, 'AdjT': 2, 'Exp': 1, 'Log': 1, 'Retr': 2, 'matrix': 1, 'Jinvp': 2}
VEC2 = ('Act', 'Act4', 'Adj', 'AdjT', 'Jinvp')          # (group, vector) -> vector of the same kind: chainable in the 2nd operand
NCOT = 16


def enc(pp, x):
    if isinstance(x, pp.LieTensor):
        return dict(k='A' if x.ltype.on_manifold else 'G', v=x.tensor().detach().tolist())
    return dict(k='P', v=x.detach().tolist())


def dec(pp, torch, g, e):
    if e['k'] == 'G':
        return grp(pp, torch, g, e['v'], rg=False)
    if e['k'] == 'A':
        return alg(pp, torch, g, e['v'], rg=False)
    return torch.tensor(e['v'], dtype=torch.float64)


def rd(pp, out):
    """Euclidean read-out of a node: group-valued results through matrix() (the cotangent of a group-valued tensor is
    in tangent coordinates by the library's convention, so raw quaternion coordinates are never differentiated)"""
    if isinstance(out, pp.LieTensor):
        return (out.tensor() if out.ltype.on_manifold else out.matrix()).reshape(-1)
    return out.reshape(-1)


def multi_program(pp, torch, g, scen, ops, cots):
    f1, f2 = single_op_fn(pp, ops[0]), single_op_fn(pp, ops[-1])
    n1 = ARITY[ops[0]]
    c = [torch.tensor(v, dtype=torch.float64) for v in cots]

    def dot(i, out):
        r = rd(pp, out)
        return (c[i][:r.numel()] * r).sum().reshape(1)
    op = ops[0]
    if scen == 'sum':
        return lambda *z: dot(0, f1(*z[:n1])) + dot(1, f2(*z[n1:]))
    if scen == 'shared2':        # z = X1, X2, s
        return lambda X1, X2, s: dot(0, f1(X1, s)) + dot(1, f1(X2, s))
    if scen == 'shared1':        # z = X, s1, s2
        return lambda X, s1, s2: dot(0, f1(X, s1)) + dot(1, f1(X, s2))
    assert scen == 'nested'
    if op in VEC2:
        return lambda X1, X2, s: dot(0, f1(X1, f2(X2, s)))
    if op == 'Mul':
        return lambda X1, X2, X3: dot(0, f1(f1(X1, X2), X3)) + dot(1, f1(X1, f1(X2, X3)))
    if op == 'Inv':
        return lambda X1, X2: dot(0, f1(f1(X1) @ X2))
    if op == 'Exp':
        return lambda a1, a2: dot(0, f1(a1) @ f1(a2))
    if op == 'Retr':
        return lambda X, a1, a2: dot(0, f1(f1(X, a1), a2))
    if op == 'Log':
        return lambda X1, X2: dot(0, f1(f1(X1).Exp() @ X2))
    return lambda X1, X2: dot(0, f1(X1) @ f1(X2))          # matrix


def multi_inputs(pp, torch, rng, g, scen, ops, points):
    i1 = generic_inputs(pp, torch, rng, g, ops[0], points[0])
    i2 = generic_inputs(pp, torch, rng, g, ops[-1], points[1])
    op = ops[0]
    if scen == 'sum':
        return i1 + i2
    if scen == 'shared2':
        return [i1[0], i2[0], i1[1]]
    if scen == 'shared1':
        return [i1[0], i1[1], i2[1]]
    if op in VEC2:
        return [i1[0], i2[0], i2[1]]
    if op == 'Mul':
        return [i1[0], i1[1], i2[0]]
    if op == 'Retr':
        return [i1[0], i1[1], i2[1]]
    return [i1[0], i2[0]]


def series_tol(pp, g, ops, ins, base=2e-5, nodes=2):
    """documented truncation of the sim3 series: error <= const * |ad xi|^6"""
    if g != 'Sim3' or not any(o in SERIES_OPS for o in ops):
        return base
    xi = 0.0
    for x in ins:
        if isinstance(x, pp.LieTensor):
            v = x.tensor() if x.ltype.on_manifold else x.Log().tensor()
            xi = max(xi, float(v.reshape(-1, v.shape[-1]).norm(dim=-1).max()))
    return base + 4.0 * nodes * xi ** 6


def near_pi(pp, torch, xs, margin=0.1):
    """some group element (or product of two) has a rotation angle within margin of pi: Log is not differentiable there"""
    Gs = [x for x in xs if isinstance(x, pp.LieTensor) and not x.ltype.on_manifold]
    Gs = Gs + [a @ b for a in Gs for b in Gs if a is not b and a.shape == b.shape]
    for X in Gs:
        t = X.tensor().reshape(-1, X.shape[-1])
        q = t[:, 3:7] if t.shape[-1] >= 7 else t[:, 0:4]
        ang = 2 * torch.atan2(q[:, :3].norm(dim=-1), q[:, 3].abs())
        if float(ang.max()) > math.pi - margin:
            return True
    return False


def diff_grads(ig, fg, tol, names=None):
    for k, (a, b) in enumerate(zip(ig, fg)):
        if any(not math.isfinite(v) for v in a):
            return '%s: gradient contains NaN/Inf: %s' % (names[k] if names else 'input %d' % k, a)
        scale = max(1.0, max(abs(v) for v in b + a))
        for j, (u, v) in enumerate(zip(a, b)):
            if abs(u - v) > tol * scale:
                return '%s slot %d: autograd %.9g vs left-perturbation finite difference %.9g (all: %s vs %s)' % (
                    names[k] if names else 'input %d' % k, j, u, v, [round(z, 6) for z in a], [round(z, 6) for z in b])
    return None


def leaves(xs):
    return [x.detach().clone().requires_grad_() for x in xs]


def padded(pp, torch, out, cot):
    t = out.tensor() if isinstance(out, pp.LieTensor) else out
    rows = cot.shape[0] if cot.dim() == 2 else 1          # per item: the first slots of the flattened result
    full = torch.zeros(rows, t.numel() // rows, dtype=t.dtype)
    full[:, :cot.shape[-1]] = cot.reshape(rows, -1)
    return t, full.reshape(t.shape)


def glist(gs, xs):
    return [[float(v) for v in (g_.reshape(-1).tolist() if g_ is not None else [0.0] * x.numel())] for g_, x in zip(gs, xs)]


def multi_eval(pp, torch, c):
    """evaluates one recorded multi-node case; returns a description of the failure or None"""
    g, scen, ops = c['g'], c['scen'], c['ops']
    ins = [dec(pp, torch, g, e) for e in c['ins']]
    tol = series_tol(pp, g, ops, ins, c.get('tol', 2e-5))
    one = torch.ones(1, dtype=torch.float64)
    if scen in ('sum', 'shared1', 'shared2', 'nested'):
        if ('Log' in ops or 'Jinvp' in ops) and near_pi(pp, torch, ins):
            return None
        return compare_fd(pp, torch, multi_program(pp, torch, g, scen, ops, c['cots']), ins, one, tol=tol)
    cots = [torch.tensor(v, dtype=torch.float64) for v in c['cots']]
    f1, f2 = single_op_fn(pp, ops[0]), single_op_fn(pp, ops[-1])
    n1 = ARITY[ops[0]]
    if scen == 'interleaved':
        # forward of node 1, forward of node 2 (both graphs alive), more forward calls of the same Functions with other
        # operands (with and without grad mode), then the backward of node 1 (twice), then of node 2
        i1, i2, i3 = ins[:n1], ins[n1:n1 + ARITY[ops[-1]]], ins[n1 + ARITY[ops[-1]]:]
        if ('Log' in ops or 'Jinvp' in ops) and near_pi(pp, torch, ins):
            return None
        try:
            a, b = leaves(i1), leaves(i2)
            o1 = f1(*a)
            o2 = f2(*b)
            with torch.no_grad():
                f1(*i3)
            t1, c1 = padded(pp, torch, o1, cots[0])
            g1 = glist(torch.autograd.grad(t1, a, c1, retain_graph=True, allow_unused=True), a)
            f1(*leaves(i3))
            g1b = glist(torch.autograd.grad(t1, a, c1, allow_unused=True), a)
            t2, c2 = padded(pp, torch, o2, cots[1])
            g2 = glist(torch.autograd.grad(t2, b, c2, allow_unused=True), b)
        except Exception as e:
            return 'autograd raised %r' % (e,)
        if g1 != g1b:
            return 'the backward of the same node gives %s the first time and %s after another forward call of %s' % (g1, g1b, ops[0])
        why = diff_grads(g1, fd_grads(pp, torch, f1, i1, cots[0]), tol, ['node 1 (%s, backward after a later forward of %s) input %d' % (ops[0], ops[-1], k) for k in range(len(i1))])
        return why or diff_grads(g2, fd_grads(pp, torch, f2, i2, cots[1]), tol, ['node 2 (%s) input %d' % (ops[-1], k) for k in range(len(i2))])
    if scen == 'float32':
        # the same call in float32: finite, and within sqrt(eps)-level of the float64 finite differences
        if ops[0] in ('Log', 'Jinvp') and near_pi(pp, torch, ins, 0.3):
            return None
        try:
            a = [(pp.LieTensor(x.tensor().float(), ltype=x.ltype) if isinstance(x, pp.LieTensor) else x.float()).requires_grad_() for x in ins]
            t, full = padded(pp, torch, f1(*a), cots[0].float())
            gs = torch.autograd.grad(t, a, full, allow_unused=True)
        except Exception as e:
            return 'autograd raised %r in float32' % (e,)
        if any(g_ is not None and g_.dtype != torch.float32 for g_ in gs):
            return 'float32 inputs give gradients of dtype %s' % [g_.dtype for g_ in gs if g_ is not None]
        return diff_grads(glist(gs, a), fd_grads(pp, torch, f1, ins, cots[0]), max(tol, 2e-3), ['float32 input %d' % k for k in range(len(a))])
    assert scen in ('batched', 'broadcast')
    # one call on a batch mixing special and generic elements (operands in the recorded memory layout), judged item by
    # item against the finite differences of the single-element program; 'broadcast': the first operand is a single
    # element used by every item, its gradient is the sum over the items
    lay = c.get('layout', 'contiguous')
    B = len(c['ins'][-1]['v'])

    def relayout(x):
        t = x.tensor() if isinstance(x, pp.LieTensor) else x
        if t.dim() == 1:
            return x.detach().clone()
        if lay == 'transposed':
            t2 = t.t().contiguous().t()
        elif lay == 'strided':
            big = torch.zeros(2 * t.shape[0], t.shape[1] + 1, dtype=t.dtype)
            big[::2, :-1] = t
            t2 = big[::2, :-1]
        else:
            t2 = t.clone()
        return pp.LieTensor(t2, ltype=x.ltype) if isinstance(x, pp.LieTensor) else t2
    item = lambda x, b: x if (x.tensor() if isinstance(x, pp.LieTensor) else x).dim() == 1 else x[b]
    items = [[item(x, b) for x in ins] for b in range(B)]
    if ops[0] in ('Log', 'Jinvp') and any(near_pi(pp, torch, it) for it in items):
        return None
    try:
        a = [relayout(x).requires_grad_() for x in ins]
        call = list(a)
        if scen == 'broadcast' and lay == 'expanded':
            call[0] = a[0].expand(B, a[0].shape[-1]) if not isinstance(a[0], pp.LieTensor) else pp.LieTensor(a[0].tensor().expand(B, a[0].shape[-1]), ltype=a[0].ltype)
        o = f1(*call)
        t, full = padded(pp, torch, o, cots[0])
        gs = torch.autograd.grad(t, a, full, allow_unused=True)
    except Exception as e:
        return 'autograd raised %r' % (e,)
    exp_first = None
    tols = []
    for b in range(B):
        if 'h' in c:          # accurate differences: only the documented truncation bound of the item's own operands is allowed
            tol = special_tol(pp, torch, g, ops[0], items[b], cots[0][b], c.get('tol', 2e-5))
        tols.append(tol)
        fg = fd_grads(pp, torch, f1, items[b], cots[0][b], h=c.get('h', 1e-6))
        got = []
        for k, (g_, x) in enumerate(zip(gs, a)):
            if g_ is None:
                got.append([0.0] * len(fg[k]))
            elif g_.dim() == 1:
                got.append(None)
            else:
                got.append([float(v) for v in g_[b].tolist()])
        if got[0] is None:
            exp_first = fg[0] if exp_first is None else [u + v for u, v in zip(exp_first, fg[0])]
        ks = [k for k in range(len(got)) if got[k] is not None]
        why = diff_grads([got[k] for k in ks], [fg[k] for k in ks], tol, ['batch item %d input %d' % (b, k) for k in ks])
        if why:
            return why
    if exp_first is not None:
        return diff_grads([[float(v) for v in gs[0].tolist()]], [exp_first], sum(tols) if 'h' in c else tol, ['shared (broadcast) input 0, sum over the batch'])
    return None


def multi_node(ctx, pp, torch):
    rng = ctx.rng
    known_ops = {tuple(k.split(':')[1:3]) for k in ctx.known if k.startswith('grad-wrong:')}
    SIB = {'Adj': 'AdjT', 'AdjT': 'Adj', 'Act': 'Act4', 'Act4': 'Act', 'Exp': 'Retr', 'Retr': 'Exp', 'Mul': 'Inv', 'Inv': 'Mul',
           'Log': 'Jinvp', 'Jinvp': 'Log', 'matrix': 'Act'}
    rounds = ctx.scale(1, 6)
    for rnd in range(rounds):
        for g in GROUPS:
            for op in ALL_OPS:
                if (g, op) in known_ops:
                    continue
                scens = ['sum', 'interleaved', 'nested', 'batched']
                if ARITY[op] == 2:
                    scens += ['shared2', 'shared1', 'broadcast']
                # quick tier: 'interleaved' and 'sum' always (same Function twice), two of the others in rotation
                rest = [s for s in scens if s not in ('sum', 'interleaved')]
                rng.shuffle(rest)
                todo = [('sum', op), ('interleaved', op), ('sum' if rng.random() < 0.5 else 'interleaved', SIB[op]), ('batched', op), ('float32', op)] + [
                    (s, op) for s in [s for s in rest if s != 'batched'][:2 if ctx.thorough else 1]]
                for scen, op2 in todo:
                    if (g, op2) in known_ops:
                        continue
                    ops = [op, op2] if scen in ('sum', 'interleaved') else [op]
                    pts = ['generic', rng.choice(['generic', 'generic', 'identity', 'tiny'])]
                    rng.shuffle(pts)
                    if 'Jinvp' in ops:
                        pts = ['generic' if p == 'identity' else p for p in pts]
                    c = dict(kind='multi', g=g, scen=scen, ops=ops, points=pts)
                    if scen in ('batched', 'broadcast'):
                        B = 5
                        bp = ['identity', 'tiny', 'generic', 'generic', 'special']
                        rng.shuffle(bp)
                        if op == 'Jinvp':
                            bp = ['generic' if p == 'identity' else p for p in bp]
                        its = [generic_inputs(pp, torch, rng, g, op, p) for p in bp]
                        st = []
                        for k in range(ARITY[op]):
                            if scen == 'broadcast' and k == 0:
                                st.append(its[-1][0])
                                continue
                            col = torch.stack([(it[k].tensor() if isinstance(it[k], pp.LieTensor) else it[k]) for it in its])
                            st.append(pp.LieTensor(col, ltype=its[0][k].ltype) if isinstance(its[0][k], pp.LieTensor) else col)
                        c.update(points=bp, h=1e-4, ins=[enc(pp, x) for x in st], layout=rng.choice(['contiguous', 'transposed', 'strided'] + (['expanded'] if scen == 'broadcast' else [])),
                                 cots=[[[rng.uniform(-1, 1) for _ in range(out_cot_dim(g, op))] for _ in range(B)]])
                    elif scen == 'float32':
                        pt = rng.choice(['generic', 'generic', 'identity'] if op != 'Jinvp' else ['generic'])
                        xs = generic_inputs(pp, torch, rng, g, op, pt)
                        c.update(points=[pt], ins=[enc(pp, x) for x in xs], cots=[[rng.uniform(-1, 1) for _ in range(out_cot_dim(g, op))]])
                    elif scen == 'interleaved':
                        xs = generic_inputs(pp, torch, rng, g, op, pts[0]) + generic_inputs(pp, torch, rng, g, op2, pts[1]) + generic_inputs(pp, torch, rng, g, op, 'generic')
                        c.update(ins=[enc(pp, x) for x in xs], cots=[[rng.uniform(-1, 1) for _ in range(out_cot_dim(g, o))] for o in ops])
                    else:
                        xs = multi_inputs(pp, torch, rng, g, scen, ops, pts)
                        c.update(ins=[enc(pp, x) for x in xs], cots=[[rng.uniform(-1, 1) for _ in range(NCOT)] for _ in range(2)])
                    ctx.case(('multi', g, scen, tuple(ops), rnd, rng.random()), branch='multi-%s-%s' % (scen, g))
                    try:
                        why = multi_eval(pp, torch, c)
                    except Exception as e:
                        why = 'the scenario could not be evaluated: %r' % (e,)
                    if why:
                        ctx.violation('grad-wrong:%s:%s' % (g, op), '%s %s, scenario %s (%s; points %s): %s' % (
                            g, '+'.join(ops), scen, SCEN_TEXT[scen], c['points'], why), c)


SCEN_TEXT = {'sum': 'two nodes with different operands in one graph, one backward call',
             'interleaved': 'two graphs alive, further forward calls before the backward calls',
             'nested': 'the Function applied to its own result',
             'shared1': 'one group element used by two nodes', 'shared2': 'one second operand used by two nodes',
             'batched': 'one batched call mixing identity / tiny / generic items and one item with exactly special components (scale 1, zero rotation, zero translation, axis, half turn), judged item by item',
             'broadcast': 'single first operand against a batch of second operands',
             'float32': 'the call in float32 against float64 finite differences, tolerance 2e-3'}


# ------------------------------------------------------------------------------------------------
def run(ctx):
    pp = import_pypose()
    import torch
    ctx.rule = RULE
    rng = ctx.rng
    # ---------------------------------------------------------------- polynomial Functions, exact route
    n = ctx.scale(1200, 20000)
    combos = [(g, op, kind) for g in GROUPS for op in OPC for kind in ('unit', 'dyadic', 'identity')]
    cases, meta = [], []
    k = 0
    while len(meta) < n:
        g, op, kind = combos[k % len(combos)]
        k += 1
        try:
            args, out, info = poly_case(pp, torch, rng, g, op, kind)
        except Exception as e:
            ctx.violation('grad-raises:%s:%s' % (g, op), 'autograd raised %r' % (e,), dict(kind='poly', g=g, op=op, pkind=kind))
            continue
        if any(not math.isfinite(float(v)) for v in out):
            ctx.violation('grad-nonfinite:%s:%s' % (g, op), 'gradient contains NaN/Inf', dict(kind='poly', g=g, op=op, info=info))
            continue
        i = len(meta)
        ctx.case((g, op, repr(info)), nontrivial=(kind != 'identity'), branch='%s-%s-%s' % (g, op, kind),
                 sample=dict(group=g, op=op, **info, impl_grads=[float(v) for v in out]) if i % 173 == 11 else None)
        meta.append(dict(kind='poly', g=g, op=op, pkind=kind, info=info))
        cases.append('(%d%%nat, %d%%nat, %d%%nat, %s, %s)' % (i, GID[g], OPC[op], coq_list(qlist(a) for a in args), qlist(out)))
    hdr = 'From PV Require Import Base.Num Model.LieGroup Model.LieJac Model.LieJacEval.\nFrom Coq Require Import List ZArith QArith Bool. Import ListNotations.\n'
    files = [('poly_%03d' % si, hdr + 'Eval vm_compute in jac_bad %s.\n' % coq_list(sh)) for si, sh in enumerate(shard(cases, 250))]
    res = run_case_files('C04', files, timeout=900)
    for name, (rc, out) in sorted(res.items()):
        ev = parse_evals(out)
        if rc != 0 or len(ev) != 1:
            ctx.obligation_broken('correspondence-file:' + name, out[-1500:])
            continue
        for i in parse_nat_list(ev[0]):
            ctx.mismatch('poly:%s:%s' % (meta[i]['g'], meta[i]['op']), meta[i])
    # ---------------------------------------------------------------- Exp / Log backward, enclosure route
    ecases, emeta = [], []
    ne = ctx.scale(60, 1500)
    for g in GROUPS:
        for op in ('Exp', 'Log'):
            for t in range(ne if g in ('SO3', 'SE3') else max(6, ne // 2)):
                point = ['zero', 'tiny', 'generic', 'generic', 'large'][t % 5]
                dt = torch.float64
                if op == 'Exp':
                    mag = {'zero': 0.0, 'tiny': 10 ** rng.uniform(-12, -5), 'generic': rng.uniform(0.1, 1.5), 'large': rng.uniform(1.5, 2.9)}[point]
                    d = direction(rng)
                    rot = [mag * a for a in d]
                    tr = [rng.uniform(-2, 2) for _ in range(3)]      # translation generic also when the rotation is zero / tiny
                    sg = [rng.uniform(-1, 1)]
                    if t % 6 == 5:
                        sg = [0.0]                  # scale exactly 1 with a generic rotation / translation
                    if t % 7 == 6:
                        tr = [0.0, 0.0, 0.0]
                    x = {'SO3': rot, 'SE3': tr + rot, 'RxSO3': rot + sg, 'Sim3': tr + rot + sg}[g]
                    X = alg(pp, torch, g, x)
                    saved = x
                    outT = X.Exp().tensor()
                    gz = [rng.uniform(-1, 1) for _ in range(GDIM[g])]
                else:
                    xg = generic_elt(rng, g, torch, dt)
                    if point in ('zero', 'tiny'):
                        a0 = [0.0] * ADIM[g] if point == 'zero' else [1e-8 * rng.uniform(-1, 1) for _ in range(ADIM[g])]
                        xg = [float(v) for v in alg(pp, torch, g, a0, rg=False).Exp().tensor().tolist()]
                        if t % 2:
                            # identity / tiny rotation but generic translation and scale (small-angle branches of calcQ, Ws)
                            tt, qq, ss = split_elt(g, generic_elt(rng, g, torch, dt))
                            t0, q0, s0 = split_elt(g, xg)
                            xg = join_elt(g, tt, q0, ss)
                    if t % 6 == 5 or t % 7 == 6:
                        # scale exactly 1 / translation exactly 0 with the other components as they are
                        t0, q0, s0 = split_elt(g, xg)
                        xg = join_elt(g, [0.0, 0.0, 0.0] if t % 7 == 6 else t0, q0, 1.0 if t % 6 == 5 else s0)
                    X = grp(pp, torch, g, xg)
                    x = xg
                    outT = X.Log().tensor()
                    saved = [float(v) for v in outT.tolist()]
                    gz = [rng.uniform(-1, 1) for _ in range(ADIM[g])]
                gz = [float(v) for v in torch.tensor(gz, dtype=dt).tolist()]
                gx, = torch.autograd.grad(outT, [X], torch.tensor(gz, dtype=dt))
                gx = [float(v) for v in gx.tolist()]
                if any(not math.isfinite(v) for v in gx):
                    ctx.violation('grad-nonfinite:%s:%s' % (g, op), '%s %s gradient at %s contains NaN/Inf: %s' % (g, op, x, gx), dict(kind='explog', g=g, op=op, x=x, gz=gz))
                    continue
                i = len(emeta)
                ctx.case((g, op, tuple(x), tuple(gz)), nontrivial=(point != 'zero'), branch='%s-%s-%s' % (g, op, point))
                emeta.append(dict(kind='explog', g=g, op=op, x=x, gz=gz, impl=gx, point=point))
                eps = 2.0 ** -52
                scale = max(1.0, max(abs(v) for v in gx))
                # the truncated sim3 series are compared with the model, which carries the same truncation
                tol = 1e-7 * scale
                fnm = 'exp_bwd' if op == 'Exp' else 'log_bwd'
                ecases.append(dict(idx=i, expr='%s (NF:=@NF@) (TF:=TransIv) E64 %d %s %s' % (fnm, GID[g], ivlist(saved), ivlist(gz)),
                                   comps=[(j, gx[j], tol) for j in range(len(gx))]))
    r = run_interval('C04', 'Model.LieGroup Model.LieExp Model.LieLog Model.LieJac', ecases, tag='jac')
    for name, out in r['broken']:
        ctx.obligation_broken('correspondence-file:' + name, out)
    ctx.notes.append('Exp/Log backward enclosure: %d within tolerance, %d outside, %d undecided' % (len(r['ok']), len(set(i for i, _ in r['bad'])), len(r['undecided'])))
    if len(r['undecided']) > max(3, len(ecases) // 10):
        ctx.obligation_broken('enclosure-undecided', '%d of %d Exp/Log backward cases undecided, e.g. %s' % (len(r['undecided']), len(ecases), [emeta[i] for i in r['undecided'][:2]]))
    for i in sorted(set(i for i, _ in r['bad'])):
        m = emeta[i]
        mm = dict(family='explog:%s:%s' % (m['g'], m['op']), case=m, detail='')
        ctx.mismatches.append(mm)
        why = confirm_explog(pp, torch, m)
        if why:
            mm['explained'] = True
            saved = m['x'] if m['op'] == 'Exp' else [float(v) for v in grp(pp, torch, m['g'], m['x'], rg=False).Log().tensor().tolist()]
            ctx.violation('grad-accuracy:%s:%s:%s' % (m['g'], m['op'], angle_regime(m['g'], saved)), why, m)
    # search around an unexplained Exp / Log backward disagreement: the same family at mid-range arguments, where a wrong
    # series coefficient exceeds both the round-off floor and the documented truncation bound
    for (g, op) in sorted({(m['case']['g'], m['case']['op']) for m in ctx.mismatches if not m.get('explained') and m['case'].get('kind') == 'explog'}):
        hit = None
        for mag in (0.5, 0.25, 0.8, 0.12, 1.0, 0.35, 0.06, 0.6):
            for _ in range(3):
                xa = [rng.uniform(-1, 1) for _ in range(ADIM[g])]
                nx = math.sqrt(sum(v * v for v in xa)) or 1.0
                xa = [mag * v / nx for v in xa]
                x = xa if op == 'Exp' else [float(v) for v in alg(pp, torch, g, xa, rg=False).Exp().tensor().tolist()]
                cnd = dict(kind='explog', g=g, op=op, x=x, gz=[rng.uniform(-1, 1) for _ in range(GDIM[g] if op == 'Exp' else ADIM[g])], point='search')
                why = confirm_explog(pp, torch, cnd)
                if why:
                    hit = (cnd, why)
                    break
            if hit:
                break
        if hit:
            for m in ctx.mismatches:
                if (m['case']['g'], m['case']['op']) == (g, op) and m['case'].get('kind') == 'explog':
                    m['explained'] = True
            saved = hit[0]['x'] if op == 'Exp' else [float(v) for v in grp(pp, torch, g, hit[0]['x'], rg=False).Log().tensor().tolist()]
            ctx.violation('grad-accuracy:%s:%s:%s' % (g, op, angle_regime(g, saved)), hit[1], hit[0])
    ctx.traces = len(meta) + len(r['ok'])
    # ---------------------------------------------------------------- search: finite-difference oracle per (group, op) family
    fams = sorted({(m['case']['g'], m['case']['op']) for m in ctx.mismatches if not m.get('explained')})
    for (g, op) in fams:
        found = None
        for point in ('generic', 'generic', 'generic', 'identity', 'tiny'):
            found = fd_single(pp, torch, rng, g, op, point)
            if found:
                break
        if found:
            for m in ctx.mismatches:
                if (m['case']['g'], m['case']['op']) == (g, op):
                    m['explained'] = True
            ctx.violation('grad-wrong:%s:%s' % (g, op), found['what'], found)
    for key in list(ctx.known):
        if key in ctx.known_hit or key not in KNOWN_WITNESS:
            continue
        if confirm_explog(pp, torch, KNOWN_WITNESS[key]):
            ctx.known_hit[key] = 'witness still fails'
    # ---------------------------------------------------------------- known findings: replay their family on every run
    for key in list(ctx.known):
        if key in ctx.known_hit or not key.startswith('grad-wrong:'):
            continue
        _, g, op = key.split(':')
        for point in ('generic', 'generic', 'generic'):
            f = fd_single(pp, torch, rng, g, op, point)
            if f:
                ctx.known_hit[key] = f['what']
                break
    # ---------------------------------------------------------------- every (group, op), every run: autograd of the real
    # call (not the backward function in isolation) against left-perturbation finite differences at a generic point,
    # including that an input's gradient does not depend on which other inputs require grad
    for g in GROUPS:
        for op in ('Mul', 'Inv', 'Act', 'Act4', 'Adj', 'AdjT', 'Exp', 'Log', 'Retr', 'matrix'):
            ctx.case(('op-fd', g, op, rng.random()), branch='autograd-vs-fd-%s' % g)
            f = fd_single(pp, torch, rng, g, op, 'generic')
            if f:
                ctx.violation('grad-wrong:%s:%s' % (g, op), f['what'], f)
    # ---------------------------------------------------------------- Jinvp is differentiated by plain autograd through
    # Log and so3_Jl_inv / calcQ (no hand-written backward): left-perturbation finite differences, every run
    for g in GROUPS:
        for point in ('generic', 'generic', 'generic', 'tiny'):
            ctx.case(('jinvp-fd', g, point, rng.random()), branch='Jinvp-grad-%s' % g)
            f = fd_single(pp, torch, rng, g, 'Jinvp', point)
            if f:
                ctx.violation('grad-wrong:%s:Jinvp' % g, f['what'], f)
                break
    # ---------------------------------------------------------------- composite programs and finiteness scan (implementation level)
    composite(ctx, pp, torch)
    # ---------------------------------------------------------------- exact special values of one component of an operand
    # (scale 1, zero rotation, zero translation, coordinate axis, half turn, zero point) with generic other components
    special_values(ctx, pp, torch)
    # ---------------------------------------------------------------- several nodes of one Function alive at once, forward
    # calls between forward and backward, batches mixing special and generic items, broadcast / non-contiguous operands
    multi_node(ctx, pp, torch)


def shard(items, n):
    return [items[k:k + n] for k in range(0, len(items), n)]


# recorded witnesses of listed findings (float cancellation in calcQ's closed-form coefficients for tiny angles)
KNOWN_WITNESS = {
    'grad-accuracy:SE3:Exp:eps<theta<=1e-7': dict(kind='explog', g='SE3', op='Exp',
        x=[1.1, 0.2, -1.2, 3.030457633656632e-14, -5.050762722761053e-14, 8.081220356417687e-14], gz=[0.3, -0.7, 0.1, 0.4, 0.2, -0.6, 0.5]),
    'grad-accuracy:SE3:Log:eps<theta<=1e-7': dict(kind='explog', g='SE3', op='Log',
        x=[1.1, 0.2, -1.2, 1.515228816828316e-14, -2.5253813613805266e-14, 4.0406101782088436e-14, 1.0], gz=[0.3, -0.7, 0.1, 0.4, 0.2, -0.6]),
}


def tree_prog(pp, torch, ops, final, pick):
    def prog(X, a, p, Y, b, ops=tuple(ops), final=final, pick=tuple(pick)):
        Z = X
        for o, w in zip(ops, pick):
            W = (X, Y, Z)[w % 3]             # group operand of this node
            c = (a, b)[w // 3]               # algebra operand of this node
            if o == 'Mul':
                Z = Z @ (X, Y)[w % 2]
            elif o == 'Inv':
                Z = Z.Inv()
            elif o == 'ExpLog':
                Z = Z.Log().Exp()
            elif o == 'Retr':
                Z = Z.Retr(c)
            elif o == 'MulExp':
                Z = c.Exp() @ Z
            elif o == 'AdjRetr':
                Z = Z.Retr(W.Adj(c))
            else:
                Z = Z.Retr(W.AdjT(c))
        if final == 'Act':
            return Z.Act(p)
        if final == 'Act4':
            return Z.Act(torch.cat([p, torch.ones(1, dtype=p.dtype)]))
        if final == 'Log':
            return Z.Log()
        return Z.matrix().reshape(-1)
    return prog


def composite(ctx, pp, torch):
    """random well-typed trees; autograd vs left-perturbation finite differences.  A disagreement in a
    tree whose every Function family agrees with the (proved) model would be an autograd-plumbing
    defect; trees that contain a family with a listed finding are skipped."""
    rng = ctx.rng
    known_ops = {tuple(k.split(':')[1:3]) for k in ctx.known if k.startswith('grad-wrong:')}
    for t in range(ctx.scale(30, 400)):
        g = rng.choice(GROUPS)
        depth = rng.randint(2, 6)
        point = rng.choice(['generic', 'generic', 'identity', 'tiny'])
        X0 = generic_inputs(pp, torch, rng, g, 'Inv', point)[0]
        a0 = generic_inputs(pp, torch, rng, g, 'Exp', point)[0]
        p0 = torch.tensor([rng.uniform(-2, 2) for _ in range(3)], dtype=torch.float64)
        # second group / algebra leaf (always generic): nodes of one Function see different operands within one tree
        Y0 = generic_inputs(pp, torch, rng, g, 'Inv', 'generic')[0]
        b0 = generic_inputs(pp, torch, rng, g, 'Exp', 'generic')[0]
        pick = [rng.randrange(6) for _ in range(depth)]
        ops = []
        for _ in range(depth):
            ops.append(rng.choice(['Mul', 'Inv', 'ExpLog', 'Retr', 'MulExp', 'AdjRetr', 'AdjTRetr']))
        final = rng.choice(['Act', 'Log', 'matrix', 'Act4'])
        if g == 'Sim3':
            # trees through the truncated sim3 series are covered per Function (with the documented truncation bound)
            ops = [o if o in ('Mul', 'Inv') else rng.choice(['Mul', 'Inv']) for o in ops]
            final = rng.choice(['Act', 'matrix', 'Act4'])
        used = {(g, {'AdjRetr': 'Adj', 'AdjTRetr': 'AdjT'}.get(o, o)) for o in ops}
        if used & known_ops:
            continue

        prog = tree_prog(pp, torch, ops, final, pick)
        n_out = {'Act': 3, 'Act4': 4, 'Log': ADIM[g], 'matrix': 9 if g == 'SO3' else 16}[final]
        cot = torch.tensor([rng.uniform(-1, 1) for _ in range(n_out)], dtype=torch.float64)
        ctx.case(('tree', g, tuple(ops), final, point, t), branch='tree-depth%d' % depth)
        why = compare_fd(pp, torch, prog, [X0, a0, p0, Y0, b0], cot, tol=5e-5)
        if why:
            # rotation angle of an intermediate may sit near pi, where Log is not differentiable: retry decides
            big = False
            try:
                Z = X0
                big = float(prog(X0, a0, p0, Y0, b0).abs().max()) > 1e6
            except Exception:
                pass
            if 'NaN' in why or not big:
                ctx.violation('grad-wrong:tree:%s' % g, 'composite program %s -> %s on %s at a %s point: %s' % (ops, final, g, point, why),
                              dict(kind='tree', g=g, ops=ops, final=final, point=point, pick=pick, X=X0.tensor().tolist(), a=a0.tensor().tolist(), p=p0.tolist(),
                                   Y=Y0.tensor().tolist(), b=b0.tensor().tolist(), cot=cot.tolist()))


def replay(ctx, c):
    pp = import_pypose()
    import torch
    import random
    if c.get('kind') == 'fd-single':
        g, op = c['g'], c['op']
        rng = random.Random(0)
        ins = generic_inputs(pp, torch, rng, g, op, 'generic')
        new = []
        for x, v in zip(ins, c['inputs']):
            t = torch.tensor(v, dtype=torch.float64)
            new.append(pp.LieTensor(t, ltype=x.ltype) if isinstance(x, pp.LieTensor) else t)
        return compare_fd(pp, torch, single_op_fn(pp, op), new, torch.tensor(c['cot'], dtype=torch.float64))
    if c.get('kind') == 'multi':
        return multi_eval(pp, torch, c)
    if c.get('kind') == 'special':
        return special_eval(pp, torch, c)
    if c.get('kind') == 'tree':
        if 'pick' not in c:
            return 're-run the check: tree replays are regenerated from the seed'
        T = lambda v: torch.tensor(v, dtype=torch.float64)
        G, A = getattr(pp, c['g'] + '_type'), alg_type(pp, c['g'])
        ins = [pp.LieTensor(T(c['X']), ltype=G), pp.LieTensor(T(c['a']), ltype=A), T(c['p']), pp.LieTensor(T(c['Y']), ltype=G), pp.LieTensor(T(c['b']), ltype=A)]
        return compare_fd(pp, torch, tree_prog(pp, torch, c['ops'], c['final'], c['pick']), ins, T(c['cot']), tol=5e-5)
    if c.get('kind') == 'explog':
        return confirm_explog(pp, torch, c)
    if c.get('kind') in ('poly',):
        rng = random.Random(1)
        for point in ('generic', 'generic', 'identity'):
            f = fd_single(pp, torch, rng, c['g'], c['op'], point)
            if f:
                return f['what']
    return None
