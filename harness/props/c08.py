"""C08 correspondence: LevenbergMarquardt.step / GaussNewton.step vs Model/LM.v in a scripted universe.

One scalar parameter theta, residual r = theta (loss theta^2, J = 1), a user-supplied solver that
returns a scripted sequence of steps (or raises at chosen solves), the real strategies with
power-of-two hyper-parameters: every quantity is dyadic, float64 is exact, so the whole observable
trace (return value, loss, last, reject_count, theta, damping, radius, down, number of solver
calls) of up to 30 consecutive step() calls must equal the model's trace bit for bit.
The thresholds run through every legal regime (low < high, low = high, low > high, at / above the quality 1 of an
exact step); the zero step (quality 0/0, not a number) is part of both scripted universes.  Every trace is also judged
directly by oracles written from the property text / the strategies' documentation (check_clauses, check_strategy).
The exact universe is run in several regimes of the size of the loss and of its changes (REGIMES: |theta| ~ 2^12, 2^5, 2^-16 with steps of
a few grid units, a float32 model) under both process default dtypes; an inexact "offset universe" (offset_one: loss dominated by constant
residual rows, arbitrary floating steps, LM / GN, float64 / float32 model, both default dtypes) is judged by exact Fractions of the polynomial
loss, granting only the round-off of the model's own dtype.  An "overflow universe" (overflow_one: residual rows exp(a t) - b / (a t)^p - b, whose loss
overflows to +inf at moderate t; scripted steps on a grid and real solvers from an ill-conditioned start on the flat side; float64 / float32) makes
trials whose loss is +inf: a worse trial like any other (rejected, restored, reported to the strategy as unsuccessful, retried while rejections are left).
Real residual models (LM and GN; well / ill conditioned; kernels, kernel lists, correctors, target call form, several
residual tensors, hyper-parameter regimes, starts at an exact stationary point, constant rows dominating the loss, both default dtypes;
tolerance 1e-12 relative) are checked against the clauses
(returned value = optimizer.loss = true robust loss, optimizer.last = loss at the parameters given - first call of a fresh
optimizer included -, monotone unless exhausted, restoration, trial bound) and every call into strategy.update is
observed (arguments = true losses; documented transition for the step quality recomputed exactly from J, D, R)."""
import io, contextlib, random
from ..common import *

RULE = ('scripted universe: (strategy kind, hyper-parameters, reject, theta0, script of solver steps / raises) -> trace of step() calls; '
        'directed scripts make the first k trials increase the loss for k = 0..reject+1 and raise at solve j for every j; '
        'thresholds in every legal order, zero steps (quality 0/0) included; regimes of the size of the loss and of its changes (theta ~ 2^12 / 2^5 / 2^-16 with steps of a few '
        'grid units: relative changes of 2^-24, absolute ones of 2^-56; float32 model) under both process default dtypes, still exact; offset universe (loss dominated by constants, '
        'arbitrary floating steps, exact-Fraction oracle with the round-off of the model dtype only); overflow universe (exp / power residuals, trials with loss +inf, scripted and real solvers); real LM / GN models with kernels, correctors, targets, stationary starts, constant rows; '
        'non-trivial = trace with at least one rejected trial or raise; distinct by full script')


def b(x):
    return 'true' if x else 'false'


def pow2(rng, lo, hi):
    return 2.0 ** rng.randint(lo, hi)


def gen_cfg(rng, kind):
    if kind == 0:
        return dict(kind=0, damping=pow2(rng, -20, 3), high=0.5, low=0.125, up=2.0, down=0.5, factor=0.5, smin=2.0 ** -20, smax=2.0 ** 40)
    c = dict(kind=kind, high=rng.choice([0.5, 0.75, 0.25]), low=rng.choice([2.0 ** -10, 0.125, 2.0 ** -4]), up=rng.choice([2.0, 4.0, 8.0]),
             down=rng.choice([0.5, 0.25, 0.125]), factor=rng.choice([0.5, 0.25]), smin=pow2(rng, -24, -2), smax=pow2(rng, 2, 40))
    if rng.random() < 0.35:
        # every LEGAL regime of the thresholds (the constructors only require them to be positive): low >= high, low == high,
        # thresholds at / above the quality 1 of an exact linear step (so `>` against `>=` and the order of the tests matter)
        c['high'] = rng.choice([0.5, 1.0, 2.0, 0.25, 4.0])
        c['low'] = rng.choice([0.125, 1.0, 2.0, 0.5, 4.0, 0.25])
    elif c['low'] >= c['high']:
        c['low'] = c['high'] / 8
    if kind == 1:
        c['damping'] = pow2(rng, -20, 3)
    else:
        c['radius'] = pow2(rng, -3, 20)
    return c


def make_strategy(pp, c):
    S = pp.optim.strategy
    if c['kind'] == 0:
        return S.Constant(damping=c['damping'])
    if c['kind'] == 1:
        return S.Adaptive(damping=c['damping'], high=c['high'], low=c['low'], up=c['up'], down=c['down'], min=c['smin'], max=c['smax'])
    return S.TrustRegion(radius=c['radius'], high=c['high'], low=c['low'], up=c['up'], down=c['down'], factor=c['factor'], min=c['smin'], max=c['smax'])


class Raise(Exception):
    pass


STATS = {}
# real models: the harness's own float64 evaluation of the documented loss formulas and the implementation's agree to ~1e-15 relative (measured
# over thousands of calls); a worse loss / a wrong cached loss is reported from 1e-12 relative on, so that it is also seen when the loss is
# dominated by a large constant part
RTOL = 1e-12


def stat(k):
    STATS[k] = STATS.get(k, 0) + 1


@contextlib.contextmanager
def default_dtype(torch, name):
    """the process default dtype while a case runs (None: leave it alone - float32 unless somebody changed it)"""
    if name is None:
        yield
        return
    old = torch.get_default_dtype()
    torch.set_default_dtype(getattr(torch, name))
    try:
        yield
    finally:
        torch.set_default_dtype(old)


def run_scripted(pp, torch, c, reject, theta0, script, ncalls, gn=False, quad=None, mdt=None, dd=None):
    with default_dtype(torch, dd):
        return run_scripted_(pp, torch, c, reject, theta0, script, ncalls, gn, quad, getattr(torch, mdt or 'float64'))


def run_scripted_(pp, torch, c, reject, theta0, script, ncalls, gn, quad, DT):
    class One(torch.nn.Module):
        def __init__(self):
            super().__init__()
            self.t = torch.nn.Parameter(torch.tensor([theta0], dtype=DT))

        def forward(self, x):
            return self.t if quad is None else self.t * self.t - quad      # residual theta, or theta^2 - c

    class Solver(torch.nn.Module):
        def __init__(self):
            super().__init__()
            self.n = 0

        def forward(self, A, b):
            j = self.n
            self.n += 1
            d = script[j] if j < len(script) else None
            if d is None:
                raise Raise('scripted solver failure at solve %d' % j)
            return torch.tensor([[d]], dtype=DT)
    model, solver = One(), Solver()
    if gn:
        opt = pp.optim.GN(model, solver=solver)
    else:
        opt = pp.optim.LM(model, solver=solver, strategy=make_strategy(pp, c), reject=reject, min=2.0 ** -30, max=2.0 ** 30)
    obs = []
    x = torch.zeros(1, dtype=DT)
    for _ in range(ncalls):
        try:
            with contextlib.redirect_stdout(io.StringIO()):
                r = opt.step(x)
        except Raise:
            obs.append(None)
            break
        pg = opt.param_groups[0]
        if gn:
            obs.append((float(r), float(model.t[0]), float(opt.last), solver.n, float(opt.loss)))
        else:
            obs.append((float(r), float(model.t[0]), float(opt.last), int(opt.reject_count), float(pg['damping']),
                        float(pg.get('radius', c.get('radius', 0.0) if c['kind'] == 2 else 0.0)), float(pg.get('down', 0.0)), solver.n, float(opt.loss)))
    return obs


def grid(x):
    """round to the grid 2^-8 and clip to [-64, 64]: theta and its square stay exact in float64"""
    return max(-64.0, min(64.0, round(x * 256.0) / 256.0))


def gen_script(rng, theta0, reject, mode, k=None, raise_at=None, n=200):
    """steps on the grid 2^-8; `mode` steers how many trials increase the loss"""
    script = []
    th = theta0
    for j in range(n):
        if raise_at is not None and j == raise_at:
            script.append(None)
            continue
        if mode == 'firstk' and j < k:
            d = grid(rng.choice([4.0, -8.0, 16.0]) * max(1.0, abs(th)))      # increases theta^2
            if abs(th + d) <= abs(th):
                d = grid(-d if abs(th - d) > abs(th) else d + 4 * abs(th) + 1)
        else:
            r = rng.random()
            if r < 0.5:
                d = grid(-th / 2)          # decreases
            elif r < 0.65:
                d = grid(-th * rng.choice([0.25, 0.75, 1.0]))
            elif r < 0.75:
                d = 0.0               # equal loss
            elif r < 0.8:
                d = grid(-2 * th)          # equal loss, different parameters
            else:
                d = grid(rng.choice([1.0, -2.0, 0.5, 3.0]) * max(0.25, abs(th)))
        if abs(th + d) > 64:
            d = grid(-th / 2)
        script.append(d)
        # the harness does not track acceptance exactly here; scripts are only "mostly" shaped
        if abs(th + d) <= abs(th):
            th = th + d
        if abs(th) < 2.0 ** -6:
            th = th  # stays small: steps become 0 (equal loss)
    return script


def gen_script_quad(rng, c, cc, theta0, reject, n=120):
    """steps on the grid 2^-4 for the residual theta^2 - cc, chosen so that the quality ratio
    (actual / predicted decrease, exact Fractions) lands in a requested class: V (> high), S (not V and > low), U (neither,
    which includes steps that increase the loss), N (zero step: 0/0); the walk prefers the patterns U,S,U and S,S that need the middle branch"""
    F_ = Fraction
    th = F_(theta0)
    script, classes = [], []
    pattern = []
    rc = 0
    for j in range(n):
        if not pattern:
            pattern = list(rng.choice(['USU', 'VSU', 'SSU', 'UVU', 'USSU', 'V', 'S', 'U', 'UUSUU', 'N', 'UNU', 'VNS', 'NN']))
        want = pattern.pop(0)
        r0 = th * th - F_(cc)
        cands = [(F_(0), F_(0))] if want == 'N' else []      # N: the zero step, quality 0/0 (not a number)
        for k in (range(-96, 97) if want != 'N' else ()):
            d = F_(k, 16)
            if d == 0 or abs(th + d) > 8 or th + d == 0:      # theta = 0 makes J = 0 and the quality ratio x/0
                continue
            jd = 2 * th * d
            pred = -(jd * (2 * r0 + jd))
            act = r0 * r0 - ((th + d) ** 2 - F_(cc)) ** 2
            if pred == 0:
                continue
            q = act / pred
            cls = 'V' if q > F_(c['high']) else ('S' if q > F_(c['low']) else 'U')
            if min(abs(q - F_(c['high'])), abs(q - F_(c['low']))) < F_(1, 1 << 20):
                continue                 # keep clear of the thresholds (float division rounds the quotient)
            if cls == want:
                cands.append((d, act))
        if cands:
            d, act = rng.choice(cands)
        else:
            d = F_(rng.choice([-1, 1, 2, -3]), 16)
            if th + d == 0:
                d = -d
        script.append(float(d))
        classes.append(want if cands else '?')
        new = (th + d) ** 2 - F_(cc)
        # the accept / reject rule of LevenbergMarquardt.step, so that the walk knows where the parameter really is
        if r0 * r0 < new * new and rc < reject:
            rc += 1
        else:
            th, rc = th + d, 0
    return script, ''.join(classes)


# Regimes of the exact scripted universe.  theta = N 2^-g with |N| < 2^26 (float64 model; 2^12 for a float32 model), so theta, theta^2, the
# differences of losses and the predicted decreases are exact and the trace must still equal the model's bit for bit, but the SIZE of the
# loss and of its changes differs by many orders of magnitude: one grid step changes the loss by a relative 2^-24 .. 2^-22 ('large', 'fine':
# far above the round-off of the model's dtype, below the resolution of a narrower one), or by an absolute 2^-80 .. 2^-56 ('tiny').
# M bounds |theta| softly (the generator turns around there; exactness holds up to 2 M).
REGIMES = {
    'large': dict(g=13, M=4096.0, mdt='float64', starts=[3072.0, -4000.0, 3584.5, 2048.0 + 2.0 ** -13, -3000.0 - 3 * 2.0 ** -13]),
    'fine': dict(g=20, M=32.0, mdt='float64', starts=[24.0, -31.0, 16.5, 28.0 + 2.0 ** -20]),
    'tiny': dict(g=40, M=2.0 ** -15, mdt='float64', starts=[2.0 ** -16, -3 * 2.0 ** -18, 5 * 2.0 ** -20, -2.0 ** -16 - 2.0 ** -40]),
    'single': dict(g=4, M=128.0, mdt='float32', starts=[1.0, -2.0, 3.0, 100.0, -96.5]),
}


def gen_script_regime(rng, reg, theta0, reject, k, raise_at=None, n=200):
    """scripted steps in a regime: the first k trials of the run make the loss worse, later ones are mixed; most changes are a few grid
    units (minimal relative / absolute change of the loss, in both directions).  Tracks the accept / reject rule of the property exactly."""
    u, M = 2.0 ** -reg['g'], reg['M']
    rnd = lambda x: round(x / u) * u
    th, rc, script = theta0, 0, []
    for j in range(n):
        if raise_at is not None and j == raise_at:
            script.append(None)
            rc = 0
            continue
        sg = 1.0 if th >= 0 else -1.0
        r = rng.random()
        if j < k or rng.random() < 0.3:
            # worse
            cf = rng.choice([0.5, 1.0, 3.0])
            if r < 0.6 or (1 + cf) * abs(th) > M:
                d = sg * rng.choice([1, 1, 2, 3, 5]) * u
            elif r < 0.8:
                d = sg * rng.choice([16, 1024]) * u
            else:
                d = rnd(sg * cf * max(abs(th), 8 * u))
        else:
            if r < 0.45 and abs(th) >= 8 * u:
                d = -sg * rng.choice([1, 1, 2, 3]) * u          # minimal decrease
            elif r < 0.6:
                d = rnd(-th / rng.choice([64, 16]))
            elif r < 0.7:
                d = rnd(-th * rng.choice([0.5, 0.25, 0.75, 1.0]))
            elif r < 0.85:
                d = 0.0                                         # equal loss
            else:
                d = -2 * th                                     # equal loss, different parameters
        if abs(th + d) > 2 * M * 0.99:
            d = rnd(-th / 2)
        script.append(d)
        new = th + d
        if th * th < new * new and rc < reject:
            rc += 1
        else:
            th, rc = new, 0
    return script


def cfg_lit(c):
    dm = c.get('damping', (1.0 / c['radius']) if c['kind'] == 2 else 0.0)
    ra = c.get('radius', 0.0)
    dn0 = 0.0 if c['kind'] == 0 else c['down']     # Constant has no 'down' entry in the param group
    return '(%s, %s, %s, %s, %s, %s, %s), (%s, %s, %s)' % (qlit(c['high']), qlit(c['low']), qlit(c['up']), qlit(c['down']), qlit(c['factor']),
                                                        qlit(c['smin']), qlit(c['smax']), qlit(dm), qlit(ra), qlit(dn0))


def run(ctx):
    pp = import_pypose()
    import torch
    ctx.rule = RULE
    rng = ctx.rng
    metas, cases = [], []

    def add(c, reject, theta0, script, ncalls, regime=None, dd=None):
        mdt = REGIMES[regime]['mdt'] if regime else None
        obs = run_scripted(pp, torch, c, reject, theta0, script, ncalls, mdt=mdt, dd=dd)
        if any(o is None for o in obs):
            # LM documents (and the property states) that a raising solver ENDS the call - with the parameters and the loss
            # of before that trial; the exception of the user's solver (of any type) must not escape from step()
            ctx.case(('lm-raise-escapes', c['kind'], reject, theta0, tuple(script[:40])), nontrivial=True, branch='lm-solver-exception-escaped')
            ctx.violation('lm-solver-exception-escapes', 'LM.step() did not end normally when the user solver raised (a non-RuntimeError exception) at solve %d: '
                          'the exception escaped from step(), no loss was returned' % script.index(None),
                          dict(kind='lm', cfg=c, reject=reject, theta0=theta0, script=script[:max(40, script.index(None) + 2)], ncalls=ncalls,
                               calls_completed=len(obs) - 1, regime=regime, dd=dd))
            return
        if regime and any(o is not None and abs(o[1]) >= 2 * REGIMES[regime]['M'] for o in obs):
            ctx.count('lm-regime-left-exact-range-not-judged')          # theta^2 would round: not part of the exact universe
            return
        ntriv = any(o is None or o[3] > 0 for o in obs)
        ctx.case(('lm', regime, dd, c['kind'], reject, theta0, tuple(script[:40])) if regime else ('lm', c['kind'], reject, theta0, tuple(script[:40])),
                 nontrivial=ntriv, branch=('lm-kind%d' % c['kind']) + ('-regime-%s-default-dtype-%s' % (regime, dd or 'float32') if regime else ''))
        ctx.traces += 1
        i = len(metas)
        used = max([o[7] for o in obs if o is not None] + [0]) + 2
        metas.append(dict(kind='lm', cfg=c, reject=reject, theta0=theta0, script=script[:max(40, used)], ncalls=ncalls, obs=obs))
        if regime:
            metas[i].update(regime=regime, mdt=mdt, dd=dd)
        sl = coq_list(('None' if d is None else 'Some ' + qlit(d)) for d in script[:used])
        # a raising LM call is caught inside step(): the call still returns; None only for GN
        ol = coq_list('(%s, %s, %s, %d%%nat, %s, %s, %s, %d%%nat)' % (qlit(o[0]), qlit(o[1]), qlit(o[2]), o[3], qlit(o[4]), qlit(o[5]), qlit(o[6]), o[7]) for o in obs)
        cases.append('(%d%%nat, %d%%nat, %s, %d%%nat, %s, %s, %s)' % (i, c['kind'], cfg_lit(c), reject, qlit(theta0), sl, ol))
        # the implementation's own bookkeeping: optimizer.loss equals the returned value
        for o in obs:
            if o is not None and o[0] != o[8]:
                ctx.violation('lm-loss-attr', 'optimizer.loss differs from the value returned by step()', metas[i])
        # the property's clauses and the documented strategy transitions, directly on this trace (independent of the model)
        why = check_clauses(pp, torch, c, reject, theta0, script, ncalls, obs=obs) or check_strategy(pp, torch, c, reject, theta0, None, script, ncalls, obs=obs)
        if why:
            ctx.violation('lm-clause:' + why.split(':')[0], why, metas[i])
    # directed: first k trials increase the loss, k = 0..reject+1; reject 0..16 (quick: subset)
    rejects = list(range(0, 17)) if ctx.thorough else [0, 1, 2, 3, 5, 8, 16]
    for kind in (0, 1, 2):
        for reject in rejects:
            ks = range(0, reject + 2) if ctx.thorough or reject <= 3 else [0, 1, reject, reject + 1]
            for k in ks:
                c = gen_cfg(rng, kind)
                th0 = rng.choice([1.0, -2.0, 3.0, 0.5])
                add(c, reject, th0, gen_script(rng, th0, reject, 'firstk', k=k), rng.choice([1, 2, 3]))
    # directed: solver raises at the j-th solve of the run, every j
    for kind in (0, 1, 2):
        for reject in ([0, 1, 3] if not ctx.thorough else [0, 1, 2, 3, 8]):
            for j in range(0, (8 if not ctx.thorough else 20)):
                c = gen_cfg(rng, kind)
                th0 = rng.choice([1.0, -2.0, 3.0])
                add(c, reject, th0, gen_script(rng, th0, reject, rng.choice(['mixed', 'firstk']), k=rng.randint(0, reject + 1), raise_at=j), rng.choice([3, 6, 10]))
    # random: up to 30 calls
    for t in range(ctx.scale(150, 2500)):
        kind = t % 3
        c = gen_cfg(rng, kind)
        reject = rng.choice([0, 1, 2, 3, 4, 8, 16])
        th0 = rng.choice([1.0, -2.0, 3.0, 0.5, -0.75, 8.0])
        ra = rng.choice([None, None, rng.randint(0, 40)])
        add(c, reject, th0, gen_script(rng, th0, reject, 'mixed', raise_at=ra, n=600), rng.choice([5, 10, 30]))
    # regimes of the size of the loss and of its changes (large theta with minimal relative changes, tiny theta with minimal absolute
    # changes, a float32 model), each under both process default dtypes: the accept / reject decision, the loss bookkeeping and the
    # strategy may only look at the model's own numbers.  Own random stream: the cases above and below do not depend on this block.
    rng2 = random.Random('C08-regimes-%r' % (ctx.seed,))
    for regime in sorted(REGIMES):
        reg = REGIMES[regime]
        for kind in (0, 1, 2):
            for reject in (list(range(0, 17)) if ctx.thorough else [0, 1, 2, 16]):
                for k in (range(0, reject + 2) if ctx.thorough or reject <= 2 else [1, reject, reject + 1]):
                    th0 = rng2.choice(reg['starts'])
                    add(gen_cfg(rng2, kind), reject, th0, gen_script_regime(rng2, reg, th0, reject, k), rng2.choice([1, 2, 3]), regime=regime,
                        dd=rng2.choice([None, None, 'float64']))
        for t in range(ctx.scale(24, 400)):
            reject = rng2.choice([0, 1, 2, 3, 4, 8, 16])
            th0 = rng2.choice(reg['starts'])
            ra = rng2.choice([None, None, rng2.randint(0, 30)])
            add(gen_cfg(rng2, t % 3), reject, th0, gen_script_regime(rng2, reg, th0, reject, rng2.randint(0, reject + 1), raise_at=ra, n=600),
                rng2.choice([5, 10, 30]), regime=regime, dd=rng2.choice([None, 'float64']))
    # nonlinear scripted universe (residual theta^2 - c): the quality ratio takes every value, all three branches of the
    # Adaptive / TrustRegion updates are reached, in the orders unsuccessful -> successful -> unsuccessful etc.
    qmetas, qcases = [], []
    for t in range(ctx.scale(90, 1200)):
        kind = 1 + t % 2
        c = gen_cfg(rng, kind)
        reject = rng.choice([0, 1, 2, 3, 4, 8, 16])
        cc = rng.choice([-1.0, -2.0, -3.0, 1.0, 2.0, 0.25, -0.5])
        th0 = rng.choice([1.0, -2.0, 3.0, 0.5, -1.5, 2.5])
        ncalls = rng.choice([5, 10, 30])
        script, classes = gen_script_quad(rng, c, cc, th0, reject, n=min(120, ncalls * (reject + 1) + 2))      # a run makes at most ncalls * (reject + 1) solves
        obs = run_scripted(pp, torch, c, reject, th0, script, ncalls, quad=cc)
        if any(o is None for o in obs):       # see add(): the solver's exception must not escape from LM.step()
            ctx.violation('lm-solver-exception-escapes', 'LM.step() did not end normally when the user solver raised (a non-RuntimeError exception) at solve %d: '
                          'the exception escaped from step(), no loss was returned' % script.index(None),
                          dict(kind='lmq', cfg=c, reject=reject, theta0=th0, quad=cc, script=script[:max(40, script.index(None) + 2)], ncalls=ncalls,
                               calls_completed=len(obs) - 1))
            continue
        ctx.case(('lmq', kind, reject, th0, cc, tuple(script[:40])), nontrivial=True, branch='lm-nonlinear-kind%d' % kind)
        ctx.count('nonlinear-universe-requested-' + ('has-USU' if 'USU' in classes else 'no-USU') + ('-has-0/0' if 'N' in classes else ''))
        ctx.traces += 1
        i = len(qmetas)
        qmetas.append(dict(kind='lmq', cfg=c, reject=reject, theta0=th0, quad=cc, script=script, ncalls=ncalls, obs=obs))
        used = max([o[7] for o in obs if o is not None] + [0]) + 2
        sl = coq_list(('None' if d is None else 'Some ' + qlit(d)) for d in script[:used])
        ol = coq_list('(%s, %s, %s, %d%%nat, %s, %s, %s, %d%%nat)' % (qlit(o[0]), qlit(o[1]), qlit(o[2]), o[3], qlit(o[4]), qlit(o[5]), qlit(o[6]), o[7]) for o in obs)
        qcases.append('(%s, (%d%%nat, %d%%nat, %s, %d%%nat, %s, %s, %s))' % (qlit(cc), i, c['kind'], cfg_lit(c), reject, qlit(th0), sl, ol))
        for o in obs:
            if o is not None and o[0] != o[8]:
                ctx.violation('lm-loss-attr', 'optimizer.loss differs from the value returned by step()', qmetas[i])
        why = check_strategy(pp, torch, c, reject, th0, cc, script, ncalls, obs=obs)
        if why:
            ctx.violation('lm-clause:' + why.split(':')[0], why, qmetas[i])
    ctx.samples.append({k: v for k, v in metas[3].items()})
    hdr = 'From PV Require Import Base.Num Model.LM.\nFrom Coq Require Import List ZArith QArith Bool. Import ListNotations.\n'
    files = [('lm_%03d' % si, hdr + 'Eval vm_compute in lm_bad %s.\n' % coq_list(sh)) for si, sh in enumerate(shard(cases, 60))]
    files += [('lmq_%03d' % si, hdr + 'Eval vm_compute in lm_bad_quad %s.\n' % coq_list(sh)) for si, sh in enumerate(shard(qcases, 60))]
    # GN
    gmetas, gcases = [], []
    for t in range(ctx.scale(60, 600)):
        th0 = rng.choice([1.0, -2.0, 3.0, 0.5])
        ra = rng.choice([None, rng.randint(0, 12)])
        script = gen_script(rng, th0, 0, 'mixed', raise_at=ra, n=40)
        n = rng.choice([1, 3, 10, 30])
        obs = run_scripted(pp, torch, None, 0, th0, script, n, gn=True)
        ctx.case(('gn', th0, tuple(script[:30])), branch='gn')
        ctx.traces += 1
        gmetas.append(dict(kind='gn', theta0=th0, script=script, ncalls=n, obs=obs))
        for o in obs:
            if o is not None and o[0] != o[4]:
                ctx.violation('gn-loss-attr', 'optimizer.loss differs from the value returned by GN.step()', gmetas[-1])
        why = check_clauses(pp, torch, None, 0, th0, script, n, gn=True, obs=obs)
        if why:
            ctx.violation('gn-clause:' + why.split(':')[0], why, gmetas[-1])
        ol = coq_list(('None' if o is None else 'Some (%s, %s, %s, %d%%nat)' % (qlit(o[0]), qlit(o[1]), qlit(o[2]), o[3])) for o in obs)
        gcases.append('(%d%%nat, %s, %s, %s)' % (t, qlit(th0), coq_list(('None' if d is None else 'Some ' + qlit(d)) for d in script), ol))
    files += [('gn_%03d' % si, hdr + 'Eval vm_compute in gn_bad %s.\n' % coq_list(sh)) for si, sh in enumerate(shard(gcases, 100))]
    res = run_case_files('C08', files, timeout=900)
    for name, (rc, out) in sorted(res.items()):
        ev = parse_evals(out)
        if rc != 0 or len(ev) != 1:
            ctx.obligation_broken('correspondence-file:' + name, out[-1500:])
            continue
        for i in parse_nat_list(ev[0]):
            if name.startswith('lmq_'):
                ctx.mismatch('lm-trace', qmetas[i])
            elif name.startswith('lm_'):
                ctx.mismatch('lm-trace', metas[i])
            else:
                ctx.mismatch('gn-trace', gmetas[i])
    # ---------------------------------------------------------------- real residual models vs the proved invariants
    offset_models(ctx, pp, torch)
    overflow_models(ctx, pp, torch)
    real_models(ctx, pp, torch)
    # ---------------------------------------------------------------- search: the property's clauses, directly
    for m in ctx.mismatches[:60]:
        why = replay(ctx, m['case'])
        if why:
            m['explained'] = True
            ctx.violation('lm-clause:' + why.split(':')[0], why, m['case'])


def shard(items, n):
    return [items[k:k + n] for k in range(0, len(items), n)]


def check_clauses(pp, torch, c, reject, theta0, script, ncalls, gn=False, obs=None, mdt=None, dd=None):
    """the clauses of C08 evaluated directly on the implementation (scripted universe, exact)"""
    if obs is None:
        obs = run_scripted(pp, torch, c, reject, theta0, script, ncalls, gn=gn, mdt=mdt, dd=dd)
    th_prev, loss_prev, n_prev = theta0, theta0 * theta0, 0
    damp_prev = None
    for k, o in enumerate(obs):
        if o is None:
            return None
        if gn:
            r, th, last, n, _ = o
            if r != th * th:
                return 'true-loss: GN call %d returned %r but the loss at the parameters left behind (theta=%r) is %r' % (k, r, th, th * th)
            if last != loss_prev:
                return 'gn-last: GN call %d recorded last=%r, previous loss was %r' % (k, last, loss_prev)
        else:
            r, th, last, rej, damp, rad, down, n, _ = o
            if r != th * th:
                return 'true-loss: call %d returned %r but the loss at the parameters left behind (theta=%r) is %r' % (k, r, th, th * th)
            if r > loss_prev and (rej != reject or n - n_prev != reject + 1):
                return 'monotone: call %d returned %r > previous loss %r after %d trial(s) in that call (reject_count %d, reject %d: a worse loss may only be accepted after reject+1 trials)' % (k, r, loss_prev, n - n_prev, rej, reject)
            if n - n_prev > reject + 1:
                return 'trials: call %d made %d solves with reject=%d' % (k, n - n_prev, reject)
            tried = script[n_prev:n]
            if th != th_prev:
                # exactly the last trial may be kept
                if not tried or tried[-1] is None or th != th_prev + tried[-1]:
                    return 'restore: call %d left theta=%r; before the call %r, trials %r' % (k, th, th_prev, tried)
            if tried and tried[-1] is None and (th != th_prev or r != loss_prev):
                return 'solver-raise: after the solver raised, theta=%r loss=%r; before the trial theta=%r loss=%r' % (th, r, th_prev, loss_prev)
            if c['kind'] == 0 and damp != c['damping']:
                return 'constant: damping changed from %r to %r' % (c['damping'], damp)
            if c['kind'] == 1 and not (c['smin'] <= damp <= c['smax']) and n > n_prev and not all(t is None for t in tried):
                return 'bounds: Adaptive damping %r outside [%r,%r]' % (damp, c['smin'], c['smax'])
            if c['kind'] == 2 and n > n_prev and not all(t is None for t in tried) and not (c['smin'] <= rad <= c['smax'] and c['smin'] <= down <= c['smax']):
                return 'bounds: TrustRegion radius %r / down %r outside [%r,%r]' % (rad, down, c['smin'], c['smax'])
        th_prev, loss_prev, n_prev = o[1], o[0], o[7] if not gn else o[3]
    return None


def doc_quality(act, pred):
    """the documented step quality rho = (actual decrease) / (predicted decrease).  Where the documented formula divides
    zero by zero (a zero step, or any step that changes neither the loss nor the linearised loss) rho is not a number and
    compares false with every threshold; x/0 with x != 0 is left undecided (None): its sign is the sign of a floating zero"""
    if pred != 0:
        return act / pred
    return float('nan') if act == 0 else None


def doc_strategy(c, damp, rad, down, rho):
    """literal transcription of the documented update rules (docstrings of Adaptive / TrustRegion): the tests are
    `rho > high`, then `rho > low`, in this order, whatever the order of the two thresholds"""
    F_ = Fraction
    clamp = lambda v: max(F_(c['smin']), min(v, F_(c['smax'])))
    if c['kind'] == 0:
        return damp, rad, down
    if c['kind'] == 1:
        if rho > F_(c['high']):
            damp = damp * F_(c['down'])
        elif rho > F_(c['low']):
            damp = damp
        else:
            damp = damp * F_(c['up'])
        return clamp(damp), rad, down
    rad = 1 / damp
    if rho > F_(c['high']):
        rad, down = rad * F_(c['up']), F_(c['down'])
    elif rho > F_(c['low']):
        rad, down = rad, F_(c['down'])
    else:
        rad, down = rad * down, down * F_(c['factor'])
    rad, down = clamp(rad), clamp(down)
    return 1 / rad, rad, down


def check_strategy(pp, torch, c, reject, theta0, cc, script, ncalls, obs=None, mdt=None, dd=None):
    """the strategy clause of C08 in the scripted universes (cc None: residual theta, else theta^2 - cc), from the
    documentation of the strategies: after each trial  rho = (last - loss) / (|f|^2 - |f + J d|^2);  Adaptive: damping *= down
    if rho > high, unchanged if rho > low, else *= up, then clamped to [min, max];  TrustRegion: radius *= up and down-factor
    reset if rho > high, radius unchanged and down-factor reset if rho > low, else radius *= down-factor and down-factor *=
    factor, both clamped, damping = 1 / radius.  Exact Fractions (rho = 0/0 is not a number: every comparison is false);
    compared after every step() call with what the implementation holds."""
    F_ = Fraction
    if c is None or c['kind'] == 0:
        return None                    # Constant: check_clauses
    if obs is None:
        obs = run_scripted(pp, torch, c, reject, theta0, script, ncalls, quad=cc, mdt=mdt, dd=dd)
    res = (lambda t: t) if cc is None else (lambda t: t * t - F_(cc))
    jac = (lambda t: F_(1)) if cc is None else (lambda t: 2 * t)
    loss = lambda t: res(t) ** 2
    th = F_(theta0)
    damp = F_(c['damping']) if c['kind'] == 1 else 1 / F_(c['radius'])
    rad = F_(c.get('radius', 0))
    down = F_(c['down'])
    n = 0
    hist = ''
    for k, o in enumerate(obs):
        if o is None:
            return None
        last = loss(th)
        rc = 0
        while True:
            d = script[n] if n < len(script) else None
            if d is None:
                n += 1
                break
            n += 1
            d = F_(d)
            new = loss(th + d)
            r0 = res(th)
            jd = jac(th) * d
            pred = -(jd * (2 * r0 + jd))
            rho = doc_quality(last - new, pred)
            if rho is None:
                return None            # x/0: not part of this oracle
            cls = '0/0 ' if rho != rho else ('V' if rho > F_(c['high']) else ('S' if rho > F_(c['low']) else 'U'))
            hist += cls
            damp, rad, down = doc_strategy(c, damp, rad, down, rho)
            if last < new and rc < reject:
                rc += 1
                continue
            th = th + d
            break
        got = (F_(o[4]), F_(o[5]), F_(o[6]))
        want = (damp, rad if c['kind'] == 2 else got[1], down if c['kind'] == 2 else got[2])
        if o[7] != n:
            return None                # the call made a different number of trials: other clauses report that
        if got != want:
            name = 'Adaptive' if c['kind'] == 1 else 'TrustRegion'
            return ('strategy: %s(high=%r, low=%r, up=%r, down=%r%s, min=%r, max=%r), residual %s, theta0=%r, scripted steps %r: after step() call %d (trial qualities so far %s; '
                    'V: rho > high, S: else rho > low, U: else, 0/0: zero step, rho is not a number and counts as unsuccessful): '
                    'damping/radius/down-factor are %s, the documented updates give %s') % (
                name, c['high'], c['low'], c['up'], c['down'], (', factor=%r' % c['factor']) if c['kind'] == 2 else '', c['smin'], c['smax'],
                'theta' if cc is None else 'theta^2 - %r' % cc, theta0, [x for x in script[:n]], k, hist,
                [float(v) for v in got], [float(v) for v in want])
    return None


def replay(ctx, c):
    pp = import_pypose()
    import torch
    if c.get('kind') == 'lmq':
        return check_strategy(pp, torch, c['cfg'], c['reject'], c['theta0'], c['quad'], c['script'], c['ncalls'])
    if c.get('kind') == 'lm':
        sc = c['script'] + [0.0] * 600
        kw = dict(mdt=c.get('mdt'), dd=c.get('dd'))
        return (check_clauses(pp, torch, c['cfg'], c['reject'], c['theta0'], sc, c['ncalls'], **kw)
                or check_strategy(pp, torch, c['cfg'], c['reject'], c['theta0'], None, sc, c['ncalls'], **kw))
    if c.get('kind') == 'offset':
        return offset_one(pp, torch, c)
    if c.get('kind') == 'overflow':
        return overflow_one(pp, torch, c)
    if c.get('kind') == 'gn':
        return check_clauses(pp, torch, None, 0, c['theta0'], c['script'], c['ncalls'], gn=True)
    if c.get('kind') == 'real':
        return real_one(pp, torch, c)
    return None


# ------------------------------------------------------------------------------------------------
def offset_one(pp, torch, c):
    """The scripted solver on the residual (C_1, .., C_p, theta) - a loss C_1^2 + .. + C_p^2 + theta^2 dominated by constants (or not: p = 0) -
    with arbitrary floating steps, a float64 or float32 model, under either process default dtype, LM with every strategy or GN.
    The oracle is the property text on exact Fractions of the parameter values the model holds: the loss is a polynomial, so the true loss
    is known exactly; the implementation's own floating evaluation of it (p + 1 squares and a sum) and the retraction undo theta + d - d are
    granted their round-off in the MODEL's dtype and nothing more.  A trial that increases the true loss by more than that must be rejected
    while rejections are left, however small the increase is relative to the loss."""
    with default_dtype(torch, c.get('dd')):
        return offset_one_(pp, torch, c, getattr(torch, c['mdt']))


def offset_one_(pp, torch, c, DT):
    F_ = Fraction
    eps, tiny = F_(float(torch.finfo(DT).eps)), F_(float(torch.finfo(DT).tiny))      # tiny: underflow of theta^2
    fl = lambda v: float(torch.tensor(v, dtype=DT))
    offs = [fl(v) for v in c['offs']]
    script = [None if d is None else fl(d) for d in c['script']]
    reject, gn, pos, cfg = c['reject'], c.get('opt') == 'gn', min(c.get('pos', 0), len(offs)), c['cfg']
    K0 = sum(F_(v) ** 2 for v in offs)
    L = lambda t: K0 + t * t

    class Off(torch.nn.Module):
        def __init__(self):
            super().__init__()
            self.t = torch.nn.Parameter(torch.tensor([c['theta0']], dtype=DT))
            self.c = torch.tensor(offs, dtype=DT)

        def forward(self, x):
            return torch.cat([self.c[:pos], self.t, self.c[pos:]]).unsqueeze(-1)

    class Solver(torch.nn.Module):
        def __init__(self):
            super().__init__()
            self.n = 0

        def forward(self, A, b):
            j = self.n
            self.n += 1
            d = script[j] if j < len(script) else None
            if d is None:
                raise Raise('scripted solver failure at solve %d' % j)
            return torch.tensor([[d]], dtype=DT)
    model, solver = Off(), Solver()
    opt = pp.optim.GN(model, solver=solver) if gn else pp.optim.LM(model, solver=solver, strategy=make_strategy(pp, cfg), reject=reject)
    x = torch.zeros(1, dtype=DT)
    th_prev, n_prev = F_(float(model.t[0])), 0
    damp = None if gn else (F_(cfg['damping']) if cfg['kind'] < 2 else 1 / F_(cfg['radius']))
    rad, down = (F_(cfg.get('radius', 0)), F_(cfg['down'])) if not gn else (None, None)
    strat_ok, carry = not gn and cfg['kind'] > 0, False
    where = 'offset universe (%s model, default dtype %s, constants %r, theta0=%r, %s)' % (
        c['mdt'], c.get('dd') or 'float32', offs, c['theta0'], 'GN' if gn else 'LM reject=%d' % reject)
    for k in range(c['ncalls']):
        try:
            with contextlib.redirect_stdout(io.StringIO()):
                r = opt.step(x)
        except Raise:
            if F_(float(model.t[0])) != th_prev:
                return 'solver-raise: %s call %d: the solver raised and theta changed from %r to %r' % (where, k, float(th_prev), float(model.t[0]))
            return None
        th, n = F_(float(model.t[0])), solver.n
        tried = script[n_prev:n]
        Lb, La = L(th_prev), L(th)
        dmax = max([abs(F_(d)) for d in tried if d is not None] + [F_(0)])
        rt = 2 * eps * (abs(th_prev) + dmax) * max(1, n - n_prev)        # round-off of theta + d (- d), once per trial
        rtc = rt if dmax else F_(0)
        if carry:
            rtc += rt_prev          # the previous call ended by a raise after restorations: its cached loss belongs to parameters within rt_prev of these
        mar = (len(offs) + 3) * (eps * max(Lb, La) + tiny) + (2 * abs(th_prev) + rtc) * rtc * 2
        rt_prev = rtc
        ret, cached, last = F_(float(r)), F_(float(opt.loss)), F_(float(opt.last))
        if ret != cached:
            return 'loss-attr: %s call %d returned %r, optimizer.loss is %r' % (where, k, float(r), float(opt.loss))
        if abs(ret - La) > mar:
            return ('true-loss: %s call %d (steps tried %r) returned %r; the loss at the parameters left behind (theta=%r) is %r (difference %.3e, round-off allowance %.3e)'
                    % (where, k, tried, float(r), float(th), float(La), float(ret - La), float(mar)))
        if abs(last - Lb) > mar:
            return ('last: %s call %d recorded optimizer.last=%r; the loss at the parameters given (theta=%r) is %r (difference %.3e, round-off allowance %.3e)'
                    % (where, k, float(opt.last), float(th_prev), float(Lb), float(last - Lb), float(mar)))
        if gn:
            if len(tried) != 1 or abs(th - (th_prev + F_(tried[0]))) > rt:
                return 'gn-update: %s call %d: theta %r -> %r with solver steps %r' % (where, k, float(th_prev), float(th), tried)
        else:
            trials, rej = n - n_prev, int(opt.reject_count)
            if trials > reject + 1:
                return 'trials: %s call %d made %d solves' % (where, k, trials)
            if La > Lb + 2 * mar and not (rej == reject and trials == reject + 1):
                return ('monotone: %s call %d (steps tried %r): theta %r -> %r, true loss %r -> %r: an increase of %.3e (relative %.3e; the round-off allowance of the %s model is %.3e) '
                        'was accepted after %d trial(s) in that call (reject_count %d)') % (where, k, tried, float(th_prev), float(th), float(Lb), float(La), float(La - Lb), float((La - Lb) / Lb) if Lb else 0.0,
                                                                                      c['mdt'], float(mar), trials, rej)
            moved = abs(th - th_prev) > rt
            if moved and not (tried and tried[-1] is not None and abs(th - (th_prev + F_(tried[-1]))) <= rt):
                return 'restore: %s call %d left theta=%r; before the call %r, steps tried %r' % (where, k, float(th), float(th_prev), tried)
            if tried and tried[-1] is None and (moved or abs(ret - Lb) > mar):
                return 'solver-raise: %s call %d: after the solver raised theta=%r loss=%r; before the trial theta=%r loss=%r' % (where, k, float(th), float(r), float(th_prev), float(Lb))
            pg = opt.param_groups[0]
            if cfg['kind'] == 0 and pg['damping'] != cfg['damping']:
                return 'constant: %s call %d: damping changed from %r to %r' % (where, k, cfg['damping'], pg['damping'])
            dirty = carry
            carry = bool(tried) and tried[-1] is None and any(d for d in tried)      # ended by a raise after restorations
            for d in tried:
                # the documented transition for the documented quality (exact), judged while the quality is clear of the thresholds by
                # more than the floating evaluation of (last - loss) / predicted can be off
                if not strat_ok or d is None:
                    continue
                d = F_(d)
                pred = -(d * (2 * th_prev + d))
                rho = doc_quality(Lb - L(F_(fl(float(th_prev + d)))), pred) if d != 0 else float('nan')
                if rho is None or (pred == 0 and dirty):
                    strat_ok = False            # x/0, or 0/0 after a restoration theta + d - d that need not be exact: the sign of a floating zero
                elif rho == rho and min(abs(rho - F_(cfg['high'])), abs(rho - F_(cfg['low']))) <= 4 * mar / abs(pred) + F_(1, 10 ** 6) * (1 + abs(rho)):
                    strat_ok = False
                    stat('offset-strategy-not-judged-further-near-threshold')
                else:
                    damp, rad, down = doc_strategy(cfg, damp, rad, down, rho)
                dirty = dirty or d != 0
            if strat_ok:
                got = (F_(pg['damping']), F_(pg.get('radius', 0)), F_(pg.get('down', 0)))
                want = (damp, rad if cfg['kind'] == 2 else got[1], down if cfg['kind'] == 2 else got[2])
                if got != want:
                    return ('strategy: %s call %d (steps tried %r from theta=%r), %s(high=%r, low=%r, up=%r, down=%r, factor=%r, min=%r, max=%r): damping/radius/down-factor are %s, the documented updates give %s'
                            % (where, k, tried, float(th_prev), 'Adaptive' if cfg['kind'] == 1 else 'TrustRegion', cfg['high'], cfg['low'], cfg['up'], cfg['down'], cfg['factor'], cfg['smin'], cfg['smax'],
                               [float(v) for v in got], [float(v) for v in want]))
                stat('offset-strategy-state-judged')
        th_prev, n_prev = th, n
    return None


def gen_offset(rng, t):
    mdt = 'float32' if t % 4 == 3 else 'float64'
    C = rng.choice([0.0, 30.0, 3e3, 1e5, 3e6] if mdt == 'float64' else [0.0, 30.0, 300.0])
    offs = [C * rng.choice([1.0, -1.0, 0.5, 1.0 / 3]) for _ in range(rng.choice([1, 1, 2, 5]))] if C else []
    theta0 = rng.choice([2.0, -1.5, 0.75, 10.0, -0.3, 1.0 / 3])
    reject = rng.choice([0, 1, 2, 3, 8, 16])
    gn = t % 7 == 6
    k = rng.randint(0, reject + 1)
    ra = rng.choice([None, None, rng.randint(0, 20)])
    fr = [1e-8, 1e-6, 1e-4, 1e-3, 0.01, 0.1]
    th, rc, script = Fraction(theta0), 0, []
    for j in range(260):
        if ra is not None and j == ra:
            script.append(None)
            rc = 0
            continue
        r = rng.random()
        if (j < k or r < 0.3) and not gn:
            d = float(th) * rng.choice(fr + fr + [1.0, 3.0]) if abs(th) > 1e-3 else rng.choice([0.01, -1.0])
        elif r < 0.8:
            d = -float(th) * rng.choice(fr + [0.25, 0.5, 0.75, 1.0])
        elif r < 0.9:
            d = 0.0
        else:
            d = -2 * float(th)
        if abs(float(th) + d) > 1e3:
            d = -float(th) / 2
        script.append(d)
        new = th + Fraction(d)
        if th * th < new * new and rc < reject and not gn:
            rc += 1
        else:
            th, rc = new, 0
    return dict(kind='offset', mdt=mdt, dd=rng.choice([None, 'float64', 'float32']), offs=offs, pos=rng.randint(0, len(offs)), theta0=theta0, reject=reject,
                opt='gn' if gn else 'lm', cfg=gen_cfg(rng, t % 3), script=script, ncalls=rng.choice([1, 3, 10, 10, 30]))


def offset_models(ctx, pp, torch):
    rng = random.Random('C08-offset-%r' % (ctx.seed,))
    seen = {}
    for t in range(ctx.scale(140, 1500)):
        c = gen_offset(rng, t)
        ctx.case(('offset', c['mdt'], c['dd'], tuple(c['offs']), c['theta0'], c['reject'], c['opt'], tuple(c['script'][:40])),
                 branch='offset-universe-%s-%s-model-default-dtype-%s%s' % (c['opt'], c['mdt'], c['dd'] or 'float32', '' if c['offs'] else '-no-constants'))
        ctx.traces += 1
        why = offset_one(pp, torch, c)
        if why and seen.get(why.split(':')[0], 0) < 3:               # a few inputs per clause are enough
            seen[why.split(':')[0]] = seen.get(why.split(':')[0], 0) + 1
            c = dict(c, script=c['script'][:80] if c['ncalls'] <= 3 else c['script'])
            ctx.violation(('gn-clause:' if c['opt'] == 'gn' else 'lm-clause:') + why.split(':')[0], why, c)


# ------------------------------------------------------------------------------------------------
# Overflow universe: models whose loss overflows to +inf at moderate parameter values (exp(a t) - b, (a t)^p - b), so that a trial of
# LevenbergMarquardt.step can have the loss +inf.  For the property such a trial is a worse trial like any other: `inf > last`.
def ovf_resid(torch, c, x):
    """the residual rows as a function of the parameter tensor x (x[0] drives the overflowing rows, the optional x[1] benign linear rows)"""
    rows = []
    for a, b_ in c['rows']:
        rows.append(torch.exp(a * x[0]) - b_ if c['fam'] == 'exp' else (a * x[0]) ** c['p'] - b_)
    for s, q in c.get('lin') or []:
        rows.append(s * (x[-1] - q))
    return torch.stack(rows).unsqueeze(-1)


def ovf_loss(torch, c, x):
    """the loss of the model (sum of the squared residuals, in the model's dtype) at the parameter tensor x; +inf where it overflows"""
    with torch.no_grad():
        return float(ovf_resid(torch, c, x).square().sum())


def overflow_one(pp, torch, c):
    """LM on a model whose loss can overflow, with a scripted solver (steps on a grid: theta + d - d is exact) or a real solver (ill-conditioned
    start on the flat side, the weakly damped first trials jump to where exp() overflows).  Oracle = the property text with the order of the
    extended reals: the returned / cached loss is the loss at the parameters left behind (+inf = +inf), it is not larger than the loss at the
    parameters given unless reject+1 trials were made (+inf is larger than every finite loss), rejected trials leave the parameters as they were
    (up to the round-off of x + D - D, recomputed here in the model's dtype), at most reject+1 trials, a raising solver ends the call with
    parameters and loss as before, and every completed trial is reported once to strategy.update with the true losses (last, trial loss = +inf)
    and moves the damping as documented: rho = (last - inf) / predicted = -inf for a positive predicted decrease - neither `> high` nor `> low`."""
    with default_dtype(torch, c.get('dd')):
        return overflow_one_(pp, torch, c, getattr(torch, c['mdt']))


def overflow_one_(pp, torch, c, DT):
    F_ = Fraction
    inf = float('inf')
    eps = float(torch.finfo(DT).eps)
    rtol = 1e-12 if DT == torch.float64 else 1e-5
    cfg, reject, script = c['cfg'], c['reject'], c.get('script')
    fin = lambda v: v == v and abs(v) != inf
    loss_at = lambda x: ovf_loss(torch, c, x)

    class Net(torch.nn.Module):
        def __init__(self):
            super().__init__()
            self.x = torch.nn.Parameter(torch.tensor(c['x0'], dtype=DT))

        def forward(self, inp):
            return ovf_resid(torch, c, self.x)

    class Solver(torch.nn.Module):
        def __init__(self):
            super().__init__()
            self.n, self.steps = 0, []
            self.inner = None if script is not None else [pp.optim.solver.Cholesky, pp.optim.solver.PINV, pp.optim.solver.LSTSQ][c.get('solver', 0)]()

        def forward(self, A, b):
            j = self.n
            self.n += 1
            self.steps.append(None)
            if script is not None:
                d = script[j] if j < len(script) else None
                if d is None:
                    raise Raise('scripted solver failure at solve %d' % j)
                D = torch.tensor([[d]], dtype=DT)
            else:
                if c.get('raise_at') is not None and j == c['raise_at']:
                    raise Raise('scripted solver failure at solve %d' % j)
                D = self.inner(A, b)
            self.steps[-1] = D.detach().clone().view(-1)
            return D
    net, solver = Net(), Solver()
    strat = make_strategy(pp, cfg)
    kw = dict(min=c['min']) if c.get('min') is not None else {}
    opt = pp.optim.LM(net, solver=solver, strategy=strat, reject=reject, **kw)
    updates = []
    orig = strat.update

    def spy(pg, last, loss, J, D, R, *args, **kwargs):
        before = (pg['damping'], pg.get('radius'), pg.get('down'))
        trial = loss_at(net.x.detach())                   # the parameters are at the trial point now
        orig(pg, last=last, loss=loss, J=J, D=D, R=R, *args, **kwargs)
        updates.append(dict(before=before, after=(pg['damping'], pg.get('radius'), pg.get('down')), last=float(last), loss=float(loss), trial=trial,
                            J=J.detach().clone(), D=D.detach().clone().view(-1), R=R.detach().clone().view(-1)))
    strat.update = spy
    inp = torch.zeros(1, dtype=DT)
    desc = ', '.join('%s - %r' % (('exp(%r t)' % a) if c['fam'] == 'exp' else '(%r t)^%d' % (a, c['p']), b_) for a, b_ in c['rows'])
    desc += ''.join(', %r (u - %r)' % (s, q) for s, q in c.get('lin') or [])
    sname = ['Constant(damping=%r)' % cfg.get('damping'), 'Adaptive(damping=%r, high=%r, low=%r, up=%r, down=%r, min=%r, max=%r)' % (
        cfg.get('damping'), cfg['high'], cfg['low'], cfg['up'], cfg['down'], cfg['smin'], cfg['smax']),
        'TrustRegion(radius=%r, high=%r, low=%r, up=%r, down=%r, factor=%r, min=%r, max=%r)' % (
        cfg.get('radius'), cfg['high'], cfg['low'], cfg['up'], cfg['down'], cfg['factor'], cfg['smin'], cfg['smax'])][cfg['kind']]
    where = 'overflow universe (%s model with residual rows %s, default dtype %s, start %r, LM(reject=%d%s, %s), %s)' % (
        c['mdt'], desc, c.get('dd') or 'float32', c['x0'], reject, ', min=%r' % c['min'] if c.get('min') is not None else '', sname,
        'scripted solver' if script is not None else 'solver %s%s' % (type(solver.inner).__name__, '' if c.get('raise_at') is None else ' raising at solve %d' % c['raise_at']))
    slack = torch.zeros_like(net.x.detach())              # how far the parameters may be from those the cached loss was computed at
    for k in range(c['ncalls']):
        xb = net.x.detach().clone()
        Lb = loss_at(xb)
        if not fin(Lb):
            stat('overflow-trace-not-judged-further-after-an-exhausted-call-ended-at-a-non-finite-loss')
            return None                                   # the call before exhausted its rejections at +inf: nothing can be larger than that
        n0, u0 = solver.n, len(updates)
        try:
            with contextlib.redirect_stdout(io.StringIO()):
                r = float(opt.step(inp))
        except Raise:
            if not torch.equal(net.x.detach(), xb):
                return 'solver-raise: %s call %d: the solver raised and the parameters changed from %r to %r' % (where, k, xb.tolist(), net.x.detach().tolist())
            return None
        xa = net.x.detach().clone()
        steps = solver.steps[n0:]
        trials, rej, ups = len(steps), int(opt.reject_count), updates[u0:]
        raised = bool(steps) and steps[-1] is None
        done = [s for s in steps if s is not None]
        if any(not bool(torch.isfinite(s).all()) for s in done) or not bool(torch.isfinite(xa).all()):
            stat('overflow-trace-not-judged-further-non-finite-step-from-the-solver')
            return None
        La = loss_at(xa)
        tls = [loss_at(xb + s) for s in done]             # (up to the round-off of the undone trials before)
        tl = ['%.6g' % v for v in tls]
        what = '%s call %d (parameters given %r with loss %r; %d solve(s)%s, steps %r, losses at the trial points %s)' % (
            where, k, xb.tolist(), Lb, trials, ', the last one raised' if raised else '', [s.tolist() for s in done], tl)
        stat('overflow-call-judged')
        if any(v == inf for v in tls):
            stat('overflow-call-with-a-trial-of-loss-+inf' + ('-scripted' if script is not None else '-real-solver'))
        # round-off of the retraction undo: x + D - D in the model's dtype, for the trials that were not kept
        def undo(ss):
            xs, rt = xb.clone(), slack.clone()
            for s in ss:
                y = (xs + s) - s
                rt += 2 * (y - xs).abs() + 4 * eps * xs.abs() * float(bool((s != 0).any()))
                xs = y
            return xs, rt
        xs, rt = undo(done)                               # every trial undone
        kept = False
        if bool(((xa - xb).abs() > rt).any()):
            if raised:
                return 'solver-raise: %s: after the solver raised the parameters are %r' % (what, xa.tolist())
            xs, rt = undo(done[:-1])                      # or the last trial kept
            kept = True
            if not (done and bool(((xa - (xs + done[-1])).abs() <= rt + 2 * eps * (xs.abs() + done[-1].abs())).all())):
                return 'restore: %s left the parameters %r: neither those given nor those of the last trial' % (what, xa.tolist())
        # what the loss may differ by between parameters within rt of each other (sampled at the corners)
        def wobble(x, L):
            if not bool((rt > 0).any()) or not fin(L):
                return 0.0
            w = 0.0
            for sg in ([(1,), (-1,)] if x.numel() == 1 else [(1, 1), (1, -1), (-1, 1), (-1, -1)]):
                v = loss_at(x + rt * torch.tensor(sg, dtype=DT))
                w = max(w, abs(v - L)) if fin(v) else w
            return 2 * w
        same = lambda a, b_, tol: a == b_ or abs(a - b_) <= tol
        tolb = rtol * max(1.0, abs(Lb)) + wobble(xb, Lb)
        tola = (rtol * max(1.0, abs(La)) + wobble(xa, La)) if fin(La) else 0.0
        if float(opt.loss) != r:
            return 'loss-attr: %s returned %r, optimizer.loss is %r' % (what, r, float(opt.loss))
        if not same(r, La, tola):
            return 'true-loss: %s returned %r; the loss at the parameters left behind %r is %r' % (what, r, xa.tolist(), La)
        if not same(float(opt.last), Lb, tolb):
            return 'last: %s recorded optimizer.last=%r; the loss at the parameters given is %r' % (what, float(opt.last), Lb)
        if trials > reject + 1:
            return 'trials: %s made %d solves with reject=%d' % (what, trials, reject)
        if (La > Lb + tolb + tola or La != La) and not (rej == reject and trials == reject + 1):
            return ('monotone: %s left the parameters %r with loss %r > %r after %d trial(s) in that call (reject_count %d, reject %d: a worse loss - +inf is worse than '
                    'every finite one - may only be kept after reject+1 trials)') % (what, xa.tolist(), La, Lb, trials, rej, reject)
        if raised and not same(r, Lb, tolb):
            return 'solver-raise: %s: after the solver raised the loss is %r' % (what, r)
        if len(ups) != len(done):
            return ('strategy-calls: %s: %d trial(s) were completed, strategy.update was called %d time(s) (after each trial the damping has to move as the strategy documents)'
                    % (what, len(done), len(ups)))
        for j, u in enumerate(ups):
            if not same(u['last'], Lb, tolb) or not same(u['loss'], u['trial'], rtol * max(1.0, abs(u['trial'])) if fin(u['trial']) else 0.0):
                return ('strategy-args: %s: strategy.update of trial %d was called with last=%r, loss=%r; the loss at the parameters given is %r, at the trial parameters %r'
                        % (what, j, u['last'], u['loss'], Lb, u['trial']))
            why = ovf_transition(torch, cfg, u, eps)
            if why:
                return 'strategy: %s, trial %d: %s' % (what, j, why)
        slack = torch.zeros_like(slack) if kept else rt
    return None


def ovf_transition(torch, cfg, u, eps):
    """the documented transition of one strategy.update call, from its arguments: predicted decrease |R|^2 - |R + J D|^2 in exact Fractions,
    actual decrease last - loss (-inf for a trial loss +inf); not judged where the sign of the prediction or the side of a threshold is
    within the round-off of the implementation's floating evaluation"""
    F_ = Fraction
    inf = float('inf')
    bd, br, bw = u['before']
    ad, ar, aw = u['after']
    if cfg['kind'] == 0:
        return None if ad == bd else 'Constant: damping changed from %r to %r' % (bd, ad)
    J, D, R = u['J'], u['D'], u['R']
    if not (bool(torch.isfinite(J).all()) and bool(torch.isfinite(D).all()) and bool(torch.isfinite(R).all())) or u['last'] != u['last'] or abs(u['last']) == inf or u['loss'] != u['loss']:
        stat('overflow-strategy-update-not-judged-non-finite-arguments')
        return None
    if bool((D == 0).all()):
        rho = float('nan')
    else:
        Rl = [F_(float(v)) for v in R]
        JD = [sum(F_(float(J[i, j])) * F_(float(D[j])) for j in range(J.shape[1])) for i in range(J.shape[0])]
        pred = sum(r * r for r in Rl) - sum((r + q) ** 2 for r, q in zip(Rl, JD))
        unc = 32 * F_(eps) * sum(abs(q) * (2 * abs(r) + abs(q)) for r, q in zip(Rl, JD))
        big = sum(abs(q) * (2 * abs(r) + abs(q)) for r, q in zip(Rl, JD))
        if big > F_(float(torch.finfo(J.dtype).max)) / 2 ** 20 or abs(pred) < F_(float(torch.finfo(J.dtype).tiny)) * 2 ** 20:
            stat('overflow-strategy-update-not-judged-prediction-outside-the-range-of-the-dtype')
            return None
        if abs(pred) <= unc:
            stat('overflow-strategy-update-not-judged-prediction-near-zero')
            return None
        if u['loss'] == inf:
            rho = -inf if pred > 0 else inf
        else:
            act = F_(u['last']) - F_(u['loss'])
            rho = act / pred
            mar = (unc * abs(rho) + 8 * F_(eps) * (abs(F_(u['last'])) + abs(F_(u['loss'])))) / abs(pred) + F_(1, 10 ** 6) * (1 + abs(rho))
            if min(abs(rho - F_(cfg['high'])), abs(rho - F_(cfg['low']))) <= mar:
                stat('overflow-strategy-update-not-judged-near-threshold')
                return None
    stat('overflow-strategy-update-judged' + ('-trial-loss-+inf' if u['loss'] == inf else ''))
    wd, wr, ww = doc_strategy(cfg, F_(bd), F_(br) if br is not None else None, F_(bw) if bw is not None else None, rho)
    bad = F_(ad) != wd or (cfg['kind'] == 2 and (F_(ar) != wr or F_(aw) != ww))
    if bad:
        return ('step quality rho = (%r - %r) / predicted decrease %.6g = %s; %s moved damping / radius / down-factor from %r to %r, the documented update gives %r'
                % (u['last'], u['loss'], float(pred) if rho == rho else 0.0, 'not a number (0/0, zero step)' if rho != rho else '%.6g' % float(rho),
                   'Adaptive' if cfg['kind'] == 1 else 'TrustRegion', u['before'], u['after'], (float(wd), float(wr) if wr is not None else None, float(ww) if ww is not None else None)))
    return None


OVF_GRID = sorted(set([k / 4.0 for k in range(-48, 49)] + [s * v for s in (1.0, -1.0) for v in (20.0, 32.0, 45.0, 50.0, 64.0, 90.0, 100.0, 200.0, 356.0, 400.0, 720.0, 800.0, 1024.0, 2000.0)]))


def gen_overflow_scripted(rng, torch, t):
    """scripted steps between grid points (multiples of 1/4 up to 2000: theta + d - d is exact in float32 and float64), chosen by the class of the
    loss at the target: I (+inf), W (finite, worse), G (better), E (zero step); the first k trials of a call are I / W with k = 0..reject+1,
    then G / E / a raise.  Tracks the accept / reject rule of the property."""
    mdt = 'float32' if t % 3 == 2 else 'float64'
    DT = getattr(torch, mdt)
    fam = 'exp' if t % 2 == 0 else 'pow'
    sg = rng.choice([1.0, 1.0, -1.0])
    rows = [(sg * rng.choice([1.0, 2.0, 0.5]), rng.choice([1.0, 0.5, 2.0])) for _ in range(rng.choice([1, 1, 2]))]
    c = dict(kind='overflow', mdt=mdt, dd=rng.choice([None, None, 'float64']), fam=fam, p=rng.choice([16, 64] if mdt == 'float32' else [48, 64]), rows=rows, cfg=gen_cfg(rng, t % 3),
             reject=rng.choice([0, 1, 2, 3, 8, 16]))
    L = {th: ovf_loss(torch, c, torch.tensor([th], dtype=DT)) for th in OVF_GRID}
    infs = [th for th in OVF_GRID if L[th] == float('inf')]
    starts = [th for th in OVF_GRID if abs(th) <= 12 and 1e-3 < L[th] < 1e30 and any(L[q] < L[th] for q in OVF_GRID)]
    if not infs or not starts:
        return None
    th = rng.choice(starts)
    c['x0'] = [th]
    script, rc, ncalls = [], 0, 0
    want_calls = rng.choice([1, 2, 3, 6])
    while ncalls < want_calls and len(script) < 120:
        # one call: k bad trials, then an ending
        k = rng.randint(0, c['reject'] + 1)
        ending = rng.choice(['G', 'G', 'G', 'E', 'R'])
        plan = [rng.choice(['I', 'I', 'W']) for _ in range(k)] + [ending]
        for cls in plan:
            if cls == 'R':
                script.append(None)
                rc = 0
                ncalls += 1
                break
            if cls == 'I':
                target = rng.choice(infs)
            elif cls == 'W':
                cand = [q for q in OVF_GRID if L[th] < L[q] < float('inf')]
                target = rng.choice(cand) if cand else rng.choice(infs)
            elif cls == 'G':
                cand = [q for q in OVF_GRID if L[q] < L[th]]
                target = rng.choice(cand) if cand else th
            else:
                target = th
            script.append(target - th)
            if L[th] < L[target] and rc < c['reject']:
                rc += 1
                continue
            th, rc = target, 0
            ncalls += 1
            break
        if L[th] == float('inf'):
            break
    c.update(script=script, ncalls=max(1, ncalls))
    return c


def gen_overflow_real(rng, t):
    """the ill-conditioned start on the flat side of exp(a t) - b: J = a exp(a t) is tiny, the weakly damped first trials jump to where the loss overflows"""
    mdt = 'float32' if t % 2 else 'float64'
    a, b_ = rng.choice([1.0, 2.0, 0.5, -1.0]), rng.choice([1.0, 0.5, 1.5])
    mn = rng.choice([None, None, 1e-9, 1e-12])
    lo = {None: -7.8, 1e-9: -10.0, 1e-12: -13.0}[mn] if mdt == 'float64' else {None: -9.5, 1e-9: -10.0, 1e-12: -12.5}[mn]
    hi = -6.2 if mdt == 'float64' else -4.5
    x0 = [rng.uniform(lo, hi) / a]
    lin = None
    if rng.random() < 0.3:
        lin, x0 = [(rng.choice([0.5, 1.0]), rng.choice([1.0, -2.0]))], x0 + [0.0]
    kind = rng.choice([0, 1, 2, 2])
    cfg = gen_cfg(rng, kind)
    if kind == 2:
        cfg['radius'] = pow2(rng, 10, 20)
    else:
        cfg['damping'] = pow2(rng, -20, -10)
    return dict(kind='overflow', mdt=mdt, dd=rng.choice([None, None, 'float64']), fam='exp', p=0, rows=[(a, b_)], lin=lin, x0=x0, cfg=cfg, min=mn,
                reject=rng.choice([16, 16, 8, 3, 1]), solver=rng.randrange(3), raise_at=rng.choice([None, None, None, rng.randint(0, 6)]), ncalls=rng.choice([1, 2, 4]))


def overflow_models(ctx, pp, torch):
    rng = random.Random('C08-overflow-%r' % (ctx.seed,))
    seen = {}
    cases = [gen_overflow_scripted(rng, torch, t) for t in range(ctx.scale(120, 1200))] + [gen_overflow_real(rng, t) for t in range(ctx.scale(60, 600))]
    for c in cases:
        if c is None:
            continue
        ctx.case(('overflow', tuple(sorted(c.items(), key=str))), branch='overflow-universe-%s-%s-model-%s' % (c['fam'], c['mdt'], 'scripted-solver' if c.get('script') is not None else 'real-solver'))
        ctx.traces += 1
        why = overflow_one(pp, torch, c)
        if why and seen.get(why.split(':')[0], 0) < 3:
            seen[why.split(':')[0]] = seen.get(why.split(':')[0], 0) + 1
            ctx.violation('lm-clause:' + why.split(':')[0], why, c)


# ------------------------------------------------------------------------------------------------
def doc_kernel(torch, kind, delta, x):
    """the robust kernels from their documented formulas (x = squared residual norm)"""
    if kind == 1:        # Huber: x if sqrt(x) < delta else 2 delta sqrt(x) - delta^2
        return torch.where(x.sqrt() < delta, x, 2 * delta * x.sqrt() - delta ** 2)
    if kind == 2:        # Cauchy: delta^2 log(1 + x / delta^2)
        return delta ** 2 * torch.log1p(x / delta ** 2)
    if kind == 3:        # PseudoHuber: 2 delta^2 (sqrt(1 + x / delta^2) - 1)
        return 2 * delta ** 2 * (torch.sqrt(1 + x / delta ** 2) - 1)
    if kind == 4:        # Scale: delta x
        return delta * x
    return x


def real_one(pp, torch, c):
    """a real residual model stepped repeatedly by LM or GN (kernels, kernel lists, correctors, target call form, several
    residual tensors, hyper-parameter regimes, starts at an exact stationary point, constant residual rows that dominate the loss,
    either process default dtype); the clauses of the property are checked
    directly after every call, and every call into strategy.update is checked against the documented update rule"""
    with default_dtype(torch, c.get('dd')):
        return real_one_(pp, torch, c)


def real_one_(pp, torch, c):
    torch.manual_seed(c['seed'])
    n, m = c['n'], c['m']
    gn = c.get('opt', 'lm') == 'gn'
    stationary = c.get('stationary', False)
    use_target = c.get('target', False)
    if stationary:
        # small integers: every product and sum below is exact, J^T r = 0 exactly at x = 0, so the trial step is exactly zero
        A = torch.randint(-3, 4, (m, n)).to(torch.float64)
        y = torch.randint(1, 5, (m,)).to(torch.float64)
    else:
        A = torch.randn(m, n, dtype=torch.float64)
        if c['ill']:
            A = A @ torch.diag(torch.logspace(0, -c['ill'], n, dtype=torch.float64))
        y = torch.randn(m, dtype=torch.float64)
    k = c.get('outs', 1)
    off = [float(v) for v in (c.get('offset') or [])]        # constant residual rows (no parameter moves them): a loss with a large constant part
    rows = (2 * m if stationary else m) + len(off)
    cuts = [round(j * rows / k) for j in range(k + 1)]
    parts = [(cuts[j], cuts[j + 1]) for j in range(k) if cuts[j + 1] > cuts[j]]
    yy = torch.cat([y, -y]) if stationary else y
    if off:
        yy = torch.cat([yy, torch.zeros(len(off), dtype=torch.float64)])
    offt = torch.tensor(off, dtype=torch.float64)

    class Net(torch.nn.Module):
        def __init__(self):
            super().__init__()
            self.x = torch.nn.Parameter(torch.zeros(n, dtype=torch.float64) if stationary else torch.randn(n, dtype=torch.float64) * c['scale'])

        def forward(self, inp):
            z = inp @ self.x
            if stationary:
                f = torch.cat([z, z])            # residual rows z - y and z + y
            else:
                f = torch.sin(z) * c['nl'] + z
            if off:
                f = torch.cat([f, offt])
            r = (f if use_target else f - yy).unsqueeze(-1)
            if k == 1:
                return r
            # several residual tensors (a tuple), as a model with several error terms returns them
            return tuple(r[lo:hi] for lo, hi in parts)
    net = Net()
    target = None
    if use_target:
        target = yy.unsqueeze(-1) if k == 1 else [yy.unsqueeze(-1)[lo:hi] for lo, hi in parts]
    kinds = [c['kernel']] * len(parts)
    if c.get('klist') and k > 1:
        kinds = [(c['kernel'] + j) % 5 for j in range(len(parts))]       # a list of kernels, one per residual tensor, None included
    delta = c.get('delta', 0.5 if c['kernel'] == 1 else 1.0)

    def own_loss():
        # the robust loss from its definition (sum over residual tensors and rows of rho(|r_i|^2)), kernels written out above
        with torch.no_grad():
            out = net(A)
        outs = out if isinstance(out, tuple) else (out,)
        tot = 0.0
        for j, r in enumerate(outs):
            if use_target:
                r = r - (target if k == 1 else target[j])
            tot += float(doc_kernel(torch, kinds[j], delta, r.square().sum(-1)).sum())
        return tot
    S, K = pp.optim.strategy, pp.optim.kernel
    mk = lambda kd: [None, K.Huber(delta), K.Cauchy(delta), K.PseudoHuber(delta), K.Scale(min(delta, 1.0))][kd]
    if c['kernel'] == 4 or 4 in kinds:
        delta = min(delta, 1.0)
    if c.get('klist') and k > 1:
        kern = [mk(kd) for kd in kinds]
    else:
        kern = mk(c['kernel'])
    corr = None
    if c.get('corrector') and kern is not None and not isinstance(kern, list):
        corr = [None, pp.optim.corrector.FastTriggs(kern), pp.optim.corrector.Triggs(kern)][c['corrector']]
    hp = c.get('hyper') or {}
    problems = []
    if gn:
        opt = pp.optim.GN(net, kernel=kern, corrector=corr)
        strat = None
    else:
        strat = [S.Constant(damping=c['damping']), S.Adaptive(damping=c['damping'], **{q: v for q, v in hp.items() if q != 'factor'}),
                 S.TrustRegion(radius=1.0 / c['damping'], **hp)][c['strategy']]
        opt = pp.optim.LM(net, strategy=strat, kernel=kern, corrector=corr, reject=c['reject'])
    nsolve = [0]
    osolver = opt.solver

    class Cnt(torch.nn.Module):
        def forward(self, A, b):
            nsolve[0] += 1
            if c['raise_at'] is not None and nsolve[0] == c['raise_at']:
                raise Raise('scripted failure')
            return osolver(A, b)
    opt.solver = Cnt()
    prev = own_loss()
    state = dict(prev=prev, call=0, rtol=RTOL)
    if strat is not None:
        # observe the calls into the strategy: arguments and the documented transition (Fractions on the float arguments)
        orig = strat.update
        high, low = hp.get('high', 0.5), hp.get('low', 1e-3)
        up, down0, factor = hp.get('up', 2.0), hp.get('down', 0.5), hp.get('factor', 0.5)
        smin, smax = hp.get('min', 1e-6), hp.get('max', 1e16)

        def spy(pg, last, loss, J, D, R, *args, **kwargs):
            before = (pg['damping'], pg.get('down'))
            trial = own_loss()                         # the parameters are at the trial point now
            orig(pg, last=last, loss=loss, J=J, D=D, R=R, *args, **kwargs)
            if problems:
                return
            last, loss = float(last), float(loss)
            tol = state['rtol'] * max(1.0, abs(state['prev']), abs(trial))
            if abs(last - state['prev']) > tol or abs(loss - trial) > tol:
                problems.append('strategy-args: real model call %d: strategy.update was called with last=%r, loss=%r; the loss at the parameters given to the call is %r, at the trial parameters %r'
                                % (state['call'], last, loss, state['prev'], trial))
                return
            if c['strategy'] == 0:
                if pg['damping'] != before[0]:
                    problems.append('constant: real model call %d: damping changed from %r to %r' % (state['call'], before[0], pg['damping']))
                return
            if bool((D == 0).all()):
                rho = float('nan')                     # zero step: no actual and no predicted decrease, 0/0
                stat('real-strategy-update-zero-step-0/0')
            else:
                F_ = Fraction
                Rl = [F_(float(v)) for v in R.reshape(-1)]
                JD = [sum(F_(float(J[i, j])) * F_(float(D[j, 0])) for j in range(J.shape[1])) for i in range(J.shape[0])]
                pred = sum(r * r for r in Rl) - sum((r + q) ** 2 for r, q in zip(Rl, JD))      # |f|^2 - |f + J d|^2, exact
                if pred == 0 or not (abs(last) < 1e200 and abs(loss) < 1e200):
                    return
                rho = (last - loss) / float(pred)
                margin = 1e-9 + 1e-11 * (abs(last) + abs(loss)) / abs(float(pred))
                if not rho == rho or min(abs(rho - high), abs(rho - low)) <= margin * (1 + abs(rho)):
                    stat('real-strategy-update-not-judged-near-threshold')
                    return                             # too close to a threshold to call
                stat('real-strategy-update-judged-' + ('V' if rho > high else ('S' if rho > low else 'U')))
            if c['strategy'] == 1:
                want = before[0] * down0 if rho > high else (before[0] if rho > low else before[0] * up)
                want = max(smin, min(want, smax))
                if abs(pg['damping'] - want) > 1e-12 * want:
                    problems.append('strategy: real model call %d: Adaptive(high=%r, low=%r, up=%r, down=%r, min=%r, max=%r).update with step quality rho=%r (actual decrease %r)%s moved the damping from %r to %r, documented: %r'
                                    % (state['call'], high, low, up, down0, smin, smax, rho, last - loss, ' [zero step, 0/0]' if rho != rho else '', before[0], pg['damping'], want))
            else:
                r0 = 1.0 / before[0]
                if rho > high:
                    wr, wd = r0 * up, down0
                elif rho > low:
                    wr, wd = r0, down0
                else:
                    wr, wd = r0 * before[1], before[1] * factor
                wr, wd = max(smin, min(wr, smax)), max(smin, min(wd, smax))
                if abs(pg['radius'] - wr) > 1e-12 * wr or abs(pg['down'] - wd) > 1e-12 * wd or abs(pg['damping'] - 1.0 / wr) > 1e-12 / wr:
                    problems.append('strategy: real model call %d: TrustRegion(high=%r, low=%r, up=%r, down=%r, factor=%r, min=%r, max=%r).update with step quality rho=%r%s from damping %r, down-factor %r gave radius %r, down-factor %r, damping %r; documented: radius %r, down-factor %r'
                                    % (state['call'], high, low, up, down0, factor, smin, smax, rho, ' [zero step, 0/0]' if rho != rho else '', before[0], before[1], pg['radius'], pg['down'], pg['damping'], wr, wd))
        strat.update = spy
    for kk in range(c['calls']):
        state['call'] = kk
        x_before = net.x.detach().clone()
        n0 = nsolve[0]
        try:
            with contextlib.redirect_stdout(io.StringIO()):
                r = float(opt.step(A) if target is None else opt.step(A, target))
        except Raise:
            # GN lets the solver's exception through: nothing may have changed
            if not torch.equal(net.x.detach(), x_before):
                return 'solver-raise: real model %s call %d: the solver raised and the parameters changed' % (c.get('opt', 'lm'), kk)
            return None
        if problems:
            return problems[0]
        true = own_loss()
        if not (abs(true) < 1e100 and abs(prev) < 1e100):
            return None                  # diverged (GN on a hard model): nothing left to compare
        # a call ended by a raising solver leaves parameters restored by x + D - D (round-off of the retraction, D can be huge) together with
        # the loss cached before: that call's returned loss and the next call's `last` get the wider allowance
        raised = c['raise_at'] is not None and n0 < c['raise_at'] == nsolve[0]
        rtol = 1e-9 if raised else RTOL
        tol = rtol * max(1.0, abs(true), abs(prev))
        if abs(r - true) > tol or abs(float(opt.loss) - true) > tol:
            return 'true-loss: real model %s call %d returned %r (optimizer.loss %r), loss at the parameters left behind is %r' % (c.get('opt', 'lm'), kk, r, float(opt.loss), true)
        if abs(float(opt.last) - prev) > state['rtol'] * max(1.0, abs(prev)):
            return 'last: real model %s call %d recorded optimizer.last=%r, the loss at the parameters given to the call is %r' % (c.get('opt', 'lm'), kk, float(opt.last), prev)
        if not gn:
            if r > prev + max(rtol, state['rtol']) * max(1.0, abs(true), abs(prev)) and (opt.reject_count != c['reject'] or nsolve[0] - n0 != c['reject'] + 1):
                return 'monotone: real model call %d returned %r > %r after %d trial(s) in that call (reject_count=%d, reject=%d)' % (kk, r, prev, nsolve[0] - n0, opt.reject_count, c['reject'])
            if nsolve[0] - n0 > c['reject'] + 1:
                return 'trials: real model call %d made %d solves, reject=%d' % (kk, nsolve[0] - n0, c['reject'])
            if c['raise_at'] is not None and n0 < c['raise_at'] <= nsolve[0] and nsolve[0] == c['raise_at']:
                # the raise ended the call: parameters as before the failing trial = before the call
                # (all earlier trials of this call were rejected)
                if (net.x.detach() - x_before).abs().max() > 1e-9 * (1 + x_before.abs().max()) or abs(r - prev) > tol:
                    return 'solver-raise: real model call %d: parameters / loss changed although the solver raised' % kk
        prev = true
        state['prev'] = prev
        state['rtol'] = rtol
    return None


def gen_hyper(rng):
    """legal hyper-parameters of Adaptive / TrustRegion; a third of them with the thresholds in unusual order"""
    if rng.random() < 0.4:
        return None                      # the defaults
    h = dict(high=rng.choice([0.5, 0.75, 0.25, 0.9]), low=rng.choice([1e-3, 0.1, 0.2]), up=rng.choice([2.0, 3.0, 5.0]), down=rng.choice([0.5, 0.25, 0.1]),
             factor=rng.choice([0.5, 0.25]), min=rng.choice([1e-6, 1e-3]), max=rng.choice([1e16, 1e4]))
    if rng.random() < 0.35:
        h['high'], h['low'] = rng.choice([(0.5, 2.0), (0.25, 0.25), (1.5, 0.5), (0.1, 0.9), (3.0, 3.0)])
    return h


def real_models(ctx, pp, torch):
    rng = ctx.rng
    for t in range(ctx.scale(48, 480)):
        c = dict(kind='real', seed=rng.randint(0, 10 ** 6), n=rng.randint(1, 5), m=rng.randint(2, 8), ill=rng.choice([0, 0, 4, 8]),
                 scale=rng.choice([1.0, 10.0]), nl=rng.choice([0.0, 1.0, 3.0]), damping=rng.choice([1e-9, 1e-6, 1e-2, 1.0, 1e3]),
                 strategy=rng.randrange(3), kernel=rng.randrange(5), delta=rng.choice([0.5, 1.0, 0.3, 2.0]), reject=rng.choice([0, 1, 2, 16]),
                 calls=rng.choice([1, 3, 10, 30]), outs=rng.choice([1, 1, 2, 3]), raise_at=rng.choice([None, None, rng.randint(1, 12)]),
                 opt=('gn' if t % 3 == 2 else 'lm'), target=rng.random() < 0.4, klist=rng.random() < 0.4, corrector=rng.choice([0, 0, 1, 2]),
                 stationary=(t % 3 == 1 and rng.random() < 0.5), hyper=gen_hyper(rng))
        if c['stationary'] and rng.random() < 0.7:
            c['kernel'], c['klist'] = 0, False        # without a kernel the trial step at the stationary point is exactly zero
        if c['opt'] == 'gn':
            c['calls'] = min(c['calls'], 10)
            c['ill'] = rng.choice([0, 0, 2])
        # regimes of the loss and of the process (own random stream): constant residual rows that dominate the loss, so that a trial can be
        # worse by a tiny RELATIVE amount; the process default dtype differs from / equals the model's float64
        rng3 = random.Random('C08-real-%r-%d' % (ctx.seed, t))
        if rng3.random() < 0.4:
            C = rng3.choice([30.0, 3e3, 1e5, 1e6])
            c['offset'] = [C * rng3.choice([1.0, -1.0, 0.5]) for _ in range(rng3.choice([1, 1, 2, 4]))]
        c['dd'] = rng3.choice([None, None, 'float64'])
        ctx.case(('real', tuple(sorted(c.items(), key=str))), branch='real-model-%s%s%s' % (c['opt'], '-stationary-start' if c['stationary'] else '', '-constant-rows' if c.get('offset') else ''))
        try:
            why = real_one(pp, torch, c)
        except Raise:
            why = None
        if why:
            ctx.violation(('gn-clause:' if c['opt'] == 'gn' else 'lm-clause:') + why.split(':')[0], why, c)
    for q, v in sorted(STATS.items()):
        ctx.count(q, v)
    STATS.clear()
