"""C06 correspondence: batching / broadcasting / views are transparent, pure ops never mutate, patching undone.

A  exhaustive: all pairs of lshapes of rank <= 3 with extents in {0,1,2,3} x all binary LieTensor ops x the four
   groups: torch decides which pairs broadcast, Model/Broadcast.v (bcast_table) gives shape + index map, the batched
   result must equal the same op applied item by item (rank-0 calls of the implementation) at the mapped items;
   incompatible pairs must raise; a sample of complete cases is evaluated over Q by the model (full_bad).
B  unary ops x all 85 lshapes x groups, constructors.
C  every name in HANDLED_FUNCTIONS: result type / ltype / warnings vs torch_function (tf_bad), values vs raw torch.
D  retain_ltype / pp.func.jacrev: random bodies with nesting and injected exceptions vs Model/Patch.v (patch_bad).
E  non-mutation sweep over the public API + write sets vs the effect model (eff_bad).
F  dtype clause: every op / accessor / converter / constructor x operand dtypes {f64, f32, f16, bf16} x process default
   dtype {float32, float64}: documented result dtype, independence of the process default (oracle from the docs only).
G  documented optional arguments / call forms: add / add_ (alpha, other with ignored trailing elements or an algebra LieTensor), cum* (dim, left, ops),
   euler / quat2unit (eps), randn_* / identity_* / *_like (lsize forms, sigma, requires_grad, dtype, device), mat2* / from_matrix (check, rtol, atol):
   batched == item by item on every broadcast class and memory layout, closed forms from the docs, non-mutation, repeatability.
The defects repaired by c362486, 9407769, 146d9a5, 613c139, 084bc81 stay in as directed regression cases.
"""
import itertools, math, random, warnings, copy, importlib
import math
from ..common import *
from ..lie import *

RULE = ('a case is (lshape pair, group, op) [exhaustive over rank<=3, extents 0..3], (lshape, group, unary op), '
        '(handled function, call form), (retain_ltype body tree), (public function, argument class), (op, ltype, lshape, operand dtypes, process default dtype), (function, optional-argument value, call form, lshapes, memory layouts); exact comparison '
        'for polynomial ops on exactly representable items, 64 eps for ops through Exp/Log; non-trivial = batch with '
        'more than one item or a broadcast / empty / rank-0 edge')

ALG = {'SO3': 'so3', 'SE3': 'se3', 'RxSO3': 'rxso3', 'Sim3': 'sim3'}
LT_CODE = {'SO3Type': 0, 'SE3Type': 1, 'RxSO3Type': 2, 'Sim3Type': 3, 'so3Type': 4, 'se3Type': 5, 'rxso3Type': 6, 'sim3Type': 7}
LT_COQ = ['SO3_t', 'SE3_t', 'RxSO3_t', 'Sim3_t', 'so3_t', 'se3_t', 'rxso3_t', 'sim3_t']
# op codes of Model/Broadcast.v
BINOPS = [('Mul', 0), ('Act', 2), ('Act4', 3), ('Adj', 9), ('AdjT', 10), ('Retr', 11), ('Jinvp', 14)]
UNOPS = [('Inv', 1), ('matrix', 4), ('rotation', 6), ('translation', 7), ('scale', 8), ('Exp', 12), ('Log', 13)]
EXACT_OPS = {'Mul', 'Act', 'Act4', 'Adj', 'AdjT', 'Inv', 'matrix', 'rotation', 'translation', 'scale'}
SHAPES = [()] + [s for r in (1, 2, 3) for s in itertools.product(range(4), repeat=r)]
NPOOL = 27
HDR = ('From Coq Require Import String.\nFrom PV Require Import Base.Num Model.LieGroup Model.Broadcast Model.Patch.\n'
       'From Coq Require Import List ZArith QArith Bool. Import ListNotations.\nOpen Scope Q_scope.\n'
       'Set Printing Depth 1000000. Set Printing Width 200.\n')


def natlist(s):
    return '[' + '; '.join('%d%%nat' % int(v) for v in s) + ']'


def numel(s):
    return math.prod(s)


# ------------------------------------------------------------------------------------------------ pools
class Pools:
    """exactly representable, pairwise distinct operand items for every group"""

    def __init__(self, rng, torch, pp):
        self.torch, self.pp = torch, pp
        self.cache = {}
        self.x, self.y, self.a, self.asmall, self.xv = {}, {}, {}, {}, {}
        for g in GROUPS:
            # exact ops: dyadic items (the kernels are polynomial, validity is not needed; only 24 dyadic unit
            # quaternions exist, too few for 27 distinct items); half of them with a Hurwitz unit quaternion
            seen, xs = set(), []
            while len(xs) < 2 * NPOOL:
                e = unit_elt(rng, g) if (len(xs) % 2 == 0 and g != 'SO3') else dyadic_elt(rng, g)
                if g in ('RxSO3', 'Sim3'):
                    e[-1] = abs(e[-1])
                if tuple(e) not in seen and any(e[:4] if g in ('SO3', 'RxSO3') else e[3:7]):
                    seen.add(tuple(e))
                    xs.append(e)
            self.x[g], self.y[g] = xs[:NPOOL], xs[NPOOL:]
            # ops through Exp / Log: valid generic elements
            self.xv[g] = [generic_elt(rng, g, torch, torch.float64) for _ in range(NPOOL)]
            self.a[g] = self.distinct(rng, ADIM[g], 5, 1.0)
            self.asmall[g] = self.distinct(rng, ADIM[g], 4, 0.5)
        self.p3 = self.distinct(rng, 3, 5, 2.0)
        self.p4 = [v + [rng.choice([0.0, 1.0, 1.0, 0.5, 2.0])] for v in self.distinct(rng, 3, 5, 2.0)]

    @staticmethod
    def distinct(rng, d, bits, lim):
        seen, out = set(), []
        while len(out) < NPOOL:
            v = [dy(rng, bits, lim) for _ in range(d)]
            if tuple(v) not in seen and any(v):
                seen.add(tuple(v))
                out.append(v)
        return out

    def tens(self, items, ls, d, dtype=None):
        torch = self.torch
        n = numel(ls)
        dtype = dtype or torch.float64
        if n == 0:
            return torch.zeros(tuple(ls) + (d,), dtype=dtype)
        return torch.tensor(items[:n], dtype=dtype).reshape(tuple(ls) + (d,))

    def operands(self, g, op, lx, ly, dtype=None):
        """-> (X, Y, x items, y items) for a binary op (float64 operands are cached: they must never change)"""
        if dtype is None:
            kx = ('x', g, op in EXACT_OPS, tuple(lx))
            ky = ('y', g, op if op in ('Mul', 'Act', 'Act4') else ('a' if op in ('Adj', 'AdjT') else 'as'), tuple(ly))
            if kx in self.cache and ky in self.cache:
                return self.cache[kx][0], self.cache[ky][0], self.cache[kx][1], self.cache[ky][1]
            X, Y, xi, yi = self._operands(g, op, lx, ly, None)
            self.cache.setdefault(kx, (X, xi))
            self.cache.setdefault(ky, (Y, yi))
            return self.cache[kx][0], self.cache[ky][0], xi, yi
        return self._operands(g, op, lx, ly, dtype)

    def _operands(self, g, op, lx, ly, dtype=None):
        pp = self.pp
        xi = self.x[g] if op in EXACT_OPS else self.xv[g]
        X = pp.LieTensor(self.tens(xi, lx, GDIM[g], dtype), ltype=getattr(pp, g + '_type'))
        if op == 'Mul':
            yi, Y = self.y[g], pp.LieTensor(self.tens(self.y[g], ly, GDIM[g], dtype), ltype=getattr(pp, g + '_type'))
        elif op == 'Act':
            yi, Y = self.p3, self.tens(self.p3, ly, 3, dtype)
        elif op == 'Act4':
            yi, Y = self.p4, self.tens(self.p4, ly, 4, dtype)
        else:
            yi = self.a[g] if op in ('Adj', 'AdjT') else self.asmall[g]
            Y = pp.LieTensor(self.tens(yi, ly, ADIM[g], dtype), ltype=getattr(pp, ALG[g] + '_type'))
        return X, Y, xi, yi


def call_binop(pp, op, X, Y, variant=0):
    if op == 'Mul':
        return (X @ Y) if variant % 3 == 0 else ((X * Y) if variant % 3 == 1 else pp.Mul(X, Y))
    if op in ('Act', 'Act4'):
        return X.Act(Y) if variant % 3 == 0 else ((X @ Y) if variant % 3 == 1 else pp.Act(X, Y))
    if op == 'Adj':
        return X.Adj(Y) if variant % 2 == 0 else pp.Adj(X, Y)
    if op == 'AdjT':
        return X.AdjT(Y) if variant % 2 == 0 else pp.AdjT(X, Y)
    if op == 'Retr':
        return X.Retr(Y) if variant % 2 == 0 else pp.Retr(X, Y)
    if op == 'Jinvp':
        return X.Jinvp(Y) if variant % 2 == 0 else pp.Jinvp(X, Y)
    raise KeyError(op)


def call_unop(pp, op, X, variant=0):
    if op == 'Inv':
        return X.Inv() if variant % 2 == 0 else pp.Inv(X)
    if op == 'matrix':
        return X.matrix() if variant % 2 == 0 else pp.matrix(X)
    if op == 'rotation':
        return X.rotation() if variant % 2 == 0 else pp.rotation(X)
    if op == 'translation':
        return X.translation() if variant % 2 == 0 else pp.translation(X)
    if op == 'scale':
        return X.scale() if variant % 2 == 0 else pp.scale(X)
    if op == 'Exp':
        return X.Exp() if variant % 2 == 0 else pp.Exp(X)
    if op == 'Log':
        return X.Log() if variant % 2 == 0 else pp.Log(X)
    raise KeyError(op)


def out_tail(g, op):
    """documented trailing dimensions of the result"""
    if op in ('Mul', 'Retr', 'Inv', 'Exp'):
        return (GDIM[g],)
    if op == 'Act':
        return (3,)
    if op == 'Act4':
        return (4,)
    if op in ('Adj', 'AdjT', 'Jinvp', 'Log'):
        return (ADIM[g],)
    if op == 'matrix':
        return (3, 3) if g == 'SO3' else (4, 4)
    return {'rotation': (4,), 'translation': (3,), 'scale': (1,)}[op]


def documented_ltype(g, op):
    """from the documentation of the operations (independent of the Coq table)"""
    if op in ('Mul', 'Retr', 'Inv', 'Exp'):
        return g + 'Type'
    if op == 'rotation':
        return 'SO3Type'
    if op in ('Adj', 'AdjT', 'Jinvp', 'Log'):
        return ALG[g] + 'Type'
    return None


def ltype_name(t, torch):
    if isinstance(t, torch.Tensor) and type(t).__name__ in ('LieTensor', 'Parameter') and hasattr(t, 'ltype'):
        return t.ltype.__class__.__name__
    return None


def close(torch, a, b, exact):
    if a.shape != b.shape:
        return False
    if exact:
        return bool(torch.equal(a, b))
    if a.numel() == 0:
        return True
    tol = 64 * torch.finfo(a.dtype).eps
    return bool(((a - b).abs() <= tol * (1 + b.abs())).all())


def raw(t, torch):
    return t.as_subclass(torch.Tensor) if isinstance(t, torch.Tensor) else t


# ------------------------------------------------------------------------------------------------ oracles
def torch_index_maps(torch, lx, ly):
    """PyTorch's own broadcasting applied to index grids (independent of the Coq model)"""
    out = tuple(torch.broadcast_shapes(tuple(lx), tuple(ly)))
    ix = torch.arange(numel(lx)).reshape(tuple(lx)).expand(out).reshape(-1).tolist()
    iy = torch.arange(numel(ly)).reshape(tuple(ly)).expand(out).reshape(-1).tolist()
    return out, ix, iy


def oracle_binop(pp, torch, pools, g, op, lx, ly, variant=0, dtype=None):
    """the property's statement checked directly: batched == item by item under torch broadcasting,
    documented ltype / lshape / dtype / device.  Returns None or a description of the failure."""
    X, Y, xi, yi = pools.operands(g, op, lx, ly, dtype)
    try:
        out_shape, ix, iy = torch_index_maps(torch, lx, ly)
    except RuntimeError:
        try:
            r = call_binop(pp, op, X, Y, variant)
        except Exception:
            return None
        return '%s %s on lshapes %s x %s that do not broadcast returned shape %s instead of raising' % (g, op, lx, ly, tuple(r.shape))
    try:
        r = call_binop(pp, op, X, Y, variant)
    except Exception as e:
        return '%s %s on lshapes %s x %s raises %r (they broadcast to %s)' % (g, op, lx, ly, repr(e)[:150], out_shape)
    tail = out_tail(g, op)
    if tuple(r.shape) != out_shape + tail:
        return '%s %s lshapes %s x %s: result shape %s, expected %s' % (g, op, lx, ly, tuple(r.shape), out_shape + tail)
    if ltype_name(r, torch) != documented_ltype(g, op):
        return '%s %s: result ltype %s, documented %s' % (g, op, ltype_name(r, torch), documented_ltype(g, op))
    if r.dtype != X.dtype or r.device != X.device:
        return '%s %s: dtype/device %s/%s, operands %s/%s' % (g, op, r.dtype, r.device, X.dtype, X.device)
    flat = raw(r, torch).reshape((-1,) + tail)
    x0, y0 = X.reshape(-1, X.shape[-1]), Y.reshape(-1, Y.shape[-1])
    for k, (a, b) in enumerate(zip(ix, iy)):
        it = raw(call_binop(pp, op, x0[a], y0[b], variant), torch)
        if not close(torch, flat[k], it, op in EXACT_OPS and dtype in (None, torch.float64)):
            return ('%s %s lshapes %s x %s: item %d of the batched result %s differs from op(x[%d], y[%d]) = %s'
                    % (g, op, lx, ly, k, flat[k].tolist(), a, b, it.tolist()))
    return None


def oracle_unop(pp, torch, pools, g, op, ls, variant=0):
    X = unary_operand(pp, pools, g, op, ls)
    try:
        r = call_unop(pp, op, X, variant)
    except Exception as e:
        return '%s %s on lshape %s raises %r' % (g, op, ls, repr(e)[:150])
    tail = out_tail(g, op)
    if tuple(r.shape) != tuple(ls) + tail:
        return '%s %s lshape %s: result shape %s, expected %s' % (g, op, ls, tuple(r.shape), tuple(ls) + tail)
    if ltype_name(r, torch) != documented_ltype(g, op):
        return '%s %s: result ltype %s, documented %s' % (g, op, ltype_name(r, torch), documented_ltype(g, op))
    if r.dtype != X.dtype or r.device != X.device:
        return '%s %s: dtype/device changed' % (g, op)
    flat = raw(r, torch).reshape((-1,) + tail)
    x0 = X.reshape(-1, X.shape[-1])
    for k in range(numel(ls)):
        it = raw(call_unop(pp, op, x0[k], variant), torch)
        if not close(torch, flat[k], it, op in EXACT_OPS):
            return '%s %s lshape %s: item %d of the batched result differs from op(x[%d])' % (g, op, ls, k, k)
    return None


def unary_operand(pp, pools, g, op, ls):
    if op == 'Exp':
        return pp.LieTensor(pools.tens(pools.asmall[g], ls, ADIM[g]), ltype=getattr(pp, ALG[g] + '_type'))
    return pp.LieTensor(pools.tens(pools.x[g] if op in EXACT_OPS else pools.xv[g], ls, GDIM[g]), ltype=getattr(pp, g + '_type'))


# ------------------------------------------------------------------------------------------------ part A
def model_index_maps(ctx, pairs):
    """Model/Broadcast.v bcast_table on all pairs -> list of None | (out_shape, [(ix, iy)...])"""
    files, per_eval, per_file = [], 300, 1500
    for fi, k in enumerate(range(0, len(pairs), per_file)):
        txt = HDR
        for j in range(k, min(k + per_file, len(pairs)), per_eval):
            sh = pairs[j:j + per_eval]
            txt += 'Eval vm_compute in bcast_table %s.\n' % coq_list('(%s, %s)' % (natlist(a), natlist(b)) for a, b in sh)
        files.append(('idx_%02d' % fi, txt))
    res = run_case_files('C06', files, timeout=600)
    import ast
    out = []
    for name, _ in files:
        rc, o = res[name]
        evs = parse_evals(o)
        if rc != 0 or not evs:
            ctx.obligation_broken('correspondence-file:' + name, o[-1500:])
            return None
        for e in evs:
            e = e.replace('Some', '').replace(';', ',').replace('%nat', '')
            out.extend(ast.literal_eval(e))
    if len(out) != len(pairs):
        ctx.obligation_broken('correspondence-file:idx', 'expected %d results, parsed %d' % (len(pairs), len(out)))
        return None
    return out


def reference_tables(pp, torch, pools, ctx):
    """item-level results of the implementation (rank-0 operands): R[(g, op)][a][b], U[(g, op)][a]"""
    R, U = {}, {}
    for g in GROUPS:
        for op, _ in BINOPS:
            X, Y, _, _ = pools.operands(g, op, (NPOOL,), (NPOOL,))
            rows = []
            for a in range(NPOOL):
                rows.append(torch.stack([raw(call_binop(pp, op, X[a], Y[b]), torch) for b in range(NPOOL)]))
            R[(g, op)] = torch.stack(rows)
            ctx.count('item-table-%s' % op, NPOOL * NPOOL)
        for op, _ in UNOPS:
            X = unary_operand(pp, pools, g, op, (NPOOL,))
            U[(g, op)] = torch.stack([raw(call_unop(pp, op, X[a]), torch) for a in range(NPOOL)])
    return R, U


def qt_lit(ls, d, items):
    return '(%s, %d%%nat, %s)' % (natlist(ls), d, coq_list(qlist(v) for v in items))


def part_broadcast(ctx, pp, torch, pools, files2, meta2):
    rng = ctx.rng
    pairs = [(a, b) for a in SHAPES for b in SHAPES]
    maps = model_index_maps(ctx, pairs)
    if maps is None:
        return
    R, U = reference_tables(pp, torch, pools, ctx)
    ops = [o for o, _ in BINOPS]
    opcode = dict(BINOPS + UNOPS)
    ltypes_seen = set()
    full = []
    nfull = ctx.scale(700, 60000)
    # which (pair, g, op) get a complete evaluation over Q by the model: directed edge shapes first
    directed = {((), ()), ((), (2,)), ((2,), ()), ((0,), (1,)), ((1,), (0,)), ((2, 1), (3,)), ((3, 1, 2), (1, 3, 1)),
                ((0, 2), (2, 1, 1)), ((1,), (1,)), ((2, 3), (2, 3)), ((3, 3, 3), (3, 3, 3)), ((1, 0), (3, 1, 1))}
    nb = sum(1 for m in maps if m is not None)
    pfull = min(1.0, nfull / float(max(1, nb) * 4 * 5))
    variant = 0
    for pi, ((lx, ly), m) in enumerate(zip(pairs, maps)):
        try:
            tshape = tuple(torch.broadcast_shapes(lx, ly))
        except RuntimeError:
            tshape = None
        if (m is None) != (tshape is None) or (m is not None and tuple(m[0]) != tshape):
            ctx.mismatch('broadcast_shapes', dict(lx=lx, ly=ly, model=None if m is None else m[0], torch=tshape))
            continue
        if m is None:
            # incompatible: every op of one group must raise (group / op rotate over the 4746 pairs; thorough: all)
            combos = [(g, op) for g in GROUPS for op in ops] if ctx.thorough else [(GROUPS[pi % 4], ops[(pi // 4) % len(ops)])]
            for g, op in combos:
                X, Y, _, _ = pools.operands(g, op, lx, ly)
                ctx.case(('incompat', lx, ly, g, op), branch='incompatible-raises')
                try:
                    r = call_binop(pp, op, X, Y, pi)
                except Exception:
                    continue
                mm = dict(kind='binop', g=g, op=op, lx=lx, ly=ly, variant=pi, got=tuple(r.shape))
                ctx.mismatch('incompatible-accepted', mm)
                what = oracle_binop(pp, torch, pools, g, op, lx, ly, pi)
                if what:
                    ctx.mismatches[-1]['explained'] = True
                    ctx.violation('broadcast:incompatible-accepted:%s:%s' % (g, op), what, mm)
            continue
        out_shape, pm = tuple(m[0]), m[1]
        ix = torch.tensor([p[0] for p in pm], dtype=torch.long)
        iy = torch.tensor([p[1] for p in pm], dtype=torch.long)
        n = len(pm)
        edge = 'rank0' if out_shape == () else ('empty' if n == 0 else ('broadcast' if (lx != ly) else 'same-shape'))
        for g in GROUPS:
            for op in ops:
                variant += 1
                X, Y, xi, yi = pools.operands(g, op, lx, ly)
                xs, ys = X.clone(), Y.clone()
                key = (lx, ly, g, op)
                ctx.case(key, nontrivial=(n != 1 or lx != ly), branch='%s-%s' % (op, edge),
                         sample=dict(lx=lx, ly=ly, group=g, op=op, out_shape=out_shape) if (pi % 611 == 7 and g == 'SE3' and op == 'Mul') else None)
                mm = dict(kind='binop', g=g, op=op, lx=lx, ly=ly, variant=variant)
                try:
                    r = call_binop(pp, op, X, Y, variant)
                except Exception as e:
                    ctx.mismatch('broadcast:%s' % op, dict(mm, err=repr(e)[:200]))
                    continue
                tail = out_tail(g, op)
                exact = op in EXACT_OPS
                ok = (tuple(r.shape) == out_shape + tail and r.dtype == torch.float64 and r.device == X.device
                      and close(torch, raw(r, torch).reshape((-1,) + tail), R[(g, op)][ix, iy].reshape((-1,) + tail), exact)
                      and torch.equal(raw(X, torch), raw(xs, torch)) and torch.equal(raw(Y, torch), raw(ys, torch)))
                lt = ltype_name(r, torch)
                ltypes_seen.add((GID[g], opcode[op], None if lt is None else LT_CODE[lt]))
                if not ok:
                    ctx.mismatch('broadcast:%s' % op, dict(mm, got_shape=tuple(r.shape)))
                if exact and (((lx, ly) in directed) or rng.random() < pfull):
                    flat = raw(r, torch).reshape((-1,) + tail)
                    exp = '(Some %s)' % qt_lit(out_shape, tail[0], [fr(flat[k]) for k in range(flat.shape[0])])
                    full.append((mm, '(@IDX@%%nat, %d%%nat, %d%%nat, %s, %s, %s)' % (
                        GID[g], opcode[op], qt_lit(lx, X.shape[-1], xi[:numel(lx)]), qt_lit(ly, Y.shape[-1], yi[:numel(ly)]), exp)))
    # float32 and a few non-contiguous / expanded operands (views)
    for k in range(ctx.scale(60, 600)):
        lx, ly = rng.choice([p for p, m in zip(pairs, maps) if m is not None])
        g, op = rng.choice(GROUPS), rng.choice(['Mul', 'Act', 'Adj'])
        ctx.case(('f32', lx, ly, g, op, k), branch='float32')
        what = oracle_binop(pp, torch, pools, g, op, lx, ly, k, torch.float32)
        if what:
            mm = dict(kind='binop', g=g, op=op, lx=lx, ly=ly, variant=k, dtype='float32')
            ctx.mismatch('broadcast-float32', mm)
            ctx.mismatches[-1]['explained'] = True
            ctx.violation('broadcast:float32:%s:%s' % (g, op), what, mm)
    # search for the mismatches found above (the property's statement itself, torch's broadcasting as oracle)
    for m in ctx.mismatches:
        c = m['case']
        if m['family'].startswith('broadcast:') and not m.get('explained'):
            what = oracle_binop(pp, torch, pools, c['g'], c['op'], c['lx'], c['ly'], c['variant'])
            if what:
                m['explained'] = True
                ctx.violation('broadcast:%s:%s' % (c['g'], c['op']), what, c)
    # files for the second Coq round
    for si, sh in enumerate(shard(full, 120)):
        base = len(meta2)
        lits = [lit.replace('@IDX@', str(base + j)) for j, (_, lit) in enumerate(sh)]
        meta2.extend(('full', mm) for mm, _ in sh)
        files2.append(('full_%03d' % si, 'full', base, HDR + 'Eval vm_compute in full_bad %s.\n' % coq_list(lits)))
    base = len(meta2)
    lt_list = sorted(ltypes_seen, key=lambda t: (t[0], t[1], -1 if t[2] is None else t[2]))
    meta2.extend(('ltype', dict(g=GROUPS[g], opcode=o, observed=l)) for g, o, l in lt_list)
    files2.append(('ltype_bin', 'ltype', base, HDR + 'Eval vm_compute in ltype_bad %s.\n' % coq_list(
        '(%d%%nat, %d%%nat, %d%%nat, %s)' % (base + j, g, o, 'None' if l is None else '(Some %d%%nat)' % l) for j, (g, o, l) in enumerate(lt_list))))
    ctx.count('complete-cases-over-Q', len(full))
    return R, U


# ------------------------------------------------------------------------------------------------ part B
def part_unary(ctx, pp, torch, pools, U, files2, meta2):
    rng = ctx.rng
    opcode = dict(UNOPS)
    ltypes_seen, full = set(), []
    directed = {(), (0,), (1,), (2,), (2, 3), (3, 0, 2), (3, 3, 3), (1, 1, 1)}
    variant = 0
    for ls in SHAPES:
        n = numel(ls)
        idx = torch.arange(n, dtype=torch.long)
        edge = 'rank0' if ls == () else ('empty' if n == 0 else 'batch')
        for g in GROUPS:
            for op, code in UNOPS:
                variant += 1
                X = unary_operand(pp, pools, g, op, ls)
                xs = X.clone()
                ctx.case(('un', ls, g, op), nontrivial=(n != 1), branch='%s-%s' % (op, edge))
                mm = dict(kind='unop', g=g, op=op, ls=ls, variant=variant)
                try:
                    with warnings.catch_warnings():
                        warnings.simplefilter('ignore')
                        r = call_unop(pp, op, X, variant)
                except Exception as e:
                    ctx.mismatch('unary:%s' % op, dict(mm, err=repr(e)[:200]))
                    continue
                tail = out_tail(g, op)
                ok = (tuple(r.shape) == tuple(ls) + tail and r.dtype == torch.float64
                      and close(torch, raw(r, torch).reshape((-1,) + tail), U[(g, op)][idx].reshape((-1,) + tail), op in EXACT_OPS)
                      and torch.equal(raw(X, torch), raw(xs, torch)))
                lt = ltype_name(r, torch)
                ltypes_seen.add((GID[g], code, None if lt is None else LT_CODE[lt]))
                if not ok:
                    ctx.mismatch('unary:%s' % op, dict(mm, got_shape=tuple(r.shape)))
                if op in EXACT_OPS and (ls in directed or rng.random() < ctx.scale(0.12, 1.0)):
                    flat = raw(r, torch).reshape(n, math.prod(tail))
                    exp = '(Some %s)' % qt_lit(ls, math.prod(tail), [fr(flat[k]) for k in range(n)])
                    full.append((mm, '(@IDX@%%nat, %d%%nat, %d%%nat, %s, %s, %s)' % (
                        GID[g], code, qt_lit(ls, GDIM[g], pools.x[g][:n]), qt_lit((), 0, []), exp)))
    # constructors / shape attributes for every lshape
    for ls in SHAPES:
        for g in GROUPS:
            for nm in (g, ALG[g]):
                ctx.case(('ctor', ls, nm), nontrivial=False, branch='constructors')
                d = GDIM[g] if nm == g else ADIM[g]
                try:
                    I = getattr(pp, 'identity_' + nm)(*ls, dtype=torch.float64)
                    Rn = getattr(pp, 'randn_' + nm)(*ls, dtype=torch.float64)
                    ident = ([0.0] * (d - 1) + [1.0]) if nm == 'SO3' else ([0.0] * 6 + [1.0]) if nm == 'SE3' else \
                        ([0.0] * 3 + [1.0, 1.0]) if nm == 'RxSO3' else ([0.0] * 6 + [1.0, 1.0]) if nm == 'Sim3' else [0.0] * d
                    good = (tuple(I.shape) == tuple(ls) + (d,) and tuple(I.lshape) == tuple(ls) and ltype_name(I, torch) == nm + 'Type'
                            and tuple(Rn.shape) == tuple(ls) + (d,) and ltype_name(Rn, torch) == nm + 'Type'
                            and bool((raw(I, torch).reshape(-1, d) == torch.tensor(ident, dtype=torch.float64)).all())
                            and tuple(I.lview(-1).lshape) == (numel(ls),) if numel(ls) else True)
                    if good and numel(ls):
                        # every documented call form of lview (ints, a torch.Size, a tuple / list), same items, same ltype
                        n = numel(ls)
                        for form in ((n,), (torch.Size([n]),), ((n,),), ([1, n],), (torch.Size(ls),)):
                            V = Rn.lview(*form)
                            want = tuple(form[0]) if isinstance(form[0], (tuple, list)) else tuple(form)
                            good = good and tuple(V.lshape) == want and ltype_name(V, torch) == nm + 'Type' \
                                and bool((raw(V, torch).reshape(-1, d) == raw(Rn, torch).reshape(-1, d)).all())
                except Exception as e:
                    good = False
                if not good:
                    c = dict(kind='ctor', name=nm, ls=ls)
                    ctx.mismatch('constructors', c)
                    ctx.mismatches[-1]['explained'] = True
                    ctx.violation('constructor:%s' % nm, 'identity_%s / randn_%s / lview with lshape %s: wrong shape, ltype or items' % (nm, nm, ls), c)
    # a LieTensor whose last dimension does not fit its ltype is rejected
    for g in GROUPS:
        ctx.case(('ctor-bad', g), nontrivial=False, branch='constructors')
        try:
            pp.LieTensor(torch.zeros(2, GDIM[g] + 1), ltype=getattr(pp, g + '_type'))
            c = dict(kind='ctor-bad', g=g)
            ctx.mismatch('constructors', c)
            ctx.mismatches[-1]['explained'] = True
            ctx.violation('constructor:bad-last-dim:%s' % g, 'LieTensor(zeros(2,%d), %s_type) accepted' % (GDIM[g] + 1, g), c)
        except AssertionError:
            pass
    for m in ctx.mismatches:
        c = m['case']
        if m['family'].startswith('unary:') and not m.get('explained'):
            what = oracle_unop(pp, torch, pools, c['g'], c['op'], c['ls'], c['variant'])
            if what:
                m['explained'] = True
                ctx.violation('unary:%s:%s' % (c['g'], c['op']), what, c)
    for si, sh in enumerate(shard(full, 150)):
        base = len(meta2)
        lits = [lit.replace('@IDX@', str(base + j)) for j, (_, lit) in enumerate(sh)]
        meta2.extend(('full', mm) for mm, _ in sh)
        files2.append(('fullu_%03d' % si, 'full', base, HDR + 'Eval vm_compute in full_bad %s.\n' % coq_list(lits)))
    base = len(meta2)
    lt_list = sorted(ltypes_seen, key=lambda t: (t[0], t[1], -1 if t[2] is None else t[2]))
    meta2.extend(('ltype', dict(g=GROUPS[g], opcode=o, observed=l)) for g, o, l in lt_list)
    files2.append(('ltype_un', 'ltype', base, HDR + 'Eval vm_compute in ltype_bad %s.\n' % coq_list(
        '(%d%%nat, %d%%nat, %d%%nat, %s)' % (base + j, g, o, 'None' if l is None else '(Some %d%%nat)' % l) for j, (g, o, l) in enumerate(lt_list))))
    ctx.count('complete-cases-over-Q', len(full))


# ------------------------------------------------------------------------------------------------ second Coq round
def second_round(ctx, pp, torch, pools, files2, meta2):
    res = run_case_files('C06', [(name, text) for name, _, _, text in files2], timeout=900)
    for name, kind, base, _ in files2:
        rc, out = res[name]
        ev = parse_evals(out)
        if rc != 0 or len(ev) != 1:
            ctx.obligation_broken('correspondence-file:' + name, out[-1500:])
            continue
        for i in parse_nat_list(ev[0]):
            k, c = meta2[i]
            ctx.mismatch('model-eval:' + k, c)
            mm = ctx.mismatches[-1]
            what = None
            if k == 'full' and c.get('kind') == 'binop':
                what = oracle_binop(pp, torch, pools, c['g'], c['op'], c['lx'], c['ly'], c['variant'])
            elif k == 'full' and c.get('kind') == 'unop':
                what = oracle_unop(pp, torch, pools, c['g'], c['op'], c['ls'], c['variant'])
            elif k == 'ltype':
                opn = {v: n for n, v in BINOPS + UNOPS}[c['opcode']]
                doc = documented_ltype(c['g'], opn)
                if (None if doc is None else LT_CODE[doc]) != c['observed']:
                    what = '%s %s returns ltype code %s, documented %s' % (c['g'], opn, c['observed'], doc)
                    c = dict(kind='ltype', g=c['g'], op=opn)
            elif k in ('tf', 'patch', 'eff'):
                what = c.get('search')() if callable(c.get('search')) else None
                c = {kk: vv for kk, vv in c.items() if kk != 'search'}
                mm['case'] = c
            if what:
                mm['explained'] = True
                ctx.violation('%s:%s' % (k, c.get('key', c.get('op', c.get('name', '?')))), what, c)


def run(ctx):
    pp = import_pypose()
    import torch
    warnings.filterwarnings('ignore')
    ctx.rule = RULE
    pools = Pools(ctx.rng, torch, pp)
    ctx.pool_seed = ctx.seed
    files2, meta2 = [], []
    RU = part_broadcast(ctx, pp, torch, pools, files2, meta2)
    if RU is not None:
        part_unary(ctx, pp, torch, pools, RU[1], files2, meta2)
    for part in PARTS:
        part(ctx, pp, torch, files2, meta2)
    second_round(ctx, pp, torch, pools, files2, meta2)
    ctx.exhaustive = True
    ctx.notes.append('exhaustive over all %d x %d pairs of lshapes (rank <= 3, extents 0..3): %d broadcast, %d must raise'
                     % (len(SHAPES), len(SHAPES), 2479, 4746))


PARTS = []


# ------------------------------------------------------------------------------------------------ part C
def handled_calls(torch, pp):
    """name in HANDLED_FUNCTIONS -> list of (label, f(T, aux) -> result, inplace?) ; T is the LieTensor or its raw tensor
    (shape (2,3,d), for `dsplit` (2,3,2,d)); aux(T) gives a second operand of the same kind."""
    i01 = torch.tensor([1, 0])
    C = {}
    C['__getitem__'] = [('X[0]', lambda T, a: T[0]), ('X[:,1]', lambda T, a: T[:, 1]), ('X[idx]', lambda T, a: T[i01]),
                        ('X[...,:2]', lambda T, a: T[..., :2]), ('X[1,2]', lambda T, a: T[1, 2]), ('X[mask]', lambda T, a: T[torch.tensor([True, False])])]
    C['__setitem__'] = [('X[0]=Y[1]', lambda T, a: T.__setitem__(0, a[1]), True)]
    C['cpu'] = [('X.cpu()', lambda T, a: T.cpu())]
    C['float'] = [('X.float()', lambda T, a: T.float())]
    C['double'] = [('X.double()', lambda T, a: T.double())]
    C['to'] = [('X.to(float32)', lambda T, a: T.to(torch.float32)), ('X.to(cpu)', lambda T, a: T.to('cpu'))]
    C['detach'] = [('X.detach()', lambda T, a: T.detach())]
    C['view'] = [('X.view(6,d)', lambda T, a: T.view(6, T.shape[-1])), ('X.view(2,3d)', lambda T, a: T.view(2, 3 * T.shape[-1]))]
    C['view_as'] = [('X.view_as', lambda T, a: T.view_as(torch.empty(6, T.shape[-1])))]
    C['squeeze'] = [('squeeze', lambda T, a: T[:1].squeeze(0))]
    C['unsqueeze'] = [('unsqueeze(1)', lambda T, a: T.unsqueeze(1)), ('unsqueeze(-1)', lambda T, a: T.unsqueeze(-1))]
    C['cat'] = [('cat', lambda T, a: torch.cat([T, a])), ('cat(-1)', lambda T, a: torch.cat([T, a], dim=-1))]
    C['concat'] = [('concat', lambda T, a: torch.concat([T, a]))]
    C['stack'] = [('stack', lambda T, a: torch.stack([T, a])), ('stack(1)', lambda T, a: torch.stack([T, a], dim=1))]
    C['split'] = [('split', lambda T, a: T.split(1)), ('torch.split', lambda T, a: torch.split(T, [1, 2], dim=1))]
    C['hsplit'] = [('hsplit', lambda T, a: T.hsplit(3))]
    C['vsplit'] = [('vsplit', lambda T, a: T.vsplit(2))]
    C['dsplit'] = [('dsplit', lambda T, a: T.unsqueeze(2).expand(2, 3, 2, T.shape[-1]).dsplit(2))]
    C['tensor_split'] = [('tensor_split', lambda T, a: T.tensor_split(2))]
    C['chunk'] = [('chunk', lambda T, a: T.chunk(2))]
    C['column_stack'] = [('column_stack', lambda T, a: torch.column_stack([T, a]))]
    C['dstack'] = [('dstack', lambda T, a: torch.dstack([T, a]))]
    C['vstack'] = [('vstack', lambda T, a: torch.vstack([T, a]))]
    C['hstack'] = [('hstack', lambda T, a: torch.hstack([T, a]))]
    C['row_stack'] = [('row_stack', lambda T, a: torch.row_stack([T, a]))]
    C['index_select'] = [('index_select', lambda T, a: T.index_select(1, i01)), ('torch.index_select', lambda T, a: torch.index_select(T, 0, i01))]
    C['masked_select'] = [('masked_select', lambda T, a: T.masked_select(torch.tensor([True, False]).view(2, 1, 1)))]
    C['movedim'] = [('movedim', lambda T, a: T.movedim(0, 1))]
    C['moveaxis'] = [('moveaxis', lambda T, a: T.moveaxis(0, 1))]
    C['narrow'] = [('narrow', lambda T, a: T.narrow(1, 1, 2))]
    C['permute'] = [('permute', lambda T, a: T.permute(1, 0, 2)), ('permute-last', lambda T, a: T.permute(2, 0, 1))]
    C['reshape'] = [('reshape', lambda T, a: T.reshape(3, 2, T.shape[-1])), ('reshape(-1)', lambda T, a: T.reshape(-1))]
    gi = lambda T: torch.tensor([1, 0]).view(2, 1, 1).expand(2, 3, T.shape[-1])
    C['scatter'] = [('scatter', lambda T, a: T.scatter(0, gi(T), raw(a, torch)))]
    C['scatter_add'] = [('scatter_add', lambda T, a: T.scatter_add(0, gi(T), raw(a, torch)))]
    C['clone'] = [('clone', lambda T, a: T.clone())]
    C['swapaxes'] = [('swapaxes', lambda T, a: T.swapaxes(0, 1))]
    C['swapdims'] = [('swapdims', lambda T, a: T.swapdims(0, 1))]
    C['take'] = [('take', lambda T, a: T.take(torch.tensor([0, 5, 2])))]
    C['take_along_dim'] = [('take_along_dim', lambda T, a: T.take_along_dim(gi(T), 0))]
    C['tile'] = [('tile', lambda T, a: T.tile(2, 1, 1))]
    C['transpose'] = [('transpose', lambda T, a: T.transpose(0, 1)), ('transpose-last', lambda T, a: T.transpose(1, 2))]
    C['unbind'] = [('unbind', lambda T, a: T.unbind(0)), ('unbind(1)', lambda T, a: T.unbind(1))]
    C['gather'] = [('gather', lambda T, a: T.gather(0, gi(T)))]
    C['repeat'] = [('repeat', lambda T, a: T.repeat(2, 1, 1))]
    C['expand'] = [('expand', lambda T, a: T[:1].expand(3, 3, T.shape[-1]))]
    C['expand_as'] = [('expand_as', lambda T, a: T[:1].expand_as(a))]
    C['index_copy'] = [('index_copy', lambda T, a: T.index_copy(0, i01, a))]
    C['index_copy_'] = [('index_copy_', lambda T, a: T.index_copy_(0, i01, a), True)]
    C['select'] = [('select', lambda T, a: T.select(0, 1)), ('select-last', lambda T, a: T.select(2, 1))]
    C['select_scatter'] = [('select_scatter', lambda T, a: T.select_scatter(a[0], 0, 1))]
    C['index_put'] = [('index_put', lambda T, a: T.index_put((i01,), a))]
    C['index_put_'] = [('index_put_', lambda T, a: T.index_put_((i01,), a), True)]
    C['copy_'] = [('copy_', lambda T, a: T.copy_(a), True)]
    # not in the list: results are plain tensors
    C['~abs'] = [('abs', lambda T, a: T.abs())]
    C['~sum'] = [('sum', lambda T, a: T.sum(-1)), ('sum()', lambda T, a: T.sum())]
    C['~neg'] = [('neg', lambda T, a: -T)]
    C['~flip'] = [('flip', lambda T, a: T.flip(0))]
    C['~roll'] = [('roll', lambda T, a: T.roll(1, 0))]
    C['~flatten'] = [('flatten', lambda T, a: T.flatten(0, 1))]
    return C


def flat_leaves(r):
    if isinstance(r, (list, tuple)):
        out = []
        for x in r:
            out += flat_leaves(x)
        return out
    return [r]


def leaf_lit(t, torch, force_lie=None):
    if isinstance(t, torch.Tensor):
        lt = ltype_name(t, torch)
        if force_lie is not None:
            return 'LLie (Some %s) %s' % (LT_COQ[LT_CODE[force_lie]], natlist(t.shape))
        if type(t).__name__ in ('LieTensor', 'Parameter'):
            return 'LLie %s %s' % ('None' if lt is None else '(Some %s)' % LT_COQ[LT_CODE[lt]], natlist(t.shape))
        return 'LPlain %s' % natlist(t.shape)
    return 'LOther'


def direct_handled_check(torch, pp, name, label, f, inplace, Xmk, amk):
    """the property's statement: a shape-only function that keeps the last dimension returns a LieTensor of the same
    ltype holding exactly the items the raw torch function selects.  -> description or None"""
    X, a = Xmk(), amk()
    try:
        with warnings.catch_warnings():
            warnings.simplefilter('ignore')
            r = f(X, a)
            rr = f(raw(Xmk(), torch).clone(), raw(amk(), torch).clone() if isinstance(a, torch.Tensor) else a)
    except Exception as e:
        return '%s on a LieTensor raises %r' % (label, repr(e)[:150])
    for t, u in zip(flat_leaves(r), flat_leaves(rr)):
        if isinstance(u, torch.Tensor):
            if not (isinstance(t, torch.Tensor) and torch.equal(raw(t, torch), u)):
                return '%s: values differ from the same function on the raw tensor' % label
            if u.shape[-1:] == X.shape[-1:] and u.dim() >= 1 and ltype_name(t, torch) != ltype_name(X, torch):
                return '%s: result keeps the last dimension but is %s / ltype %s instead of %s' % (
                    label, type(t).__name__, ltype_name(t, torch), ltype_name(X, torch))
    return None


def kwarg_calls(torch, X, Yr):
    """(label, thunk, name, raw result leaf, positional ltypes, keyword ltypes)"""
    return [('torch.index_select(input=X, dim=0, index=i)', lambda: torch.index_select(input=X, dim=0, index=torch.tensor([1])), 'index_select', 'LPlain [1%nat; 4%nat]', [], ['SO3_t']),
            ('torch.cat(tensors=[X, X])', lambda: torch.cat(tensors=[X, X]), 'cat', 'LPlain [4%nat; 4%nat]', [], ['SO3_t', 'SO3_t']),
            ('torch.stack(tensors=[X, X])', lambda: torch.stack(tensors=[X, X]), 'stack', 'LPlain [2%nat; 2%nat; 4%nat]', [], ['SO3_t', 'SO3_t']),
            ('torch.cat(tensors=[raw, Y_rxso3, X])', lambda: torch.cat(tensors=[raw(X, torch), Yr, X]), 'cat', 'LPlain [6%nat; 4%nat]', [], ['rxso3_t', 'SO3_t']),
            ('X.index_select(dim=0, index=i)', lambda: X.index_select(dim=0, index=torch.tensor([1])), 'index_select', 'LPlain [1%nat; 4%nat]', ['SO3_t'], []),
            ('torch.gather(Y_rxso3, 0, index=.., ) ', lambda: torch.gather(Yr, 0, index=torch.tensor([[1, 0, 1, 0]])), 'gather', 'LPlain [1%nat; 4%nat]', ['rxso3_t'], [])]


def check_kwarg_call(torch, label, f):
    """property: a handled shape-only function returns a LieTensor of the (first) argument's ltype"""
    try:
        r = f()
    except Exception as e:
        return '%s raises %r' % (label, repr(e)[:150])
    want = 'rxso3Type' if 'rxso3' in label else 'SO3Type'
    return None if ltype_name(r, torch) == want else '%s returns %s / ltype %s instead of a %s LieTensor' % (label, type(r).__name__, ltype_name(r, torch), want)


def part_handled(ctx, pp, torch, files2, meta2):
    from pypose.lietensor.lietensor import HANDLED_FUNCTIONS
    rng = ctx.rng
    calls = handled_calls(torch, pp)
    names = list(dict.fromkeys(HANDLED_FUNCTIONS))
    missing = [n for n in names if n not in calls and n not in ('cuda', 'copy')]
    if missing:
        ctx.notes.append('HANDLED_FUNCTIONS entries without a representative call in the harness: %s' % missing)
        ctx.mismatch('handled-list-changed', dict(kind='handled-list', missing=missing))
    ctx.notes.append("HANDLED_FUNCTIONS: 'cuda' not exercised (CPU-only sandbox); 'copy' names no torch callable")
    # the list itself against the model
    lits, cases = [], []

    class Spy(torch.Tensor):
        log = []

        @classmethod
        def __torch_function__(cls, func, types, args=(), kwargs=None):
            Spy.log.append(getattr(func, '__name__', None))
            return super().__torch_function__(func, types, args, kwargs or {})

    for g, other in (('SO3', 'rxso3'), ('SE3', 'SE3'), ('Sim3', 'Sim3'), ('so3', 'so3')):
        d = {'SO3': 4, 'SE3': 7, 'Sim3': 8, 'so3': 3}[g]
        data = torch.tensor([[dy(rng, 4, 2.0) for _ in range(d)] for _ in range(6)], dtype=torch.float64).reshape(2, 3, d)
        data2 = torch.tensor([[dy(rng, 4, 2.0) for _ in range(d)] for _ in range(6)], dtype=torch.float64).reshape(2, 3, d)
        Xmk = lambda data=data, g=g: pp.LieTensor(data.clone(), ltype=getattr(pp, g + '_type'))
        amk = lambda data2=data2, other=other: pp.LieTensor(data2.clone(), ltype=getattr(pp, other + '_type'))
        for key, lst in calls.items():
            name = key.lstrip('~')
            for ent in lst:
                label, f = ent[0], ent[1]
                inplace = len(ent) > 2 and ent[2]
                for form in ('lie-first', 'plain-first'):
                    # plain-first: the second operand is the LieTensor, the first one a plain tensor (when there is one)
                    if form == 'plain-first' and key not in ('cat', 'stack', 'vstack', 'hstack', 'concat'):
                        continue
                    X, a = Xmk(), amk()
                    if form == 'plain-first':
                        X, a = raw(X, torch), a
                    Xr, ar = raw(Xmk(), torch).clone(), raw(amk(), torch).clone()
                    ctx.case(('tf', g, label, form), nontrivial=True, branch='handled' if not key.startswith('~') else 'not-handled')
                    spy = Xr.clone().as_subclass(Spy)
                    Spy.log = []
                    try:
                        f(spy, ar.clone())
                        fname = Spy.log[-1] if Spy.log else None
                    except Exception:
                        fname = name
                    c = dict(kind='handled', g=g, other=other, name=name, label=label, form=form, key='%s:%s' % (name, form))
                    try:
                        with warnings.catch_warnings(record=True) as w:
                            warnings.simplefilter('always')
                            r = f(X, a)
                        nwarn = sum(1 for x in w if 'Tensor Shape Invalid' in str(x.message))
                        rr = f(Xr, ar)
                    except Exception as e:
                        ctx.mismatch('handled-raises', dict(c, err=repr(e)[:200]))
                        what = direct_handled_check(torch, pp, name, label, f, inplace, Xmk, amk)
                        if what:
                            ctx.mismatches[-1]['explained'] = True
                            ctx.violation('handled:%s' % name, what, c)
                        continue
                    # positional LieTensor ltypes in flattening order
                    pos = [t for t in ([X, a] if isinstance(a, torch.Tensor) else [X]) if ltype_name(t, torch)]
                    uses_a = label not in ('X[0]', ) and any(k in label for k in ('cat', 'stack', 'Y', 'copy', 'scatter', 'index_put', 'expand_as', 'concat'))
                    pl = [LT_COQ[LT_CODE[ltype_name(t, torch)]] for t in (pos if uses_a else pos[:1] if ltype_name(X, torch) else pos)]
                    if form == 'plain-first':
                        pl = [LT_COQ[LT_CODE[ltype_name(a, torch)]]]
                    leaves_raw, leaves_obs = flat_leaves(rr), flat_leaves(r)
                    if rr is None:
                        data_lit, obs_lit = 'None', 'TFNone' if r is None else 'TFData [] []'
                    else:
                        dl = [leaf_lit(t, torch, force_lie=(ltype_name(X, torch) if (inplace and isinstance(t, torch.Tensor)) else None)) for t in leaves_raw]
                        data_lit = '(Some %s)' % coq_list(dl)
                        ol = [leaf_lit(t, torch) for t in leaves_obs]
                        # per-leaf warning flags: a leaf that was wrapped now and whose last dimension is not the ltype's
                        fl = []
                        for t, u, dlit in zip(leaves_obs, leaves_raw, dl):
                            lt = ltype_name(t, torch)
                            fl.append(bool(dlit.startswith('LPlain') and lt is not None and tuple(t.shape[-1:]) != tuple(t.ltype.dimension)))
                        if sum(fl) != nwarn:
                            ctx.mismatch('handled-warning-count', dict(c, warnings=nwarn, expected=sum(fl)))
                        obs_lit = 'TFData %s %s' % (coq_list(ol), coq_list('true' if b else 'false' for b in fl))
                        # values: exactly what the raw torch function selects
                        for t, u in zip(leaves_obs, leaves_raw):
                            if isinstance(u, torch.Tensor) and not (isinstance(t, torch.Tensor) and torch.equal(raw(t, torch), u)):
                                ctx.mismatch('handled-values', c)
                                ctx.mismatches[-1]['explained'] = True
                                ctx.violation('handled:%s:values' % name, '%s: values differ from the same function on the raw tensor' % label, c)
                                break
                    nm_lit = 'None' if fname is None else '(Some "%s"%%string)' % fname
                    if fname != name:
                        ctx.count('dispatched-under-other-name:%s->%s' % (name, fname))
                    c['search'] = (lambda name=name, label=label, f=f, inplace=inplace, Xmk=Xmk, amk=amk:
                                   direct_handled_check(torch, pp, name, label, f, inplace, Xmk, amk))
                    cases.append((c, '(@IDX@%%nat, %s, %s, %s, [], %s)' % (nm_lit, data_lit, coq_list(pl), obs_lit)))
    # keyword call forms (regression for fix 613c139: these raised IndexError)
    X = pp.LieTensor(torch.tensor([[0., 0., 0., 1.], [0.5, 0.5, 0.5, 0.5]], dtype=torch.float64), ltype=pp.SO3_type)
    Yr = pp.LieTensor(torch.tensor([[0.25, 0., 0., 1.], [0.5, 0.5, 0.5, 0.5]], dtype=torch.float64), ltype=pp.rxso3_type)
    for label, f, nm, dlit, pos, kws in kwarg_calls(torch, X, Yr):
        ctx.case(('tf-kw', label), branch='handled-keyword')
        c = dict(kind='handled-kwargs', label=label, name=nm, key='kwargs:' + nm)
        what = check_kwarg_call(torch, label, f)
        try:
            r = f()
            obs = 'TFData %s [false]' % coq_list([leaf_lit(r, torch)])
        except IndexError:
            obs = 'TFIndexError'
        except Exception as e:
            obs = 'TFNone'
        if what:
            ctx.violation('__torch_function__:handled-function:lietensor-by-keyword', what, c)
        c['search'] = (lambda label=label, f=f: check_kwarg_call(torch, label, f))
        cases.append((c, '(@IDX@%%nat, (Some "%s"%%string), (Some [%s]), %s, %s, %s)' % (nm, dlit, coq_list(pos), coq_list(kws), obs)))
    for si, sh in enumerate(shard(cases, 200)):
        base = len(meta2)
        lits = [lit.replace('@IDX@', str(base + j)) for j, (_, lit) in enumerate(sh)]
        meta2.extend(('tf', c) for c, _ in sh)
        files2.append(('tf_%02d' % si, 'tf', base, HDR + 'Eval vm_compute in tf_bad %s.\n' % coq_list(lits)))


PARTS.append(part_handled)


# ------------------------------------------------------------------------------------------------ part D
class Injected(Exception):
    pass


class PatchEnv:
    """the 5 modules x 4 attribute names of Model/Patch.v, and how to put the process into a known state"""
    MODS = [('M_forward_ad', 'torch.autograd.forward_ad'), ('M_eager', 'torch._functorch.eager_transforms'),
            ('M_vmap', 'torch._functorch.vmap'), ('M_predispatch', 'torch._functorch.predispatch'),
            ('M_lietensor', 'pypose.lietensor.lietensor')]
    ATTRS = [('A_make_dual', 'make_dual'), ('A_wrap_grad', '_wrap_tensor_for_grad'), ('A_add_batch_dim', '_add_batch_dim'), ('A_wrapper', 'wrapper')]
    SITES = [('S_make_dual', 0, 'make_dual'), ('S_wrap_grad', 1, '_wrap_tensor_for_grad'), ('S_add_batch', 2, '_add_batch_dim')]
    _true_orig = None

    def __init__(self):
        self.mods = [importlib.import_module(m) for _, m in self.MODS]
        if PatchEnv._true_orig is None:
            o = [getattr(self.mods[mi], a) for _, mi, a in self.SITES]
            for f in o:
                assert f.__name__ != 'wrapper', 'harness imported while a retain_ltype context is active'
            PatchEnv._true_orig = o
        self.true_orig = PatchEnv._true_orig
        self.orig = list(self.true_orig)     # what plays the role of `Orig site` (the real functions, or logging stubs)
        self.defmod = ['torch.autograd.forward_ad', 'torch._functorch.eager_transforms', self.true_orig[2].__globals__['__name__']]

    def reset(self, pristine, stubs=None):
        for m in self.mods:
            if hasattr(m, 'wrapper'):
                delattr(m, 'wrapper')
        self.orig = list(stubs) if stubs else list(self.true_orig)
        for (sn, mi, a), f in zip(self.SITES, self.orig):
            setattr(self.mods[mi], a, f)
        self.mods[3]._add_batch_dim = self.orig[2]
        self.orig[2].__module__ = self.defmod[2] if pristine else 'torch._functorch.vmap'

    def site_vals(self):
        return [getattr(self.mods[mi], a) for _, mi, a in self.SITES]

    def inner(self, f):
        if getattr(f, '__name__', None) == 'wrapper' and getattr(f, '__closure__', None):
            d = dict(zip(f.__code__.co_freevars, [c.cell_contents for c in f.__closure__]))
            return d.get('func')
        return None

    def layers(self, f):
        n = 0
        while self.inner(f) is not None:
            f, n = self.inner(f), n + 1
        return n

    def describe(self, f):
        for (sn, _, _), o in zip(self.SITES, self.orig):
            if f is o:
                return 'Orig %s' % sn
        g = self.inner(f)
        if g is not None:
            return 'Wrap 0%%nat (%s)' % self.describe(g)
        raise ValueError('unexpected object %r in a patched attribute' % (f,))

    def observe(self):
        out = []
        modmap = {m: c for c, m in self.MODS}
        for m in self.mods:
            for _, a in self.ATTRS:
                f = m.__dict__.get(a)
                if f is None:
                    out.append('None')
                else:
                    out.append('(Some (%s, %s))' % (self.describe(f), modmap.get(f.__module__, 'M_lietensor')))
        return coq_list(out)

    def set_order(self):
        """iteration order of the set retain_ltype is about to build (same objects, same insertion order)"""
        vals = self.site_vals()
        order = []
        for f in {vals[0], vals[1], vals[2]}:
            order.append([i for i, v in enumerate(vals) if v is f][0])
        return order


def body_lit(b):
    k = b['k']
    if k == 'ret':
        return 'BRet'
    if k == 'raise':
        return 'BRaise'
    if k == 'call':
        return '(BCall %s %s)' % (PatchEnv.SITES[b['site']][0], body_lit(b['next']))
    return '(BNest %s %s)' % (body_lit(b['inner']), body_lit(b['next']))


def exec_body(env, b, trace, retain_ltype):
    k = b['k']
    if k == 'ret':
        return
    if k == 'raise':
        raise Injected()
    if k == 'call':
        mi, a = PatchEnv.SITES[b['site']][1], PatchEnv.SITES[b['site']][2]
        trace.append((b['site'], env.layers(getattr(env.mods[mi], a))))
        return exec_body(env, b['next'], trace, retain_ltype)
    with retain_ltype():
        exec_body(env, b['inner'], trace, retain_ltype)
    exec_body(env, b['next'], trace, retain_ltype)


def gen_body(rng, depth, size):
    r = rng.random()
    if size <= 0 or r < 0.18:
        return dict(k='ret')
    if r < 0.32:
        return dict(k='raise')
    if r < 0.72 or depth <= 0:
        return dict(k='call', site=rng.randrange(3), next=gen_body(rng, depth, size - 1))
    return dict(k='nest', inner=gen_body(rng, depth - 1, size - 1), next=gen_body(rng, depth, size - 2))


def has_nest(b):
    return b['k'] == 'nest' or (b['k'] == 'call' and has_nest(b['next']))


def run_patch_trace(env, retain_ltype, pristine, body):
    """-> dict(lit=Coq patch_case tail, restored=bool, leaked=[...], module_changed=bool, raised=bool, err=None|str)"""
    env.reset(pristine)
    before = env.site_vals()
    mod_before = env.orig[2].__module__
    top = dict(k='nest', inner=body, next=dict(k='ret'))
    trace, raised, err = [], False, None
    try:
        exec_body(env, top, trace, retain_ltype)
    except Injected:
        raised = True
    except Exception as e:
        err = repr(e)[:200]
    after = env.site_vals()
    res = dict(restored=all(a is b for a, b in zip(after, before)), raised=raised, err=err,
               leaked=[m.__name__ for m in env.mods if 'wrapper' in m.__dict__],
               module_changed=(env.orig[2].__module__ != mod_before), mod_after=env.orig[2].__module__)
    try:
        obs = env.observe()
    except ValueError as e:
        res['err'] = str(e)
        obs = '[]'
    res['lit'] = '%s, %s, (%s, %s, %s))' % ('true' if pristine else 'false',
                                               body_lit(body), obs, 'true' if raised else 'false',
                                               coq_list('(%s, %d%%nat)' % (PatchEnv.SITES[s][0], n) for s, n in trace))
    env.reset(False)
    return res


def body_from_json(j):
    return j


def part_patch(ctx, pp, torch, files2, meta2):
    from pypose.lietensor.lietensor import retain_ltype
    rng = ctx.rng
    env = PatchEnv()
    R, X, C = dict(k='ret'), dict(k='raise'), lambda s, n: dict(k='call', site=s, next=n)
    N = lambda i, n: dict(k='nest', inner=i, next=n)
    directed = [(True, R), (False, R), (False, X), (True, X), (False, C(0, C(1, C(2, R)))), (False, C(0, X)), (False, C(1, X)), (False, C(2, X)),
                (False, N(R, R)), (False, N(X, R)), (False, N(C(2, R), X)), (False, N(N(C(0, X), R), C(1, R))), (True, N(N(N(R, R), R), R)),
                (False, C(2, N(C(2, N(C(2, X), R)), C(0, R))))]
    bodies = directed + [(rng.random() < 0.3, gen_body(rng, ctx.scale(3, 5), ctx.scale(7, 12))) for _ in range(ctx.scale(120, 1500))]
    cases = []
    for bi, (pristine, body) in enumerate(bodies):
        body = copy.deepcopy(body)
        res = run_patch_trace(env, retain_ltype, pristine, body)
        nest = has_nest(body)
        ctx.case(('patch', bi, body_lit(body), pristine), branch='retain_ltype-%s-%s' % ('nested' if nest else 'flat', 'raises' if res['raised'] else 'returns'),
                 sample=dict(body=body_lit(body), pristine=pristine, raised=res['raised']) if bi == 11 else None)
        ctx.traces += 1
        c = dict(kind='patch', pristine=pristine, body=body, key='retain_ltype')
        if res['err']:
            ctx.mismatch('retain_ltype-run', dict(c, err=res['err']))
            continue
        # the property itself
        if not res['restored']:
            ctx.mismatch('retain_ltype-sites', c)
            ctx.mismatches[-1]['explained'] = True
            ctx.violation('retain_ltype:site-not-restored', 'after `with retain_ltype(): %s` a patched torch attribute is not the object it was before entry' % body_lit(body), c)
        if res['leaked']:
            ctx.violation('retain_ltype:nested:leaves-wrapper-attributes',
                          'nested retain_ltype (body %s): attribute `wrapper` left behind in %s' % (body_lit(body), res['leaked']), c)
        if res['module_changed']:
            ctx.violation('retain_ltype:_add_batch_dim.__module__:not-restored',
                          'after `with retain_ltype(): pass` torch._functorch.vmap._add_batch_dim.__module__ is %r (was %r)' % (res['mod_after'], env.defmod[2]), c)
        c2 = dict(c)
        c2['search'] = (lambda pristine=pristine, body=body: replay_patch(env, retain_ltype, pristine, copy.deepcopy(body)))
        cases.append((c2, '(@IDX@%nat, ' + res['lit']))
    # pp.func.jacrev with logging stubs in place of the torch originals; exceptions injected at each call
    part_jacrev(ctx, pp, torch, env, cases)
    for si, sh in enumerate(shard(cases, 150)):
        base = len(meta2)
        lits = [lit.replace('@IDX@', str(base + j)) for j, (_, lit) in enumerate(sh)]
        meta2.extend(('patch', c) for c, _ in sh)
        files2.append(('patch_%02d' % si, 'patch', base, HDR + 'Eval vm_compute in patch_bad %s.\n' % coq_list(lits)))


def replay_patch(env, retain_ltype, pristine, body):
    res = run_patch_trace(env, retain_ltype, pristine, body)
    if res['err']:
        return 'retain_ltype body %s: unexpected %s' % (body_lit(body), res['err'])
    if not res['restored']:
        return 'after `with retain_ltype(): %s` a patched torch attribute is not the object it was before entry' % body_lit(body)
    return None


def make_stubs(env, log, fail_at):
    """logging stand-ins for the three torch originals; the fail_at-th logged call raises Injected"""
    stubs = []
    for si, ((sn, mi, a), f) in enumerate(zip(PatchEnv.SITES, env.true_orig)):
        def stub(*args, _f=f, _si=si, _mi=mi, _a=a, **kw):
            log.append((_si, env.layers(getattr(env.mods[_mi], _a))))
            if fail_at is not None and len(log) == fail_at:
                raise Injected()
            return _f(*args, **kw)
        stub.__name__ = a
        stub.__qualname__ = a
        stub.__module__ = env.defmod[si] if si < 2 else 'torch._functorch.vmap'
        stubs.append(stub)
    return stubs


def jacrev_once(pp, torch, env, g, fail_at, user_raises, nested):
    log = []
    stubs = make_stubs(env, log, fail_at)
    env.reset(False, stubs)
    X = getattr(pp, 'randn_' + g)(2, dtype=torch.float64)
    p = torch.randn(2, 3, dtype=torch.float64)

    def f(x, q):
        if user_raises:
            raise Injected()
        return x.Act(q) if isinstance(x, pp.LieTensor) else q * x.sum()
    raised, err, out = False, None, None
    try:
        if nested:
            out = pp.func.jacrev(lambda x, q: pp.func.jacrev(f)(x, q).sum(0))(X, p)
        else:
            out = pp.func.jacrev(f)(X, p)
    except Injected:
        raised = True
    except Exception as e:
        err = repr(e)[:200]
    after = env.site_vals()
    restored = all(a is b for a, b in zip(after, stubs))
    leaked = [m.__name__ for m in env.mods if 'wrapper' in m.__dict__]
    obs = None
    try:
        obs = env.observe()
    except ValueError as e:
        err = err or str(e)
    env.reset(False)
    return dict(log=log, raised=raised, err=err, restored=restored, leaked=leaked, obs=obs, out=out)


def part_jacrev(ctx, pp, torch, env, cases):
    for g in ('SE3', 'SO3'):
        base = jacrev_once(pp, torch, env, g, None, False, False)
        ncalls = len(base['log'])
        ctx.count('jacrev-patched-calls-%s' % g, ncalls)
        scen = [(None, False, False), (None, True, False)] + [(k, False, False) for k in range(1, ncalls + 1)] + [(None, False, True), (None, True, True), (2, False, True)]
        for fail_at, user_raises, nested in scen:
            r = jacrev_once(pp, torch, env, g, fail_at, user_raises, nested)
            c = dict(kind='jacrev', g=g, fail_at=fail_at, user_raises=user_raises, nested=nested, key='jacrev')
            ctx.case(('jacrev', g, fail_at, user_raises, nested), branch='jacrev-%s-%s' % ('nested' if nested else 'flat', 'raises' if r['raised'] else 'returns'))
            ctx.traces += 1
            if not r['restored']:
                ctx.mismatch('jacrev-sites', c)
                ctx.mismatches[-1]['explained'] = True
                ctx.violation('jacrev:site-not-restored', 'after pp.func.jacrev (%s, exception injected at patched call %s, user function raises=%s, nested=%s) a patched '
                              'torch attribute is not the object it was before the call' % (g, fail_at, user_raises, nested), c)
            if r['leaked']:
                ctx.violation('retain_ltype:nested:leaves-wrapper-attributes', 'jacrev inside jacrev: attribute `wrapper` left behind in %s' % r['leaked'], c)
            expect_raise = user_raises or (fail_at is not None and fail_at <= len(r['log']) and (fail_at <= ncalls or nested))
            if r['err'] or (r['raised'] != bool(expect_raise) and not nested):
                ctx.mismatch('jacrev-run', dict(c, err=r['err'], raised=r['raised']))
                continue
            if not nested and not r['raised'] and ltype_name(r['out'][0] if isinstance(r['out'], tuple) else r['out'], torch) is not None:
                pass
            if not nested and r['obs'] is not None:
                # one level: the logged calls are the body
                body = dict(k='raise') if r['raised'] else dict(k='ret')
                for si, _ in reversed(r['log']):
                    body = dict(k='call', site=si, next=body)
                lit = 'false, %s, (%s, %s, %s))' % (
                    body_lit(body), r['obs'], 'true' if r['raised'] else 'false',
                    coq_list('(%s, %d%%nat)' % (PatchEnv.SITES[s][0], n) for s, n in r['log']))
                c2 = dict(c)
                c2['search'] = (lambda g=g, fail_at=fail_at, user_raises=user_raises: replay_jacrev(pp, torch, env, g, fail_at, user_raises, False))
                cases.append((c2, '(@IDX@%nat, ' + lit))


def replay_jacrev(pp, torch, env, g, fail_at, user_raises, nested):
    r = jacrev_once(pp, torch, env, g, fail_at, user_raises, nested)
    if not r['restored']:
        return 'after pp.func.jacrev (%s, exception injected at patched call %s, user function raises=%s) a patched torch attribute is not restored' % (g, fail_at, user_raises)
    return None


PARTS.append(part_patch)


# ------------------------------------------------------------------------------------------------ part E
def snapshot(torch, args, kwargs):
    out = []

    def rec(a, path):
        if isinstance(a, torch.Tensor):
            out.append((path, a, raw(a.detach(), torch).clone()))
        elif isinstance(a, (list, tuple)):
            for i, b in enumerate(a):
                rec(b, path + (i,))
        elif isinstance(a, dict):
            for k, b in a.items():
                rec(b, path + (k,))
    rec(list(args), ())
    rec(kwargs, ('kw',))
    return out


def unchanged(torch, t, c):
    a = raw(t.detach(), torch)
    if a.shape != c.shape or a.dtype != c.dtype:
        return False
    if a.layout != torch.strided:
        a, c = a.to_dense(), c.to_dense()
    return bool(((a == c) | (a.isnan() & c.isnan())).all())


def sweep_entries(pp, torch, rng):
    """(name, callable, args, kwargs, effect-model descriptor or None) for every public function without a trailing
    underscore that can be called here; inputs from rng"""
    D = torch.float64
    gen = torch.Generator().manual_seed(rng.randrange(1 << 30))
    rn = lambda *s: torch.randn(*s, dtype=D, generator=gen)
    E = []
    import pypose.optim.solver as S_
    from pypose.metric.ape_rpe import matching_time_indices
    for g in GROUPS:
        G = getattr(pp, g + '_type')
        X = pp.LieTensor(torch.tensor([generic_elt(rng, g, torch, D) for _ in range(6)], dtype=D).reshape(2, 3, -1), ltype=G)
        Y = pp.LieTensor(torch.tensor([generic_elt(rng, g, torch, D) for _ in range(3)], dtype=D), ltype=G)
        a = pp.LieTensor(rn(3, ADIM[g]) * 0.5, ltype=getattr(pp, ALG[g] + '_type'))
        p3, p4 = rn(3, 3), rn(3, 4)
        nonunit = pp.LieTensor(raw(X, torch) * 2, ltype=G)
        sl = 2 if g != 'SO3' else 3
        L = [('Exp', pp.Exp, (a,), (1, 0, 0, 0)), ('Log', pp.Log, (X,), (1, 0, 0, 0)), ('Inv', pp.Inv, (X,), (1, 0, 0, 0)),
             ('Mul', pp.Mul, (X, Y), (0, 0, 1, 0)), ('Mul-same', pp.Mul, (X, X.clone()), (0, 0, 0, 0)), ('Retr', pp.Retr, (X, a), (4, 1, 0, 0)),
             ('Act', pp.Act, (X, p3), (0, 0, 1, 0)), ('Act4', pp.Act, (X, p4), (0, 0, 1, 0)), ('Adj', pp.Adj, (X, a), (0, 0, 1, 0)),
             ('AdjT', pp.AdjT, (X, a), (0, 0, 1, 0)), ('Jinvp', pp.Jinvp, (X, a), (0, 0, 1, 0)), ('add', pp.add, (X, raw(a, torch)), (5, 0, 0, 0)),
             ('mul', pp.mul, (X, Y), (0, 0, 1, 0)), ('mul-alg', pp.mul, (a, 2.0), None), ('tensor', pp.tensor, (X,), None),
             ('translation', pp.translation, (X,), (2 if g in ('SE3', 'Sim3') else 1, 0, 0, 0)), ('rotation', pp.rotation, (X,), (sl, 0, 0, 0)),
             ('scale', pp.scale, (X,), (2 if g in ('RxSO3', 'Sim3') else 1, 0, 0, 0)), ('matrix', pp.matrix, (X,), None), ('matrix-alg', pp.matrix, (a,), None),
             ('euler', pp.euler, (X,), None), ('quat2unit', pp.quat2unit, (nonunit,), (9, 0, 0, 0, True)), ('quat2unit-alg', pp.quat2unit, (a,), (10, 0, 0, 0)),
             ('randn_like', pp.randn_like, (X,), None), ('identity_like', pp.identity_like, (X,), None),
             ('cumprod', pp.cumprod, (X, 0), (8, 0, 0, 1)), ('cummul', pp.cummul, (X, 1), (8, 0, 0, 2)), ('cumops', pp.cumops, (X, 1, lambda u, v: u @ v), (8, 0, 0, 2)),
             ('X+a', lambda U, b: U + b, (X, a), (5, 0, 0, 0)), ('X*Y', lambda U, V: U * V, (X, Y), (0, 0, 1, 0)), ('X@p', lambda U, q: U @ q, (X, p3), (0, 0, 1, 0)),
             ('rotation.matrix', lambda U: U.rotation().matrix(), (X,), None),
             ('is_lietensor', pp.is_lietensor, (X,), None), ('is_SE3', pp.is_SE3, (X,), None), ('hasnan', pp.hasnan, ([X, a],), None),
             ('Jr', pp.Jr, (X,), None), ('Jr-alg', pp.Jr, (a,), None), ('from_matrix', pp.from_matrix, (X.matrix(), G), None),
             ('cumprod_', pp.cumprod_, (X.clone(), 0), (7, 0, 0, 1, True, True)), ('add_', pp.add_, (X.clone(), raw(a, torch)), (6, 0, 0, 0, True, True))]
        for e in L:
            E.append((g + '.' + e[0],) + tuple(e[1:3]) + ({},) + (e[3],))
    R3 = pp.LieTensor(torch.tensor([generic_elt(rng, 'SO3', torch, D) for _ in range(3)], dtype=D), ltype=pp.SO3_type).matrix()
    T4 = pp.LieTensor(torch.tensor([generic_elt(rng, 'SE3', torch, D) for _ in range(3)], dtype=D), ltype=pp.SE3_type).matrix()
    S4 = pp.LieTensor(torch.tensor([generic_elt(rng, 'Sim3', torch, D) for _ in range(3)], dtype=D), ltype=pp.Sim3_type).matrix()
    RS = pp.LieTensor(torch.tensor([generic_elt(rng, 'RxSO3', torch, D) for _ in range(3)], dtype=D), ltype=pp.RxSO3_type).matrix()
    pts = rn(6, 3) + torch.tensor([0., 0., 5.], dtype=D)
    K = torch.tensor([[100., 0, 50], [0, 100, 50], [0, 0, 1]], dtype=D)
    Ex = pp.LieTensor(torch.tensor(generic_elt(rng, 'SE3', torch, D), dtype=D), ltype=pp.SE3_type)
    M = [('mat2SO3', pp.mat2SO3, (R3,)), ('mat2SE3', pp.mat2SE3, (T4,)), ('mat2Sim3', pp.mat2Sim3, (S4,)), ('mat2RxSO3', pp.mat2RxSO3, (RS,)),
         ('mat2SO3-3x4', pp.mat2SO3, (T4[..., :3, :],)), ('mat2SE3-3x4', pp.mat2SE3, (T4[..., :3, :],)), ('euler2SO3', pp.euler2SO3, (rn(4, 3),)),
         ('vec2skew', pp.vec2skew, (rn(4, 3),)), ('pm', pp.pm, (rn(5),)), ('bvv', pp.bvv, (rn(4, 3), rn(4, 3))), ('bmv', pp.bmv, (rn(4, 3, 3), rn(4, 3))),
         ('bvmv', pp.bvmv, (rn(4, 3), rn(4, 3, 2), rn(4, 2))), ('cart2homo', pp.cart2homo, (pts,)), ('homo2cart', pp.homo2cart, (rn(5, 4),)),
         ('point2pixel', pp.point2pixel, (pts, K, Ex)), ('pixel2point', pp.pixel2point, (rn(6, 2), rn(6).abs() + 1, K)),
         ('reprojerr', pp.reprojerr, (pts, rn(6, 2), K, Ex)), ('knn', pp.knn, (rn(5, 3), rn(7, 3), 2)), ('svdtf', pp.svdtf, (pts, rn(6, 3))),
         ('svdstf', pp.svdstf, (pts, rn(6, 3))), ('nbr_filter', pp.nbr_filter, (pts, 2, 10.0)), ('random_filter', pp.random_filter, (pts, 3)),
         ('voxel_filter', pp.voxel_filter, (pts, [1., 1., 1.])), ('voxel_filter-random', pp.voxel_filter, (pts, [1., 1., 1.], True)),
         ('knn_filter', pp.knn_filter, (pts, 2)), ('knn_filter-radius', pp.knn_filter, (pts, 2, None, 10.0)),
         ('chspline', pp.chspline, (rn(1, 5, 3),)), ('bspline', pp.bspline, (pp.randn_SE3(1, 6, dtype=D),)),
         ('geodesic_loss', pp.geodesic_loss, (pp.randn_SO3(3, dtype=D), pp.randn_SO3(3, dtype=D)))]
    # special values that reach the guarded branches (points at infinity, zero depth, signed zeros, subnormals), also
    # through non-contiguous views and in float32
    w0 = torch.tensor([[1., 2., 3., 0.], [1., 2., 3., -0.], [4., 5., 6., 1e-320], [1., 1., 1., 2.9e-39], [0.5, -1., 2., 1.]], dtype=D)
    w0f = torch.tensor([[1., 2., 3., 0.], [1., 2., 3., -0.], [4., 5., 6., 1e-42], [0.5, -1., 2., 1.]], dtype=torch.float32)
    big = torch.zeros(4, 8, dtype=D)
    big[:, ::2] = w0[:4]
    z0 = pts.clone()
    z0[0, 2], z0[1, 2] = 0.0, -0.0
    dep0 = rn(6).abs() + 1
    dep0[0], dep0[1] = 0.0, -0.0
    M += [('homo2cart-w0', pp.homo2cart, (w0,)), ('homo2cart-w0-float32', pp.homo2cart, (w0f,)), ('homo2cart-w0-strided-view', pp.homo2cart, (big[:, ::2],)),
          ('homo2cart-w0-transposed-view', pp.homo2cart, (w0[:4].clone().T.contiguous().T,)),
          ('homo2cart-Act-output', pp.homo2cart, (Ex.Act(torch.tensor([[1., 2., 3., 0.], [0., 0., 0., 0.]], dtype=D)),)),
          ('point2pixel-z0', pp.point2pixel, (z0, K, Ex)), ('point2pixel-z0-noextrinsics', pp.point2pixel, (z0, K)),
          ('pixel2point-depth0', pp.pixel2point, (rn(6, 2), dep0, K)), ('reprojerr-z0', pp.reprojerr, (z0, rn(6, 2), K, Ex)),
          ('pm-signed-zeros', pp.pm, (torch.tensor([0., -0., 1., -2.], dtype=D),)), ('cart2homo-zeros', pp.cart2homo, (torch.zeros(3, 3, dtype=D),)),
          ('vec2skew-zeros', pp.vec2skew, (torch.zeros(2, 3, dtype=D),)), ('euler2SO3-gimbal', pp.euler2SO3, (torch.tensor([[0.3, math.pi / 2, -1.1], [0., 0., 0.]], dtype=D),)),
          ('mat2SO3-half-turn', pp.mat2SO3, (torch.diag(torch.tensor([1., -1., -1.], dtype=D)),)),
          ('nbr_filter-none-kept', pp.nbr_filter, (pts, 5, 1e-9)), ('knn-self', pp.knn, (pts, pts, 1))]
    for e in M:
        E.append(e + ({}, None))
    # trajectories: float64 / float32 stamps, which one is longer, with and without offset
    rp = pp.LieTensor(torch.tensor([generic_elt(rng, 'SE3', torch, D) for _ in range(6)], dtype=D), ltype=pp.SE3_type)
    ep = pp.LieTensor(torch.tensor([generic_elt(rng, 'SE3', torch, D) for _ in range(6)], dtype=D), ltype=pp.SE3_type)
    for nm, f in (('ape', pp.metric.ape), ('rpe', pp.metric.rpe)):
        for r64 in (True, False):
            for e64 in (True, False):
                for elong in (False, True):
                    for off in (0.0, 0.002):
                        nr, ne = (5, 6) if elong else (6, 5)
                        if not elong and rng.random() < 0.5:
                            nr = ne = 5
                        rs = torch.arange(nr, dtype=D if r64 else torch.float32)
                        es = torch.arange(ne, dtype=D if e64 else torch.float32) + (0.001 if e64 else 0.0)
                        kw = dict(offset=off)
                        if nm == 'ape' and rng.random() < 0.5:
                            kw['align'] = True
                        E.append(('%s(r64=%s,e64=%s,e_longer=%s,offset=%s)' % (nm, r64, e64, elong, off), f, (rs, rp[:nr], es, ep[:ne]), kw,
                                  (12, r64, e64, elong, off != 0.0)))
    E.append(('matching_time_indices(offset=0.002)', matching_time_indices, (torch.arange(5, dtype=D), torch.arange(5, dtype=D) + 0.001, 0.01, 0.002), {}, (11, 0, 0, 0, True)))
    E.append(('matching_time_indices(offset=0)', matching_time_indices, (torch.arange(5, dtype=D), torch.arange(5, dtype=D) + 0.001, 0.01, 0.0), {}, (11, 0, 0, 0, False)))
    A = torch.tensor([[4., 1], [1, 3]], dtype=D)
    b = torch.tensor([[1.], [2]], dtype=D)
    E += [('PINV', S_.PINV(), (A, b), {}, None), ('LSTSQ', S_.LSTSQ(), (A, b), {}, None), ('Cholesky', S_.Cholesky(), (A, b), {}, None),
          ('CG', S_.CG(), (A, b), {}, (13, False, False, 20)), ('CG(M)', S_.CG(), (A, b, None, torch.eye(2, dtype=D)), {}, (13, False, True, 20)),
          ('CG(x0)', S_.CG(), (A, b, torch.tensor([[2.], [1.]], dtype=D)), {}, (13, True, False, 20, True)),
          ('CG(x0=0)', S_.CG(), (A, b, torch.zeros(2, 1, dtype=D)), {}, (13, True, False, 20, True)),
          ('CG(x0,M)', S_.CG(), (A, b, torch.tensor([[2.], [1.]], dtype=D), torch.eye(2, dtype=D)), {}, (13, True, True, 20, True)),
          ('CG(b=0,x0)', S_.CG(), (A, torch.zeros(2, 1, dtype=D), torch.tensor([[2.], [1.]], dtype=D)), {}, (13, True, False, 20, False))]
    return E


def mutation_key(name):
    n = name.split('.')[-1]
    if n.startswith('quat2unit'):
        return 'quat2unit:input-overwritten'
    if name.startswith(('ape', 'rpe', 'matching_time_indices')):
        return 'matching_time_indices:stamps_2+=offset_2'
    if name.startswith('CG('):
        return 'CG.forward:initial-guess-overwritten'
    return 'mutation:' + name.split('(')[0]


def run_entry(torch, entry):
    name, f, args, kw, eff = entry
    snap = snapshot(torch, args, kw)
    err = None
    try:
        with warnings.catch_warnings():
            warnings.simplefilter('ignore')
            f(*args, **kw)
    except Exception as e:
        err = repr(e)[:150]
    bad = [p for p, t, c in snap if not unchanged(torch, t, c)]
    return bad, err


def part_purity(ctx, pp, torch, files2, meta2):
    seed = ctx.rng.randrange(1 << 30)
    entries = sweep_entries(pp, torch, random.Random(seed))
    cases = []
    for entry in entries:
        name, f, args, kw, eff = entry
        bad, err = run_entry(torch, entry)
        under = name.split('.')[-1].split('(')[0].endswith('_')
        ctx.case(('pure', name), nontrivial=True, branch='in-place-function' if under else ('raises' if err else 'pure-sweep'))
        c = dict(kind='mutation', name=name, seed=seed, key=mutation_key(name))
        if bad and not under:
            ctx.violation(mutation_key(name), '%s changes the values of its tensor argument(s) at position(s) %s' % (name, bad), c)
        if eff is not None:
            code, b1, b2 = eff[0], eff[1], eff[2]
            if code == 12:
                b3, n, exact = eff[3], 0, True
            elif code == 13:
                b3, n, exact = False, eff[3], True
            else:
                b3, n = False, eff[3]
                exact = True
            obs = sorted({p[0] for p in bad if isinstance(p[0], int)})
            tb = lambda v: 'true' if v else 'false'
            c2 = dict(c, eff=list(eff[:4]), observed=obs)
            c2['search'] = (lambda entry=entry, under=under: (lambda r: ('%s changes its argument(s) %s' % (entry[0], r[0])) if (r[0] and not under) else None)(run_entry(torch, entry)))
            cases.append((c2, '(@IDX@%%nat, %d%%nat, %s, %s, %s, %d%%nat, %s, %s)' % (code, tb(b1), tb(b2), tb(b3), n, tb(exact), natlist(obs))))
    ctx.count('public-functions-swept', len(entries))
    for si, sh in enumerate(shard(cases, 400)):
        base = len(meta2)
        lits = [lit.replace('@IDX@', str(base + j)) for j, (_, lit) in enumerate(sh)]
        meta2.extend(('eff', c) for c, _ in sh)
        files2.append(('eff_%02d' % si, 'eff', base, HDR + 'Eval vm_compute in eff_bad %s.\n' % coq_list(lits)))


PARTS.append(part_purity)


# ------------------------------------------------------------------------------------------------ part F
# dtype clause ("returns the documented ... dtype") swept over operand dtypes x process default dtypes: every unary /
# binary LieTensor op, accessor, converter and constructor, every call form, lshapes of rank 0 / batch with an identity
# item / empty / rank 3.  Oracle (from the documentation, nothing of the implementation):
#   * result dtype = dtype of the tensor operand(s) (torch.promote_types for mixed operands), = the explicit dtype=
#     argument when one is given, = torch.get_default_dtype() only where the docstring says so (identity_* / randn_*
#     constructors and identity_like without dtype=);
#   * result type / ltype / shape do not depend on the dtype (reference: the float64 call);
#   * for operands of explicit dtype, neither the dtype nor the values depend on torch.get_default_dtype();
#   * a call that returns for float64 operands returns for the other dtypes, except for limitations of torch kernels
#     (DT_KERNEL_LIMITS) and for mixed operand dtypes: binary GROUP ops on operands of different dtypes are outside the
#     documented contract - judged as "raises, or returns the promoted dtype", on EMPTY batches (where Adj / AdjT /
#     Jinvp return the dtype of the second operand) counted as dtype-mixed-empty-not-judged and not judged;
#     algebra * tensor promotion is fully judged;
#   * operands are not mutated.
DT_NAMES = ['float64', 'float32', 'float16', 'bfloat16']
DT_LSHAPES = [(3,), (), (0,), (2, 1, 2)]
DT_TENSOR_KINDS = ('G', 'a', 'p3', 'p4', 'M', 'e', 'v', 's', 'rawG', 'rawa')
# raises that have nothing to do with dtype bookkeeping (torch has no low-precision kernel / the op does not exist)
DT_KERNEL_LIMITS = ('Low precision dtypes not supported', 'not implemented for', 'no Jr attribute', 'Instance has no')
DT_IDENT = {'SO3': [0., 0., 0., 1.], 'SE3': [0.] * 6 + [1.], 'RxSO3': [0., 0., 0., 1., 1.], 'Sim3': [0.] * 6 + [1., 1.]}


def dt_operand(pp, torch, g, kind, ls, dtype, slot):
    """deterministic operand (function of its arguments only, so that replay rebuilds it); computed in float64, then
    converted; a batch of >= 2 items starts with the identity / zero item (the guarded branches share the batch)"""
    if kind == 'L':
        return tuple(ls)
    if kind == 'D':
        return dtype
    rng = random.Random('C06-dtype|%s|%s|%s|%d' % (g, kind, tuple(ls), slot))
    n, D = numel(ls), torch.float64

    def ten(items, tail):
        if n == 0:
            return torch.zeros(tuple(ls) + tail, dtype=D).to(dtype)
        return torch.tensor(items, dtype=D).reshape(tuple(ls) + tail).to(dtype)
    if kind in ('G', 'rawG', 'M'):
        items = [generic_elt(rng, g, torch, D) for _ in range(n)]
        if n >= 2:
            items[0] = list(DT_IDENT[g])
        if kind == 'M':
            k = 3 if g == 'SO3' else 4
            return ten([[float(v) for v in ref_matrix(g, x)] for x in items], (k, k))
        t = ten(items, (GDIM[g],))
        return t if kind == 'rawG' else pp.LieTensor(t, ltype=getattr(pp, g + '_type'))
    if kind in ('a', 'rawa'):
        items = [[dy(rng, 5, 0.75) for _ in range(ADIM[g])] for _ in range(n)]
        if n >= 2:
            items[0] = [0.0] * ADIM[g]
        t = ten(items, (ADIM[g],))
        return t if kind == 'rawa' else pp.LieTensor(t, ltype=getattr(pp, ALG[g] + '_type'))
    if kind == 'p3':
        return ten([[dy(rng, 4, 2.0) for _ in range(3)] for _ in range(n)], (3,))
    if kind == 'p4':
        return ten([[dy(rng, 4, 2.0) for _ in range(3)] + [1.0] for _ in range(n)], (4,))
    if kind == 'e':
        return ten([[dy(rng, 5, 1.0) for _ in range(3)] for _ in range(n)], (3,))
    if kind == 'v':
        return ten([[dy(rng, 4, 2.0) for _ in range(3)] for _ in range(n)], (3,))
    if kind == 's':
        return ten([[dy(rng, 3, 2.0)] for _ in range(n)], (1,))
    raise KeyError(kind)


def dt_specs(pp, torch, g):
    """(name, operand kinds, rule, deterministic, [(call text, callable)...]) for group g and its algebra.
    rule: 'operand' = (promoted) dtype of the tensor operands, 'explicit' = the dtype= argument, 'default' = the
    process default (documented for constructors / identity_like), 'self' = dtype of the first operand (in place)"""
    G, A = getattr(pp, g + '_type'), getattr(pp, ALG[g] + '_type')
    al = ALG[g]
    S = []

    def add(name, kinds, rule, det, *forms):
        S.append((name, kinds, rule, det, list(forms)))
    # ---- unary on the group
    add('Log', ('G',), 'operand', True, ('X.Log()', lambda X: X.Log()), ('pp.Log(X)', lambda X: pp.Log(X)))
    add('Inv', ('G',), 'operand', True, ('X.Inv()', lambda X: X.Inv()), ('pp.Inv(X)', lambda X: pp.Inv(X)))
    add('matrix', ('G',), 'operand', True, ('X.matrix()', lambda X: X.matrix()), ('pp.matrix(X)', lambda X: pp.matrix(X)))
    add('rotation', ('G',), 'operand', True, ('X.rotation()', lambda X: X.rotation()), ('pp.rotation(X)', lambda X: pp.rotation(X)))
    add('translation', ('G',), 'operand', True, ('X.translation()', lambda X: X.translation()), ('pp.translation(X)', lambda X: pp.translation(X)))
    add('scale', ('G',), 'operand', True, ('X.scale()', lambda X: X.scale()), ('pp.scale(X)', lambda X: pp.scale(X)))
    add('euler', ('G',), 'operand', True, ('X.euler()', lambda X: X.euler()), ('pp.euler(X)', lambda X: pp.euler(X)))
    add('tensor', ('G',), 'operand', True, ('X.tensor()', lambda X: X.tensor()), ('pp.tensor(X)', lambda X: pp.tensor(X)))
    add('Jr', ('G',), 'operand', True, ('X.Jr()', lambda X: X.Jr()), ('pp.Jr(X)', lambda X: pp.Jr(X)))
    add('quat2unit', ('G',), 'operand', True, ('pp.quat2unit(X)', lambda X: pp.quat2unit(X)))
    add('cumprod', ('G',), 'operand', True, ('pp.cumprod(X, 0)', lambda X: pp.cumprod(X, 0)), ('X.cumprod(0)', lambda X: X.cumprod(0)))
    add('cummul', ('G',), 'operand', True, ('pp.cummul(X, 0)', lambda X: pp.cummul(X, 0)), ('X.cummul(0)', lambda X: X.cummul(0)))
    add('cumops', ('G',), 'operand', True, ('pp.cumops(X, 0, lambda a, b: a @ b)', lambda X: pp.cumops(X, 0, lambda a, b: a @ b)))
    add('identity_', ('G',), 'self', True, ('X.identity_()', lambda X: X.identity_()))
    add('identity_like', ('G',), 'default', True, ('pp.identity_like(X)', lambda X: pp.identity_like(X)))
    add('identity_like(dtype=)', ('G', 'D'), 'explicit', True, ('pp.identity_like(X, dtype=d)', lambda X, d: pp.identity_like(X, dtype=d)))
    add('randn_like', ('G',), 'operand', False, ('pp.randn_like(X)', lambda X: pp.randn_like(X)), ('pp.randn_like(X, sigma=0.5)', lambda X: pp.randn_like(X, sigma=0.5)))
    add('randn_like(dtype=)', ('G', 'D'), 'explicit', False, ('pp.randn_like(X, dtype=d)', lambda X, d: pp.randn_like(X, dtype=d)))
    # ---- unary on the algebra
    add('Exp', ('a',), 'operand', True, ('a.Exp()', lambda a: a.Exp()), ('pp.Exp(a)', lambda a: pp.Exp(a)))
    add('Inv[alg]', ('a',), 'operand', True, ('a.Inv()', lambda a: a.Inv()), ('pp.Inv(a)', lambda a: pp.Inv(a)))
    add('matrix[alg]', ('a',), 'operand', True, ('a.matrix()', lambda a: a.matrix()), ('pp.matrix(a)', lambda a: pp.matrix(a)))
    add('rotation[alg]', ('a',), 'operand', True, ('a.rotation()', lambda a: a.rotation()), ('pp.rotation(a)', lambda a: pp.rotation(a)))
    add('translation[alg]', ('a',), 'operand', True, ('a.translation()', lambda a: a.translation()), ('pp.translation(a)', lambda a: pp.translation(a)))
    add('scale[alg]', ('a',), 'operand', True, ('a.scale()', lambda a: a.scale()), ('pp.scale(a)', lambda a: pp.scale(a)))
    add('euler[alg]', ('a',), 'operand', True, ('a.euler()', lambda a: a.euler()), ('pp.euler(a)', lambda a: pp.euler(a)))
    add('tensor[alg]', ('a',), 'operand', True, ('a.tensor()', lambda a: a.tensor()), ('pp.tensor(a)', lambda a: pp.tensor(a)))
    add('Jr[alg]', ('a',), 'operand', True, ('a.Jr()', lambda a: a.Jr()), ('pp.Jr(a)', lambda a: pp.Jr(a)))
    add('mul-scalar[alg]', ('a',), 'operand', True, ('a * 2.0', lambda a: a * 2.0), ('pp.mul(a, 2.0)', lambda a: pp.mul(a, 2.0)), ('a.mul(0.5)', lambda a: a.mul(0.5)))
    add('identity_like[alg]', ('a',), 'default', True, ('pp.identity_like(a)', lambda a: pp.identity_like(a)))
    add('identity_like(dtype=)[alg]', ('a', 'D'), 'explicit', True, ('pp.identity_like(a, dtype=d)', lambda a, d: pp.identity_like(a, dtype=d)))
    add('randn_like[alg]', ('a',), 'operand', False, ('pp.randn_like(a)', lambda a: pp.randn_like(a)))
    add('randn_like(dtype=)[alg]', ('a', 'D'), 'explicit', False, ('pp.randn_like(a, dtype=d)', lambda a, d: pp.randn_like(a, dtype=d)))
    # ---- binary
    add('Mul', ('G', 'G'), 'operand', True, ('X @ Y', lambda X, Y: X @ Y), ('X * Y', lambda X, Y: X * Y), ('pp.Mul(X, Y)', lambda X, Y: pp.Mul(X, Y)), ('pp.mul(X, Y)', lambda X, Y: pp.mul(X, Y)))
    add('Act', ('G', 'p3'), 'operand', True, ('X.Act(p)', lambda X, p: X.Act(p)), ('X @ p', lambda X, p: X @ p), ('pp.Act(X, p)', lambda X, p: pp.Act(X, p)), ('X * p', lambda X, p: X * p))
    add('Act4', ('G', 'p4'), 'operand', True, ('X.Act(p)', lambda X, p: X.Act(p)), ('X @ p', lambda X, p: X @ p), ('pp.Act(X, p)', lambda X, p: pp.Act(X, p)))
    add('Adj', ('G', 'a'), 'operand', True, ('X.Adj(a)', lambda X, a: X.Adj(a)), ('pp.Adj(X, a)', lambda X, a: pp.Adj(X, a)))
    add('Adj[raw]', ('G', 'rawa'), 'operand', True, ('X.Adj(t)', lambda X, a: X.Adj(a)))
    add('AdjT', ('G', 'a'), 'operand', True, ('X.AdjT(a)', lambda X, a: X.AdjT(a)), ('pp.AdjT(X, a)', lambda X, a: pp.AdjT(X, a)))
    add('Jinvp', ('G', 'a'), 'operand', True, ('X.Jinvp(a)', lambda X, a: X.Jinvp(a)), ('pp.Jinvp(X, a)', lambda X, a: pp.Jinvp(X, a)))
    add('Retr', ('G', 'a'), 'operand', True, ('X.Retr(a)', lambda X, a: X.Retr(a)), ('pp.Retr(X, a)', lambda X, a: pp.Retr(X, a)))
    add('add', ('G', 'a'), 'operand', True, ('X + a', lambda X, a: X + a), ('pp.add(X, a)', lambda X, a: pp.add(X, a)), ('X.add(a)', lambda X, a: X.add(a)))
    add('add[raw]', ('G', 'rawa'), 'operand', True, ('X + t', lambda X, a: X + a), ('pp.add(X, t)', lambda X, a: pp.add(X, a)))
    add('add_', ('G', 'a'), 'self', True, ('X.add_(a)', lambda X, a: X.add_(a)), ('pp.add_(X, a)', lambda X, a: pp.add_(X, a)))
    add('mul-tensor[alg]', ('a', 's'), 'operand', True, ('a * s', lambda a, s: a * s), ('pp.mul(a, s)', lambda a, s: pp.mul(a, s)))
    # ---- converters and constructors
    add('mat2' + g, ('M',), 'operand', True, ('pp.mat2%s(M, check=False)' % g, lambda M: getattr(pp, 'mat2' + g)(M, check=False)),
        ('pp.from_matrix(M, pp.%s_type, check=False)' % g, lambda M: pp.from_matrix(M, G, check=False)))
    add(g + '(tensor)', ('rawG',), 'operand', True, ('pp.%s(t)' % g, lambda t: getattr(pp, g)(t)), ('pp.LieTensor(t, ltype=pp.%s_type)' % g, lambda t: pp.LieTensor(t, ltype=G)))
    add(al + '(tensor)', ('rawa',), 'operand', True, ('pp.%s(t)' % al, lambda t: getattr(pp, al)(t)), ('pp.LieTensor(t, ltype=pp.%s_type)' % al, lambda t: pp.LieTensor(t, ltype=A)))
    for nm in (g, al):
        add('identity_' + nm, ('L',), 'default', True, ('pp.identity_%s(*lshape)' % nm, lambda L, nm=nm: getattr(pp, 'identity_' + nm)(*L)))
        add('identity_%s(dtype=)' % nm, ('L', 'D'), 'explicit', True, ('pp.identity_%s(*lshape, dtype=d)' % nm, lambda L, d, nm=nm: getattr(pp, 'identity_' + nm)(*L, dtype=d)))
        add('randn_' + nm, ('L',), 'default', False, ('pp.randn_%s(*lshape)' % nm, lambda L, nm=nm: getattr(pp, 'randn_' + nm)(*L)))
        add('randn_%s(dtype=)' % nm, ('L', 'D'), 'explicit', False, ('pp.randn_%s(*lshape, dtype=d)' % nm, lambda L, d, nm=nm: getattr(pp, 'randn_' + nm)(*L, dtype=d)),
            ('pp.randn_%s(*lshape, sigma=0.5, dtype=d)' % nm, lambda L, d, nm=nm: getattr(pp, 'randn_' + nm)(*L, sigma=0.5, dtype=d)))
    if g == 'SO3':
        add('euler2SO3', ('e',), 'operand', True, ('pp.euler2SO3(e)', lambda e: pp.euler2SO3(e)))
        add('vec2skew', ('v',), 'operand', True, ('pp.vec2skew(v)', lambda v: pp.vec2skew(v)))
    return S


def dt_combos(kinds):
    """dtype names per operand ('-' for the lshape operand)"""
    return list(itertools.product(*[(DT_NAMES if (k in DT_TENSOR_KINDS or k == 'D') else ['-']) for k in kinds]))


def dt_eval(pp, torch, spec, g, ls, dts, dd, form):
    """one call under torch.set_default_dtype(dd) (restored afterwards, also on exceptions) -> record"""
    name, kinds, rule, det, forms = spec
    text, f = forms[form % len(forms)]
    old = torch.get_default_dtype()
    rec = dict(text=text, err=None)
    torch.set_default_dtype(getattr(torch, dd))
    try:
        ops = [dt_operand(pp, torch, g, k, ls, None if d == '-' else getattr(torch, d), i) for i, (k, d) in enumerate(zip(kinds, dts))]
        rec['operands'] = ['%s = %s' % ('XYZ'[i] if k in ('G',) else k + str(i), dt_show(torch, o)) for i, (k, o) in enumerate(zip(kinds, ops))]
        snap = [(i, o, raw(o.detach(), torch).clone()) for i, o in enumerate(ops) if isinstance(o, torch.Tensor)]
        try:
            with warnings.catch_warnings():
                warnings.simplefilter('ignore')
                r = f(*ops)
            if not isinstance(r, torch.Tensor):
                rec['err'] = 'returned %s instead of a tensor' % type(r).__name__
            else:
                rec.update(dtype=str(r.dtype).replace('torch.', ''), shape=tuple(r.shape), tname=type(r).__name__, ltype=ltype_name(r, torch),
                           device=str(r.device), value=raw(r.detach(), torch).clone())
        except Exception as e:
            rec['err'] = repr(e)[:160]
        rec['mutated'] = [i for i, o, c in snap if not unchanged(torch, o, c)]
        rec['default_after'] = str(torch.get_default_dtype()).replace('torch.', '')
    finally:
        torch.set_default_dtype(old)
    return rec


def dt_show(torch, o):
    if isinstance(o, torch.Tensor):
        lt = ltype_name(o, torch)
        data = raw(o.detach(), torch).to(torch.float64).tolist() if o.numel() <= 16 else '...'
        return '%s of dtype %s, shape %s, data %s' % ((lt[:-4] + ' LieTensor') if lt else 'tensor', str(o.dtype).replace('torch.', ''), tuple(o.shape), data)
    return str(o).replace('torch.', '')


def dt_want(torch, kinds, rule, dts, dd):
    tens = [d for k, d in zip(kinds, dts) if k in DT_TENSOR_KINDS]
    if rule == 'default':
        return dd
    if rule == 'explicit':
        return [d for k, d in zip(kinds, dts) if k == 'D'][0]
    if rule == 'self':
        return tens[0]
    w = getattr(torch, tens[0])
    for d in tens[1:]:
        w = torch.promote_types(w, getattr(torch, d))
    return str(w).replace('torch.', '')


def dt_ref_dts(kinds, dts):
    return tuple(('float64' if k in DT_TENSOR_KINDS else d) for k, d in zip(kinds, dts))


def same_values(torch, a, b):
    return a.shape == b.shape and a.dtype == b.dtype and bool(((a == b) | (a.isnan() & b.isnan())).all())


def dt_judge(torch, spec, g, ls, dts, dd, rec, ref, twin, twin_dd):
    """-> (tag, description or None); ref = the same call with float64 tensor operands under the same default,
    twin = the same call under the other process default"""
    name, kinds, rule, det, forms = spec
    tens = [d for k, d in zip(kinds, dts) if k in DT_TENSOR_KINDS]
    mixed = len(set(tens)) > 1
    where = 'under torch.set_default_dtype(%s): %s with %s' % (dd, rec['text'], '; '.join(rec['operands']) if rec.get('operands') else '?')
    if rec.get('default_after') not in (None, dd):
        return 'bad', '%s leaves torch.get_default_dtype() = %s' % (where, rec['default_after'])
    if rec['err']:
        if ref is None or ref['err']:
            return 'not-applicable', None
        if mixed:
            return 'mixed-operands-rejected', None
        if any(k in rec['err'] for k in DT_KERNEL_LIMITS):
            return 'no-torch-kernel', None
        return 'bad', '%s raises %s although the same call with float64 operands returns' % (where, rec['err'])
    if mixed and kinds[0] == 'G' and numel(ls) == 0:
        # binary group ops on operands of different dtypes are outside the documented contract (they raise for every
        # non-empty batch); on an empty batch some of them return: counted, dtype not judged
        return 'mixed-empty-not-judged', None
    want = dt_want(torch, kinds, rule, dts, dd)
    why = {'operand': 'the (promoted) dtype of the operands', 'explicit': 'the dtype= argument', 'self': 'the dtype of the tensor modified in place',
           'default': 'the process default (documented for this constructor)'}[rule]
    if rec['dtype'] != want:
        return 'bad', '%s returns dtype %s, documented: %s = %s' % (where, rec['dtype'], why, want)
    if rec['device'] != 'cpu':
        return 'bad', '%s returns a tensor on device %s, operands on cpu' % (where, rec['device'])
    if ref is not None and not ref['err'] and (rec['shape'], rec['tname'], rec['ltype']) != (ref['shape'], ref['tname'], ref['ltype']):
        return 'bad', '%s returns %s / ltype %s / shape %s, the same call with float64 operands %s / %s / %s' % (
            where, rec['tname'], rec['ltype'], rec['shape'], ref['tname'], ref['ltype'], ref['shape'])
    if rec['mutated'] and not name.rstrip(']').split('[')[0].endswith('_'):
        return 'mutated', '%s changes the values of its operand(s) %s' % (where, rec['mutated'])
    if twin is not None and rule != 'default':
        if twin['err']:
            return 'bad', '%s returns, but raises %s under torch.set_default_dtype(%s)' % (where, twin['err'], twin_dd)
        if det and twin['dtype'] == rec['dtype'] and not same_values(torch, rec['value'], twin['value']):
            return 'bad', '%s: result %s differs from the result %s of the same call under torch.set_default_dtype(%s)' % (
                where, rec['value'].to(torch.float64).reshape(-1)[:8].tolist(), twin['value'].to(torch.float64).reshape(-1)[:8].tolist(), twin_dd)
    return ('mixed-operands-promoted' if mixed else 'ok'), None


def part_dtype(ctx, pp, torch, files2, meta2):
    defaults = ['float32', 'float64']
    cases = []
    k = 0
    for g in GROUPS:
        for spec in dt_specs(pp, torch, g):
            for dts in dt_combos(spec[1]):
                for ls in DT_LSHAPES:
                    k += 1
                    cases.append((spec, g, ls, dts, k))
    recs = {}
    for dd in defaults:
        for spec, g, ls, dts, form in cases:
            recs[(spec[0], g, ls, dts, dd)] = dt_eval(pp, torch, spec, g, ls, dts, dd, form)
    if torch.get_default_dtype() != torch.float32:
        ctx.notes.append('dtype sweep: process default dtype was %s after the sweep (restored)' % torch.get_default_dtype())
        torch.set_default_dtype(torch.float32)
    for dd, other in (('float32', 'float64'), ('float64', 'float32')):
        for spec, g, ls, dts, form in cases:
            name, kinds = spec[0], spec[1]
            rec = recs[(name, g, ls, dts, dd)]
            # the float64 reference uses its own call form; shape / ltype do not depend on the form
            ref = recs.get((name, g, ls, dt_ref_dts(kinds, dts), dd))
            twin = recs[(name, g, ls, dts, other)]
            tag, what = dt_judge(torch, spec, g, ls, dts, dd, rec, ref, twin, other)
            low = any(d in ('float16', 'bfloat16') for d in dts)
            ctx.case(('dtype', name, g, ls, dts, dd), nontrivial=(dd != 'float32' or any(d not in ('float32', '-') for d in dts)),
                     branch='dtype-%s%s' % (tag, '-low-precision' if (low and tag in ('ok', 'no-torch-kernel')) else ''))
            if tag == 'no-torch-kernel':
                ctx.dt_skipped.add('%s %s %s' % (g, name, '/'.join(dts)))
            if what:
                c = dict(kind='dtype', op=name, g=g, ls=ls, dts=list(dts), default=dd, form=form)
                fn = name.split('(')[0].split('[')[0]
                mixed = len({d for kd, d in zip(kinds, dts) if kd in DT_TENSOR_KINDS}) > 1
                ctx.violation('mutation:%s' % fn if tag == 'mutated' else ('dtype:mixed-operands:%s' % fn if mixed else 'dtype:%s' % fn), what, c)


def part_dtype_outer(ctx, pp, torch, files2, meta2):
    ctx.dt_skipped = set()
    old = torch.get_default_dtype()
    try:
        part_dtype(ctx, pp, torch, files2, meta2)
    finally:
        torch.set_default_dtype(old)
    if ctx.dt_skipped:
        ops = sorted({' '.join(s.split(' ')[:2]) for s in ctx.dt_skipped})
        ctx.notes.append('dtype sweep: op / dtype pairs skipped because torch has no kernel for the dtype (float16 / bfloat16) or the op is not '
                         'defined for the ltype: %s' % ', '.join(ops))
    ctx.notes.append('dtype sweep: binary group ops with operands of different dtypes raise for every non-empty batch (autograd kernels: '
                     '"expected scalar type") and are judged as "raises, or returns the promoted dtype"; on empty batches Adj / AdjT / Jinvp return '
                     'with the dtype of the second operand (outside the documented contract: counted under dtype-mixed-empty-not-judged); '
                     'algebra * tensor promotion is fully judged')


PARTS.append(part_dtype_outer)


def replay_dtype(pp, torch, c):
    g, ls, dts, dd = c['g'], tuple(c['ls']), tuple(c['dts']), c['default']
    other = 'float64' if dd == 'float32' else 'float32'
    for spec in dt_specs(pp, torch, g):
        if spec[0] == c['op']:
            rec = dt_eval(pp, torch, spec, g, ls, dts, dd, c['form'])
            ref = dt_eval(pp, torch, spec, g, ls, dt_ref_dts(spec[1], dts), dd, c['form'])
            twin = dt_eval(pp, torch, spec, g, ls, dts, other, c['form'])
            return dt_judge(torch, spec, g, ls, dts, dd, rec, ref, twin, other)[1]
    return None


# ------------------------------------------------------------------------------------------------ part G
# Documented OPTIONAL arguments and call forms of the swept operations (added after seeded change C06-8: the out-of-place
# add applied alpha twice, only when `self` had to be broadcast and alpha was not 0 / 1 -- no part above ever passed
# alpha=).  Every optional argument the documentation of a swept function names is rotated through its regimes, every
# positional / keyword / operator / pp.* call form is used, on lshape pairs of every broadcast class (none, self only,
# other only, both, rank 0, empty), on contiguous / strided / permuted / expanded operands, on batches that mix special
# items (identity, zero, gimbal lock, non-unit and tiny quaternions) with generic ones:
#   add / add_ (alpha; other = tensor, tensor with ignored trailing elements, algebra LieTensor), cumprod / cummul /
#   cumops and the in-place variants (dim as positive / negative / keyword, left), euler (eps), quat2unit (eps),
#   randn_* / identity_* / randn_like / identity_like (lsize forms, sigma, requires_grad, dtype, device), mat2* /
#   from_matrix (check, rtol, atol).
# Oracles (documentation only): the batched result equals the same call on the rank-0 items under torch broadcasting;
# closed forms  y = x + alpha a  (algebra, exact on dyadic items),  matrix(y) = expm(alpha hat(a)) matrix(x)  (group, the
# documented Exp(alpha a) x, with torch.linalg.matrix_exp and a quaternion -> matrix formula of the harness), the
# sequential fold with the textbook product of harness/lie.py, v / max(|v|, eps), R(euler(X)) = R(X) away from the
# eps-band, matrix(mat2G(M)) = M; result type / ltype / shape / dtype; arguments bit-for-bit unchanged (also the buffer
# around a strided view); the same call repeated on the same objects gives the same result; lshapes that do not
# broadcast raise; in-place variants return values equal to the out-of-place ones and leave the other operand alone.
OA_PAIRS = [((), ()), ((3,), (3,)), ((2, 3), (2, 3)), ((2, 3), (3,)), ((2, 3), (1, 1)), ((3,), ()), ((), (3,)), ((1,), (3,)),
            ((3,), (2, 3)), ((2, 1), (1, 3)), ((1, 1), (2, 1, 2)), ((1, 2, 1), (3, 1, 2)), ((0,), (1,)), ((1,), (0,)), ((), (0,)),
            ((0,), ()), ((2, 0), (1,)), ((1,), (1,)), ((1, 1), (1,)), ((1,), (2, 1))]
OA_BAD_PAIRS = [((2,), (3,)), ((2, 3), (2,)), ((3, 1), (2, 2)), ((0,), (2,)), ((2, 2), (3, 1, 3))]
OA_ALPHAS = [None, 1, 2, 0, -1, 0.5, -2.0, 3, 0.25, 1.0, -0.75]
OA_ADD = {  # alpha given / omitted (documented default 1; `x + a`, `x.add(a)`, `pp.add(x, a)` are documented as equivalent)
    True: [('X.add(a, alpha)', lambda pp, X, a, al: X.add(a, al)), ('X.add(a, alpha=alpha)', lambda pp, X, a, al: X.add(a, alpha=al)),
           ('X.add(other=a, alpha=alpha)', lambda pp, X, a, al: X.add(other=a, alpha=al)), ('pp.add(X, a, alpha)', lambda pp, X, a, al: pp.add(X, a, al)),
           ('pp.add(X, a, alpha=alpha)', lambda pp, X, a, al: pp.add(X, a, alpha=al)),
           ('pp.add(input=X, other=a, alpha=alpha)', lambda pp, X, a, al: pp.add(input=X, other=a, alpha=al))],
    False: [('X.add(a)', lambda pp, X, a, al: X.add(a)), ('X + a', lambda pp, X, a, al: X + a), ('pp.add(X, a)', lambda pp, X, a, al: pp.add(X, a)),
            ('X.add(other=a)', lambda pp, X, a, al: X.add(other=a)), ('pp.add(input=X, other=a)', lambda pp, X, a, al: pp.add(input=X, other=a))]}
OA_ADD_ = {
    True: [('X.add_(a, alpha)', lambda pp, X, a, al: X.add_(a, al)), ('X.add_(a, alpha=alpha)', lambda pp, X, a, al: X.add_(a, alpha=al)),
           ('X.add_(other=a, alpha=alpha)', lambda pp, X, a, al: X.add_(other=a, alpha=al)), ('pp.add_(X, a, alpha)', lambda pp, X, a, al: pp.add_(X, a, al)),
           ('pp.add_(X, a, alpha=alpha)', lambda pp, X, a, al: pp.add_(X, a, alpha=al)),
           ('pp.add_(input=X, other=a, alpha=alpha)', lambda pp, X, a, al: pp.add_(input=X, other=a, alpha=al))],
    False: [('X.add_(a)', lambda pp, X, a, al: X.add_(a)), ('pp.add_(X, a)', lambda pp, X, a, al: pp.add_(X, a)),
            ('X.add_(other=a)', lambda pp, X, a, al: X.add_(other=a))]}
OA_LAYOUTS = ['contiguous', 'strided-view', 'permuted-memory', 'expanded']


def oa_close(torch, a, b, rel):
    """per item: max |a - b| <= rel (1 + max |b|)"""
    if a.shape != b.shape:
        return False
    if a.numel() == 0:
        return True
    return bool(((a - b).abs().amax() <= rel * (1 + b.abs().amax())))


def oa_layout(torch, t, mode, out_l=None):
    """the same values in another memory layout -> (tensor, buffer that must stay unchanged as well)"""
    if mode == 1:        # every second element of a larger buffer
        big = torch.full(tuple(t.shape[:-1]) + (2 * t.shape[-1],), 7.0, dtype=t.dtype)
        big[..., ::2] = t
        return big[..., ::2], big
    if mode == 2 and t.dim() >= 2:    # reversed memory order of the dimensions
        p = list(range(t.dim()))[::-1]
        base = t.permute(p).contiguous()
        return base.permute(p), base
    if mode == 3 and out_l is not None:   # stride-0 view of the broadcast lshape
        return t.expand(tuple(out_l) + (t.shape[-1],)), t
    return t, t


def oa_mat4(torch, g, T):
    """documented 4x4 matrix [[s R(q), t], [0, 1]] of raw group items (quaternion -> rotation formula, not pypose's)"""
    if g in ('SO3', 'RxSO3'):
        q, t = T[..., :4], torch.zeros(T.shape[:-1] + (3,), dtype=T.dtype)
        s = T[..., 4] if g == 'RxSO3' else torch.ones(T.shape[:-1], dtype=T.dtype)
    else:
        t, q = T[..., :3], T[..., 3:7]
        s = T[..., 7] if g == 'Sim3' else torch.ones(T.shape[:-1], dtype=T.dtype)
    x, y, z, w = q.unbind(-1)
    n = x * x + y * y + z * z + w * w
    R = torch.stack([torch.stack([n - 2 * (y * y + z * z), 2 * (x * y - z * w), 2 * (x * z + y * w)], -1),
                     torch.stack([2 * (x * y + z * w), n - 2 * (x * x + z * z), 2 * (y * z - x * w)], -1),
                     torch.stack([2 * (x * z - y * w), 2 * (y * z + x * w), n - 2 * (x * x + y * y)], -1)], -2) / n[..., None, None]
    M = torch.zeros(T.shape[:-1] + (4, 4), dtype=T.dtype)
    M[..., :3, :3] = s[..., None, None] * R
    M[..., :3, 3] = t
    M[..., 3, 3] = 1
    return M


def oa_generator(torch, g, a):
    """4x4 matrix of the algebra item (tau, phi, sigma as available): [[sigma I + hat(phi), tau], [0, 0]]"""
    z3, z1 = torch.zeros(a.shape[:-1] + (3,), dtype=a.dtype), torch.zeros(a.shape[:-1] + (1,), dtype=a.dtype)
    tau, phi, sig = {'SO3': (z3, a[..., 0:3], z1), 'SE3': (a[..., 0:3], a[..., 3:6], z1), 'RxSO3': (z3, a[..., 0:3], a[..., 3:4]),
                     'Sim3': (a[..., 0:3], a[..., 3:6], a[..., 6:7])}[g]
    G = torch.zeros(a.shape[:-1] + (4, 4), dtype=a.dtype)
    O = torch.zeros_like(phi[..., 0])
    G[..., :3, :3] = torch.stack([torch.stack([O, -phi[..., 2], phi[..., 1]], -1), torch.stack([phi[..., 2], O, -phi[..., 0]], -1),
                                  torch.stack([-phi[..., 1], phi[..., 0], O], -1)], -2) + sig[..., None] * torch.eye(3, dtype=a.dtype)
    G[..., :3, 3] = tau
    return G


def oa_group_items(rng, g, torch, n):
    items = [generic_elt(rng, g, torch, torch.float64) for _ in range(n)]
    if n >= 2:
        items[0] = list(DT_IDENT[g])
    return items


def oa_add_operands(pp, torch, c):
    """deterministic function of the case -> (X, a, buffers, out lshape or None)"""
    g, alg, lx, la = c['g'], c['alg'], tuple(c['lx']), tuple(c['la'])
    rng = random.Random('C06-optarg-add|%s|%s|%s|%s|%s' % (g, alg, lx, la, c['oseed']))
    D, d = torch.float64, ADIM[g]
    nx, na = numel(lx), numel(la)
    if alg:
        xi = [[dy(rng, 5, 2.0) for _ in range(d)] for _ in range(nx)]
        if nx >= 2:
            xi[0] = [0.0] * d
    else:
        xi = oa_group_items(rng, g, torch, nx)
    ai = [[dy(rng, 5, 0.5) for _ in range(d)] + [1.0 + dy(rng, 3, 0.5) for _ in range(c['extra'])] for _ in range(na)]
    if na >= 2:
        ai[1][:d] = [0.0] * d
    xd = d if alg else GDIM[g]
    Xr = torch.tensor(xi, dtype=D).reshape(lx + (xd,)) if nx else torch.zeros(lx + (xd,), dtype=D)
    ar = torch.tensor(ai, dtype=D).reshape(la + (d + c['extra'],)) if na else torch.zeros(la + (d + c['extra'],), dtype=D)
    try:
        out_l = tuple(torch.broadcast_shapes(lx, la))
    except RuntimeError:
        out_l = None
    Xv, Xb = oa_layout(torch, Xr, c['layx'], out_l if not c['inplace'] else None)
    av, ab = oa_layout(torch, ar, c['laya'], out_l)
    X = pp.LieTensor(Xv, ltype=getattr(pp, (ALG[g] if alg else g) + '_type'))
    a = pp.LieTensor(av, ltype=getattr(pp, ALG[g] + '_type')) if c['alie'] else av
    return X, a, [Xb, ab], out_l


def oa_add_check(pp, torch, c):
    """X.add(a, alpha) / X.add_(a, alpha) in the call form c['form'] -> description of the failure or None"""
    g, alg, alpha, inplace = c['g'], c['alg'], c['alpha'], c['inplace']
    X, a, bufs, out_l = oa_add_operands(pp, torch, c)
    d = ADIM[g]
    text, f = (OA_ADD_ if inplace else OA_ADD)[alpha is not None][c['form'] % len((OA_ADD_ if inplace else OA_ADD)[alpha is not None])]
    al = 1 if alpha is None else alpha
    where = '%s with X = %s of lshape %s (%s), a = %s of shape %s (%s)%s' % (
        text, X.ltype.__class__.__name__[:-4], tuple(X.lshape), OA_LAYOUTS[c['layx']], 'algebra LieTensor' if c['alie'] else 'tensor', tuple(a.shape),
        OA_LAYOUTS[c['laya']], '' if alpha is None else ', alpha = %r' % (alpha,))
    X0, a0 = raw(X, torch).clone(), raw(a, torch).clone()
    snaps = [b.clone() for b in bufs]
    try:
        r = f(pp, X, a, alpha)
    except Exception as e:
        if out_l is None:
            return None
        return '%s raises %s (the lshapes broadcast to %s)' % (where, repr(e)[:150], out_l)
    if out_l is None:
        return '%s returns shape %s although the lshapes do not broadcast' % (where, tuple(r.shape))
    show = lambda t: t.reshape(-1)[:8].tolist()
    if inplace:
        if tuple(torch.broadcast_shapes(tuple(X0.shape[:-1]), out_l)) != tuple(X0.shape[:-1]):
            return None
        if not (isinstance(r, torch.Tensor) and r.data_ptr() == X.data_ptr() and torch.equal(raw(r, torch), raw(X, torch))):
            return '%s does not return the LieTensor it modified' % where
        if not (torch.equal(raw(a, torch), a0) and torch.equal(bufs[1], snaps[1])):
            return '%s changes the values of its argument `other`' % where
        if c['layx'] == 1 and not torch.equal(bufs[0][..., 1::2], snaps[0][..., 1::2]):
            return '%s writes outside the view it was called on' % where
    else:
        if not (torch.equal(raw(X, torch), X0) and torch.equal(raw(a, torch), a0) and all(torch.equal(b, s) for b, s in zip(bufs, snaps))):
            return '%s changes the values of its tensor argument(s)' % where
    xd = X0.shape[-1]
    if ltype_name(r, torch) != ltype_name(X, torch) or tuple(r.shape) != out_l + (xd,) or r.dtype != X0.dtype or r.device != X0.device:
        return '%s returns %s / ltype %s / shape %s / %s, documented: a %s LieTensor of shape %s' % (
            where, type(r).__name__, ltype_name(r, torch), tuple(r.shape), r.dtype, ltype_name(X, torch), out_l + (xd,))
    R = raw(r, torch).clone()
    Xb, ab = torch.broadcast_to(X0, out_l + (xd,)).reshape(-1, xd), torch.broadcast_to(a0, out_l + (a0.shape[-1],)).reshape(-1, a0.shape[-1])
    flat = R.reshape(-1, xd)
    # closed form from the documentation of pp.add
    if alg:
        ref = Xb + al * ab[:, :d]
        bad = (flat != ref).any(-1).nonzero().reshape(-1).tolist()
        if bad:
            k = bad[0]
            return '%s: item %d of the result is %s, documented x + alpha * a = %s + %r * %s = %s' % (
                where, k, flat[k].tolist(), Xb[k].tolist(), al, ab[k, :d].tolist(), ref[k].tolist())
    elif flat.shape[0]:
        ref = torch.linalg.matrix_exp(al * oa_generator(torch, g, ab[:, :d])) @ oa_mat4(torch, g, Xb)
        got = oa_mat4(torch, g, flat)
        err = (got - ref).abs().amax((-1, -2)) / (1 + ref.abs().amax((-1, -2)))
        if not bool((err <= 1e-9).all()):
            k = int(err.argmax()) if not bool(err.isnan().any()) else int(err.isnan().nonzero()[0])
            return '%s: item %d of the result is %s (x = %s, a = %s); its matrix differs from the documented expm(alpha * hat(a)) @ matrix(x) by %.3g (relative)' % (
                where, k, flat[k].tolist(), Xb[k].tolist(), ab[k].tolist(), float(err[k]))
    # item by item: the same operation on the rank-0 items under torch broadcasting
    lt = X.ltype
    for k in range(flat.shape[0]):
        xk, ak = pp.LieTensor(Xb[k].clone(), ltype=lt), ab[k].clone()
        it = raw(xk.add(ak) if alpha is None else xk.add(ak, alpha=alpha), torch)
        if not (torch.equal(flat[k], it) if alg else oa_close(torch, flat[k], it, 64 * 2.3e-16)):
            return '%s: item %d of the batched result %s differs from the same call on the items x = %s, a = %s: %s' % (
                where, k, flat[k].tolist(), Xb[k].tolist(), ak.tolist(), it.tolist())
    # the same call again on the same objects
    if not inplace:
        r2 = raw(f(pp, X, a, alpha), torch)
        if not torch.equal(r2, R):
            return '%s: the second call on the same objects returns %s, the first one %s' % (where, show(r2), show(R))
    return None


def oa_add_cases(ctx, torch):
    rng = ctx.rng
    oseed = rng.randrange(1 << 30)
    ok_pairs = []
    for lx in SHAPES:
        for la in SHAPES:
            try:
                torch.broadcast_shapes(lx, la)
                ok_pairs.append((lx, la))
            except RuntimeError:
                pass
    full_pairs = [p for p in ok_pairs if numel(torch.broadcast_shapes(*p)) > 1]
    pairs = OA_PAIRS + [rng.choice(ok_pairs if i % 4 == 3 else full_pairs) for i in range(ctx.scale(8, 200))]
    k = rng.randrange(1000)
    for g in GROUPS:
        for alg in (False, True):
            for lx, la in pairs:
                out_l = tuple(torch.broadcast_shapes(lx, la))
                for alpha in OA_ALPHAS:
                    k += 1
                    extra = (0, 0, 1, GDIM[g] - ADIM[g] + 2)[(k // 3) % 4]
                    c = dict(kind='optarg', sub='add', g=g, alg=alg, lx=lx, la=la, alpha=alpha, form=k, extra=extra, alie=(extra == 0 and k % 5 == 0),
                             layx=(k // 2) % 4, laya=(k // 7) % 4, inplace=False, oseed=oseed)
                    yield c, out_l
                    if out_l == lx and k % 2:
                        yield dict(c, inplace=True, layx=(k // 2) % 3), out_l
            for lx, la in OA_BAD_PAIRS:
                k += 1
                yield dict(kind='optarg', sub='add', g=g, alg=alg, lx=lx, la=la, alpha=OA_ALPHAS[k % len(OA_ALPHAS)], form=k, extra=0, alie=False,
                           layx=0, laya=0, inplace=bool(k % 2), oseed=oseed), None


def oa_edge(lx, la, out_l):
    if out_l is None:
        return 'incompatible-raises'
    if numel(out_l) == 0:
        return 'empty'
    if out_l == ():
        return 'rank0'
    sx, so = (tuple(lx) != tuple(out_l)), (tuple(la) != tuple(out_l))
    return 'both-broadcast' if (sx and so) else ('self-broadcast' if sx else ('other-broadcast' if so else 'same-shape'))


# ---- cumulative products: dim / left
OA_CUM_SHAPES = [((1,), 0), ((2,), 0), ((3,), 0), ((5,), 0), ((2, 3), 0), ((2, 3), 1), ((3, 2), 1), ((2, 1, 3), 2), ((2, 1, 3), 1), ((3, 2, 2), 0), ((0, 3), 1), ((4, 0), 0), ((0,), 0), ((2, 0), 1), ((0, 3), 0)]


def oa_cum_call(pp, fn, form, X, dim, left, ops):
    """documented call forms of cumprod / cummul (left optional) and cumops (ops)"""
    if ops is not None:
        F = [('X.%s(dim, ops)', lambda: getattr(X, fn)(dim, ops)), ('pp.%s(X, dim, ops)', lambda: getattr(pp, fn)(X, dim, ops)),
             ('X.%s(dim=dim, ops=ops)', lambda: getattr(X, fn)(dim=dim, ops=ops)), ('pp.%s(input=X, dim=dim, ops=ops)', lambda: getattr(pp, fn)(input=X, dim=dim, ops=ops))]
    elif left is None:
        F = [('X.%s(dim)', lambda: getattr(X, fn)(dim)), ('pp.%s(X, dim)', lambda: getattr(pp, fn)(X, dim)), ('X.%s(dim=dim)', lambda: getattr(X, fn)(dim=dim)),
             ('pp.%s(input=X, dim=dim)', lambda: getattr(pp, fn)(input=X, dim=dim))]
    else:
        F = [('X.%s(dim, left)', lambda: getattr(X, fn)(dim, left)), ('X.%s(dim, left=left)', lambda: getattr(X, fn)(dim, left=left)),
             ('X.%s(dim=dim, left=left)', lambda: getattr(X, fn)(dim=dim, left=left)), ('pp.%s(X, dim, left)', lambda: getattr(pp, fn)(X, dim, left)),
             ('pp.%s(X, dim, left=left)', lambda: getattr(pp, fn)(X, dim, left=left)), ('pp.%s(input=X, dim=dim, left=left)', lambda: getattr(pp, fn)(input=X, dim=dim, left=left))]
    text, f = F[form % len(F)]
    return text % fn, f


def oa_cum_check(pp, torch, c):
    g, ls, dim, left, fn = c['g'], tuple(c['ls']), c['dim'], c['left'], c['fn']
    rng = random.Random('C06-optarg-cum|%s|%s|%s' % (g, ls, c['oseed']))
    D, gd = torch.float64, GDIM[g]
    n = numel(ls)
    items = oa_group_items(rng, g, torch, n)
    Xr = torch.tensor(items, dtype=D).reshape(ls + (gd,)) if n else torch.zeros(ls + (gd,), dtype=D)
    Xv, buf = oa_layout(torch, Xr, c['layx'])
    X = pp.LieTensor(Xv, ltype=getattr(pp, g + '_type'))
    eff_left = True if left is None else bool(left)
    ops = None
    if fn.startswith('cumops'):
        ops = (lambda u, v: v @ u) if eff_left else (lambda u, v: u @ v)
    pdim = dim if dim >= 0 else dim + len(ls) + 1
    text, f = oa_cum_call(pp, fn, c['form'], X, dim, left, ops)
    where = '%s with X = %s of lshape %s (%s), dim = %d%s' % (text, g, ls, OA_LAYOUTS[c['layx']], dim, (', ops = lambda a, b: %s' % ('b @ a' if eff_left else 'a @ b')) if ops
                                                            else ('' if left is None else ', left = %r' % left))
    X0, snap = Xr.clone(), buf.clone()
    try:
        r = f()
    except Exception as e:
        return '%s raises %s' % (where, repr(e)[:150])
    inplace = fn.endswith('_')
    if inplace:
        if not (isinstance(r, torch.Tensor) and r.data_ptr() == X.data_ptr() and torch.equal(raw(r, torch), raw(X, torch))):
            return '%s does not return the LieTensor it modified' % where
    elif not (torch.equal(raw(X, torch), X0) and torch.equal(buf, snap)):
        return '%s changes the values of its argument' % where
    if ltype_name(r, torch) != g + 'Type' or tuple(r.shape) != ls + (gd,) or r.dtype != D:
        return '%s returns %s / ltype %s / shape %s, documented: a %sType LieTensor of shape %s' % (where, type(r).__name__, ltype_name(r, torch), tuple(r.shape), g, ls + (gd,))
    R = raw(r, torch).clone()
    # every 1-d fibre along dim: the sequential fold (documented y_i = x_i ... x_1 for left, x_1 ... x_i otherwise)
    if not R.numel():
        return None     # no items: shape, ltype, dtype and non-mutation were judged above
    Rm, Xm = R.movedim(pdim, -2).reshape(-1, ls[pdim], gd), X0.movedim(pdim, -2).reshape(-1, ls[pdim], gd)
    for s in range(Rm.shape[0]):
        acc, seq = None, []
        for i in range(ls[pdim]):
            x = Xm[s, i].tolist()
            acc = x if acc is None else (ref_mul(g, x, acc) if eff_left else ref_mul(g, acc, x))
            seq.append([float(v) for v in acc])
        ref = torch.tensor(seq, dtype=D).reshape(ls[pdim], gd)
        for i in range(ls[pdim]):
            if not oa_close(torch, Rm[s, i], ref[i], 1e-11):
                return '%s: item %d of fibre %d of the result is %s, the %s fold of the items %s is %s' % (
                    where, i, s, Rm[s, i].tolist(), 'left (x_i ... x_1)' if eff_left else 'right (x_1 ... x_i)', Xm[s, :i + 1].tolist(), ref[i].tolist())
        # batching is transparent: the same call on the fibre alone
        if ls[pdim] and len(ls) > 1:
            xs = pp.LieTensor(Xm[s].clone(), ltype=getattr(pp, g + '_type'))
            one = raw(getattr(pp, fn.rstrip('_'))(xs, 0, ops) if ops else (getattr(pp, fn.rstrip('_'))(xs, 0) if left is None else getattr(pp, fn.rstrip('_'))(xs, 0, left=left)), torch)
            for i in range(ls[pdim]):
                if not oa_close(torch, Rm[s, i], one[i], 64 * 2.3e-16):
                    return '%s: item %d of fibre %d of the batched result %s differs from the same call on the fibre alone %s (items %s)' % (
                        where, i, s, Rm[s, i].tolist(), one[i].tolist(), Xm[s].tolist())
    return None


# ---- euler(eps) / quat2unit(eps)
def oa_quat_from_euler(roll, pitch, yaw):
    """x-y-z (roll, pitch, yaw) Euler angles -> unit quaternion (x, y, z, w), textbook formula"""
    cr, sr, cp, sp, cy, sy = math.cos(roll / 2), math.sin(roll / 2), math.cos(pitch / 2), math.sin(pitch / 2), math.cos(yaw / 2), math.sin(yaw / 2)
    return [sr * cp * cy - cr * sp * sy, cr * sp * cy + sr * cp * sy, cr * cp * sy - sr * sp * cy, cr * cp * cy + sr * sp * sy]


def oa_rot_from_euler(torch, e):
    r, p, y = e[..., 0], e[..., 1], e[..., 2]
    cr, sr, cp, sp, cy, sy = r.cos(), r.sin(), p.cos(), p.sin(), y.cos(), y.sin()
    return torch.stack([torch.stack([cy * cp, cy * sp * sr - sy * cr, cy * sp * cr + sy * sr], -1),
                        torch.stack([sy * cp, sy * sp * sr + cy * cr, sy * sp * cr - cy * sr], -1),
                        torch.stack([-sp, cp * sr, cp * cr], -1)], -2)


OA_EPS_EULER = [None, 2e-4, 1e-6, 1e-2, 0.5]
OA_EPS_QUAT = [None, 1e-12, 1e-6, 1e-2]


def oa_unary_operand(pp, torch, c):
    g, ls = c['g'], tuple(c['ls'])
    rng = random.Random('C06-optarg-%s|%s|%s|%s' % (c['sub'], g, ls, c['oseed']))
    n, D = numel(ls), torch.float64
    items, sinp = [], []
    for i in range(n):
        e = generic_elt(rng, g, torch, D)
        t, q, s = split_elt(g, e)
        if c['sub'] == 'euler':
            # pitch regimes: generic, exact gimbal lock (+-), sin(pitch) = 0.9 and 1 - 1e-5 (inside / outside the eps bands)
            pitch = [rng.uniform(-1.0, 1.0), math.pi / 2, -math.pi / 2, math.asin(0.9), -math.asin(1 - 1e-5), rng.uniform(-1.2, 1.2)][i % 6]
            q = oa_quat_from_euler(rng.uniform(-3, 3), pitch, rng.uniform(-3, 3))
            sinp.append(math.sin(pitch))
        else:
            # quaternion regimes: unit, too long, too short, tiny
            f = [1.0, 2.0, 0.5, 1e-3, 1.0 + 2.0 ** -20][i % 5]
            q = [v * f for v in q]
        items.append(join_elt(g, t, q, s))
    Xr = torch.tensor(items, dtype=D).reshape(ls + (GDIM[g],)) if n else torch.zeros(ls + (GDIM[g],), dtype=D)
    Xv, buf = oa_layout(torch, Xr, c['layx'])
    return pp.LieTensor(Xv, ltype=getattr(pp, g + '_type')), Xr, buf, sinp


def oa_euler_check(pp, torch, c):
    g, ls, eps = c['g'], tuple(c['ls']), c['eps']
    X, Xr, buf, sinp = oa_unary_operand(pp, torch, c)
    F = ([('X.euler()', lambda: X.euler()), ('pp.euler(X)', lambda: pp.euler(X)), ('pp.euler(inputs=X)', lambda: pp.euler(inputs=X))] if eps is None else
         [('X.euler(eps)', lambda: X.euler(eps)), ('X.euler(eps=eps)', lambda: X.euler(eps=eps)), ('pp.euler(X, eps)', lambda: pp.euler(X, eps)),
          ('pp.euler(X, eps=eps)', lambda: pp.euler(X, eps=eps)), ('pp.euler(inputs=X, eps=eps)', lambda: pp.euler(inputs=X, eps=eps))])
    text, f = F[c['form'] % len(F)]
    where = '%s with X = %s of lshape %s (%s)%s' % (text, g, ls, OA_LAYOUTS[c['layx']], '' if eps is None else ', eps = %r' % eps)
    X0, snap = Xr.clone(), buf.clone()
    try:
        r = f()
    except Exception as e:
        return '%s raises %s' % (where, repr(e)[:150])
    if not (torch.equal(raw(X, torch), X0) and torch.equal(buf, snap)):
        return '%s changes the values of its argument' % where
    if not isinstance(r, torch.Tensor) or tuple(r.shape) != ls + (3,) or r.dtype != X0.dtype or ltype_name(r, torch) is not None:
        return '%s returns %s of shape %s, documented: a tensor of shape %s' % (where, type(r).__name__, tuple(getattr(r, 'shape', ())), ls + (3,))
    R = raw(r, torch).reshape(-1, 3)
    x0 = X0.reshape(-1, GDIM[g])
    e_eff = 2e-4 if eps is None else eps
    for k in range(R.shape[0]):
        xk = pp.LieTensor(x0[k].clone(), ltype=getattr(pp, g + '_type'))
        it = raw(xk.euler() if eps is None else xk.euler(eps=eps), torch)
        if not oa_close(torch, R[k], it, 64 * 2.3e-16):
            return '%s: item %d of the batched result %s differs from the same call on the item x = %s: %s' % (where, k, R[k].tolist(), x0[k].tolist(), it.tolist())
        # away from the eps band the angles reproduce the rotation (documented x-y-z sequence)
        if abs(sinp[k]) < 1 - e_eff - 1e-3 or abs(sinp[k]) == 1.0:
            Rm = oa_mat4(torch, g, x0[k])[:3, :3]
            Rm = Rm / Rm.det().abs() ** (1.0 / 3)
            tol = 1e-9 if abs(sinp[k]) < 1 else 1e-6
            if not bool(((oa_rot_from_euler(torch, R[k]) - Rm).abs() <= tol).all()):
                return '%s: item %d: the rotation of the returned angles %s differs from the rotation of x = %s' % (where, k, R[k].tolist(), x0[k].tolist())
    return None


def oa_quat2unit_check(pp, torch, c):
    g, ls, eps = c['g'], tuple(c['ls']), c['eps']
    X, Xr, buf, _ = oa_unary_operand(pp, torch, c)
    F = ([('pp.quat2unit(X)', lambda: pp.quat2unit(X)), ('pp.quat2unit(input=X)', lambda: pp.quat2unit(input=X))] if eps is None else
         [('pp.quat2unit(X, eps)', lambda: pp.quat2unit(X, eps)), ('pp.quat2unit(X, eps=eps)', lambda: pp.quat2unit(X, eps=eps)),
          ('pp.quat2unit(input=X, eps=eps)', lambda: pp.quat2unit(input=X, eps=eps))])
    text, f = F[c['form'] % len(F)]
    where = '%s with X = %s of lshape %s (%s)%s' % (text, g, ls, OA_LAYOUTS[c['layx']], '' if eps is None else ', eps = %r' % eps)
    X0, snap = Xr.clone(), buf.clone()
    try:
        r = f()
    except Exception as e:
        return '%s raises %s' % (where, repr(e)[:150])
    if not (torch.equal(raw(X, torch), X0) and torch.equal(buf, snap)):
        return '%s changes the values of its argument' % where
    if ltype_name(r, torch) != g + 'Type' or tuple(r.shape) != tuple(X0.shape) or r.dtype != X0.dtype:
        return '%s returns %s / ltype %s / shape %s, documented: a %sType LieTensor of shape %s' % (where, type(r).__name__, ltype_name(r, torch), tuple(r.shape), g, tuple(X0.shape))
    lo = 0 if g in ('SO3', 'RxSO3') else 3
    ref = X0.clone()
    v = X0[..., lo:lo + 4]
    ref[..., lo:lo + 4] = v / v.norm(dim=-1, keepdim=True).clamp_min(1e-12 if eps is None else eps)
    R, x0, rf = raw(r, torch).reshape(-1, GDIM[g]), X0.reshape(-1, GDIM[g]), ref.reshape(-1, GDIM[g])
    for k in range(R.shape[0]):
        if not oa_close(torch, R[k], rf[k], 8 * 2.3e-16):
            return '%s: item %d of the result is %s, documented v / max(|v|, eps) for x = %s: %s' % (where, k, R[k].tolist(), x0[k].tolist(), rf[k].tolist())
        xk = pp.LieTensor(x0[k].clone(), ltype=getattr(pp, g + '_type'))
        it = raw(pp.quat2unit(xk) if eps is None else pp.quat2unit(xk, eps=eps), torch)
        if not oa_close(torch, R[k], it, 8 * 2.3e-16):
            return '%s: item %d of the batched result %s differs from the same call on the item x = %s: %s' % (where, k, R[k].tolist(), x0[k].tolist(), it.tolist())
    return None


# ---- constructors: lsize forms, sigma, requires_grad, dtype, device
OA_SIGMAS = {'SO3': [None, 0, 0.5, 2], 'so3': [None, 0, 0.5, 2], 'SE3': [None, 0, 0.5, (1.0, 2.0), (0, 0), (1.0, 1.5, 2.0, 0.5)],
             'se3': [None, 0, 2, (1.0, 2.0), (0, 0), (1.0, 1.5, 2.0, 0.5)], 'RxSO3': [None, 0, 0.5, (1.0, 0.5), (0, 0)], 'rxso3': [None, 0, 2, (1.0, 0.5), (0, 0)],
             'Sim3': [None, 0, 0.5, (1.0, 2.0, 0.5), (0, 0, 0), (1.0, 1.5, 2.0, 0.5, 0.25)], 'sim3': [None, 0, 2, (1.0, 2.0, 0.5), (0, 0, 0), (1.0, 1.5, 2.0, 0.5, 0.25)]}
OA_IDENT = dict(DT_IDENT, so3=[0.] * 3, se3=[0.] * 6, rxso3=[0.] * 4, sim3=[0.] * 7)


def oa_ctor_check(pp, torch, c):
    nm, ls, fn, sigma, rg, dt, lform = c['name'], tuple(c['ls']), c['fn'], c['sigma'], c['requires_grad'], c['dtype'], c['lform']
    if isinstance(sigma, list):
        sigma = tuple(sigma)
    kw = {}
    if sigma is not None:
        kw['sigma'] = sigma
    if rg is not None:
        kw['requires_grad'] = rg
    if dt is not None:
        kw['dtype'] = getattr(torch, dt)
    if c.get('device'):
        kw['device'] = c['device']
    want_dt = getattr(torch, dt) if dt else torch.get_default_dtype()
    d = len(OA_IDENT[nm])
    if fn.endswith('_like'):
        X = getattr(pp, 'identity_' + nm)(*ls, dtype=torch.float64)
        text, f = 'pp.%s(X, %s) with X = %s of lshape %s' % (fn, ', '.join('%s=%r' % kv for kv in kw.items()), nm, ls), (lambda: getattr(pp, fn)(X, **kw))
        want_dt = getattr(torch, dt) if dt else (torch.float64 if fn == 'randn_like' else torch.get_default_dtype())
    else:
        args = {'ints': ls, 'tuple': (tuple(ls),), 'list': (list(ls),), 'Size': (torch.Size(ls),)}[lform]
        text, f = 'pp.%s%s(%s)' % (fn, nm, ', '.join([repr(a) for a in args] + ['%s=%r' % kv for kv in kw.items()])), (lambda: getattr(pp, fn + nm)(*args, **kw))
    try:
        r = f()
    except Exception as e:
        return '%s raises %s' % (text, repr(e)[:150])
    if ltype_name(r, torch) != nm + 'Type' or tuple(r.shape) != ls + (d,) or tuple(r.lshape) != ls:
        return '%s returns %s / ltype %s / shape %s, documented: a %sType LieTensor of lshape %s' % (text, type(r).__name__, ltype_name(r, torch), tuple(r.shape), nm, ls)
    if r.dtype != want_dt or str(r.device) != 'cpu':
        return '%s returns dtype %s on %s, documented %s on cpu' % (text, r.dtype, r.device, want_dt)
    if bool(r.requires_grad) != bool(rg):
        return '%s returns a tensor with requires_grad = %s' % (text, r.requires_grad)
    R = raw(r.detach(), torch).reshape(-1, d).to(torch.float64)
    if not bool(torch.isfinite(R).all()):
        return '%s returns non-finite values %s' % (text, R.reshape(-1)[:8].tolist())
    ident = torch.tensor(OA_IDENT[nm], dtype=torch.float64)
    zero_sigma = sigma is not None and not any(sigma if isinstance(sigma, tuple) else (sigma,))
    if (fn.startswith('identity') or zero_sigma) and R.shape[0] and not bool((R == ident).all()):
        return '%s returns %s, documented: identity items %s' % (text, R[0].tolist(), ident.tolist())
    if nm in DT_IDENT and R.shape[0]:
        lo = 0 if nm in ('SO3', 'RxSO3') else 3
        if not bool(((R[:, lo:lo + 4].norm(dim=-1) - 1).abs() <= (1e-5 if want_dt == torch.float32 else 1e-12)).all()):
            return '%s returns items whose quaternion is not of unit length: %s' % (text, R[0].tolist())
    return None


# ---- mat2* / from_matrix: check, rtol, atol
OA_MAT_OPTS = [dict(), dict(check=True), dict(check=False), dict(check=True, rtol=1e-5, atol=1e-5), dict(check=True, rtol=1e-3, atol=1e-2), dict(rtol=1e-4), dict(atol=1e-4),
               dict(check=False, rtol=1e-9, atol=1e-9)]


def oa_mat_check(pp, torch, c):
    g, ls, opts, illegal = c['g'], tuple(c['ls']), dict(c['opts']), c['illegal']
    rng = random.Random('C06-optarg-mat|%s|%s|%s' % (g, ls, c['oseed']))
    D, n = torch.float64, numel(ls)
    items = oa_group_items(rng, g, torch, n)
    Xr = torch.tensor(items, dtype=D).reshape(ls + (GDIM[g],)) if n else torch.zeros(ls + (GDIM[g],), dtype=D)
    M4 = oa_mat4(torch, g, Xr)
    M = (M4[..., :3, :3] if g in ('SO3', 'RxSO3') else M4).clone()
    if illegal and n:
        M.reshape((-1,) + tuple(M.shape[-2:]))[n - 1, 0, :3] += torch.tensor([0.0, 3e-3, 0.0], dtype=D) * float(M4.reshape(-1, 4, 4)[n - 1, :3, :3].det().abs() ** (1 / 3))
    Mv, buf = oa_layout(torch, M, c['layx'])
    G = getattr(pp, g + '_type')
    pos = [opts[k] for k in ('check', 'rtol', 'atol') if k in opts] if list(opts) == ['check', 'rtol', 'atol'][:len(opts)] else None
    F = [('pp.mat2%s(M, %s)' % (g, ', '.join('%s=%r' % kv for kv in opts.items())), lambda: getattr(pp, 'mat2' + g)(Mv, **opts)),
         ('pp.from_matrix(M, pp.%s_type, %s)' % (g, ', '.join('%s=%r' % kv for kv in opts.items())), lambda: pp.from_matrix(Mv, G, **opts)),
         ('pp.from_matrix(mat=M, ltype=pp.%s_type, %s)' % (g, ', '.join('%s=%r' % kv for kv in opts.items())), lambda: pp.from_matrix(mat=Mv, ltype=G, **opts))]
    if pos is not None:
        F.append(('pp.mat2%s(M, %s)' % (g, ', '.join(repr(v) for v in pos)), lambda: getattr(pp, 'mat2' + g)(Mv, *pos)))
        F.append(('pp.from_matrix(M, pp.%s_type, %s)' % (g, ', '.join(repr(v) for v in pos)), lambda: pp.from_matrix(Mv, G, *pos)))
    text, f = F[c['form'] % len(F)]
    where = '%s with M = the matrices of the %s items %s (lshape %s, %s)%s' % (text, g, Xr.reshape(-1, GDIM[g])[:3].tolist(), ls, OA_LAYOUTS[c['layx']],
                                                                             ', first row of the last rotation block perturbed by 3e-3' if illegal else '')
    snap, M0 = buf.clone(), Mv.clone()
    checking = opts.get('check', True)
    loose = opts.get('atol', 1e-5) >= 1e-2
    try:
        r = f()
    except Exception as e:
        if illegal and n and checking and not loose and isinstance(e, ValueError):
            return None
        return '%s raises %s' % (where, repr(e)[:150])
    if illegal and n and checking and not loose:
        return '%s returns although check is enabled and one matrix is not a legal transformation within the tolerances (documented: ValueError)' % where
    if not (torch.equal(Mv, M0) and torch.equal(buf, snap)):
        return '%s changes the values of its argument' % where
    if ltype_name(r, torch) != g + 'Type' or tuple(r.shape) != ls + (GDIM[g],) or r.dtype != D:
        return '%s returns %s / ltype %s / shape %s, documented: a %sType LieTensor of shape %s' % (where, type(r).__name__, ltype_name(r, torch), tuple(r.shape), g, ls + (GDIM[g],))
    if illegal:
        return None
    R = raw(r, torch).reshape(-1, GDIM[g])
    Mf = M4.reshape(-1, 4, 4)
    Min = M0.reshape((-1,) + tuple(M0.shape[-2:]))
    for k in range(R.shape[0]):
        back = oa_mat4(torch, g, R[k])
        if not bool(((back - Mf[k]).abs().amax() <= 1e-9 * (1 + Mf[k].abs().amax()))):
            return '%s: item %d of the result %s does not have the matrix it was converted from (item %s)' % (where, k, R[k].tolist(), Xr.reshape(-1, GDIM[g])[k].tolist())
        it = raw(getattr(pp, 'mat2' + g)(Min[k].clone(), **opts), torch)
        if not oa_close(torch, R[k], it, 64 * 2.3e-16):
            return '%s: item %d of the batched result %s differs from the same call on the single matrix: %s' % (where, k, R[k].tolist(), it.tolist())
    return None


OA_CHECKS = {'add': oa_add_check, 'cum': oa_cum_check, 'euler': oa_euler_check, 'quat2unit': oa_quat2unit_check, 'ctor': oa_ctor_check, 'mat': oa_mat_check}


def oa_run(ctx, pp, torch, c, key, branch, nontrivial=True):
    ctx.case(('optarg',) + tuple(sorted((k, repr(v)) for k, v in c.items())), nontrivial=nontrivial, branch=branch)
    try:
        with warnings.catch_warnings():
            warnings.simplefilter('ignore')
            what = OA_CHECKS[c['sub']](pp, torch, c)
    except Exception as e:
        what = 'the oracle of case %r could not be evaluated: %s' % (c, repr(e)[:200])
    if what:
        if 'changes the values of its' in what and not c.get('inplace'):
            key = 'mutation:' + key.split(':')[1]
        ctx.violation(key, what, c)


def part_optargs(ctx, pp, torch, files2, meta2):
    rng = ctx.rng
    oseed = rng.randrange(1 << 30)
    # add / add_: alpha
    for c, out_l in oa_add_cases(ctx, torch):
        fn = 'add_' if c['inplace'] else 'add'
        arg = 'alpha' if c['alpha'] is not None else 'call-form'
        oa_run(ctx, pp, torch, c, 'optarg:%s:%s%s' % (fn, arg, '' if out_l is not None else ':incompatible-lshapes'),
               'optarg-%s-%s%s' % (fn, oa_edge(c['lx'], c['la'], out_l), '-alpha' if c['alpha'] not in (None, 1, 1.0) else ''),
               nontrivial=(out_l is None or numel(out_l) != 1 or c['lx'] != c['la']))
    # cumprod / cummul / cumops (+ in place): dim, left
    k = rng.randrange(1000)
    for g in GROUPS:
        for ls, dim in OA_CUM_SHAPES:
            for fn in ('cumprod', 'cummul', 'cumops', 'cumprod_', 'cummul_', 'cumops_'):
                for left in ((True, False) if fn.startswith('cumops') else (None, True, False)):
                    k += 1
                    c = dict(kind='optarg', sub='cum', g=g, ls=ls, dim=(dim if k % 3 else dim - len(ls) - 1), left=left, fn=fn, form=k,
                             layx=((k // 2) % 3), oseed=oseed)
                    oa_run(ctx, pp, torch, c, 'optarg:%s:%s' % (fn, 'ops' if fn.startswith('cumops') else ('left' if left is not None else 'call-form')),
                           'optarg-%s-%s' % (fn, 'default' if left is None else ('left' if left else 'right')))
    # euler / quat2unit: eps
    for g in GROUPS:
        for ls in [(), (6,), (2, 3), (0,), (7, 1)]:
            for sub, epss in (('euler', OA_EPS_EULER), ('quat2unit', OA_EPS_QUAT)):
                for eps in epss:
                    k += 1
                    c = dict(kind='optarg', sub=sub, g=g, ls=ls, eps=eps, form=k, layx=(k // 2) % 3, oseed=oseed)
                    oa_run(ctx, pp, torch, c, 'optarg:%s:%s' % (sub, 'eps' if eps is not None else 'call-form'), 'optarg-%s-%s' % (sub, 'default' if eps is None else 'eps'),
                           nontrivial=(ls != ()))
    # constructors
    for nm in list(DT_IDENT) + [ALG[g] for g in GROUPS]:
        for ls in [(), (2,), (0,), (2, 1, 3)]:
            for sigma in OA_SIGMAS[nm]:
                k += 1
                c = dict(kind='optarg', sub='ctor', name=nm, ls=ls, fn='randn_', sigma=sigma, requires_grad=(None, True, False)[k % 3], dtype=(None, 'float64', 'float32')[(k // 3) % 3],
                         lform=('ints', 'tuple', 'list', 'Size')[(k // 2) % 4], device=('cpu' if k % 4 == 0 else None))
                oa_run(ctx, pp, torch, c, 'optarg:randn_%s:%s' % (nm, 'sigma' if sigma is not None else 'keywords'), 'optarg-randn-%s' % ('sigma' if sigma is not None else 'default'), nontrivial=(ls != ()))
                if sigma is None or not isinstance(sigma, tuple):
                    oa_run(ctx, pp, torch, dict(c, fn='randn_like'), 'optarg:randn_like:%s' % ('sigma' if sigma is not None else 'keywords'), 'optarg-randn_like', nontrivial=(ls != ()))
            for rg in (None, True, False):
                k += 1
                # the collection forms of lsize are documented for identity_* as well (they raised TypeError before the repair "fix: identity constructors accept lsize ...")
                c = dict(kind='optarg', sub='ctor', name=nm, ls=ls, fn='identity_', sigma=None, requires_grad=rg, dtype=(None, 'float64', 'float32')[k % 3], lform=('ints', 'tuple', 'list', 'Size')[(k // 3) % 4],
                         device=('cpu' if k % 2 else None))
                oa_run(ctx, pp, torch, c, 'optarg:identity_%s:keywords' % nm, 'optarg-identity', nontrivial=(ls != ()))
                oa_run(ctx, pp, torch, dict(c, fn='identity_like'), 'optarg:identity_like:keywords', 'optarg-identity_like', nontrivial=(ls != ()))
    # mat2* / from_matrix
    for g in GROUPS:
        for ls in [(), (3,), (2, 2), (0,), (1, 3)]:
            for oi, opts in enumerate(OA_MAT_OPTS):
                for illegal in (False, True):
                    if illegal and not numel(ls):
                        continue
                    k += 1
                    c = dict(kind='optarg', sub='mat', g=g, ls=ls, opts=opts, illegal=illegal, form=k, layx=(k // 3) % 2, oseed=oseed)
                    oa_run(ctx, pp, torch, c, 'optarg:mat2%s:%s' % (g, '-'.join(sorted(opts)) or 'call-form'), 'optarg-mat2-%s' % ('illegal' if illegal else 'legal'), nontrivial=(ls != ()))



PARTS.append(part_optargs)


def replay_optarg(pp, torch, c):
    c = dict(c)
    for k in ('lx', 'la', 'ls'):
        if k in c and c[k] is not None:
            c[k] = tuple(c[k])
    with warnings.catch_warnings():
        warnings.simplefilter('ignore')
        return OA_CHECKS[c['sub']](pp, torch, c)


# ------------------------------------------------------------------------------------------------ replay
def replay(ctx, c):
    pp = import_pypose()
    import torch
    warnings.filterwarnings('ignore')
    kind = c.get('kind')
    tup = lambda v: tuple(v) if v is not None else None
    if kind == 'binop':
        pools = Pools(random.Random(c.get('pool_seed', 0)), torch, pp)
        dt = torch.float32 if c.get('dtype') == 'float32' else None
        return oracle_binop(pp, torch, pools, c['g'], c['op'], tup(c['lx']), tup(c['ly']), c.get('variant', 0), dt)
    if kind == 'unop':
        pools = Pools(random.Random(c.get('pool_seed', 0)), torch, pp)
        return oracle_unop(pp, torch, pools, c['g'], c['op'], tup(c['ls']), c.get('variant', 0))
    if kind == 'ltype':
        pools = Pools(random.Random(0), torch, pp)
        if c['op'] in dict(BINOPS):
            return oracle_binop(pp, torch, pools, c['g'], c['op'], (2,), (2,))
        return oracle_unop(pp, torch, pools, c['g'], c['op'], (2,))
    if kind == 'ctor':
        nm, ls = c['name'], tup(c['ls'])
        try:
            I = getattr(pp, 'identity_' + nm)(*ls, dtype=torch.float64)
            Rn = getattr(pp, 'randn_' + nm)(*ls, dtype=torch.float64)
            if tuple(I.lshape) == ls and tuple(Rn.lshape) == ls and ltype_name(I, torch) == nm + 'Type':
                return None
        except Exception:
            pass
        return 'identity_%s / randn_%s with lshape %s: wrong shape or ltype' % (nm, nm, ls)
    if kind == 'ctor-bad':
        g = c['g']
        try:
            pp.LieTensor(torch.zeros(2, GDIM[g] + 1), ltype=getattr(pp, g + '_type'))
        except AssertionError:
            return None
        return 'LieTensor with a wrong last dimension accepted'
    if kind == 'handled':
        calls = handled_calls(torch, pp)
        g, other = c['g'], c['other']
        d = {'SO3': 4, 'SE3': 7, 'Sim3': 8, 'so3': 3}[g]
        data = torch.arange(6 * d, dtype=torch.float64).reshape(2, 3, d) / 8
        Xmk = lambda: pp.LieTensor(data.clone(), ltype=getattr(pp, g + '_type'))
        amk = lambda: pp.LieTensor(data.clone() + 1, ltype=getattr(pp, other + '_type'))
        for key, lst in calls.items():
            for ent in lst:
                if key.lstrip('~') == c['name'] and ent[0] == c['label']:
                    return direct_handled_check(torch, pp, c['name'], ent[0], ent[1], len(ent) > 2 and ent[2], Xmk, amk)
        return None
    if kind == 'handled-kwargs':
        X = pp.LieTensor(torch.tensor([[0., 0., 0., 1.], [0.5, 0.5, 0.5, 0.5]], dtype=torch.float64), ltype=pp.SO3_type)
        Yr = pp.LieTensor(torch.tensor([[0.25, 0., 0., 1.], [0.5, 0.5, 0.5, 0.5]], dtype=torch.float64), ltype=pp.rxso3_type)
        for label, f, nm, dlit, pos, kws in kwarg_calls(torch, X, Yr):
            if label == c['label']:
                return check_kwarg_call(torch, label, f)
        return None
    if kind == 'patch':
        from pypose.lietensor.lietensor import retain_ltype
        env = PatchEnv()
        res = run_patch_trace(env, retain_ltype, c['pristine'], copy.deepcopy(c['body']))
        if res['err']:
            return 'retain_ltype body: unexpected %s' % res['err']
        if not res['restored']:
            return 'a patched torch attribute is not restored after retain_ltype'
        if res['leaked']:
            return 'nested retain_ltype leaves attribute `wrapper` in %s' % res['leaked']
        if res['module_changed']:
            return '_add_batch_dim.__module__ is %r after retain_ltype' % res['mod_after']
        return None
    if kind == 'jacrev':
        env = PatchEnv()
        r = jacrev_once(pp, torch, env, c['g'], c['fail_at'], c['user_raises'], c['nested'])
        if not r['restored']:
            return 'a patched torch attribute is not restored after pp.func.jacrev'
        if r['leaked']:
            return 'jacrev inside jacrev leaves attribute `wrapper` in %s' % r['leaked']
        return None
    if kind == 'dtype':
        return replay_dtype(pp, torch, c)
    if kind == 'optarg':
        return replay_optarg(pp, torch, c)
    if kind == 'mutation':
        for entry in sweep_entries(pp, torch, random.Random(c['seed'])):
            if entry[0] == c['name']:
                bad, err = run_entry(torch, entry)
                return ('%s changes the values of its tensor argument(s) at position(s) %s' % (c['name'], bad)) if bad else None
        return None
    return None
