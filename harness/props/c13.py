"""C13 correspondence: pypose.module.EKF / UKF / PF vs Model/Filter.v and vs the textbook Kalman filter.

The model and the oracles describe the code after the repairs 8375f2f (EKF innovation), 7981b02 (UKF sigma
points / cross covariance), b057b94 (PF likelihood), bcca31d (LTI signature): every deviation from the Kalman
filter is a VIOLATION.

Families
  witness   directed regression cases: the rational witnesses of the `_old ... _refuted` theorems of
            Props/C13.v (the inputs on which the old code failed), pypose.module.LTI as the model,
            the PF Monte-Carlo band on the EKF witness system
  ekf/ukf   single steps on systems  f(x,u) = A x + B u + c1 + a.*pad(x.*x),  h likewise
            (a = b = 0: linear), dims 1..6, SPD non-diagonal Q, R, P over 6 orders of magnitude:
            implementation vs the Coq model (vm_compute, 320-bit fixed point, exact-inverse and
            Cholesky routines of Base/Mat.v) within 1e-6 of the natural scale, and vs independent
            40-digit mpmath filters (Kalman filter / documented EKF recursion / textbook UKF)
  run       runs of up to 50 steps: every step is tied to the model from the implementation's
            previous state (a run is the fold of the one-step map), steps are judged by the
            oracle, returned covariances are checked symmetric / PSD
  pf        the normal and uniform draws are recorded and replayed: particles, Gaussian
            log-likelihood differences, resampling + mean + covariance against the model;
            softmax against mpmath; Monte-Carlo band (>= 6 sigma) against the closed-form posterior
            mean of the documented particle model
  pfcond    every PF call (2nd call on its object), given its particles (rebuilt from the recorded normal
            draws): returned mean / covariance within the Bernstein deviation (2e-10) of the importance-
            weighted mean / Q + weighted covariance; regime family: measurement noise 1e-2 .. 1e3 times the
            spread of the predicted observation (ESS from a few particles to ~N), n = 1..6, N = 1e3..2e5;
            a record the call did not produce = mismatch, searched with more particles (no crash)
  constants every subset of the optional constants (c1, c2) absent x (B, D zero or not): pp.module.LTI and LTV (constant
            matrices) built without them / with None, the user's own classes without the term; EKF / UKF single steps and
            runs against the Kalman filter (an absent constant is the zero vector), PF with recorded draws and the band;
            the same subsets are drawn at random in the step / run / pf families; a PF call that raises is a reported input
"""
import math
from ..common import *

RULE = ('one case = one filter call (system, Q, R, x, y, u, P, k); non-trivial = state dimension >= 2 (non-diagonal P) '
        'or a nonlinear system; distinct by all numeric inputs; directed block: the Coq witnesses, every state dimension 1..6, '
        'every k class (None, 0, positive, negative, fractional), both system classes, linear and nonlinear, extreme covariance '
        'scales, every subset of the optional constants c1 / c2 of LTI / LTV absent, B / D zero; PF cases: distinct by recorded draws')

REL = 1e-6           # tolerance relative to the natural scale of the quantity (model tie and oracle)


# ------------------------------------------------------------------------------------------------ numerics
def np_():
    import numpy
    return numpy


def spd(rng, n, scale, diagonal=False):
    """symmetric positive definite, non-diagonal for n >= 2, condition number <~ 60, overall size `scale`"""
    np = np_()
    G = np.array([[rng.gauss(0, 1) for _ in range(n)] for _ in range(n)])
    M = G @ G.T / n + 0.25 * np.eye(n)
    if diagonal:
        M = np.diag(np.diag(M))
    M = (M + M.T) / 2 * scale
    return M.tolist()


def gen_system(rng, n, m, p, nonlinear=False):
    g = lambda r, c, s: [[rng.gauss(0, 1) * s for _ in range(c)] for _ in range(r)]
    v = lambda d, s: [rng.gauss(0, 1) * s for _ in range(d)]
    nl = 0.15 if nonlinear is True else float(nonlinear)
    return dict(A=g(n, n, 0.9 / math.sqrt(n)), B=g(n, p, 1.0), C=g(m, n, 1.0), D=g(m, p, 1.0), c1=v(n, 1.0), c2=v(m, 1.0),
                a=v(n, nl) if nonlinear else [0.0] * n, b=v(m, nl) if nonlinear else [0.0] * m)


def gen_case(rng, n, m, p, nonlinear=False, scales=None, k=None, diagonal=False):
    """nonlinear: False, True (coefficients ~0.15) or a coefficient size.  For nonlinear systems a negative k
    (negative centre weight) can make the predicted covariance indefinite -- outside every clause -- so k is made >= 0."""
    S = gen_system(rng, n, m, p, nonlinear)
    if nonlinear and (3 - n if k is None else k) < 0:
        k = 0
    sc = scales or [10.0 ** rng.uniform(-3, 3) for _ in range(3)]
    return dict(S=S, Q=spd(rng, n, sc[0]), R=spd(rng, m, sc[1]), P=spd(rng, n, sc[2], diagonal),
                x=[rng.gauss(0, 1) * 2 for _ in range(n)], u=[rng.gauss(0, 1) for _ in range(p)],
                y=[rng.gauss(0, 1) * 3 for _ in range(m)], k=k)


def is_linear(S):
    return not any(S['a']) and not any(S['b'])


CONSTANT_SUBSETS = [(), ('c1',), ('c2',), ('c1', 'c2')]


def with_constants(S, none=(), zero=()):
    """the same system with the optional constants in `none` ABSENT (pp.module.LTI / LTV: c1, c2 default to None = no
    constant term = the zero vector of the property's  x' = A x + B u + c1,  y = C x' + D u + c2) and the matrices /
    constants in `zero` explicitly zero (B, D: no control input / no feed-through; they are not optional in LTI).
    The numeric description S (what the oracles and the Coq model read) holds zeros in both cases."""
    S = dict(S)
    for q in tuple(none) + tuple(zero):
        v = S[q]
        S[q] = [[0.0] * len(v[0]) for _ in v] if isinstance(v[0], list) else [0.0] * len(v)
    if none:
        S['none'] = sorted(none)
    return S


def build_system(pp, torch, S, kind):
    """the user's system object: 'nls' = subclass of pp.module.NLS (A, C by autograd),
    'sys' = subclass of pp.module.System with explicit A, B, C, D (linear only), 'lti' = pp.module.LTI,
    'ltv' = pp.module.LTV with constant matrices.  S['none'] lists the optional constants the user leaves out
    (LTI / LTV: not passed or passed as None, both documented; own classes: the term is not written)."""
    T = lambda v: torch.tensor(v, dtype=torch.float64)
    A, B, C, D, c1, c2, a, b = (T(S[q]) for q in ('A', 'B', 'C', 'D', 'c1', 'c2', 'a', 'b'))
    n, m = len(S['c1']), len(S['c2'])
    none = tuple(S.get('none') or ())
    assert all(not any(S[q]) for q in none)
    if kind in ('lti', 'ltv'):
        cls = pp.module.LTI if kind == 'lti' else pp.module.LTV
        if not none:
            return cls(A, B, C, D, c1, c2)
        if int(round(abs(S['A'][0][0]) * 1e6)) % 2:             # explicit None, positionally
            return cls(A, B, C, D, None if 'c1' in none else c1, None if 'c2' in none else c2)
        return cls(A, B, C, D, **{q: v for q, v in (('c1', c1), ('c2', c2)) if q not in none})

    def padsq(x, d):
        sq = x * x
        if d <= sq.shape[-1]:
            return sq[..., :d]
        return torch.cat([sq, sq.new_zeros(sq.shape[:-1] + (d - sq.shape[-1],))], -1)

    def f(x, u):
        r = pp.bmv(A, x) + pp.bmv(B, u) + a * padsq(x, n)
        return r if 'c1' in none else r + c1

    def h(x, u):
        r = pp.bmv(C, x) + pp.bmv(D, u) + b * padsq(x, m)
        return r if 'c2' in none else r + c2
    if kind == 'nls':
        class Sys(pp.module.NLS):
            def state_transition(self, state, input, t=None):
                return f(state, input)

            def observation(self, state, input, t=None):
                return h(state, input)
        return Sys()
    assert is_linear(S) and kind == 'sys', kind

    class Sys2(pp.module.System):
        def state_transition(self, state, input, t=None):
            return f(state, input)

        def observation(self, state, input, t=None):
            return h(state, input)
    Sys2.A = property(lambda self: A)
    Sys2.B = property(lambda self: B)
    Sys2.C = property(lambda self: C)
    Sys2.D = property(lambda self: D)
    return Sys2()


def impl_step(pp, torch, filt_name, c, kind='nls', model=None, obj=None, warm=True):
    """one call of the real filter; returns (x', P') as lists of floats.  The filter object is the caller's [obj]
    when given (the user's loop keeps ONE filter object for the whole run); otherwise a fresh object is first
    called once with other arguments (UKF: another k > -n) and the result discarded, so every step case is a
    two-call history on one object: a filter that keeps anything from an earlier call shows up here."""
    T = lambda v: torch.tensor(v, dtype=torch.float64)
    model = model if model is not None else build_system(pp, torch, c['S'], kind)
    xa, ya, ua, Pa, Qa, Ra = T(c['x']), T(c['y']), T(c['u']), T(c['P']), T(c['Q']), T(c['R'])
    # how the noise covariances reach the filter (documented: constructor defaults, each overridable per call):
    # 0 both at the call, 1 both as constructor defaults, 2 Q default + R at the call, 3 R default + Q at the call;
    # whatever is passed at the call must win over a (different) constructor default
    mode = (int(round(abs(c['x'][0]) * 1e6)) + len(c['y'])) % 4 if obj is None else 0
    eyeQ, eyeR = torch.eye(Qa.shape[-1], dtype=Qa.dtype), torch.eye(Ra.shape[-1], dtype=Ra.dtype)
    dQ, dR = 3.0 * Qa + eyeQ, 0.5 * Ra + eyeR                      # decoy defaults
    ctor = {0: dict(Q=dQ, R=dR), 1: dict(Q=Qa, R=Ra), 2: dict(Q=Qa, R=dR), 3: dict(Q=dQ, R=Ra)}[mode]
    call = {0: dict(Q=Qa, R=Ra), 1: dict(), 2: dict(R=Ra), 3: dict(Q=Qa)}[mode]
    if filt_name == 'ekf':
        f = obj if obj is not None else pp.module.EKF(model, **ctor)
        if obj is None and warm:
            try:
                f(xa + 1.0, ya - 0.5, ua, Pa * 2.0, **call)
            except Exception:   # noqa  (only the judged call matters)
                pass
        x, P = f(xa, ya, ua, Pa, **call)
    else:
        f = obj if obj is not None else pp.module.UKF(model, **ctor)
        if obj is None and warm:
            k0 = c.get('k')
            kw = (3.0 - len(c['x'])) if k0 is not None else 1.25      # a different, admissible k (> -n)
            if k0 is not None and abs(kw - k0) < 1e-9:
                kw = k0 + 0.75
            try:
                f(xa + 1.0, ya - 0.5, ua, Pa * 2.0, k=kw, **call)
            except Exception:   # noqa
                pass
        x, P = f(xa, ya, ua, Pa, k=c.get('k'), **call)
    return [float(v) for v in x.tolist()], [[float(v) for v in row] for row in P.tolist()]


# ------------------------------------------------------------------------------------------------ oracles (mpmath, 40 digits)
def mpm():
    import mpmath
    mpmath.mp.dps = 40
    return mpmath


class Sysmp:
    """the system family in mpmath"""
    def __init__(self, S):
        mp = mpm()
        self.mp, self.S = mp, S
        self.n, self.m = len(S['c1']), len(S['c2'])
        self.M = {q: mp.matrix(S[q]) for q in ('A', 'B', 'C', 'D')}

    def V(self, a):
        return self.mp.matrix([[self.mp.mpf(t)] for t in a])

    def f(self, x, u):
        return self._q('A', 'B', 'c1', 'a', self.n, x, u)

    def h(self, x, u):
        return self._q('C', 'D', 'c2', 'b', self.m, x, u)

    def _q(self, Mx, Mu, cc, coef, d, x, u):
        r = self.M[Mx] * x + self.M[Mu] * u + self.V(self.S[cc])
        for i in range(min(d, x.rows)):
            r[i] += self.mp.mpf(self.S[coef][i]) * x[i] * x[i]
        return r

    def jac(self, Mx, coef, x):
        J = self.M[Mx].copy()
        for i in range(min(J.rows, J.cols)):
            J[i, i] += 2 * self.mp.mpf(self.S[coef][i]) * x[i]
        return J


def col(v):
    return [v[i] for i in range(v.rows)]


def rows(M):
    return [[M[i, j] for j in range(M.cols)] for i in range(M.rows)]


def oracle_kf(c, innov_at_prior=False):
    """textbook Kalman predict-then-update for x' = f(x,u), y = h(x',u) linearised at the prior mean (the exact
    Kalman filter when the system is linear; the documented EKF recursion otherwise).
    innov_at_prior=True: the recorded deviation of EKF.forward (innovation y - h(x, u) at the pre-transition state)."""
    mp = mpm()
    sy = Sysmp(c['S'])
    x, u, y = sy.V(c['x']), sy.V(c['u']), sy.V(c['y'])
    P = mp.matrix(c['P'])
    A, C = sy.jac('A', 'a', x), sy.jac('C', 'b', x)
    xm = sy.f(x, u)
    Pm = A * P * A.T + mp.matrix(c['Q'])
    Sm = C * Pm * C.T + mp.matrix(c['R'])
    K = Pm * C.T * mp.inverse(Sm)
    e = y - sy.h(x if innov_at_prior else xm, u)
    return col(xm + K * e), rows((mp.eye(sy.n) - K * C) * Pm)


def oracle_ukf(c, rows_of_factor=False, mixed_sets=False):
    """unscented Kalman filter (Simon 14.3) with the lower Cholesky factor L L^T = (n+k) P; sigma points
    x +- columns of L.  (False, False) is the filter the property describes (= the Kalman filter on linear
    systems); (True, True) is the recorded deviation of UKF.forward."""
    mp = mpm()
    sy = Sysmp(c['S'])
    n = sy.n
    k = c.get('k')
    k = mp.mpf(3 - n if k is None else k)
    x, u, y = sy.V(c['x']), sy.V(c['u']), sy.V(c['y'])
    w = [k / (n + k)] + [1 / (2 * (n + k))] * (2 * n)

    def sigma(xc, P):
        L = mp.cholesky((n + k) * P)
        dev = [L[i, :].T if rows_of_factor else L[:, i] for i in range(n)]
        return [xc] + [xc + d for d in dev] + [xc - d for d in dev]

    def wmean(pts):
        s = pts[0] * 0
        for wi, p in zip(w, pts):
            s += wi * p
        return s

    def wcov(a, b):
        s = mp.zeros(a[0].rows, b[0].rows)
        for wi, p, q in zip(w, a, b):
            s += wi * p * q.T
        return s
    xs = [sy.f(p, u) for p in sigma(x, mp.matrix(c['P']))]
    xe = wmean(xs)
    ex = [xe - p for p in xs]
    Pm = wcov(ex, ex) + mp.matrix(c['Q'])
    s2 = sigma(xe, Pm)
    if not mixed_sets:
        ex = [xe - p for p in s2]
    ys = [sy.h(p, u) for p in s2]
    ye = wmean(ys)
    ey = [ye - p for p in ys]
    Py = wcov(ey, ey) + mp.matrix(c['R'])
    K = wcov(ex, ey) * mp.inverse(Py)
    return col(xe + K * (y - ye)), rows(Pm - K * Py * K.T)


def scales(c, outx, outP):
    """natural scales of the state and covariance results (for the relative tolerance)"""
    np = np_()
    S = c['S']
    x = np.array(c['x'], dtype=float)
    A = np.array(S['A']) + 2 * np.diag(np.array(S['a']) * x)
    xm = np.array(S['A']) @ x + np.array(S['B']) @ np.array(c['u']) + np.array(S['c1']) + np.array(S['a']) * x * x
    Pm = A @ np.array(c['P']) @ A.T + np.array(c['Q'])
    ox, oP = np.array(outx), np.array(outP)
    sx = max(np.abs(xm).max(), np.abs(ox).max(), np.abs(ox - xm).max(), 1e-300)
    sP = max(np.abs(Pm).max(), np.abs(oP).max(), 1e-300)
    if not (math.isfinite(sx) and math.isfinite(sP)):
        sx, sP = 1.0, 1.0
    return float(sx), float(sP)


def reltol(c):
    """relative tolerance: REL, widened to 1000 eps cond(S) for ill-conditioned innovation covariances
    (measured on the unchanged tree: float error <= 14 eps cond(S) of the natural scale)"""
    np = np_()
    S = c['S']
    x = np.array(c['x'], dtype=float)
    A = np.array(S['A']) + 2 * np.diag(np.array(S['a']) * x)
    C = np.array(S['C'], dtype=float).copy()
    for i in range(min(C.shape)):
        C[i, i] += 2 * S['b'][i] * x[i]
    Pm = A @ np.array(c['P']) @ A.T + np.array(c['Q'])
    Sm = C @ Pm @ C.T + np.array(c['R'])
    try:
        cond = float(np.linalg.cond(Sm)) * max(1.0, float(np.linalg.cond(np.array(c['P']))) ** 0.5)
    except Exception:   # noqa
        cond = 1e16
    if not math.isfinite(cond):
        cond = 1e16
    return min(1e-2, max(REL, 1e3 * 2.2e-16 * cond))


def flat(a):
    return [t for row in a for t in (row if isinstance(row, (list, tuple)) else [row])]


def far(a, b, tol):
    """max |a_i - b_i| > tol over flattened lists (b may hold mpf)"""
    fa, fb = flat(a), flat(b)
    if len(fa) != len(fb):
        return True
    return any((not math.isfinite(float(p))) or abs(p - q) > tol for p, q in zip(fa, fb))


def fl(a):
    return [[float(t) for t in r] if isinstance(r, (list, tuple)) else float(r) for r in a]


def sym_psd_defect(P, scale, REL=REL):
    """None when P is symmetric and PSD up to REL*scale, else a description"""
    np = np_()
    M = np.array(P, dtype=float)
    if not np.all(np.isfinite(M)):
        return 'covariance not finite'
    if np.abs(M - M.T).max() > REL * scale:
        return 'covariance not symmetric: max |P - P^T| = %.3g (scale %.3g)' % (np.abs(M - M.T).max(), scale)
    w = np.linalg.eigvalsh((M + M.T) / 2)
    if w.min() < -REL * scale:
        return 'covariance not positive semidefinite: smallest eigenvalue %.6g (scale %.3g)' % (w.min(), scale)
    return None


def kval(c):
    k = c.get('k')
    return 3 - len(c['x']) if k is None else k


def kclass(k):
    if k is None:
        return 'None'
    if k == 0:
        return '0'
    if k < 0:
        return 'neg'
    return 'pos' if float(k).is_integer() else 'frac'


# ------------------------------------------------------------------------------------------------ the property, directly
def is_spd(M, rel=1e-9):
    np = np_()
    A = np.array(M, dtype=float)
    if not np.all(np.isfinite(A)) or np.abs(A - A.T).max() > 1e-6 * max(np.abs(A).max(), 1e-300):
        return False
    w = np.linalg.eigvalsh((A + A.T) / 2)
    return w.min() > rel * max(w.max(), 1e-300)


def judge_step(pp, torch, meta):
    """The clauses of C13 on one filter call of the implementation.  Returns [(key, what)].
    Inputs outside the property's quantifier (P, Q, R not SPD, k <= -n) are not judged."""
    c, filt, kind = meta['case'], meta['filter'], meta.get('syskind', 'nls')
    if not (is_spd(c['P']) and is_spd(c['Q']) and is_spd(c['R'])) or not kval(c) > -len(c['x']):
        return []
    try:
        ox, oP = impl_step(pp, torch, filt, c, kind)
    except Exception as e:      # noqa
        return [('%s.forward:raises' % filt.upper(), '%s.forward (system class %s) raised %s: %s' % (filt.upper(), kind, type(e).__name__, e))]
    sx, sP = scales(c, ox, oP)
    REL = reltol(c)
    lin = is_linear(c['S'])
    ref = 'Kalman filter' if lin else ('documented recursion' if filt == 'ekf' else 'unscented Kalman filter (columns of the factor, one sigma set for Pxy)')
    out = []
    if filt == 'ekf':
        kx, kP = oracle_kf(c)
        if far(oP, kP, REL * sP):
            out.append(('EKF.forward:covariance-differs-from-kalman-recursion',
                        'EKF covariance %r differs from (I-KC)(APA^T+Q) = %r' % (oP, fl(kP))))
        if far(ox, kx, REL * sx):
            vx, _ = oracle_kf(c, innov_at_prior=True)
            hint = ' (equals the recursion with the innovation y - h(x,u) taken at the pre-transition state: defect repaired by 8375f2f)' if not far(ox, vx, REL * sx) else ''
            out.append(('EKF.forward:mean-differs-from-kalman-filter', 'EKF mean %r; %s gives %r%s' % (ox, ref, fl(kx), hint)))
        d = sym_psd_defect(oP, sP, REL)
        if d:
            out.append(('EKF.forward:covariance-invalid', 'EKF: ' + d))
    else:
        try:
            kx, kP = oracle_kf(c) if lin else oracle_ukf(c)
        except Exception:       # noqa  (nonlinear system, negative centre weight: the predicted covariance may be indefinite -- no clause applies)
            kx = None
        if kx is not None and (far(ox, kx, REL * sx) or far(oP, kP, REL * sP)):
            hint = ''
            try:
                vx, vP = oracle_ukf(c, rows_of_factor=True, mixed_sets=True)
                if not far(ox, vx, REL * sx) and not far(oP, vP, REL * sP):
                    hint = ' (equals the filter with sigma points from ROWS of the lower Cholesky factor and Pxy pairing two sigma sets: defects repaired by 7981b02)'
            except Exception:   # noqa
                pass
            out.append(('UKF.forward:differs-from-kalman-filter', 'UKF (k=%r) returns mean %r covariance %r; %s: %r %r%s' % (kval(c), ox, oP, ref, fl(kx), fl(kP), hint)))
        d = sym_psd_defect(oP, sP, REL)
        if d and (kval(c) >= 0 or 'symmetric' in d or 'finite' in d):
            out.append(('UKF.forward:covariance-invalid', 'UKF (k=%r): %s' % (kval(c), d)))
    return out


def judge_sigma(pp, torch, c):
    """sigma_weight_points(x, P, k): weights sum to one, weighted mean x, weighted covariance P"""
    np = np_()
    T = lambda v: torch.tensor(v, dtype=torch.float64)
    ukf = pp.module.UKF(build_system(pp, torch, c['S'], 'nls'))
    n = len(c['x'])
    k = kval(c)
    p, w = ukf.sigma_weight_points(T(c['x']), T(c['P']), k)
    p, w = np.array(p.tolist()), np.array(w.tolist()).reshape(-1)
    P, x = np.array(c['P']), np.array(c['x'])
    out = []
    if p.shape != (2 * n + 1, n) or abs(w.sum() - 1) > 1e-9:
        out.append(('UKF.sigma_weight_points:shape-or-weights', 'sigma points %r weights %r' % (p.shape, w.tolist())))
        return out
    mean = (w[:, None] * p).sum(0)
    cov = ((p - x).T * w) @ (p - x)
    sc = max(np.abs(P).max(), 1e-300)
    if np.abs(mean - x).max() > REL * max(1.0, np.abs(x).max(), math.sqrt(sc)):
        out.append(('UKF.sigma_weight_points:mean', 'weighted mean of the sigma points %r differs from x %r' % (mean.tolist(), x.tolist())))
    if np.abs(cov - P).max() > REL * sc:
        L = np.linalg.cholesky((n + k) * P)
        hint = ' (equals L^T L/(n+k): rows of the lower factor were added instead of columns, defect repaired by 7981b02)' \
            if np.abs(cov - L.T @ L / (n + k)).max() <= REL * sc else ''
        out.append(('UKF.sigma_weight_points:covariance-differs-from-P',
                    'weighted covariance of the sigma points %r differs from P %r%s' % (cov.tolist(), P.tolist(), hint)))
    return out


def judge_lti(pp, torch, c):
    """EKF / UKF with pypose's own linear system class: must run and agree with the Kalman filter"""
    out = []
    for filt in ('ekf', 'ukf'):
        out += judge_step(pp, torch, dict(kind='step', filter=filt, syskind='lti', case=c))
    return out


# ------------------------------------------------------------------------------------------------ PF with recorded draws
PF_KEYS = ('eps', 'xp', 'logp', 'q', 'ye', 'r', 'x', 'P')


def pf_run(pp, torch, c, N, seed, kind='nls', warm=True):
    """PF.forward with every random draw and intermediate recorded (the code is called unchanged).  The judged call is
    the SECOND call on its filter object (after a call with other arguments, result discarded).  A record the call
    did not produce (a draw that was not taken, a helper that was not called) is simply absent from the result:
    use pf_missing to find out."""
    import torch.distributions.multivariate_normal as mvn
    T = lambda v: torch.tensor(v, dtype=torch.float64)
    model = build_system(pp, torch, c['S'], kind)
    pf = pp.module.PF(model, particles=N)
    if warm:
        try:
            pf(T(c['x']) + 0.5, T(c['y']) - 0.25, T(c['u']), T(c['P']) * 1.5, T(c['Q']) * 2.0, T(c['R']) * 3.0)
        except Exception:   # noqa  (only the judged call matters)
            pass
    rec = {}
    o_std, o_lp, o_rand = mvn._standard_normal, mvn.MultivariateNormal.log_prob, torch.rand
    o_gen, o_rel = pf.generate_particles, pf.relative_likelihood

    def std(*a, **k):
        r = o_std(*a, **k)
        rec.setdefault('eps', r.clone())
        return r

    def lp(self, value):
        r = o_lp(self, value)
        rec['logp'] = r.clone()
        return r

    def rand(*a, **k):
        r = o_rand(*a, **k)
        rec['r'] = r.clone()
        return r

    def gen(x, P):
        r = o_gen(x, P)
        rec['xp'] = r.clone()
        return r

    def rel(y, ye, R):
        r = o_rel(y, ye, R)
        rec['q'] = r.clone()
        rec['ye'] = ye.clone()
        return r
    torch.manual_seed(seed)
    mvn._standard_normal, mvn.MultivariateNormal.log_prob, torch.rand = std, lp, rand
    pf.generate_particles, pf.relative_likelihood = gen, rel
    try:
        x, P = pf(T(c['x']), T(c['y']), T(c['u']), T(c['P']), T(c['Q']), T(c['R']))
    finally:
        mvn._standard_normal, mvn.MultivariateNormal.log_prob, torch.rand = o_std, o_lp, o_rand
    rec['x'], rec['P'] = x, P
    return {k: v.tolist() for k, v in rec.items()}


def pf_missing(rec, c, N):
    """names of the records of pf_run that are absent or do not have the shape the documented algorithm gives them
    (N standard-normal rows for the prior, N particles, N log-likelihoods, N weights, N uniforms for the resampling)"""
    np = np_()
    n, m = len(c['x']), len(c['y'])
    want = dict(eps=(N, n), xp=(N, n), logp=(N,), q=(N,), ye=(N, m), r=(N,), x=(n,), P=(n, n))
    bad = []
    for k in PF_KEYS:
        try:
            a = np.array(rec[k], dtype=float)
            if a.shape != want[k] or not np.all(np.isfinite(a)):
                bad.append(k)
        except Exception:   # noqa
            bad.append(k)
    return bad


def bernstein(var1, bound, N, L=23.1):
    """deviation t with  P(|mean of N iid draws - expectation| > t) <= 2 exp(-L) = 2e-10  (Bernstein's inequality for
    draws of variance var1 with |X - EX| <= bound): no normal approximation, valid for every N and every weight pattern"""
    np = np_()
    a = 2.0 * bound * L / 3.0
    return (a + np.sqrt(a * a + 8.0 * N * var1 * L)) / (2.0 * N)


def pf_cond(c, rec, N):
    """The resampling clause conditionally on the particles.  The prior particles are rebuilt from the recorded standard
    normal draws (x + chol(nP) eps), propagated through f, weighted by the Gaussian likelihood of y (all in numpy, from
    the property text).  Given the particles, the documented estimate is the mean of N independent draws from them with
    the importance weights q, and the covariance Q + their sample covariance: so they lie within the Bernstein deviation
    (failure probability 2e-10 per entry) of  sum_i q_i xs_i  and  Q + sum_i q_i (xs_i - m)(xs_i - m)^T.
    Returns None when the particles cannot be rebuilt, else a dict."""
    np = np_()
    n = len(c['x'])
    S = c['S']
    bad = pf_missing(rec, c, N)
    if 'x' in bad or 'P' in bad:
        return None
    if 'eps' not in bad:
        xp = np.array(c['x']) + np.array(rec['eps']) @ np.linalg.cholesky(n * np.array(c['P'])).T
    elif 'xp' not in bad:
        xp = np.array(rec['xp'])
    else:
        return None

    def fq(Mx, Mu, cc, coef, d, X):
        sq = X * X
        pad = np.zeros((X.shape[0], d))
        pad[:, :min(d, X.shape[1])] = sq[:, :min(d, X.shape[1])]
        return X @ np.array(S[Mx]).T + np.array(S[Mu]) @ np.array(c['u']) + np.array(S[cc]) + np.array(S[coef]) * pad
    xs = fq('A', 'B', 'c1', 'a', n, xp)
    d = np.array(c['y']) - fq('C', 'D', 'c2', 'b', len(c['y']), xs)
    ll = -0.5 * np.einsum('ij,jk,ik->i', d, np.linalg.inv(np.array(c['R'])), d)
    q = np.exp(ll - ll.max())
    q = q / q.sum()
    m = q @ xs
    dv = xs - m
    var1 = q @ (dv * dv)
    sc = max(np.abs(xs).max(), 1e-300)
    tm = bernstein(var1, np.abs(dv).max(0), N) + REL * sc
    est, Pe = np.array(rec['x']), np.array(rec['P'])
    Cw = (dv.T * q) @ dv
    tP = np.zeros((n, n))
    for i in range(n):
        for j in range(n):
            pr = dv[:, i] * dv[:, j]
            tP[i, j] = bernstein(max(q @ (pr * pr) - Cw[i, j] ** 2, 0.0), np.abs(pr - Cw[i, j]).max(), N) + tm[i] * tm[j] + REL * sc * sc
    um = xs.mean(0)
    ud = xs - um
    return dict(est=est, wmean=m, tol_mean=tm, dev_mean=np.abs(est - m), se=np.sqrt(var1 / N), cov=Pe, wcov=np.array(c['Q']) + Cw, tol_cov=tP,
                dev_cov=np.abs(Pe - np.array(c['Q']) - Cw), neff=float(1.0 / (q * q).sum()), umean=um, ucov=np.array(c['Q']) + ud.T @ ud / N, scale=sc)


def judge_pf_cond(pp, torch, case, rec=None):
    """[(key, what)] of the conditional resampling clause on one PF call"""
    np = np_()
    c, N, seed = case['case'], case['N'], case['seed']
    if not (is_spd(c['P']) and is_spd(c['Q']) and is_spd(c['R'])):
        return []
    if rec is None:
        try:
            rec = pf_run(pp, torch, c, N, seed, case.get('syskind', 'nls'))
        except Exception as e:      # noqa
            return [('PF.forward:raises', 'PF.forward (system class %s, N=%d) raised %s: %s' % (case.get('syskind', 'nls'), N, type(e).__name__, e))]
    b = pf_cond(c, rec, N)
    if b is None:
        return []
    out = []
    head = 'PF (N=%d particles, effective sample size %.3g N, torch seed %d)' % (N, b['neff'] / N, seed)
    if np.any(b['dev_mean'] > b['tol_mean']):
        i = int(np.argmax(b['dev_mean'] / b['tol_mean']))
        hint = ' (it equals the UNWEIGHTED mean of the propagated particles: the importance weights / the resampling were not applied)' \
            if np.abs(b['est'] - b['umean']).max() <= REL * b['scale'] else ''
        out.append(('PF.forward:estimate-outside-resampling-band-of-importance-weighted-mean',
                    '%s returns mean %r; the importance-weighted mean of its own propagated particles is %r; component %d is %.1f resampling '
                    'standard errors away (allowed deviation %.3g, probability bound 2e-10)%s'
                    % (head, b['est'].tolist(), b['wmean'].tolist(), i, b['dev_mean'][i] / max(b['se'][i], 1e-300), b['tol_mean'][i], hint)))
    if np.any(b['dev_cov'] > b['tol_cov']):
        i, j = np.unravel_index(int(np.argmax(b['dev_cov'] / b['tol_cov'])), b['dev_cov'].shape)
        hint = ' (it equals Q + the UNWEIGHTED covariance of the propagated particles)' if np.abs(b['cov'] - b['ucov']).max() <= REL * b['scale'] ** 2 else ''
        out.append(('PF.forward:covariance-outside-resampling-band-of-Q+importance-weighted-covariance',
                    '%s returns covariance %r; Q + importance-weighted covariance of its own propagated particles is %r; entry (%d,%d) deviates by %.3g '
                    '(allowed %.3g, probability bound 2e-10)%s' % (head, b['cov'].tolist(), b['wcov'].tolist(), i, j, b['dev_cov'][i, j], b['tol_cov'][i, j], hint)))
    return out


def gen_pf_regime(rng, n, m, p, ratio, nonlinear=False, offset=1.0):
    """a PF case whose measurement noise is `ratio` times the spread C (A nP A^T) C^T of the predicted observation
    (ratio << 1: informative measurement, weights concentrate; ratio >> 1: weakly informative, nearly uniform weights);
    the measurement lies `offset` innovation standard deviations from the predicted observation"""
    np = np_()
    c = gen_case(rng, n, m, p, nonlinear=(0.05 if nonlinear else False), scales=[10.0 ** rng.uniform(-2, 0), 1.0, 10.0 ** rng.uniform(-1, 1)])
    S = c['S']
    x = np.array(c['x'])
    A = np.array(S['A']) + 2 * np.diag(np.array(S['a']) * x)
    C = np.array(S['C'], dtype=float).copy()
    xpred = np.array(S['A']) @ x + np.array(S['B']) @ np.array(c['u']) + np.array(S['c1']) + np.array(S['a']) * x * x
    for i in range(min(C.shape)):
        C[i, i] += 2 * S['b'][i] * xpred[i]
    Sy = C @ (n * A @ np.array(c['P']) @ A.T) @ C.T
    R = np.array(spd(rng, m, 1.0)) * ratio * max(np.trace(Sy) / m, 1e-12)
    c['R'] = ((R + R.T) / 2).tolist()
    sq = np.zeros(m)
    sq[:min(m, n)] = (xpred * xpred)[:min(m, n)]
    ypred = np.array(S['C']) @ xpred + np.array(S['D']) @ np.array(c['u']) + np.array(S['c2']) + np.array(S['b']) * sq
    z = np.array([rng.gauss(0, 1) for _ in range(m)])
    z = z / max(np.linalg.norm(z), 1e-12) * offset * math.sqrt(m)
    c['y'] = (ypred + np.linalg.cholesky(Sy + R + 1e-12 * np.eye(m)) @ z).tolist()
    return c


def pf_posterior_means(c):
    """closed-form posterior mean of the particle model for a LINEAR system:
    prior x0 ~ N(x, nP), x- = A x0 + B u + c1 (no process noise on the particles), weights from N(y; h(.), R).
    documented: h at the propagated particle x-;  as coded: h at the prior particle x0."""
    mp = mpm()
    sy = Sysmp(c['S'])
    n = sy.n
    x, u, y = sy.V(c['x']), sy.V(c['u']), sy.V(c['y'])
    A, C = sy.M['A'], sy.M['C']
    nP = n * mp.matrix(c['P'])
    R = mp.matrix(c['R'])
    mu = sy.f(x, u)
    Sg = A * nP * A.T
    K = Sg * C.T * mp.inverse(C * Sg * C.T + R)
    doc = mu + K * (y - sy.h(mu, u))
    K0 = nP * C.T * mp.inverse(C * nP * C.T + R)
    x0 = x + K0 * (y - sy.h(x, u))
    coded = sy.f(x0, u)
    return [float(t) for t in col(doc)], [float(t) for t in col(coded)]


def judge_pf_band(pp, torch, c, N, seed, rec=None):
    """Monte-Carlo band: the PF mean against the closed-form posterior mean (linear system).  sigma is the delta-method
    standard error of the self-normalised importance-sampling estimate plus the multinomial resampling error."""
    np = np_()
    rec = pf_run(pp, torch, c, N, seed) if rec is None else rec
    if any(k in pf_missing(rec, c, N) for k in ('q', 'xp', 'x')):
        return None
    doc, coded = pf_posterior_means(c)
    q = np.array(rec['q'])
    S = c['S']
    xs = np.array(rec['xp']) @ np.array(S['A']).T + np.array(S['B']) @ np.array(c['u']) + np.array(S['c1'])
    est = np.array(rec['x'])
    m = (q[:, None] * xs).sum(0)
    var = (q[:, None] ** 2 * (xs - m) ** 2).sum(0) + (q[:, None] * (xs - m) ** 2).sum(0) / N
    sig = np.sqrt(var)
    neff = 1.0 / (q ** 2).sum()
    zdoc = np.abs(est - np.array(doc)) / sig
    zcod = np.abs(est - np.array(coded)) / sig
    return dict(est=est.tolist(), documented=doc, coded=coded, sigma=sig.tolist(), z_documented=float(zdoc.max()),
                z_coded=float(zcod.max()), neff=float(neff), N=N, seed=seed)


# ------------------------------------------------------------------------------------------------ Coq literals
def qlit(x):            # noqa: F811  (replaces common.qlit in this module: primitive-integer literal, see Model/Filter.v)
    f = F(x)
    d = f.denominator
    assert d & (d - 1) == 0 and abs(f.numerator) < 2 ** 62, x
    return '(%s %d (%d))' % ('fn' if f.numerator < 0 else 'fp', abs(f.numerator), -(d.bit_length() - 1))


def qv(v):
    return coq_list(qlit(t) for t in v)


def qm(M):
    return coq_list(qv(r) for r in M)


def sys_lit(S):
    return '{| qA := %s; qB := %s; qC := %s; qD := %s; qc1 := %s; qc2 := %s; qa := %s; qb := %s |}' % (
        qm(S['A']), qm(S['B']), qm(S['C']), qm(S['D']), qv(S['c1']), qv(S['c2']), qv(S['a']), qv(S['b']))


def fcase_lit(i, c, outx, outP, tx, tP):
    return '(%d%%nat, %s, %s, %s, %s, %s, %s, %s, %s, %s, %s, %s, %s)' % (
        i, sys_lit(c['S']), qm(c['Q']), qm(c['R']), qv(c['x']), qv(c['y']), qv(c['u']), qm(c['P']), qlit(kval(c)),
        qv(outx), qm(outP), qlit(tx), qlit(tP))


HDR = ('From Coq Require Import List ZArith QArith Bool Uint63. Import ListNotations.\n'
       'From PV Require Import Base.Num Base.Mat Model.Filter.\n')


def shard(items, n):
    return [items[k:k + n] for k in range(0, len(items), n)]


def finite(*xs):
    return all(math.isfinite(float(t)) for x in xs for t in flat(x))


# ------------------------------------------------------------------------------------------------ the check
class Run:
    def __init__(self, ctx):
        self.ctx = ctx
        self.pp = import_pypose()
        import torch
        self.torch = torch
        self.lits = {'ekf': [], 'ukf': [], 'pfpart': [], 'pflik': [], 'pfest': [], 'ekforc': [], 'ukforc': []}
        self.runs = []          # (filter, header literal, [step literals])
        self.metas = []

    def report(self, findings, meta):
        for key, what in findings:
            self.ctx.count('VIOLATION:' + key)
            self.ctx.violation(key, what, dict(strip(meta), expect_key=key))

    # ---- one filter call: implementation, oracle, literal for Coq
    def step_case(self, filt, c, kind='nls', family='step', model=None, judge=True, run=None, obj=None):
        ctx = self.ctx
        meta = dict(kind='step', filter=filt, syskind=kind, case=c, family=family)
        try:
            ox, oP = impl_step(self.pp, self.torch, filt, c, kind, model, obj=obj)
        except Exception as e:      # noqa
            ctx.violation('%s.forward:raises' % filt.upper(), '%s.forward raised %s: %s' % (filt.upper(), type(e).__name__, e), meta)
            return None
        n = len(c['x'])
        lin = is_linear(c['S'])
        ctx.case((filt, kind, repr(c)), nontrivial=(n >= 2) or not lin,
                 branch='%s-%s-%s-n%d%s' % (filt, kind, 'lin' if lin else 'nonlin', n, '' if filt == 'ekf' else '-k:' + kclass(c.get('k'))),
                 sample=dict(filter=filt, system=kind, n=n, m=len(c['y']), x=c['x'], P=c['P'], out_x=ox, out_P=oP) if n == 2 and family == 'step' else None)
        if family != 'run' and (c['S'].get('none') or kind in ('lti', 'ltv')):
            ctx.count('%s-%s-constants-absent:%s' % (filt, kind, '+'.join(c['S'].get('none', ())) or 'none'))
        if not finite(ox, oP):
            ctx.violation('%s.forward:non-finite-result' % filt.upper(), 'result %r %r' % (ox, oP), meta)
            return None
        sx, sP = scales(c, ox, oP)
        rel = reltol(c)
        if rel > REL:
            ctx.count('tolerance-widened-ill-conditioned')
        i = len(self.metas)
        self.metas.append(meta)
        if run is None:
            self.lits[filt].append(fcase_lit(i, c, ox, oP, rel * sx, rel * sP))
        else:
            run.append('(%d%%nat, %s, %s, %s, %s, %s, %s, %s, %s)' % (i, qv(c['x']), qv(c['y']), qv(c['u']), qm(c['P']), qv(ox), qm(oP),
                                                                     qlit(rel * sx), qlit(rel * sP)))
        if judge:
            self.report(judge_step(self.pp, self.torch, meta), meta)
        # oracle consistency: the documented EKF / the repaired UKF of the Coq model against the mpmath oracle
        # (this ties the oracle used above to the Coq specification; the implementation is not involved)
        fam2 = 'ekforc' if filt == 'ekf' else 'ukforc'
        if family != 'run' and len(self.lits[fam2]) < 40 and is_spd(c['P']):
            try:
                kx, kP = oracle_kf(c) if filt == 'ekf' else oracle_ukf(c)
                kx, kP = [float(t) for t in kx], [[float(t) for t in r] for r in kP]
                s2x, s2P = scales(c, kx, kP)
                self.lits[fam2].append(fcase_lit(i, c, kx, kP, rel * s2x, rel * s2P))
            except Exception:   # noqa  (negative weights can make the oracle's predicted covariance indefinite)
                pass
        return ox, oP

    # ---- a run: the user's loop around forward
    def run_case(self, filt, rng, n, m, p, T, nonlinear=False, kind='nls', k=None, none=(), zero=()):
        """the user's loop  x, P = filter(x, y_t, u_t, P, Q, R)  around a simulated stable system (measurement taken
        after the transition, as the property states)"""
        np = np_()
        c0 = gen_case(rng, n, m, p, nonlinear=nonlinear, k=k)
        S = c0['S'] = with_constants(c0['S'], none, zero)
        rho = max(abs(np.linalg.eigvals(np.array(S['A']))))
        if rho > 0.9:
            S['A'] = (np.array(S['A']) * (0.9 / rho)).tolist()
        model = build_system(self.pp, self.torch, S, kind)
        fobj = (self.pp.module.EKF if filt == 'ekf' else self.pp.module.UKF)(model)     # ONE object for the whole run
        x, P = c0['x'], c0['P']
        steps = []
        self.runs.append((filt, '%s %s %s %s' % (sys_lit(S), qm(c0['Q']), qm(c0['R']), qlit(kval(c0))), steps))
        LQ, LR = np.linalg.cholesky(np.array(c0['Q'])), np.linalg.cholesky(np.array(c0['R']))
        xt = np.array(x) + np.linalg.cholesky(np.array(P)) @ np.array([rng.gauss(0, 1) for _ in range(n)])

        def fq(Mx, Mu, cc, coef, d, xv, u):
            sq = np.zeros(d)
            sq[:min(d, n)] = (xv * xv)[:min(d, n)]
            return np.array(S[Mx]) @ xv + np.array(S[Mu]) @ u + np.array(S[cc]) + np.array(S[coef]) * sq
        for t in range(T):
            u = np.array([rng.gauss(0, 1) for _ in range(p)])
            xt = fq('A', 'B', 'c1', 'a', n, xt, u) + LQ @ np.array([rng.gauss(0, 1) for _ in range(n)])
            yt = fq('C', 'D', 'c2', 'b', m, xt, u) + LR @ np.array([rng.gauss(0, 1) for _ in range(m)])
            if not np.all(np.abs(xt) < 1e5):
                self.ctx.count('run-stopped-simulated-state-diverged')
                break
            c = dict(c0, x=x, P=P, u=u.tolist(), y=yt.tolist())
            r = self.step_case(filt, c, kind, family='run', model=model, judge=(t % 5 == 4 or t < 2), run=steps, obj=fobj)
            if r is None:
                break
            x, P = r
            if not is_spd(P) or max(abs(t) for t in x) > 100.0 * (1.0 + float(np.abs(xt).max())):
                # the state left the property's quantifier (possible for the UKF with a negative centre weight)
                self.ctx.count('run-stopped-covariance-not-spd-or-estimate-diverged-' + filt)
                break
            self.ctx.count('run-steps-' + filt)
        self.ctx.count('run-%s-constants-absent:%s' % (kind, '+'.join(S.get('none', ())) or 'none'))
        self.ctx.traces += 1

    # ---- PF
    def pf_case(self, c, N, seed, kind='nls'):
        ctx, np = self.ctx, np_()
        meta = dict(kind='pf', case=c, N=N, seed=seed, syskind=kind)
        try:
            rec = pf_run(self.pp, self.torch, c, N, seed, kind)
        except Exception as e:  # noqa
            ctx.violation('PF.forward:raises', 'PF.forward raised %s: %s' % (type(e).__name__, e), meta)
            return
        n = len(c['x'])
        ctx.case(('pf', N, seed, repr(c)), nontrivial=True, branch='pf-%s-n%d-N%d' % ('lin' if is_linear(c['S']) else 'nonlin', n, N))
        # the resampling clause given the particles (rigorous band, every N)
        self.report(judge_pf_cond(self.pp, self.torch, meta, rec), dict(meta, kind='pfcond'))
        bad = [k for k in pf_missing(rec, c, N) if k != 'ye']
        if bad:
            # a draw / intermediate of the documented algorithm was not produced on this input: the call cannot be tied
            # to the model; the search at the end looks for a failing input at and around this one
            ctx.count('pf-records-missing:' + ','.join(bad))
            ctx.mismatch('pf-records-missing', strip(meta), 'not recorded in this call: ' + ', '.join(bad))
            return
        i = len(self.metas)
        self.metas.append(meta)
        sxp = max(np.abs(np.array(rec['xp'])).max(), 1e-300)
        self.lits['pfpart'].append('(%d%%nat, %s, %s, %s, %s, %s)' % (i, qv(c['x']), qm(c['P']), qm(rec['eps']), qm(rec['xp']), qlit(REL * sxp)))
        lp = rec['logp']
        sl = max(1.0, max(abs(t - lp[0]) for t in lp))
        self.lits['pflik'].append('(%d%%nat, %s, %s, %s, %s, %s, %s, %s)' % (i, sys_lit(c['S']), qm(c['R']), qv(c['y']), qv(c['u']), qm(rec['xp']), qv(lp), qlit(REL * sl)))
        S = c['S']
        xs = np.array(rec['xp'])
        xs = xs @ np.array(S['A']).T + np.array(S['B']) @ np.array(c['u']) + np.array(S['c1']) + np.array(S['a']) * xs * xs
        se = max(np.abs(xs).max() ** 2, np.abs(np.array(rec['P'])).max(), np.abs(xs).max(), 1e-300)
        self.lits['pfest'].append('(%d%%nat, %s, %s, %s, %s, %s, %s, %s, %s, %s)' % (
            i, sys_lit(c['S']), qm(c['Q']), qv(c['u']), qm(rec['xp']), qv(rec['q']), qv(rec['r']), qv(rec['x']), qm(rec['P']), qlit(REL * se)))
        meta['rec'] = {k: rec[k] for k in ('q', 'logp', 'x', 'P')}
        # softmax and covariance validity, directly
        mp = mpm()
        mx = max(lp)
        e = [mp.exp(mp.mpf(t) - mx) for t in lp]
        s = sum(e)
        if any(abs(float(a / s) - b) > 1e-9 for a, b in zip(e, rec['q'])):
            ctx.violation('PF.relative_likelihood:not-softmax-of-log-likelihood', 'weights %r for log-likelihoods %r' % (rec['q'], lp), meta)
        d = sym_psd_defect(rec['P'], max(np.abs(np.array(rec['P'])).max(), 1e-300))
        if d:
            ctx.violation('PF.forward:covariance-invalid', 'PF: ' + d, meta)

    # ---- Coq
    def run_coq(self):
        ctx = self.ctx
        files = []
        for fam, fn, per in (('ekf', 'ekf_bad', 60), ('ukf', 'ukf_bad', 40), ('pfpart', 'pf_part_bad', 40), ('pflik', 'pf_lik_bad', 40),
                             ('pfest', 'pf_est_codes', 40), ('ekforc', 'ekf_bad', 40), ('ukforc', 'ukf_bad', 40)):
            for si, sh in enumerate(shard(self.lits[fam], per)):
                files.append(('%s_%03d' % (fam, si), HDR + 'Eval vm_compute in %s %s.\n' % (fn, coq_list(sh))))
        for ri, (filt, head, steps) in enumerate(self.runs):
            if steps:
                files.append(('run_%03d' % ri, HDR + 'Eval vm_compute in run_bad %s %s %s.\n' % ('true' if filt == 'ukf' else 'false', head, coq_list(steps))))
        res = run_case_files('C13', files, timeout=170)
        for name, (rc, out) in sorted(res.items()):
            ev = parse_evals(out)
            if rc != 0 or len(ev) != 1:
                ctx.obligation_broken('correspondence-file:' + name, out[-1500:])
                continue
            fam = name.split('_')[0]
            if fam == 'pfest':
                pairs = re.findall(r'\(\s*(\d+)(?:%nat)?\s*,\s*(\d+)(?:%nat)?\s*\)', ev[0])
                if len(pairs) != ev[0].count(','):       # every pair has exactly one comma: nothing may be skipped
                    ctx.obligation_broken('correspondence-file:' + name, 'unparsed result: ' + ev[0][:500])
                for a, b in pairs:
                    i, code = int(a), int(b)
                    ctx.count('pf-estimate-' + {0: 'agrees', 1: 'DISAGREES', 2: 'undecided(uniform at a boundary)'}[code])
                    if code == 1:
                        ctx.mismatch('pf-estimate', strip(self.metas[i]))
                continue
            if fam in ('ekforc', 'ukforc'):
                ctx.count('oracle-consistency-' + fam, len(self.lits[fam]) if name.endswith('_000') else 0)
                for i in parse_nat_list(ev[0]):
                    ctx.obligation_broken('oracle-consistency:' + fam, 'the mpmath oracle and the %s of Model/Filter.v disagree on %r'
                                          % ('EKF' if fam == 'ekforc' else 'UKF', strip(self.metas[i])))
                continue
            for i in parse_nat_list(ev[0]):
                fam2 = {'ekf': 'ekf-step', 'ukf': 'ukf-step', 'pfpart': 'pf-particles', 'pflik': 'pf-loglik'}.get(fam)
                fam2 = fam2 or ('%s-step' % self.metas[i]['filter'])
                ctx.mismatch(fam2, strip(self.metas[i]))


def strip(meta):
    return {k: v for k, v in meta.items() if k != 'rec'}


# ------------------------------------------------------------------------------------------------ witnesses of Props/C13.v
W_EKF = dict(S=dict(A=[[1.0, 1.0], [0.0, 1.0]], B=[[0.0], [1.0]], C=[[1.0, 0.0]], D=[[0.0]], c1=[0.0, 0.0], c2=[0.0], a=[0.0, 0.0], b=[0.0]),
             Q=[[1.0, 0.5], [0.5, 1.0]], R=[[1.0]], P=[[2.0, 1.0], [1.0, 2.0]], x=[1.0, 1.0], u=[0.0], y=[0.0], k=None)
W_UKF1 = dict(S=dict(A=[[1.0]], B=[[0.0]], C=[[1.0]], D=[[0.0]], c1=[0.0], c2=[0.0], a=[0.0], b=[0.0]),
              Q=[[3.0]], R=[[1.0]], P=[[1.0]], x=[0.0], u=[0.0], y=[1.0], k=3)
W_UKF2 = dict(S=dict(A=[[1.0, 0.0], [0.0, 1.0]], B=[[0.0], [0.0]], C=[[1.0, 0.0], [0.0, 1.0]], D=[[0.0], [0.0]], c1=[0.0, 0.0], c2=[0.0, 0.0],
                     a=[0.0, 0.0], b=[0.0, 0.0]),
              Q=[[1.0, 0.5], [0.5, 1.0]], R=[[1.0, 0.0], [0.0, 1.0]], P=[[1.0, 0.5], [0.5, 0.5]], x=[0.0, 0.0], u=[0.0], y=[1.0, -1.0], k=2)
W_PF = dict(S=dict(A=[[1.0, 1.0], [0.0, 1.0]], B=[[0.0], [1.0]], C=[[1.0, 0.0]], D=[[0.0]], c1=[0.0, 0.0], c2=[0.0], a=[0.0, 0.0], b=[0.0]),
            Q=[[1.0, 0.5], [0.5, 1.0]], R=[[1.0]], P=[[2.0, 1.0], [1.0, 2.0]], x=[1.0, 1.0], u=[0.0], y=[0.0], k=None)


def witnesses(R):
    """directed regression cases: the inputs on which the code failed before the repairs (Props/C13.v, `_old` theorems).
    The Kalman filter values are (1/4, 1/8) for W_EKF and (4/5, [[4/5]]) for W_UKF1 (kernel-checked there)."""
    ctx, pp, torch = R.ctx, R.pp, R.torch
    for kind in ('nls', 'sys', 'lti'):
        r = R.step_case('ekf', W_EKF, kind, family='witness')
        if r is not None and far(r[0], [1 / 4, 1 / 8], 1e-12):
            ctx.violation('EKF.forward:mean-differs-from-kalman-filter', 'witness of C13_ekf_old_linear_witness: got %r, Kalman filter (1/4, 1/8)' % (r[0],),
                          dict(kind='step', filter='ekf', syskind=kind, case=W_EKF, expect_key='EKF.forward:mean-differs-from-kalman-filter'))
        r = R.step_case('ukf', W_UKF1, kind, family='witness')
        if r is not None and (far(r[0], [4 / 5], 1e-12) or far(r[1], [[4 / 5]], 1e-12)):
            ctx.violation('UKF.forward:differs-from-kalman-filter', 'witness of C13_ukf_old_linear_witness: got %r, Kalman filter (4/5, [[4/5]])' % (r,),
                          dict(kind='step', filter='ukf', syskind=kind, case=W_UKF1, expect_key='UKF.forward:differs-from-kalman-filter'))
        R.step_case('ukf', W_UKF2, kind, family='witness')
    meta = dict(kind='sigma', case=W_UKF2)
    ctx.case(('sigma', repr(W_UKF2)), branch='sigma-points-nondiag')
    R.report(judge_sigma(pp, torch, W_UKF2), meta)
    # PF: posterior mean of the documented particle model, 200000 particles, fixed seed
    meta = dict(kind='pfband', case=W_PF, N=200000, seed=12345)
    ctx.case(('pfband', 'witness'), branch='pf-band')
    R.report(judge_pf(pp, torch, meta), meta)


def judge_pf(pp, torch, meta, rec=None):
    """band + conditional clause of one PF call; a call that raises on inputs inside the quantifier is a finding with that input"""
    if rec is None:
        try:
            rec = pf_run(pp, torch, meta['case'], meta['N'], meta['seed'], meta.get('syskind', 'nls'))
        except Exception as e:      # noqa
            c = meta['case']
            if not (is_spd(c['P']) and is_spd(c['Q']) and is_spd(c['R'])):
                return []
            return [('PF.forward:raises', 'PF.forward (system class %s, N=%d) raised %s: %s' % (meta.get('syskind', 'nls'), meta['N'], type(e).__name__, e))]
    return judge_pf_rec(pp, torch, meta, rec)


def judge_pf_rec(pp, torch, meta, rec):
    out = judge_pf_cond(pp, torch, meta, rec)      # given the particles: resampled mean / covariance against the weighted ones
    b = judge_pf_band(pp, torch, meta['case'], meta['N'], meta['seed'], rec)
    if b is None or b['neff'] < 50:        # weights collapsed onto a few particles: the standard error estimate is not reliable
        return out
    if b['z_documented'] > 6:
        hint = ' (within %.1f sigma of the model with the likelihood evaluated at the pre-transition particles %r: defect repaired by b057b94)' \
            % (b['z_coded'], b['coded']) if b['z_coded'] <= 6 else ''
        out.append(('PF.forward:mean-outside-6-sigma-of-documented-particle-model',
                    'PF mean %r (N=%d, N_eff=%.0f) is %.1f sigma from the posterior mean %r of the documented particle model%s'
                    % (b['est'], b['N'], b['neff'], b['z_documented'], b['documented'], hint)))
    return out


def near_predicted(c, rng, sd=None):
    """the case with its measurement near the predicted observation (keeps the PF weights from collapsing)"""
    np = np_()
    S = c['S']
    xpred = np.array(S['A']) @ np.array(c['x']) + np.array(S['B']) @ np.array(c['u']) + np.array(S['c1'])
    ypred = np.array(S['C']) @ xpred + np.array(S['D']) @ np.array(c['u']) + np.array(S['c2'])
    c['y'] = [float(v + rng.gauss(0, 1) * (math.sqrt(max(c['R'][i][i], 1e-12)) if sd is None else sd)) for i, v in enumerate(ypred)]
    return c


def optional_constants(R):
    """directed block: every subset of the optional constants (c1, c2) absent x (B, D zero or not) -- an absent constant is the
    zero vector of the property's system.  pypose's own linear classes (LTI; LTV with constant matrices; constants not passed or
    passed as None) and the user's own classes (term not written), EKF / UKF against the Kalman filter, PF against its
    documented particle model (recorded draws + band)."""
    ctx, rng, pp, torch = R.ctx, R.ctx.rng, R.pp, R.torch
    ci = 0
    for none in CONSTANT_SUBSETS:
        for zero in ((), ('B',), ('D',), ('B', 'D')):
            ci += 1
            n, m, p = ci % 6 + 1, (5 * ci) % 6 + 1, ci % 3 + 1
            for filt in ('ekf', 'ukf'):
                c = gen_case(rng, n, m, p, k=None if filt == 'ekf' else rng.choice([None, 0, 1, 0.5]))
                c['S'] = with_constants(c['S'], none, zero)
                R.step_case(filt, c, 'lti', family='directed')
            c = gen_case(rng, m, n, p, k=None if ci % 2 else rng.choice([None, 2, 2.75]))
            c['S'] = with_constants(c['S'], none, zero)
            R.step_case('ukf' if ci % 2 == 0 else 'ekf', c, ('ltv', 'nls', 'sys', 'ltv', 'ltv')[ci % 5], family='directed')
        # PF on the same class of systems: few particles with every draw recorded (model tie + likelihood clause), and the band
        for j, kind in enumerate(('lti', 'ltv')):
            n, m = rng.randint(1, 3), rng.randint(1, 3)
            c = gen_case(rng, n, m, 1, scales=[10.0 ** rng.uniform(-1, 1) for _ in range(3)])
            c['S'] = with_constants(c['S'], none, [(), ('B',), ('D',)][(ci // 4 + j) % 3])
            R.pf_case(near_predicted(c, rng), rng.choice([5, 8, 12]), rng.randint(0, 10 ** 6), kind=kind)
        c = gen_case(rng, rng.randint(1, 3), rng.randint(1, 2), 1, scales=[1.0, 10.0 ** rng.uniform(-0.5, 0.5), 10.0 ** rng.uniform(-0.5, 0.5)])
        c['S'] = with_constants(c['S'], none)
        meta = dict(kind='pfband', case=near_predicted(c, rng, 1.0), N=20000, seed=rng.randint(0, 10 ** 6), syskind='lti')
        ctx.case(('pfband', repr(c)), branch='pf-band')
        ctx.count('pf-band-lti-constants-absent:' + ('+'.join(none) or 'none'))
        R.report(judge_pf(pp, torch, meta), meta)


# ------------------------------------------------------------------------------------------------ run
def run(ctx):
    ctx.rule = RULE
    R = Run(ctx)
    rng = ctx.rng
    pp, torch = R.pp, R.torch
    witnesses(R)
    # ---- directed single steps: every state dimension, the three system classes, k classes, extreme scales
    for n in range(1, 7):
        m, p = (n % 3) + 1, (n % 2) + 1
        for filt in ('ekf', 'ukf'):
            R.step_case(filt, gen_case(rng, n, m, p, k=None), 'nls', family='directed')
            R.step_case(filt, gen_case(rng, n, 7 - n if n < 6 else 6, p, k=0 if filt == 'ukf' else None), 'sys', family='directed')
            R.step_case(filt, gen_case(rng, n, m, p, nonlinear=True, k=rng.choice([1, 2.5])), 'nls', family='directed')
            R.step_case(filt, gen_case(rng, n, (n % 4) + 1, p, k=rng.choice([None, 0.5]) if filt == 'ukf' else None), 'lti', family='directed')
    for sc in ([1e-3, 1e3, 1.0], [1e3, 1e-3, 1e3], [1e-3, 1e-3, 1e3], [1e3, 1e3, 1e-3], [1e-3, 1e-3, 1e-3], [1e3, 1e3, 1e3]):
        for filt in ('ekf', 'ukf'):
            R.step_case(filt, gen_case(rng, 3, 2, 1, scales=sc, k=rng.choice([None, 1])), 'nls', family='directed')
    for k in (None, 0, 1, 3, 0.5, 2.75, -0.5, -1.5):
        R.step_case('ukf', gen_case(rng, 3, 2, 2, k=k), 'nls', family='directed')
    optional_constants(R)
    # sigma points reproduce (x, P), diagonal or not
    for n in (1, 2, 4):
        for diag in (True, False):
            c = gen_case(rng, n, 1, 1, k=rng.choice([None, 1, 0.5]), diagonal=diag)
            ctx.case(('sigma', repr(c)), branch='sigma-points-' + ('diag' if diag or n == 1 else 'nondiag'))
            R.report(judge_sigma(pp, torch, c), dict(kind='sigma', case=c))
    # ---- random single steps
    for t in range(ctx.scale(160, 1500)):
        filt = 'ekf' if t % 2 == 0 else 'ukf'
        n, m, p = rng.randint(1, 6), rng.randint(1, 6), rng.randint(1, 4)
        nonlin = rng.random() < 0.3
        k = rng.choice([None, None, 0, 1, 2, 3, 0.5, 2.75, -0.5 if n >= 1 else 0, -0.25 * n])
        kind = rng.choice(['sys', 'lti', 'nls', 'nls']) if not nonlin else 'nls'
        c = gen_case(rng, n, m, p, nonlinear=nonlin, k=k if filt == 'ukf' else None, diagonal=rng.random() < 0.1)
        if rng.random() < (0.6 if kind == 'lti' else 0.15):
            # optional constants absent / no control input / no feed-through
            c['S'] = with_constants(c['S'], rng.choice(CONSTANT_SUBSETS), rng.choice([(), (), ('B',), ('D',), ('B', 'D')]))
        R.step_case(filt, c, kind)
    # ---- runs
    plan = [(6, 4, 2, 50), (2, 2, 1, 50), (3, 5, 1, 30), (1, 1, 1, 50), (4, 2, 2, 50), (5, 6, 3, 20)] if not ctx.thorough else \
        [(rng.randint(1, 6), rng.randint(1, 6), rng.randint(1, 3), rng.choice([50, 50, 20, 35])) for _ in range(30)]
    for (n, m, p, T) in plan:
        for filt in ('ekf', 'ukf'):
            R.run_case(filt, rng, n, m, p, T, nonlinear=(0.01 if n == 3 else False), kind=('nls' if n == 3 else rng.choice(['nls', 'lti', 'sys'])),
                       k=None if filt == 'ekf' else rng.choice([None, 1, 0.5]), none=rng.choice(CONSTANT_SUBSETS), zero=rng.choice([(), (), ('B',), ('D',)]))
    # a run on pypose's own LTI with exactly one of the optional constants (the user's loop, one filter object)
    R.run_case('ekf', rng, 3, 2, 1, 8, kind='lti', none=('c1',))
    R.run_case('ukf', rng, 2, 3, 2, 8, kind='lti', k=rng.choice([None, 1]), none=('c2',))
    # ---- PF: recorded draws against the model
    for t in range(ctx.scale(40, 300)):
        n, m, p = rng.randint(1, 3), rng.randint(1, 3), rng.randint(1, 2)
        far = (t % 5 == 4)
        if far:
            # a state far from the origin compared with its spread (world coordinates): |x| / sigma up to 1e9
            c = gen_case(rng, n, m, p, nonlinear=False, scales=[10.0 ** rng.uniform(-8, -4), 10.0 ** rng.uniform(-6, -2), 10.0 ** rng.uniform(-8, -4)])
            off = 10.0 ** rng.uniform(3, 6.6)
            c['x'] = [float(v + off * rng.choice([1, -1])) for v in c['x']]
            ctx.count('pf-far-from-origin')
        else:
            c = gen_case(rng, n, m, p, nonlinear=(t % 3 == 2), scales=[10.0 ** rng.uniform(-2, 2) for _ in range(3)])
        if t % 4 == 0:
            c['S'] = with_constants(c['S'], rng.choice(CONSTANT_SUBSETS), rng.choice([(), (), ('B',), ('D',)]))
        # measurements near the predicted observation keep the weights from collapsing onto one particle
        np = np_()
        S = c['S']
        xpred = np.array(S['A']) @ np.array(c['x']) + np.array(S['B']) @ np.array(c['u']) + np.array(S['c1'])
        ypred = np.array(S['C']) @ xpred + np.array(S['D']) @ np.array(c['u']) + np.array(S['c2'])
        c['y'] = [float(v + rng.gauss(0, 1) * math.sqrt(max(c['R'][i][i], 1e-12))) for i, v in enumerate(ypred)]
        R.pf_case(c, rng.choice([5, 8, 12]) if far else rng.choice([1, 2, 5, 8, 12]), rng.randint(0, 10 ** 6), kind='nls' if t % 4 else (rng.choice(['sys', 'lti']) if is_linear(S) else 'nls'))
    # ---- PF: outlier measurements (40 .. 300 innovation standard deviations from the predicted observation: every Gaussian
    # likelihood underflows in float64, the weights exist only in log space): recorded draws, softmax, resampling clause
    for t, ofs in enumerate((40.0, 60.0, 120.0, 300.0)):
        n = t % 3 + 1
        c = gen_pf_regime(rng, n, rng.randint(1, 3), rng.randint(1, 2), 10.0 ** rng.uniform(-0.5, 0.5), nonlinear=(t == 2), offset=ofs)
        R.pf_case(c, rng.choice([2, 5, 12]), rng.randint(0, 10 ** 6), kind='nls' if t % 2 else 'lti' if is_linear(c['S']) else 'nls')
        meta = dict(kind='pfcond', case=c, N=2000, seed=rng.randint(0, 10 ** 6), syskind='nls')
        ctx.case(('pfoutlier', repr(c)), branch='pf-outlier-measurement')
        R.report(judge_pf_cond(pp, torch, meta), meta)
    # ---- PF: Monte-Carlo band on random linear systems against the documented particle model
    for t in range(ctx.scale(20, 100)):
        n, m = rng.randint(1, 3), rng.randint(1, 2)
        c = gen_case(rng, n, m, 1, scales=[1.0, 10.0 ** rng.uniform(-0.5, 0.5), 10.0 ** rng.uniform(-0.5, 0.5)])
        np = np_()
        S = c['S']
        xpred = np.array(S['A']) @ np.array(c['x']) + np.array(S['B']) @ np.array(c['u']) + np.array(S['c1'])
        ypred = np.array(S['C']) @ xpred + np.array(S['D']) @ np.array(c['u']) + np.array(S['c2'])
        c['y'] = [float(v + rng.gauss(0, 1)) for v in ypred]
        meta = dict(kind='pfband', case=c, N=rng.choice([1000, 20000, 200000] + ([1000000] if ctx.thorough and t % 10 == 0 else [])), seed=rng.randint(0, 10 ** 6))
        ctx.case(('pfband', repr(c)), branch='pf-band')
        R.report(judge_pf(pp, torch, meta), meta)
    # ---- PF: regimes of the measurement information (noise / spread of the predicted observation from 1e-2 to 1e3: effective
    # sample size from a few particles to ~N), every state dimension, linear and nonlinear: resampling clause given the particles,
    # and on linear systems the 6-sigma band around the closed-form posterior mean
    for t in range(ctx.scale(36, 240)):
        n = t % 6 + 1
        m, p = rng.randint(1, 6 if n > 3 else 3), rng.randint(1, 3)
        ratio = 10.0 ** (-2.0 + 5.0 * ((t // 6) % 6 + rng.random()) / 6.0)
        c = gen_pf_regime(rng, n, m, p, ratio, nonlinear=(t % 4 == 3), offset=rng.choice([0.5, 1.0, 1.5]))
        N = [1000, 20000, 200000][(t // 2) % 3] if not (ctx.thorough and t % 40 == 0) else 1000000
        meta = dict(kind='pfband' if is_linear(c['S']) else 'pfcond', case=c, N=N, seed=rng.randint(0, 10 ** 6), syskind='nls')
        try:
            rec = pf_run(pp, torch, c, N, meta['seed'])
            b = pf_cond(c, rec, N)
        except Exception as e:  # noqa
            ctx.violation('PF.forward:raises', 'PF.forward raised %s: %s' % (type(e).__name__, e), meta)
            continue
        ess = (b['neff'] / N) if b else float('nan')
        ctx.case(('pfregime', N, repr(c)), branch='pf-regime-ess:%s-%s' % ('unknown' if b is None else 'above-N/2' if ess > 0.5 else 'N/10..N/2' if ess > 0.1 else 'below-N/10',
                                                                           'lin' if is_linear(c['S']) else 'nonlin'))
        R.report(judge_pf(pp, torch, meta, rec) if meta['kind'] == 'pfband' else judge_pf_cond(pp, torch, meta, rec), meta)
    # ---- Coq
    R.run_coq()
    ctx.notes.append('model evaluated by vm_compute in 320-bit binary fixed point (Bignums BigZ); tolerance %g of the natural scale' % REL)
    ctx.assumptions += ['torch.linalg.pinv is the inverse on SPD input (pinv_ok)', 'msqrt returns a factor L with L L^T = M (factor_ok; torch.linalg.cholesky: cholesky_ok)',
                        'time argument t of the system callbacks not modelled']
    # ---- search: the property directly on the mismatching inputs
    budget = 12
    for mm in ctx.mismatches[:40]:
        why = replay(ctx, mm['case'], new_only=True)
        if why:
            mm['explained'] = True
            ctx.violation(why[0], why[1], dict(mm['case'], expect_key=why[0]))
        elif mm['case'].get('kind') == 'pf' and budget > 0:
            # the same filter inputs with more particles (the resampling band shrinks like 1/sqrt(N))
            budget -= 1
            for N2 in (2000, 50000, 400000):
                cs = dict(kind='pfcond', case=mm['case']['case'], N=N2, seed=mm['case']['seed'], syskind=mm['case'].get('syskind', 'nls'))
                why = replay(ctx, cs, new_only=True)
                if why:
                    mm['explained'] = True
                    ctx.violation(why[0], why[1], dict(cs, expect_key=why[0]))
                    break


def replay(ctx, case, new_only=False):
    """re-run one case against the property's oracle.  Returns a description (still failing) or None.
    new_only (search after a model/implementation mismatch): the first failing clause as (key, what)."""
    pp = import_pypose()
    import torch
    kind = case.get('kind')
    if kind == 'step':
        res = judge_step(pp, torch, case)
    elif kind == 'sigma':
        res = judge_sigma(pp, torch, case['case'])
    elif kind == 'lti':
        res = judge_lti(pp, torch, case['case'])
    elif kind == 'pfband':
        res = judge_pf(pp, torch, case)
    elif kind == 'pf':
        res = judge_pf_parts(pp, torch, case)
    elif kind == 'pfcond':
        res = judge_pf_cond(pp, torch, case)
    else:
        res = []
    if new_only:
        return res[0] if res else None
    if case.get('expect_key'):          # a replay file names the clause that failed: only that one counts
        res = [r for r in res if r[0] == case['expect_key']]
    return '; '.join('%s: %s' % r for r in res) if res else None


def judge_pf_parts(pp, torch, case):
    """deterministic parts of PF.forward with the draws recorded, against numpy formulas written from the
    property text (prior N(x, nP); Gaussian likelihood; cumulative-sum resampling; mean and covariance)"""
    np = np_()
    c, N, seed = case['case'], case['N'], case['seed']
    try:
        rec = pf_run(pp, torch, c, N, seed, case.get('syskind', 'nls'))
    except Exception as e:      # noqa
        return [('PF.forward:raises', 'PF.forward (system class %s, N=%d) raised %s: %s' % (case.get('syskind', 'nls'), N, type(e).__name__, e))]
    out = judge_pf_cond(pp, torch, case, rec)
    bad = pf_missing(rec, c, N)
    if any(k in bad for k in ('xp', 'eps', 'logp', 'x', 'P')):
        return out
    n = len(c['x'])
    S = c['S']
    xp, eps = np.array(rec['xp']), np.array(rec['eps'])
    L = np.linalg.cholesky(n * np.array(c['P']))
    if np.abs(xp - (np.array(c['x']) + eps @ L.T)).max() > REL * max(np.abs(xp).max(), 1e-300):
        out.append(('PF.generate_particles:not-x+chol(nP)eps', 'particles %r for draws %r' % (xp.tolist(), eps.tolist())))

    def fq(Mx, Mu, cc, coef, d, X):
        sq = X * X
        pad = np.zeros((X.shape[0], d))
        pad[:, :min(d, X.shape[1])] = sq[:, :min(d, X.shape[1])]
        return X @ np.array(S[Mx]).T + np.array(S[Mu]) @ np.array(c['u']) + np.array(S[cc]) + np.array(S[coef]) * pad
    xs = fq('A', 'B', 'c1', 'a', n, xp)
    Ri = np.linalg.inv(np.array(c['R']))
    lp = np.array(rec['logp'])

    def ll(at):
        d = np.array(c['y']) - fq('C', 'D', 'c2', 'b', len(c['y']), at)
        return -0.5 * np.einsum('ij,jk,ik->i', d, Ri, d)
    tol = REL * max(1.0, np.abs(lp - lp[0]).max())
    old, doc = ll(xp), ll(xs)
    if np.abs((lp - lp[0]) - (doc - doc[0])).max() > tol:
        hint = ' (they are those of the pre-transition particles: defect repaired by b057b94)' if np.abs((lp - lp[0]) - (old - old[0])).max() <= tol else ''
        out.append(('PF.forward:log-likelihoods-not-those-of-the-propagated-particles', 'log_prob %r; expected differences %r%s'
                    % (lp.tolist(), (doc - doc[0]).tolist(), hint)))
    if 'q' in bad or 'r' in bad:
        return out
    q, r = np.array(rec['q']), np.array(rec['r'])
    cs = np.cumsum(q)
    if all(np.abs(cs - ri).min() > 1e-9 for ri in r):
        idx = np.searchsorted(cs, r)
        if idx.max() < N:
            xr = xs[idx]
            mean = xr.mean(0)
            cov = np.array(c['Q']) + (xr - mean).T @ (xr - mean) / N
            se = max(np.abs(xs).max() ** 2, np.abs(cov).max(), 1e-300)
            if np.abs(mean - np.array(rec['x'])).max() > REL * se or np.abs(cov - np.array(rec['P'])).max() > REL * se:
                out.append(('PF.forward:resampled-mean-or-covariance', 'mean %r cov %r; expected %r %r' % (rec['x'], rec['P'], mean.tolist(), cov.tolist())))
    return out
