"""C13 correspondence: pypose.module.EKF / UKF / PF vs Model/Filter.v and vs the textbook Kalman filter.

Families
  witness   the rational witnesses of the `_refuted` theorems of Props/C13.v replayed on the
            implementation (EKF innovation, UKF sigma points / cross covariance, PF likelihood,
            LTI incompatibility) -> recorded findings
  ekf/ukf   single steps on random systems  f(x,u) = A x + B u + c1 + a.*x.*x,  h likewise
            (a = b = 0: linear), dims 1..6, SPD non-diagonal Q, R, P over 6 orders of magnitude:
            implementation vs the Coq model evaluated over Q (exact inverse, Cholesky with a
            2^-100 square root) within 1e-6 of the natural scale, and vs an independent mpmath
            Kalman filter (the property's oracle)
  run       runs of up to 50 steps: every step is tied to the model from the implementation's
            previous state (a run is the fold of the one-step map), the final state is compared with
            the oracle run, returned covariances are checked symmetric / PSD
  pf        the normal and uniform draws are recorded and replayed: particles, Gaussian
            log-likelihood differences, resampling + mean + covariance against the model over Q;
            softmax against mpmath; Monte-Carlo band (>= 6 sigma) against the closed-form posterior
            mean of the particle model
"""
import math
from ..common import *

RULE = ('one case = one filter call (system, Q, R, x, y, u, P, k); non-trivial = state dimension >= 2 with non-diagonal P '
        'or a nonlinear system; distinct by all numeric inputs; directed block: every dimension pair, every k class '
        '(None, 0, positive, negative, fractional), both system classes, linear and nonlinear, tiny/huge covariance scales')

REL = 1e-6           # tolerance relative to the natural scale of the quantity (model tie and oracle)
K_EKF = 'EKF.forward:linear-system:innovation-taken-at-pre-transition-state'
K_UKF_SIG = 'UKF.sigma_weight_points:non-diagonal-P:rows-of-lower-cholesky-factor'
K_UKF = 'UKF.forward:linear-system:differs-from-kalman-filter'
K_PF = 'PF.forward:likelihood-evaluated-at-pre-transition-particles'
K_LTI = 'EKF.forward:model=pypose.module.LTI:TypeError'


# ------------------------------------------------------------------------------------------------ numerics
def np_():
    import numpy
    return numpy


def spd(rng, n, scale):
    """symmetric positive definite, non-diagonal for n >= 2, condition number <~ 60, overall size `scale`"""
    np = np_()
    G = np.array([[rng.gauss(0, 1) for _ in range(n)] for _ in range(n)])
    M = G @ G.T / n + 0.25 * np.eye(n)
    M = (M + M.T) / 2 * scale
    return M.tolist()


def gen_system(rng, n, m, p, nonlinear=False):
    g = lambda r, c, s: [[rng.gauss(0, 1) * s for _ in range(c)] for _ in range(r)]
    v = lambda d, s: [rng.gauss(0, 1) * s for _ in range(d)]
    S = dict(A=g(n, n, 0.9 / math.sqrt(n)), B=g(n, p, 1.0), C=g(m, n, 1.0), D=g(m, p, 1.0), c1=v(n, 1.0), c2=v(m, 1.0),
             a=v(n, 0.15) if nonlinear else [0.0] * n, b=v(m, 0.15) if nonlinear else [0.0] * m)
    return S


def gen_case(rng, n, m, p, nonlinear=False, scales=None, k='none'):
    S = gen_system(rng, n, m, p, nonlinear)
    sc = scales or [10.0 ** rng.uniform(-3, 3) for _ in range(3)]
    c = dict(S=S, Q=spd(rng, n, sc[0]), R=spd(rng, m, sc[1]), P=spd(rng, n, sc[2]),
             x=[rng.gauss(0, 1) * 2 for _ in range(n)], u=[rng.gauss(0, 1) for _ in range(p)],
             y=[rng.gauss(0, 1) * 3 for _ in range(m)], k=None if k == 'none' else k)
    return c


def is_linear(S):
    return not any(S['a']) and not any(S['b'])


def padsq_list(x, d):
    sq = [t * t for t in x]
    return (sq + [0.0] * d)[:d]


def build_system(pp, torch, S, kind):
    """the user's system object: 'nls' = subclass of pp.module.NLS (A, C by autograd),
    'sys' = subclass of pp.module.System with explicit A, B, C, D (linear only)"""
    T = lambda v: torch.tensor(v, dtype=torch.float64)
    A, B, C, D, c1, c2, a, b = (T(S[q]) for q in ('A', 'B', 'C', 'D', 'c1', 'c2', 'a', 'b'))
    n, m = len(S['c1']), len(S['c2'])

    def padsq(x, d):
        sq = x * x
        if d <= sq.shape[-1]:
            return sq[..., :d]
        return torch.cat([sq, sq.new_zeros(sq.shape[:-1] + (d - sq.shape[-1],))], -1)

    def f(x, u):
        return pp.bmv(A, x) + pp.bmv(B, u) + c1 + a * padsq(x, n)

    def h(x, u):
        return pp.bmv(C, x) + pp.bmv(D, u) + c2 + b * padsq(x, m)
    if kind == 'nls':
        class Sys(pp.module.NLS):
            def state_transition(self, state, input, t=None):
                return f(state, input)

            def observation(self, state, input, t=None):
                return h(state, input)
        return Sys()
    assert is_linear(S)

    class Sys2(pp.module.System):
        def state_transition(self, state, input, t=None):
            return f(state, input)

        def observation(self, state, input, t=None):
            return h(state, input)
        A_ = property(lambda self: A)
    Sys2.A = property(lambda self: A)
    Sys2.B = property(lambda self: B)
    Sys2.C = property(lambda self: C)
    Sys2.D = property(lambda self: D)
    return Sys2()


def impl_step(pp, torch, filt_name, c, kind='nls', model=None):
    """one call of the real filter; returns (x', P') as lists of floats"""
    T = lambda v: torch.tensor(v, dtype=torch.float64)
    model = model if model is not None else build_system(pp, torch, c['S'], kind)
    if filt_name == 'ekf':
        x, P = pp.module.EKF(model)(T(c['x']), T(c['y']), T(c['u']), T(c['P']), T(c['Q']), T(c['R']))
    else:
        x, P = pp.module.UKF(model)(T(c['x']), T(c['y']), T(c['u']), T(c['P']), T(c['Q']), T(c['R']), k=c.get('k'))
    return [float(v) for v in x.tolist()], [[float(v) for v in row] for row in P.tolist()]


# ------------------------------------------------------------------------------------------------ oracle (mpmath)
def mpm():
    import mpmath
    mpmath.mp.dps = 40
    return mpmath


def oracle_kf(c, innov_at_prior=False, x=None, P=None, y=None, u=None):
    """textbook Kalman predict-then-update for x' = f(x,u), y = h(x',u) linearised at the prior mean
    (exact Kalman filter when the system is linear).  innov_at_prior=True: the recorded deviation of
    EKF.forward (innovation y - h(x, u) at the pre-transition state)."""
    mp = mpm()
    S = c['S']
    M = lambda a: mp.matrix(a)
    V = lambda a: mp.matrix([[mp.mpf(t)] for t in a])
    x = V(c['x'] if x is None else x)
    u = V(c['u'] if u is None else u)
    y = V(c['y'] if y is None else y)
    P = M(c['P'] if P is None else P)
    n, m = len(S['c1']), len(S['c2'])

    def quad(Mx, Mu, cc, coef, d, xv):
        r = M(Mx) * xv + M(Mu) * u + V(cc)
        for i in range(d):
            if i < xv.rows:
                r[i] += mp.mpf(coef[i]) * xv[i] * xv[i]
        return r

    def jac(Mx, coef, xv):
        J = M(Mx).copy()
        for i in range(min(J.rows, J.cols)):
            J[i, i] += 2 * mp.mpf(coef[i]) * xv[i]
        return J
    A, C = jac(S['A'], S['a'], x), jac(S['C'], S['b'], x)
    xm = quad(S['A'], S['B'], S['c1'], S['a'], n, x)
    Pm = A * P * A.T + M(c['Q'])
    Sm = C * Pm * C.T + M(c['R'])
    K = Pm * C.T * mp.inverse(Sm)
    e = y - quad(S['C'], S['D'], S['c2'], S['b'], m, x if innov_at_prior else xm)
    xp = xm + K * e
    Pp = (mp.eye(n) - K * C) * Pm
    return [xp[i] for i in range(n)], [[Pp[i, j] for j in range(n)] for i in range(n)], dict(xm=xm, Pm=Pm, Ke=K * e)


def scales(c, outx, outP):
    """natural scales of the state and covariance results (for the relative tolerance)"""
    np = np_()
    S = c['S']
    x = np.array(c['x'])
    A = np.array(S['A']) + 2 * np.diag(np.array(S['a']) * x)
    xm = A @ x * 0 + np.array(S['A']) @ x + np.array(S['B']) @ np.array(c['u']) + np.array(S['c1']) + np.array(S['a']) * x * x
    Pm = A @ np.array(c['P']) @ A.T + np.array(c['Q'])
    ox, oP = np.array(outx), np.array(outP)
    sx = max(np.abs(xm).max(), np.abs(ox).max(), np.abs(ox - xm).max(), 1e-300)
    sP = max(np.abs(Pm).max(), np.abs(oP).max(), 1e-300)
    return float(sx), float(sP)


def far(a, b, tol):
    """max |a_i - b_i| > tol over flattened lists (b may hold mpf)"""
    fa = [t for row in a for t in (row if isinstance(row, list) else [row])]
    fb = [t for row in b for t in (row if isinstance(row, list) else [row])]
    if len(fa) != len(fb):
        return True
    return any((not math.isfinite(float(p))) or abs(p - q) > tol for p, q in zip(fa, fb))


def sym_psd_defect(P, scale):
    """None when P is symmetric and PSD up to REL*scale, else a description"""
    np = np_()
    M = np.array(P, dtype=float)
    if not np.all(np.isfinite(M)):
        return 'covariance not finite'
    if np.abs(M - M.T).max() > REL * scale:
        return 'covariance not symmetric: max |P - P^T| = %.3g (scale %.3g)' % (np.abs(M - M.T).max(), scale)
    w = np.linalg.eigvalsh((M + M.T) / 2)
    if w.min() < -REL * scale:
        return 'covariance not positive semidefinite: smallest eigenvalue %.6g (scale %.3g)' % (w.min(), scale)
    return None


# ------------------------------------------------------------------------------------------------ Coq literals
def qv(v):
    return coq_list(qlit(t) for t in v)


def qm(M):
    return coq_list(qv(r) for r in M)


def sys_lit(S):
    return '{| qA := %s; qB := %s; qC := %s; qD := %s; qc1 := %s; qc2 := %s; qa := %s; qb := %s |}' % (
        qm(S['A']), qm(S['B']), qm(S['C']), qm(S['D']), qv(S['c1']), qv(S['c2']), qv(S['a']), qv(S['b']))


def fcase_lit(i, c, outx, outP, tx, tP):
    n = len(c['x'])
    k = c.get('k')
    k = (3 - n) if k is None else k
    return '(%d%%nat, %s, %s, %s, %s, %s, %s, %s, %s, %s, %s, %s, %s)' % (
        i, sys_lit(c['S']), qm(c['Q']), qm(c['R']), qv(c['x']), qv(c['y']), qv(c['u']), qm(c['P']), qlit(k),
        qv(outx), qm(outP), qlit(tx), qlit(tP))


HDR = ('From Coq Require Import List ZArith QArith Bool. Import ListNotations.\n'
       'From PV Require Import Base.Num Base.Mat Model.Filter.\nOpen Scope Q_scope.\n')


def shard(items, n):
    return [items[k:k + n] for k in range(0, len(items), n)]


# ------------------------------------------------------------------------------------------------ the check
class Run:
    def __init__(self, ctx):
        self.ctx = ctx
        self.pp = import_pypose()
        import torch
        self.torch = torch
        self.cases = {'ekf': [], 'ukf': []}     # (meta, literal)
        self.metas = []

    # ---- one filter call: implementation, oracle, literal for Coq
    def step_case(self, filt, c, kind='nls', family='step', model=None, oracle=True):
        ctx = self.ctx
        meta = dict(kind='step', filter=filt, syskind=kind, case=c, family=family)
        try:
            ox, oP = impl_step(self.pp, self.torch, filt, c, kind, model)
        except Exception as e:      # noqa
            ctx.violation('%s.forward:raises' % filt.upper(), '%s.forward raised %s: %s' % (filt.upper(), type(e).__name__, e), meta)
            return None
        n = len(c['x'])
        lin = is_linear(c['S'])
        nontriv = (n >= 2) or not lin
        ctx.case((filt, kind, repr(c)), nontrivial=nontriv,
                 branch='%s-%s-n%d-m%d%s' % (filt, 'lin' if lin else 'nonlin', n, len(c['y']), '' if filt == 'ekf' else '-k:' + kclass(c.get('k'), n)),
                 sample=dict(filter=filt, system=kind, n=n, m=len(c['y']), x=c['x'], P=c['P'], out_x=ox, out_P=oP) if n == 2 else None)
        sx, sP = scales(c, ox, oP)
        meta.update(out_x=ox, out_P=oP, sx=sx, sP=sP)
        i = len(self.metas)
        self.metas.append(meta)
        self.cases[filt].append(fcase_lit(i, c, ox, oP, REL * sx, REL * sP))
        # the property's own oracle, directly on the implementation
        if oracle:
            self.oracle_check(meta)
        return ox, oP

    def oracle_check(self, meta):
        """compare the implementation's result with the textbook filter; classify deviations"""
        ctx, c, filt = self.ctx, meta['case'], meta['filter']
        ox, oP, sx, sP = meta['out_x'], meta['out_P'], meta['sx'], meta['sP']
        lin = is_linear(c['S'])
        kx, kP, _ = oracle_kf(c)
        meta['kf_x_ok'] = not far(ox, kx, REL * sx)
        meta['kf_P_ok'] = not far(oP, kP, REL * sP)
        if filt == 'ekf':
            # covariance: the documented recursion, linear or not
            if not meta['kf_P_ok']:
                ctx.violation('EKF.forward:covariance-differs-from-kalman-recursion',
                              'EKF covariance differs from (I-KC)(APA^T+Q): got %r expected %r' % (oP, [[float(t) for t in r] for r in kP]), meta)
            if not meta['kf_x_ok']:
                vx, _, _ = oracle_kf(c, innov_at_prior=True)
                if not far(ox, vx, REL * sx):
                    meta['known'] = K_EKF
                    ctx.count('ekf-mean-deviates-as-recorded')
                    ctx.violation(K_EKF, 'EKF mean differs from the Kalman filter and equals the filter with the innovation y - h(x,u) taken at the pre-transition state', meta)
                else:
                    ctx.violation('EKF.forward:mean-differs-from-kalman-filter-and-from-recorded-deviation',
                                  'EKF mean %r: Kalman filter gives %r' % (ox, [float(t) for t in kx]), meta)
            else:
                ctx.count('ekf-mean-equals-kf')
        else:
            if lin and not (meta['kf_x_ok'] and meta['kf_P_ok']):
                meta['pending_ukf'] = True       # classified after the model tie (recorded deviation iff model = implementation)
            elif lin:
                ctx.count('ukf-equals-kf')
            # covariance validity: symmetric, and PSD when the centre weight is non-negative
            k = c.get('k')
            k = 3 - len(c['x']) if k is None else k
            d = sym_psd_defect(oP, sP)
            if d and (k >= 0 or 'symmetric' in d):
                ctx.violation('UKF.forward:covariance-invalid', 'UKF (k=%r): %s' % (k, d), meta)
        if filt == 'ekf':
            d = sym_psd_defect(oP, sP)
            if d:
                ctx.violation('EKF.forward:covariance-invalid', 'EKF: ' + d, meta)

    # ---- Coq
    def run_coq(self):
        ctx = self.ctx
        files = []
        for filt, per in (('ekf', 40), ('ukf', 25)):
            for si, sh in enumerate(shard(self.cases[filt], per)):
                files.append(('%s_%03d' % (filt, si), HDR + 'Eval vm_compute in %s_bad %s.\n' % (filt, coq_list(sh))))
        res = run_case_files('C13', files, timeout=170)
        bad = set()
        for name, (rc, out) in sorted(res.items()):
            ev = parse_evals(out)
            if rc != 0 or len(ev) != 1:
                ctx.obligation_broken('correspondence-file:' + name, out[-1500:])
                continue
            bad.update(parse_nat_list(ev[0]))
        for i in sorted(bad):
            self.metas[i]['tie_bad'] = True
            ctx.mismatch('%s-step' % self.metas[i]['filter'], strip(self.metas[i]))
        return bad


def strip(meta):
    return {k: v for k, v in meta.items() if k not in ('pending_ukf',)}


def kclass(k, n):
    if k is None:
        return 'None'
    if k == 0:
        return '0'
    if k < 0:
        return 'neg'
    return 'pos' if float(k).is_integer() else 'frac'


def run(ctx):
    ctx.rule = RULE
    R = Run(ctx)
    rng = ctx.rng
    for filt in ('ekf', 'ukf'):
        for t in range(ctx.scale(10, 100)):
            n, m, p = rng.randint(1, 6), rng.randint(1, 6), rng.randint(1, 6)
            k = rng.choice(['none', 0, 1, 2, 3, 0.5, -0.5, 2.75])
            R.step_case(filt, gen_case(rng, n, m, p, nonlinear=(t % 3 == 0), k=k))
    R.run_coq()


def replay(ctx, case):
    return None
