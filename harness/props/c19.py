"""C19 correspondence: pp.chspline / pp.bspline vs Model/Spline.v, pp.metric.ape / rpe and
pp.geodesic_loss vs Model/Metric.v, plus the property's own clauses evaluated on the implementation.

Routes
  * exact route (vm_compute over Q): chspline column by column (equality for dyadic intervals, 2^-36
    for the others: the model is evaluated at the float interval's exact rational value); the number
    of samples per unit interval against the model's count of multiples; bspline on pure translations
    (the group-independent part: weights, windows, padding, final sample); ape / rpe for the error
    types translation / rotation / pose: the whole pipeline (association, alignment with the recorded
    svdstf result as oracle, pairing, relative poses, errors, the seven statistics) with a 2^-64
    accurate rational square root, compared within 2^-30 (1 + |v|); pairs_by_frames exactly.
  * enclosure route (interval, kernel-checked): geodesic_loss on exactly representable quaternions
    (Hurwitz units and dyadic ones), all four group types, every reduction.
  * law checks on the implementation (the property's clauses, independent oracles): interpolation,
    count, straight lines; bspline continuity / left-equivariance / constant twist (torch.matrix_exp
    of the 4x4 generator) / end points; order of the statistics, zero for identical trajectories, rpe
    invariance under left multiplication, ape invariance under rigid / similarity transforms with
    align (and scale); radian / degree errors and geodesic_loss against 2 atan2(|v|, |w|);
    geodesic_loss over batch shapes (unbatched, multi-dimensional, broadcasting, empty), mixed types,
    memory layouts and call forms (geo_shape_laws); chspline / bspline per batch item, per memory
    layout, repeatable, non-mutating (chs_batch_laws, bs_laws 'batch');
    autograd states (block E): geodesic_loss, ape / rpe, chspline / bspline with arguments that are leaves
    requiring grad, Parameters, non-leaves, under no_grad / enable_grad / inference_mode - the values equal those
    for plain tensors, and geodesic_loss is judged relatively (1e-9) + 1e-12 against the angle oracle for
    relative angles 0, 1e-9 .. 1e-2, generic, pi - 1e-6, pi (geo_grad_laws);
    boundary pose errors (block E): ape / rpe of estimates ref_i (dt_i, d_i) with d_i exact half turns about the
    coordinate axes / generic axes (constant, alternating with the identity, random axes), the identity, angles
    next to pi, tiny angles, mixtures - every error type and pairing option: order chain with non-finite
    statistics counted as a violation, radian / degree against the angle oracle, rpe left-invariance."""
import math
from ..common import *
from ..lie import *

RULE = ('chspline: (N in 2..60, interval a/b, batch shape, dim 1..6), one case per (call, column), dyadic points; '
        'bspline: pure-translation splines per column (Q), law checks on random SE3 poses N in 4..60 (1..60 extrapolated); '
        'metrics: synthetic trajectories 3..200 poses, jittered / dropped / shifted stamps, every error type, '
        'frame/distance x all x rpair x delta, align/scale/origin; a case is one call with its options; '
        'non-trivial = the two trajectories differ; distinct by value')
EPSL = '(1/4503599627370496)'
TOLQ = Fraction(1, 2 ** 36)
HDR_Q = ('From PV Require Import Base.Num Model.LieGroup Model.Spline Model.Metric.\n'
         'From Coq Require Import List ZArith QArith Bool. Import ListNotations.\n')

INTERVALS = [(1, 2), (1, 4), (1, 8), (3, 4), (3, 8), (5, 16), (1, 5), (1, 10), (3, 10), (1, 3), (2, 5), (7, 10),
             (9, 10), (1, 20), (2, 7), (1, 7), (99, 100), (1, 6), (4, 9)]


def is_pow2(b):
    return b & (b - 1) == 0


def olist(x, f):
    return 'None' if x is None else '(Some %s)' % f(x)


def cbool(b):
    return 'true' if b else 'false'


def arange_k(torch, q):
    """the number of samples per unit interval exactly as spline.py computes it"""
    return int(torch.arange(0, 1, q, dtype=torch.float64).shape[0])


# ------------------------------------------------------------------------------------- chspline
def gen_points(rng, torch, N, batch, D, line=False):
    shape = tuple(batch) + (N, D)
    if line:
        a = torch.tensor([[dy(rng, 3, 4.0) for _ in range(D)]], dtype=torch.float64)
        b = torch.tensor([[dy(rng, 3, 2.0) for _ in range(D)]], dtype=torch.float64)
        base = a + torch.arange(N, dtype=torch.float64).unsqueeze(-1) * b
        return base.expand(shape).clone(), (a.reshape(-1).tolist(), b.reshape(-1).tolist())
    n = 1
    for s in shape:
        n *= s
    return torch.tensor([dy(rng, 4, 4.0) for _ in range(n)], dtype=torch.float64).reshape(shape), None


def chs_laws(pp, torch, pts, a, b, line=None):
    """the property's chspline clauses on the implementation; returns a description or None"""
    q = a / b
    N = pts.shape[-2]
    try:
        out = pp.chspline(pts, q)
    except Exception as e:
        return 'chspline raised %r' % (e,)
    k = arange_k(torch, q)
    if out.shape[-2] != (N - 1) * k + 1 or out.shape[:-2] != pts.shape[:-2] or out.shape[-1] != pts.shape[-1]:
        return 'chspline returned shape %s for points %s, interval %s: expected (N-1)k+1 = %d samples (k = %d)' % (
            tuple(out.shape), tuple(pts.shape), q, (N - 1) * k + 1, k)
    idx = torch.arange(N) * k
    if not torch.equal(out.index_select(-2, idx), pts):
        d = (out.index_select(-2, idx) - pts).abs().max().item()
        return 'chspline does not pass through the input points at the integer times (max deviation %g)' % d
    why = chs_batch_laws(pp, torch, pts, q, out)
    if why:
        return why
    if line is not None:
        a0, b0 = line
        # times as the property states them: n + j * interval
        ts = torch.tensor([n + j * q for n in range(N - 1) for j in range(k)] + [float(N - 1)], dtype=torch.float64)
        exp = torch.tensor(a0, dtype=torch.float64) + ts.unsqueeze(-1) * torch.tensor(b0, dtype=torch.float64)
        tol = 0.0 if is_pow2(b) else 1e-11 * (1 + float(pts.abs().max()))
        dev = (out - exp).abs().max().item()
        if dev > tol:
            return 'chspline does not reproduce the straight line a + t b (max deviation %g, tolerance %g)' % (dev, tol)
    return None


def noncontig_views(torch, t):
    """views equal to t with other strides: last two axes swapped in memory, leading axes reversed in memory,
    every second entry of a longer point axis, a window of a wider last axis (storage offset)"""
    out = []
    out.append(('last two axes transposed in memory', t.transpose(-1, -2).contiguous().transpose(-1, -2)))
    if t.dim() >= 3:
        perm = list(range(t.dim() - 2))[::-1] + [t.dim() - 2, t.dim() - 1]
        out.append(('batch axes reversed in memory', t.permute(*perm).contiguous().permute(*perm)))
    big = torch.full(tuple(t.shape[:-2]) + (2 * t.shape[-2], t.shape[-1] + 2), 9.5, dtype=t.dtype)
    v = big[..., ::2, 1:1 + t.shape[-1]]
    v.copy_(t)
    out.append(('strided slice of a larger tensor', v))
    return out


def chs_batch_laws(pp, torch, pts, q, out):
    """the spline is computed independently per batch item and column, does not depend on the memory layout
    of its argument, is repeatable and does not modify its argument"""
    keep = pts.clone()
    again = pp.chspline(pts, q)
    if not torch.equal(pts, keep):
        return 'chspline modified its argument in place'
    if not torch.equal(again, out):
        return 'chspline returned different results for two calls with the same argument'
    tol = 1e-12 * (1 + float(pts.abs().max()))
    if pts.dim() > 2 and pts.shape[:-2].numel() > 0:
        flat = pts.reshape((-1,) + tuple(pts.shape[-2:]))
        fo = out.reshape((-1,) + tuple(out.shape[-2:]))
        for bi in sorted(set([0, flat.shape[0] - 1])):
            one = pp.chspline(flat[bi], q)
            if one.shape != fo[bi].shape or (one - fo[bi]).abs().max().item() > tol:
                return 'chspline of batch shape %s: item %d differs from chspline of that item alone (shape %s vs %s)' % (
                    tuple(pts.shape[:-2]), bi, tuple(fo[bi].shape), tuple(one.shape))
    if pts.shape[-1] > 1:
        one = pp.chspline(pts[..., :1].contiguous(), q)
        if one.shape != out[..., :1].shape or (one - out[..., :1]).abs().max().item() > tol:
            return 'chspline: column 0 of the result differs from chspline of column 0 alone'
    for name, v in noncontig_views(torch, pts):
        o = pp.chspline(v, q)
        if o.shape != out.shape or (o - out).abs().max().item() > tol:
            return 'chspline of the same points as a non-contiguous tensor (%s) differs (shape %s vs %s)' % (name, tuple(o.shape), tuple(out.shape))
    return None


def chs_key(why):
    for word, key in (('straight', 'line'), ('modified', 'mutation'), ('two calls', 'repeatable'), ('alone', 'batch'),
                      ('non-contiguous', 'layout'), ('shape', 'count')):
        if word in why:
            return 'chspline:' + key
    return 'chspline:interpolation'


def chs_case_dict(pts, a, b, line):
    return dict(kind='chspline', points=pts.tolist(), a=a, b=b, line=line)


# ------------------------------------------------------------------------------------- autograd states
# (state of the first argument, state of the second argument, grad mode around the call): the VALUES of every
# function of the property must not depend on them
GRAD_MODES = [('leaf', 'plain', 'default'), ('plain', 'leaf', 'default'), ('leaf', 'leaf', 'default'),
              ('param', 'plain', 'default'), ('plain', 'param', 'default'), ('nonleaf', 'nonleaf', 'default'),
              ('plain', 'plain', 'no_grad'), ('leaf', 'param', 'no_grad'), ('leaf', 'leaf', 'enable_grad inside no_grad'),
              ('param', 'leaf', 'inference_mode')]
GRAD_WORDS = dict(plain='not requiring grad', leaf='a leaf with requires_grad=True', param='a Parameter',
                  nonleaf='a non-leaf (clone of a leaf) requiring grad')


def grad_prep(pp, torch, t, mode):
    """a copy of the (Lie)tensor t with the same values in the requested autograd state"""
    if mode == 'plain':
        return t.clone()
    if mode == 'param':
        return pp.Parameter(t.clone()) if isinstance(t, pp.LieTensor) else torch.nn.Parameter(t.clone())
    leaf = t.clone().requires_grad_(True)
    return leaf.clone() if mode == 'nonleaf' else leaf


def grad_ctx(torch, name):
    import contextlib
    if name == 'no_grad':
        return torch.no_grad()
    if name == 'inference_mode':
        return torch.inference_mode()
    if name == 'enable_grad inside no_grad':
        st = contextlib.ExitStack()
        st.enter_context(torch.no_grad())
        st.enter_context(torch.enable_grad())
        return st
    return contextlib.nullcontext()


def grad_desc(g):
    return 'first argument %s, second argument %s, grad mode %s' % (GRAD_WORDS[g[0]], GRAD_WORDS[g[1]], g[2])


def flat_vals(pp, o):
    if isinstance(o, pp.LieTensor):
        o = o.tensor()
    return o.detach().reshape(-1).tolist()


def same_vals(a, b):
    """values of the same computation in two autograd states: equal up to a few ulp"""
    return len(a) == len(b) and all((u != u and v != v) or abs(u - v) <= 1e-12 * max(abs(u), abs(v)) + 1e-17 for u, v in zip(a, b))


# ------------------------------------------------------------------------------------- poses
def rand_unit_q(rng):
    while True:
        v = [rng.gauss(0, 1) for _ in range(4)]
        n = math.sqrt(sum(x * x for x in v))
        if n > 1e-3:
            return [x / n for x in v]


def small_q(rng, ang):
    ax = [rng.gauss(0, 1) for _ in range(3)]
    n = math.sqrt(sum(x * x for x in ax)) or 1.0
    s = math.sin(ang / 2) / n
    return [ax[0] * s, ax[1] * s, ax[2] * s, math.cos(ang / 2)]


def rand_pose(rng, tscale=3.0):
    return [rng.uniform(-tscale, tscale) for _ in range(3)] + rand_unit_q(rng)


def SE3t(pp, torch, data):
    return pp.SE3(torch.tensor(data, dtype=torch.float64))


def pose_dist(torch, A, B):
    """max over poses of the distance as transformations (quaternion compared up to sign)"""
    a, b = A.tensor(), B.tensor()
    dt = (a[..., :3] - b[..., :3]).abs().max().item() if a.numel() else 0.0
    dq = torch.minimum((a[..., 3:] - b[..., 3:]).abs().amax(-1), (a[..., 3:] + b[..., 3:]).abs().amax(-1))
    return max(dt, dq.max().item() if dq.numel() else 0.0)


def hat4(torch, xi):
    """4x4 generator of the se3 twist (tau, phi) in pypose's ordering"""
    tx, ty, tz, a, b, c = xi
    return torch.tensor([[0, -c, b, tx], [c, 0, -a, ty], [-b, a, 0, tz], [0, 0, 0, 0]], dtype=torch.float64)


# ------------------------------------------------------------------------------------- bspline laws
def bs_laws(pp, torch, data, a, b, which, extra=None):
    """data: list of N poses (7 numbers).  which in continuity / left / twist / endpoints / count"""
    q = a / b
    k = arange_k(torch, q)
    tol = 1e-8
    try:
        if which == 'count':
            X = SE3t(pp, torch, data)
            out = pp.bspline(X, q)
            if out.shape[-2] != (len(data) - 3) * k + 1:
                return 'bspline returned %d samples for %d poses, interval %s (expected (N-3)k+1 = %d)' % (out.shape[-2], len(data), q, (len(data) - 3) * k + 1)
            oe = pp.bspline(X, q, True)
            if oe.shape[-2] != (len(data) + 1) * k + 1:
                return 'bspline(extrapolate=True) returned %d samples for %d poses (expected (N+1)k+1 = %d)' % (oe.shape[-2], len(data), (len(data) + 1) * k + 1)
            return None
        if which == 'continuity':
            X = SE3t(pp, torch, data)
            full = pp.bspline(X, q)
            worst = 0.0
            for i in extra:      # window indices
                part = pp.bspline(X[: i + 4], q)
                # end (u = 1) of segment i = last sample of the spline through the first i+4 poses;
                # start (u = 0) of segment i+1 = sample (i+1) k of the full spline
                d = pose_dist(torch, part[-1:], full[(i + 1) * k: (i + 1) * k + 1])
                worst = max(worst, d)
                if d > tol:
                    return 'bspline is not continuous between segments %d and %d: end of segment %d and start of the next differ by %g' % (i, i + 1, i, d)
            return None
        if which == 'left':
            X = SE3t(pp, torch, data)
            G = SE3t(pp, torch, extra['G'])
            for ex in (False, True):
                o1 = pp.bspline(G * X, q, ex)
                o2 = G * pp.bspline(X, q, ex)
                d = pose_dist(torch, o1, o2)
                if d > tol * (1 + max(abs(v) for v in extra['G'][:3])):
                    return 'bspline(G @ data, extrapolate=%s) differs from G @ bspline(data) by %g' % (ex, d)
            return None
        if which == 'twist':
            T0 = SE3t(pp, torch, extra['T0'])
            xi = extra['xi']
            N = extra['N']
            H = hat4(torch, xi)
            M0 = T0.matrix()
            mats = torch.stack([M0 @ torch.matrix_exp(H * float(j)) for j in range(N)])
            X = pp.mat2SE3(mats, check=False)
            out = pp.bspline(X, q)
            us = torch.arange(0, 1, q, dtype=torch.float64).tolist()
            times = [i + 1 + u for i in range(N - 3) for u in us] + [float(N - 2)]
            if out.shape[-2] != len(times):
                return 'bspline returned %d samples, expected %d' % (out.shape[-2], len(times))
            exp = torch.stack([M0 @ torch.matrix_exp(H * t) for t in times])
            dev = (out.matrix() - exp).abs().amax((-2, -1))
            scale = 1 + exp.abs().amax((-2, -1))
            bad = (dev > 1e-7 * scale).nonzero().reshape(-1).tolist()
            if bad:
                j = bad[0]
                return 'bspline through T0 Exp(n xi) is not T0 Exp(t xi) at sample %d (t = %g): matrix deviation %g' % (j, times[j], dev[j].item())
            return None
        if which == 'batch':
            # batched poses: every item is interpolated on its own, whatever the batch shape / memory layout;
            # the argument is not modified, two calls agree
            sh = tuple(extra['sh'])
            items = extra['items']
            N = len(items[0])
            T = torch.tensor(items, dtype=torch.float64).reshape(sh + (N, 7))
            for ex in (False, True):
                keep = T.clone()
                X = pp.SE3(T)
                out = pp.bspline(X, q, ex)
                cnt = ((N + 4 if ex else N) - 3) * k + 1
                if tuple(out.shape) != sh + (cnt, 7):
                    return 'bspline(extrapolate=%s) of poses of shape %s returned shape %s, expected %s' % (ex, tuple(T.shape), tuple(out.shape), sh + (cnt, 7))
                if not torch.equal(T, keep) or not torch.equal(X.tensor(), keep):
                    return 'bspline(extrapolate=%s) modified its argument in place' % ex
                if not torch.equal(pp.bspline(X, q, ex).tensor(), out.tensor()):
                    return 'bspline(extrapolate=%s) returned different results for two calls with the same argument' % ex
                fo = out.tensor().reshape(-1, cnt, 7)
                for bi in sorted(set([0, len(items) // 2, len(items) - 1])):
                    one = pp.bspline(SE3t(pp, torch, items[bi]), q, ex)
                    d = pose_dist(torch, one, pp.SE3(fo[bi]))
                    if d > tol:
                        return 'bspline(extrapolate=%s) of batch shape %s: item %d differs from bspline of that item alone by %g' % (ex, sh, bi, d)
                for name, v in noncontig_views(torch, T):
                    o = pp.bspline(pp.SE3(v), q, ex)
                    if o.shape != out.shape or pose_dist(torch, o, out) > tol:
                        return 'bspline(extrapolate=%s) of the same poses as a non-contiguous tensor (%s) differs' % (ex, name)
            return None
        if which == 'endpoints':
            X = SE3t(pp, torch, data)
            out = pp.bspline(X, q, True)
            d = max(pose_dist(torch, out[:1], X[:1]), pose_dist(torch, out[-1:], X[-1:]))
            if d > tol:
                return 'bspline(extrapolate=True) does not start / end at the first / last pose (deviation %g)' % d
            return None
    except Exception as e:
        return 'bspline raised %r' % (e,)
    return None


# ------------------------------------------------------------------------------------- trajectories
def gen_traj(rng, n, kind):
    """list of n poses; 'generic': smooth random walk; 'exact': Hurwitz rotations, lattice translations
    with axis steps of integer length (all norms exact in float64)"""
    poses = []
    if kind == 'exact':
        t = [float(rng.randint(-3, 3)) for _ in range(3)]
        for i in range(n):
            poses.append(t + list(rng.choice(HURWITZ)))
            ax = rng.randrange(3)
            t = list(t)
            t[ax] += float(rng.choice([1, 1, 2, 3, -1, -2]))
        return poses
    t = [rng.uniform(-2, 2) for _ in range(3)]
    q = rand_unit_q(rng)
    for i in range(n):
        poses.append(list(t) + list(q))
        step = [rng.gauss(0, 0.4) for _ in range(3)]
        t = [t[j] + step[j] for j in range(3)]
        dq = small_q(rng, rng.uniform(0.02, 0.5))
        q = q_mul(q, dq)
        nq = math.sqrt(sum(x * x for x in q))
        q = [x / nq for x in q]
    return poses


def short_q(rng):
    """a quaternion with few significant bits: a Hurwitz unit or a dyadic, roughly unit one (the
    modelled formulas are polynomial, the tie does not need unit norm)"""
    if rng.random() < 0.5:
        return list(rng.choice(HURWITZ))
    while True:
        q = [dy(rng, 3, 1.0) for _ in range(4)]
        if 0.5 <= sum(v * v for v in q) <= 1.5:
            return q


def short_traj(rng, n, ref=None):
    """poses with few significant bits (multiples of 2^-4 / 2^-3), so that the exact rational evaluation of
    the degree-30 polynomials of the pipeline stays cheap; with ref: a noisy copy of its translations"""
    poses = []
    t = [dy(rng, 4, 4.0) for _ in range(3)]
    for i in range(n):
        if ref is not None:
            poses.append([ref[i][j] + dy(rng, 4, 0.5) for j in range(3)] + short_q(rng))
        else:
            poses.append(list(t) + short_q(rng))
            t = [t[j] + dy(rng, 4, 1.0) for j in range(3)]
    return poses


def perturb(rng, poses, sigma_t=0.05, sigma_r=0.05):
    out = []
    for p in poses:
        dq = small_q(rng, abs(rng.gauss(0, sigma_r)) + 1e-3)
        q = q_mul(p[3:], dq)
        nq = math.sqrt(sum(x * x for x in q))
        out.append([p[j] + rng.gauss(0, sigma_t) for j in range(3)] + [x / nq for x in q])
    return out


def call_metric(pp, torch, c, gmode=None):
    """c: dict with rpe, rstamp, rpose, estamp, epose and the options.  Returns (stats dict | None, svd, error).
    gmode = (state of the reference poses, state of the estimated poses, grad mode), see GRAD_MODES"""
    import pypose.metric.ape_rpe as M
    rec = {}
    orig = M.svdstf

    def spy(src, tgt, ws=True):
        r = orig(src, tgt, ws)
        rec['svd'] = [float(v) for v in r.tensor().reshape(-1).tolist()]
        return r
    M.svdstf = spy
    try:
        rs = None if c['rstamp'] is None else torch.tensor(c['rstamp'], dtype=torch.float64)
        es = None if c['estamp'] is None else torch.tensor(c['estamp'], dtype=torch.float64)
        rp, ep = SE3t(pp, torch, c['rpose']), SE3t(pp, torch, c['epose'])
        if gmode is not None:
            rp, ep = grad_prep(pp, torch, rp, gmode[0]), grad_prep(pp, torch, ep, gmode[1])
        kw = dict(etype=c['etype'], diff=c['diff'], offset=c['offset'], align=c['align'], scale=c['scale'], origin=c['origin'])
        with grad_ctx(torch, gmode[2] if gmode is not None else 'default'):
            if c['rpe']:
                kw.update(associate=c['associate'], delta=c['delta'], rtol=c['rtol'], all=c['all'], rpair=c['rpair'])
                res = pp.metric.rpe(rs, rp, es, ep, **kw)
            else:
                res = pp.metric.ape(rs, rp, es, ep, **kw)
        return {k: float(v) for k, v in res.items()}, rec.get('svd'), None
    except Exception as e:
        return None, rec.get('svd'), repr(e)[:200]
    finally:
        M.svdstf = orig


ET = {'translation': 0, 'rotation': 1, 'pose': 2}
STAT_KEYS = ['Max', 'Min', 'Mean', 'Median', 'RMSE', 'SSE', 'STD']


def mcase_lit(i, c, res, svd):
    def stamps(s):
        return olist(s, qlist)
    if res is None:
        out = 'None'
    else:
        std = res['STD']
        out = '(Some (%s, %s, %s, %s, %s, %s, %s))' % tuple(
            [qlit(res[k]) for k in STAT_KEYS[:6]] + ['None' if std != std else '(Some %s)' % qlit(std)])
    svdl = qlist(svd if svd is not None else [0, 0, 0, 0, 0, 0, 1, 1])
    dint = int(c.get('delta', 1.0))
    return ('(MkCase %d%%nat %s %s %s %s %s %d%%nat %s %s %s %s %s %s %s %s (%d)%%Z %s %s %s %s %s)' % (
        i, cbool(c['rpe']), stamps(c['rstamp']), coq_list(qlist(p) for p in c['rpose']),
        stamps(c['estamp']), coq_list(qlist(p) for p in c['epose']), ET[c['etype']],
        qlit(c['diff']), qlit(c['offset']), cbool(c['align']), cbool(c['scale']), cbool(c['origin']), svdl,
        cbool(c.get('associate', 'frame') == 'distance'), qlit(c.get('delta', 1.0)), dint, qlit(c.get('rtol', 0.1)),
        cbool(c.get('all', False)), cbool(c.get('rpair', False)), out, qlit(TOLQ * 64)))


def stats_of(errs):
    """the seven statistics as the property / docstrings define them (plain python)"""
    n = len(errs)
    a = sorted(abs(e) for e in errs)
    mean = sum(a) / n
    sse = sum(e * e for e in errs)
    return dict(Max=a[-1], Min=a[0], Mean=mean, Median=a[(n - 1) // 2], RMSE=math.sqrt(sse / n), SSE=sse,
                STD=(math.sqrt(sum((x - mean) ** 2 for x in a) / (n - 1)) if n > 1 else float('nan')))


def q_angle(qa, qb):
    """rotation angle in [0, pi] between two unit quaternions (independent formula)"""
    r = q_mul(q_conj(qa), qb)
    return 2 * math.atan2(math.sqrt(r[0] ** 2 + r[1] ** 2 + r[2] ** 2), abs(r[3]))


def lmul(g, poses):
    """left-multiply every pose (t, q) by g, plain python"""
    out = []
    for p in poses:
        r = q_rot(g[3:], p[:3])
        out.append([g[j] + r[j] for j in range(3)] + q_mul(g[3:], p[3:]))
    return out


def simmul(S, poses):
    """apply the similarity (t, q, s) to every pose: positions s R p + t, rotations R q"""
    out = []
    for p in poses:
        r = q_rot(S[3:7], p[:3])
        out.append([S[j] + S[7] * r[j] for j in range(3)] + q_mul(S[3:7], p[3:]))
    return out


def close_stats(a, b, tol):
    for k in STAT_KEYS:
        x, y = a[k], b[k]
        if x != x and y != y:
            continue
        if not (abs(x - y) <= tol * (1 + abs(x) + abs(y))):
            return '%s: %r vs %r' % (k, x, y)
    return None


def metric_laws(pp, torch, c, which, extra=None):
    """one clause of the property on the implementation for the call described by c"""
    res, _, err = call_metric(pp, torch, c)
    name = 'rpe' if c['rpe'] else 'ape'
    if which == 'order':
        if res is None:
            return None
        t = 1e-12
        nan = [k for k in STAT_KEYS if not math.isfinite(res[k]) and not (k == 'STD' and res['Max'] == res['Min'])]
        if nan:
            return '%s statistics are not finite (%s), so Max >= RMSE >= Mean >= Min >= 0 does not hold: %s' % (name, ', '.join(nan), res)
        if not (res['Max'] >= res['RMSE'] * (1 - t) - 1e-300 and res['RMSE'] >= res['Mean'] * (1 - t) - 1e-300
                and res['Mean'] >= res['Min'] * (1 - t) - 1e-300 and res['Min'] >= 0):
            return '%s statistics are not ordered Max >= RMSE >= Mean >= Min >= 0: %s' % (name, res)
        return None
    if which == 'identical':
        if res is None:
            return None if c['rpe'] else '%s of a trajectory against itself raised %s' % (name, err)
        tol = 1e-9 * (180 / math.pi if c['etype'] == 'degree' else 1.0)
        bad = {k: v for k, v in res.items() if not (v != v and k == 'STD') and not abs(v) <= tol}
        if bad:
            return '%s of a trajectory against itself is not zero: %s' % (name, bad)
        return None
    if which in ('left-r', 'left-e'):
        c2 = dict(c)
        key = 'rpose' if which == 'left-r' else 'epose'
        c2[key] = lmul(extra['G'], c[key])
        res2, _, err2 = call_metric(pp, torch, c2)
        if (res is None) != (res2 is None):
            return 'rpe raises for one of the trajectories only after left-multiplying the %s by a fixed pose (%s / %s)' % (key, err, err2)
        if res is None:
            return None
        d = close_stats(res, res2, 1e-8 * (180 / math.pi if c['etype'] == 'degree' else 1.0))
        if d:
            return 'rpe changes when the %s is left-multiplied by a fixed pose: %s' % ('reference' if which == 'left-r' else 'estimate', d)
        return None
    if which in ('align-rigid', 'align-sim'):
        c2 = dict(c)
        c2['epose'] = simmul(extra['S'], c['epose'])
        res2, _, err2 = call_metric(pp, torch, c2)
        if res is None or res2 is None:
            return 'ape with align raised (%s / %s)' % (err, err2)
        d = close_stats(res, res2, 1e-7 * (180 / math.pi if c['etype'] == 'degree' else 1.0))
        if d:
            return 'ape(align=%s, scale=%s) changes when a %s transform is applied to the estimate: %s' % (
                c['align'], c['scale'], 'similarity' if which == 'align-sim' else 'rigid', d)
        return None
    if which == 'grad-state':
        # the statistics do not depend on the autograd state of the poses / the grad mode
        for g in GRAD_MODES:
            res2, _, err2 = call_metric(pp, torch, c, gmode=g)
            if (res is None) != (res2 is None):
                return '%s raises in one autograd state only (%s): %s / %s' % (name, grad_desc(g), err, err2)
            if res is None:
                continue
            bad = [k for k in STAT_KEYS if not same_vals([res[k]], [res2[k]])]
            if bad:
                return ('%s etype=%s depends on the autograd state of its pose arguments (%s; first = reference, second = estimate): '
                        '%s = %r, without requires_grad %r' % (name, c['etype'], grad_desc(g), bad[0], res2[bad[0]], res[bad[0]]))
        return None
    if which == 'angle-oracle':
        # ape on index-aligned trajectories, etype radian / degree: per-pose angle of q_e^-1 q_r
        if res is None:
            return '%s raised %s' % (name, err)
        f = 180 / math.pi if c['etype'] == 'degree' else 1.0
        if c['rpe']:
            d = int(c['delta'])
            n = len(c['rpose'])
            pairs = [(i, i + d) for i in range(n - d)] if c['all'] else [(i, i + d) for i in range(0, n - d, d)]
            errs = []
            for i, j in pairs:
                rr = q_mul(q_conj(c['rpose'][i][3:]), c['rpose'][j][3:])
                er = q_mul(q_conj(c['epose'][i][3:]), c['epose'][j][3:])
                errs.append(f * q_angle(rr, er))
        else:
            errs = [f * q_angle(e[3:], r[3:]) for r, e in zip(c['rpose'], c['epose'])]
        exp = stats_of(errs)
        d = close_stats(res, exp, 1e-7)
        if not d and extra and extra.get('abs_tol') is not None:
            # small angles: 1e-7 (1 + ...) says nothing; the caller knows that no relative rotation is near pi
            for k in ('Max', 'Min', 'Mean', 'Median', 'RMSE'):
                if not abs(res[k] - exp[k]) <= f * extra['abs_tol'] + 1e-9 * exp[k]:
                    d = '%s: %r vs %r' % (k, res[k], exp[k])
                    break
        if d:
            return '%s etype=%s differs from the rotation angle of the relative rotation: %s' % (name, c['etype'], d)
        return None
    return None


# ------------------------------------------------------------------------------------- geodesic
ALGS8 = ['SO3', 'SE3', 'RxSO3', 'Sim3', 'so3', 'se3', 'rxso3', 'sim3']


def geo_laws(pp, torch, ltype, xs, ys):
    """range, symmetry and value of geodesic_loss under each reduction; xs, ys raw tensors (lists)"""
    lt = getattr(pp, ltype + '_type')
    X = pp.LieTensor(torch.tensor(xs, dtype=torch.float64), ltype=lt)
    Y = pp.LieTensor(torch.tensor(ys, dtype=torch.float64), ltype=lt)
    try:
        qx, qy = X.rotation().tensor().tolist(), Y.rotation().tensor().tolist()
        ref = [q_angle(b, a) for a, b in zip(qx, qy)]      # angle of x y^-1
        n = len(ref)
        for red in ('none', 'mean', 'sum'):
            a = pp.geodesic_loss(X, Y, red).reshape(-1).tolist()
            b = pp.geodesic_loss(Y, X, red).reshape(-1).tolist()
            m = pp.module.GeodesicLoss(reduction=red)(X, Y).reshape(-1).tolist()
            hi = math.pi * (n if red == 'sum' else 1)
            if any(not (-1e-300 <= v <= hi * (1 + 1e-12)) for v in a):
                return 'geodesic_loss(reduction=%s) = %s is outside [0, %s]' % (red, a, 'n pi' if red == 'sum' else 'pi')
            if any(abs(u - v) > 1e-9 for u, v in zip(a, b)) or len(a) != len(b):
                return 'geodesic_loss(reduction=%s) is not symmetric: %s vs %s' % (red, a, b)
            if a != m:
                return 'GeodesicLoss(reduction=%s) differs from geodesic_loss' % red
            exp = ref if red == 'none' else ([sum(ref) / n] if red == 'mean' else [sum(ref)])
            if len(a) != len(exp) or any(abs(u - v) > 1e-7 for u, v in zip(a, exp)):
                return 'geodesic_loss(reduction=%s) = %s is not the rotation angle between the rotation parts (%s)' % (red, a, exp)
    except Exception as e:
        return 'geodesic_loss raised %r' % (e,)
    return None


def rot_quat(lt, e):
    """unit quaternion of the rotation part of one element (group: the stored quaternion; algebra: the
    quaternion of the rotation vector phi, (sin(|phi|/2) phi/|phi|, cos(|phi|/2))) - plain python"""
    if lt[0].isupper():
        o = 3 if lt in ('SE3', 'Sim3') else 0
        return list(e[o:o + 4])
    o = 3 if lt in ('se3', 'sim3') else 0
    phi = e[o:o + 3]
    th = math.sqrt(sum(v * v for v in phi))
    if th == 0.0:
        return [0.0, 0.0, 0.0, 1.0]
    s = math.sin(th / 2) / th
    return [phi[0] * s, phi[1] * s, phi[2] * s, math.cos(th / 2)]


def elt_dim(lt):
    return GDIM[lt] if lt[0].isupper() else ADIM[GROUPS[ALGS.index(lt)]]


def numel(shape):
    n = 1
    for s in shape:
        n *= s
    return n


def bcast_shape(sa, sb):
    """broadcast of two batch shapes (None if incompatible), written out from the broadcasting rule"""
    n = max(len(sa), len(sb))
    a = (1,) * (n - len(sa)) + tuple(sa)
    b = (1,) * (n - len(sb)) + tuple(sb)
    out = []
    for u, v in zip(a, b):
        if u != v and u != 1 and v != 1:
            return None
        out.append(v if u == 1 else u)
    return tuple(out)


def bcast_index(idx, shape):
    """flat (row-major) index into a tensor of batch shape `shape` of the broadcast multi-index idx"""
    idx = idx[len(idx) - len(shape):]
    f = 0
    for i, s in zip(idx, shape):
        f = f * s + (0 if s == 1 else i)
    return f


def multi_indices(shape):
    out = [()]
    for s in shape:
        out = [o + (i,) for o in out for i in range(s)]
    return out


LAYOUTS = ('contiguous', 'transposed', 'slice', 'wide', 'expand')


def laid_out(torch, flat, shape, dim, layout, bshape):
    """float64 tensor of logical shape `shape + (dim,)` holding the elements `flat` (row-major), in the
    requested memory layout; returns (tensor, base) - base is the tensor whose storage is viewed"""
    t = torch.tensor(flat, dtype=torch.float64).reshape(tuple(shape) + (dim,))
    nb = len(shape)
    if layout == 'transposed' and nb >= 2:
        perm = list(range(nb))[::-1] + [nb]
        base = t.permute(*perm).contiguous()
        return base.permute(*perm), base
    if layout == 'transposed' and nb == 1:           # component axis major
        base = t.t().contiguous()
        return base.t(), base
    if layout == 'slice' and nb >= 1:                 # every second element of a longer batch axis
        sh = list(t.shape)
        sh[nb - 1] *= 2
        base = torch.full(sh, 7.25, dtype=torch.float64)
        v = base[(slice(None),) * (nb - 1) + (slice(0, None, 2),)]
        v.copy_(t)
        return v, base
    if layout == 'wide':                              # a window of a wider component axis, storage offset
        base = torch.full(tuple(shape) + (dim + 3,), -3.5, dtype=torch.float64)
        v = base[..., 2:2 + dim]
        v.copy_(t)
        return v, base
    if layout == 'expand' and bshape is not None and tuple(bshape) != tuple(shape):
        return t.expand(tuple(bshape) + (dim,)), t    # stride-0 view of the broadcast shape
    return t, t


def geo_shape_laws(pp, torch, c):
    """geodesic_loss for every batch shape: unbatched, 1-D, multi-dimensional, broadcasting input / target,
    empty; every memory layout; every call form (positional / keyword / default reduction, module with
    constructor argument / default, one module object reused).  Oracle: 2 atan2(|v|, |w|) of the relative
    quaternion of every broadcast pair, computed in plain python; 'mean' = sum of ALL these angles divided by
    their number, 'sum' = their sum, 'none' = the array of the broadcast batch shape.  Also range, symmetry,
    non-mutation of both arguments and repeatability."""
    lx, ly, sx, sy = c['lx'], c['ly'], tuple(c['sx']), tuple(c['sy'])
    bs = bcast_shape(sx, sy)
    if bs is None:
        return None
    try:
        tx, bx = laid_out(torch, c['xs'], sx, elt_dim(lx), c['layx'], bs)
        ty, by = laid_out(torch, c['ys'], sy, elt_dim(ly), c['layy'], bs)
        X = pp.LieTensor(tx, ltype=getattr(pp, lx + '_type'))
        Y = pp.LieTensor(ty, ltype=getattr(pp, ly + '_type'))
        snap = [bx.clone(), by.clone(), X.tensor().clone(), Y.tensor().clone()]
        qx = [rot_quat(lx, e) for e in c['xs']]
        qy = [rot_quat(ly, e) for e in c['ys']]
        ref = [q_angle(qy[bcast_index(i, sy)], qx[bcast_index(i, sx)]) for i in multi_indices(bs)] if numel(bs) else []
        n = len(ref)
        desc = 'geodesic_loss(%s%s [%s], %s%s [%s]' % (lx, list(sx), c['layx'], ly, list(sy), c['layy'])
        # another pair of arguments, used to give the module objects a history
        ox = pp.LieTensor(torch.tensor([[0.0, 0.0, 0.0, 1.0]] * 3, dtype=torch.float64), ltype=pp.SO3_type)
        oy = pp.LieTensor(torch.tensor([[1.0, 0.0, 0.0, 0.0]] * 3, dtype=torch.float64), ltype=pp.SO3_type)
        crit = {}
        for red in ('sum', 'none', 'mean'):
            crit[red] = pp.module.GeodesicLoss(reduction=red)
            crit[red](ox, oy)
        for red in ('none', 'mean', 'sum'):
            forms = [('geodesic_loss(x, y, %r)' % red, lambda A, B: pp.geodesic_loss(A, B, red)),
                     ('geodesic_loss(x, y, reduction=%r)' % red, lambda A, B: pp.geodesic_loss(A, B, reduction=red)),
                     ('geodesic_loss(input=x, target=y, reduction=%r)' % red, lambda A, B: pp.geodesic_loss(input=A, target=B, reduction=red)),
                     ('GeodesicLoss(reduction=%r)(x, y) [second call on the object]' % red, lambda A, B: crit[red](A, B)),
                     ('GeodesicLoss(%r)(x, y)' % red, lambda A, B: pp.module.GeodesicLoss(red)(A, B)),
                     ('geodesic_loss(x, y, %r) [repeated]' % red, lambda A, B: pp.geodesic_loss(A, B, red))]
            if red == 'mean':
                forms += [('geodesic_loss(x, y) [default reduction]', lambda A, B: pp.geodesic_loss(A, B)),
                          ('GeodesicLoss()(x, y) [default reduction]', lambda A, B: pp.module.GeodesicLoss()(A, B))]
            if red == 'none':
                exp, eshape = ref, bs
            elif red == 'sum':
                exp, eshape = [math.fsum(ref)], ()
            else:
                exp, eshape = ([math.fsum(ref) / n] if n else None), ()
            hi = math.pi * (max(n, 1) if red == 'sum' else 1)
            first = None
            for (name, f) in forms:
                o = f(X, Y)
                if isinstance(o, pp.LieTensor):
                    o = o.tensor()
                if tuple(o.shape) != tuple(eshape):
                    return '%s: %s returned shape %s, expected %s' % (desc + ')', name, tuple(o.shape), tuple(eshape))
                a = o.reshape(-1).tolist()
                if exp is None:                       # mean over an empty batch: no angle to average, not judged
                    continue
                if any(not (v == v and -1e-300 <= v <= hi * (1 + 1e-12)) for v in a):
                    return '%s: %s = %s is outside [0, %s]' % (desc + ')', name, a[:6], '%d pi' % n if red == 'sum' else 'pi')
                tol = 1e-7 * (max(n, 1) if red == 'sum' else 1)
                if any(abs(u - v) > tol for u, v in zip(a, exp)):
                    return ('%s: %s = %s is not the rotation angle between the rotation parts: the %d angles are %s, expected %s'
                            % (desc + ')', name, a[:6], n, [round(v, 9) for v in ref[:8]], [round(v, 9) for v in exp[:6]]))
                if first is None:
                    first = a
                elif a != first:
                    return '%s: %s = %s differs from %s = %s' % (desc + ')', name, a[:6], forms[0][0], first[:6])
                b = f(Y, X)
                if isinstance(b, pp.LieTensor):
                    b = b.tensor()
                bl = b.reshape(-1).tolist()
                if tuple(b.shape) != tuple(eshape) or any(not abs(u - v) <= 1e-9 * (max(n, 1) if red == 'sum' else 1) for u, v in zip(a, bl)):
                    return '%s: %s is not symmetric: %s (shape %s) vs %s (shape %s) with the arguments swapped' % (
                        desc + ')', name, a[:6], tuple(o.shape), bl[:6], tuple(b.shape))
        for was, now, who in zip(snap, [bx, by, X.tensor(), Y.tensor()], ['input (base)', 'target (base)', 'input', 'target']):
            if was.shape != now.shape or not torch.equal(was, now):
                return '%s): the call modified its %s argument in place' % (desc, who)
    except Exception as e:
        return 'geodesic_loss(%s%s [%s], %s%s [%s]) raised %r' % (lx, list(sx), c['layx'], ly, list(sy), c['layy'], e)
    return None


GEO_SHAPES = [((), ()), ((1,), (1,)), ((5,), (5,)), ((3, 4), (3, 4)), ((2, 3, 2), (2, 3, 2)), ((1,), (6,)), ((6,), (1,)),
              ((), (4,)), ((4,), ()), ((4, 1), (1, 3)), ((2, 1, 3), (4, 1)), ((3,), (2, 3)), ((2, 3), (3,)), ((1, 1), (1,)),
              ((2, 2), ()), ((), (3, 2)), ((7, 1), (7, 1)), ((1, 5), (1, 5)), ((0,), (0,)), ((2, 0), (1,)), ((3, 1), (0,))]


def gen_geo_shape(rng, torch, gi):
    """one geodesic case: type pair, batch shapes (directed list first, then random), layouts, elements
    mixing special rotations (identity, equal, opposite sign, half turn, tiny) with generic ones"""
    if gi < len(GEO_SHAPES):
        sx, sy = GEO_SHAPES[gi]
    else:
        nb = rng.choice([0, 1, 1, 2, 2, 3])
        full = tuple(rng.randint(1, 4) for _ in range(nb))
        def sub(sh):
            mode = rng.choice(['same', 'same', 'ones', 'drop'])
            if mode == 'ones':
                sh = tuple(1 if rng.random() < 0.5 else s for s in sh)
            elif mode == 'drop' and sh:
                sh = sh[rng.randint(1, len(sh)):]
            return sh
        sx, sy = sub(full), sub(full)
    lx = ALGS8[gi % 8] if gi < 2 * len(GEO_SHAPES) or rng.random() < 0.7 else rng.choice(ALGS8)
    ly = lx if rng.random() < 0.75 else rng.choice(ALGS8)

    def elt(lt, like=None):
        kind = rng.choice(['generic', 'generic', 'generic', 'identity', 'half', 'tiny', 'like', 'neg'])
        if lt[0].isupper():
            e = generic_elt(rng, lt, torch, torch.float64)
            o = 3 if lt in ('SE3', 'Sim3') else 0
            if kind == 'identity':
                e[o:o + 4] = [0.0, 0.0, 0.0, 1.0]
            elif kind == 'half':
                e[o:o + 4] = list(rng.choice([[1.0, 0.0, 0.0, 0.0], [0.0, 0.6, 0.8, 0.0], [0.0, 0.0, -1.0, 0.0]]))
            elif kind == 'tiny':
                e[o:o + 4] = small_q(rng, rng.choice([1e-9, 1e-5, 1e-3]))
            elif kind in ('like', 'neg') and like is not None:
                e[o:o + 4] = [(-v if kind == 'neg' else v) for v in like]
            return e
        dim = elt_dim(lt)
        e = [rng.uniform(-1.5, 1.5) for _ in range(dim)]
        o = 3 if lt in ('se3', 'sim3') else 0
        if kind == 'identity':
            e[o:o + 3] = [0.0, 0.0, 0.0]
        elif kind == 'tiny':
            e[o:o + 3] = [v * 1e-6 for v in e[o:o + 3]]
        return e
    xs = [elt(lx) for _ in range(numel(sx))]
    ys = [elt(ly, like=(rot_quat(lx, rng.choice(xs)) if xs else None)) for _ in range(numel(sy))]
    lay = lambda sh: rng.choice(LAYOUTS) if rng.random() < 0.6 else 'contiguous'
    return dict(kind='geodesic-shape', lx=lx, ly=ly, sx=list(sx), sy=list(sy), xs=xs, ys=ys, layx=lay(sx), layy=lay(sy))


def geo_key(why):
    for word, key in (('autograd state', 'autograd-state'), ('raised', 'raises'), ('modified', 'mutation'), ('returned shape', 'shape'), ('outside', 'range'),
                      ('symmetric', 'symmetry'), ('differs from', 'call-form')):
        if word in why:
            return 'geodesic:' + key
    return 'geodesic:angle'


def q_log(q):
    """rotation vector of a unit quaternion (generator side only; the oracle goes through rot_quat again)"""
    q = [-v for v in q] if q[3] < 0 else list(q)
    nv = math.sqrt(q[0] ** 2 + q[1] ** 2 + q[2] ** 2)
    if nv == 0.0:
        return [0.0, 0.0, 0.0]
    th = 2 * math.atan2(nv, q[3])
    return [th * q[0] / nv, th * q[1] / nv, th * q[2] / nv]


GEO_GRAD_ANGLES = [0.0, 1e-9, 1e-7, 1e-6, 1e-5, 1e-4, 1e-3, 1e-2, None, math.pi - 1e-6, math.pi, 'neg']


def gen_geo_grad(rng, torch, gi):
    """a flat batch of pairs whose relative rotation angle runs through zero (equal, sign-flipped), tiny ... small,
    generic, nearly pi and pi; every LieTensor type for the input, target of the same or another type"""
    lx = ALGS8[gi % 8]
    ly = lx if gi < 8 else ALGS8[(gi * 3 + 1) % 8]
    angs = list(GEO_GRAD_ANGLES)
    if gi >= 16:
        angs = [rng.choice(GEO_GRAD_ANGLES + [10.0 ** rng.uniform(-10, -2)]) for _ in range(rng.randint(1, 6))]
    xs, ys = [], []
    for a in angs:
        if lx[0].isupper():
            x = generic_elt(rng, lx, torch, torch.float64)
        else:
            x = [rng.uniform(-1.5, 1.5) for _ in range(elt_dim(lx))]
        qx = rot_quat(lx, x)
        if a == 'neg':
            qt = [-v for v in qx]
        else:
            dq = small_q(rng, rng.uniform(0.05, 3.0) if a is None else a) if a != 0.0 else [0.0, 0.0, 0.0, 1.0]
            qt = q_mul(qx, dq) if rng.random() < 0.5 else q_mul(dq, qx)
            nq = math.sqrt(sum(v * v for v in qt))
            qt = [v / nq for v in qt] if a != 0.0 else list(qx)
        if ly[0].isupper():
            y = generic_elt(rng, ly, torch, torch.float64)
            o = 3 if ly in ('SE3', 'Sim3') else 0
            y[o:o + 4] = qt
        else:
            y = [rng.uniform(-1.5, 1.5) for _ in range(elt_dim(ly))]
            o = 3 if ly in ('se3', 'sim3') else 0
            y[o:o + 3] = q_log(qt)
        xs.append(x)
        ys.append(y)
    return dict(kind='geodesic-grad', lx=lx, ly=ly, xs=xs, ys=ys)


def geo_grad_laws(pp, torch, c):
    """geodesic_loss is the rotation angle whatever the autograd state of its arguments (leaf requiring grad,
    Parameter, non-leaf, no_grad / enable_grad / inference_mode around the call): every reduction, function and
    module, both argument orders.  Oracle: 2 atan2(|v|, |w|) of the relative quaternion in plain python, judged
    RELATIVELY (1e-9) plus 1e-12 absolute, so that angles of 1e-9 .. 1e-3 and exact zeros are decided; the value
    in every state is also compared with the value for plain tensors (equal up to 1e-12 relative)."""
    lx, ly = c['lx'], c['ly']
    try:
        X0 = pp.LieTensor(torch.tensor(c['xs'], dtype=torch.float64), ltype=getattr(pp, lx + '_type'))
        Y0 = pp.LieTensor(torch.tensor(c['ys'], dtype=torch.float64), ltype=getattr(pp, ly + '_type'))
        ref = [q_angle(rot_quat(ly, y), rot_quat(lx, x)) for x, y in zip(c['xs'], c['ys'])]
        n = len(ref)
        exp = {'none': ref, 'mean': [math.fsum(ref) / n], 'sum': [math.fsum(ref)]}
        crit = {red: pp.module.GeodesicLoss(reduction=red) for red in exp}
        forms = [('geodesic_loss(x, y, %r)', lambda A, B, red: pp.geodesic_loss(A, B, red)),
                 ('GeodesicLoss(reduction=%r)(x, y)', lambda A, B, red: crit[red](A, B))]
        plain = {}
        for g in [('plain', 'plain', 'default')] + GRAD_MODES:
            X, Y = grad_prep(pp, torch, X0, g[0]), grad_prep(pp, torch, Y0, g[1])
            desc = '%s with x of type %s, y of type %s (%s)' % ('%s', lx, ly, grad_desc(g))
            with grad_ctx(torch, g[2]):
                for red in ('none', 'mean', 'sum'):
                    k = n if red == 'sum' else 1
                    for fname, f in forms:
                        a, b = flat_vals(pp, f(X, Y, red)), flat_vals(pp, f(Y, X, red))
                        who = desc % (fname % red)
                        if len(a) != len(exp[red]) or len(b) != len(a):
                            return '%s returned %d values, expected %d' % (who, len(a), len(exp[red]))
                        for j, (u, v, w) in enumerate(zip(a, b, exp[red])):
                            if not (u == u and -1e-300 <= u <= math.pi * k * (1 + 1e-12)):
                                return '%s: entry %d = %r is outside [0, %s]' % (who, j, u, '%d pi' % k if k > 1 else 'pi')
                            if not abs(u - w) <= 1e-9 * w + 1e-12 * k:
                                return ('%s: entry %d = %r is not the rotation angle between the rotation parts, %r (all angles: %s)'
                                        % (who, j, u, w, ['%.6g' % t for t in ref]))
                            if not abs(u - v) <= 1e-9 * w + 1e-12 * k:
                                return '%s is not symmetric: entry %d = %r, with the arguments swapped %r' % (who, j, u, v)
                        if g[:3] == ('plain', 'plain', 'default') and (red, fname) not in plain:
                            plain[(red, fname)] = a
                        elif not same_vals(a, plain[(red, fname)]):
                            return '%s = %s depends on the autograd state: for plain tensors it is %s' % (who, a[:6], plain[(red, fname)][:6])
    except Exception as e:
        return 'geodesic_loss with x of type %s, y of type %s raised %r in one of the autograd states' % (lx, ly, e)
    return None


# ------------------------------------------------------------------------------------- boundary pose errors
HALF_TURNS = [[1.0, 0.0, 0.0, 0.0], [0.0, 1.0, 0.0, 0.0], [0.0, 0.0, 1.0, 0.0], [0.36, -0.48, 0.8, 0.0],
              [0.6, 0.8, 0.0, 0.0], [0.0, -0.6, 0.8, 0.0], [-1.0, 0.0, 0.0, 0.0]]
BOUNDARY_SCEN = ['half-x', 'half-y', 'half-z', 'half-generic-axis', 'alternate', 'half-random-axes', 'mixed', 'identity',
                 'near-pi', 'tiny']
BOUNDARY_REF = ['generic', 'exact', 'translation-only', 'special']


def boundary_rot(rng, kind):
    if kind == 'identity':
        return [0.0, 0.0, 0.0, rng.choice([1.0, 1.0, -1.0])]
    if kind == 'half':
        return list(rng.choice(HALF_TURNS))
    if kind == 'half-any':
        return small_q(rng, math.pi)
    if kind == 'near-pi':
        return small_q(rng, math.pi - rng.choice([1e-9, 1e-6, 1e-3]))
    if kind == 'tiny':
        return small_q(rng, rng.choice([1e-9, 1e-6, 1e-4]))
    return small_q(rng, rng.uniform(0.05, 3.0))


def gen_boundary_metric(rng, bi):
    """reference trajectory and an estimate est_i = ref_i (dt_i, d_i) whose rotation errors d_i are boundary rotations:
    exact half turns about the coordinate axes / a generic axis (constant, alternating with the identity - so that
    every RELATIVE motion is off by exactly a half turn -, about random axes), the identity, angles next to pi,
    tiny angles, and mixtures with generic ones"""
    scen = BOUNDARY_SCEN[bi % len(BOUNDARY_SCEN)]
    refk = BOUNDARY_REF[(bi // len(BOUNDARY_SCEN) + bi) % len(BOUNDARY_REF)]
    n = [3, 4, 7, 12][bi % 4] if bi < 40 else rng.randint(3, 60)
    if refk == 'exact':
        ref = gen_traj(rng, n, 'exact')
    else:
        ref = gen_traj(rng, n, 'generic')
        if refk == 'translation-only':
            ref = [p[:3] + [0.0, 0.0, 0.0, 1.0] for p in ref]
        elif refk == 'special':
            ref = [p[:3] + boundary_rot(rng, rng.choice(['identity', 'half', 'half-any', 'generic'])) for p in ref]
    ds = []
    for i in range(n):
        if scen.startswith('half-') and scen != 'half-random-axes':
            d = list(HALF_TURNS[['half-x', 'half-y', 'half-z', 'half-generic-axis'].index(scen)])
        elif scen == 'alternate':
            d = list(HALF_TURNS[bi % 3]) if i % 2 else [0.0, 0.0, 0.0, 1.0]
        elif scen == 'half-random-axes':
            d = boundary_rot(rng, 'half-any')
        elif scen == 'mixed':
            d = boundary_rot(rng, rng.choice(['identity', 'half', 'half-any', 'near-pi', 'tiny', 'generic', 'generic']))
        else:
            d = boundary_rot(rng, scen)
        ds.append(d)
    moved = bi % 3 != 0
    est = []
    for p, d in zip(ref, ds):
        dt = q_rot(p[3:], [dy(rng, 4, 0.5) for _ in range(3)]) if moved else [0.0, 0.0, 0.0]
        est.append([p[j] + dt[j] for j in range(3)] + q_mul(p[3:], d))
    stamps = [1311868163.0 + 0.05 * i for i in range(n)] if bi % 2 else [0.1 * i for i in range(n)]
    small = scen in ('identity', 'tiny')
    return scen, refk, small, dict(rstamp=stamps, rpose=ref, estamp=list(stamps), epose=est, diff=0.01, offset=0.0,
                                   align=False, scale=False, origin=False)


# ------------------------------------------------------------------------------------- splines, autograd states
def spline_grad_laws(pp, torch, c):
    """chspline / bspline values do not depend on the autograd state of the points / poses or the grad mode"""
    q = c['a'] / c['b']
    try:
        if c['fn'] == 'chspline':
            P0 = torch.tensor(c['data'], dtype=torch.float64)
            f = lambda P: pp.chspline(P, q)
        else:
            P0 = pp.SE3(torch.tensor(c['data'], dtype=torch.float64))
            f = lambda P: pp.bspline(P, q, c['extrapolate'])
        plain = f(P0)
        for g in GRAD_MODES:
            if g[0] == 'plain' and g[2] == 'default':
                continue
            with grad_ctx(torch, g[2]):
                o = f(grad_prep(pp, torch, P0, g[0]))
            if tuple(o.shape) != tuple(plain.shape) or not same_vals(flat_vals(pp, o), flat_vals(pp, plain)):
                dev = (torch.as_tensor(flat_vals(pp, o)) - torch.as_tensor(flat_vals(pp, plain))).abs().max().item() if o.shape == plain.shape else float('nan')
                return ('%s(interval %s%s) of an argument that is %s (grad mode %s) differs from the result for a plain tensor '
                        '(shape %s vs %s, max deviation %g)' % (c['fn'], q, ', extrapolate=%s' % c['extrapolate'] if c['fn'] == 'bspline' else '',
                                                                GRAD_WORDS[g[0]], g[2], tuple(o.shape), tuple(plain.shape), dev))
    except Exception as e:
        return '%s raised %r in one of the autograd states' % (c['fn'], e)
    return None


# ------------------------------------------------------------------------------------- run
def run(ctx):
    pp = import_pypose()
    import torch
    ctx.rule = RULE
    rng = ctx.rng
    files = []
    viol = lambda key, what, rep: ctx.violation(key, what, rep)

    # ================================================================ A: chspline
    chs_meta, chs_lits, cnt_lits, cnt_meta = [], [], [], []
    plan = []
    shapes = [(), (1,), (2,), (2, 3), (3, 1, 2)]
    for N in (2, 3, 4, 5, 7, 60):                                   # directed
        for (a, b) in ((1, 2), (1, 4), (1, 5), (1, 10), (3, 10)):
            plan.append((N, a, b, rng.choice(shapes), rng.randint(1, 6), N in (3, 60) and a == 1))
    for D in range(1, 7):
        plan.append((rng.randint(2, 12), 1, 4, rng.choice(shapes), D, False))
    for sh in shapes:
        plan.append((rng.randint(2, 12), 3, 8, sh, rng.randint(1, 6), False))
    for _ in range(ctx.scale(14, 200)):
        a, b = rng.choice(INTERVALS)
        plan.append((rng.randint(2, 60), a, b, rng.choice(shapes), rng.randint(1, 6), rng.random() < 0.3))
    recips = {}
    for (N, a, b, sh, D, line) in plan:
        q = a / b
        pts, ln = gen_points(rng, torch, N, sh, D, line)
        k = arange_k(torch, q)
        why = chs_laws(pp, torch, pts, a, b, ln)
        ctx.case(('chs', N, a, b, sh, D, line), nontrivial=True, branch='chspline:%s' % ('dyadic' if is_pow2(b) else 'non-dyadic'),
                 sample=dict(call='chspline', N=N, interval='%d/%d' % (a, b), batch=sh, dim=D) if len(chs_meta) % 41 == 3 else None)
        if why:
            viol(chs_key(why), why, chs_case_dict(pts, a, b, ln))
            continue
        out = pp.chspline(pts, q)
        cols_in = pts.reshape(-1, N, D)
        cols_out = out.reshape(-1, out.shape[-2], D)
        allcols = [(bi, d) for bi in range(cols_in.shape[0]) for d in range(D)]
        rng.shuffle(allcols)
        tol = Fraction(0) if is_pow2(b) else TOLQ * 8
        for (bi, d) in allcols[:ctx.scale(3, 8)]:
            i = len(chs_meta)
            chs_meta.append(dict(kind='chspline', points=pts.tolist(), a=a, b=b, line=ln, column=(bi, d)))
            chs_lits.append('(%d%%nat, %d%%nat, %s, %s, (Some %s), %s)' % (
                i, k, qlit(q), qlist(cols_in[bi, :, d].tolist()), qlist(cols_out[bi, :, d].tolist()), qlit(tol)))
        # the number of samples per unit interval against the model's count of multiples
        if b % a == 0:
            recips[b // a] = k
            if k not in (b // a, b // a + 1):
                viol('chspline:count', 'torch.arange(0, 1, %s) has %d entries; the interval has %d multiples in [0,1)' % (q, k, b // a), chs_case_dict(pts, a, b, ln))
        else:
            cnt_meta.append(dict(kind='chspline-k', a=a, b=b, k=k, points=pts.tolist(), line=ln))
            cnt_lits.append('(%d%%nat, (%d)%%Z, (%d)%%Z, (%d)%%Z)' % (len(cnt_meta) - 1, a, b, k))
    # reciprocal intervals 1/n: float rounding in torch.arange decides between n and n+1 samples (noted, not judged)
    odd = []
    for n in range(2, 61):
        k = arange_k(torch, 1.0 / n)
        if k != n:
            odd.append((n, k))
        if k not in (n, n + 1):
            viol('chspline:count', 'torch.arange(0, 1, 1/%d) has %d entries' % (n, k), dict(kind='arange', n=n))
    ctx.notes.append('intervals 1/n, n = 2..60, for which torch.arange(0,1,1/n) yields n+1 entries (float rounding of 1/(1/n); '
                     'the spline then repeats each knot): %s' % (odd or 'none'))
    # error paths: interval >= 1 and a single point raise; the model returns None
    for (N, q) in ((3, 1.0), (4, 1.5), (1, 0.25)):
        pts = torch.tensor([[dy(rng, 4, 4.0)] for _ in range(N)], dtype=torch.float64)
        try:
            pp.chspline(pts, q)
            raised = False
        except Exception:
            raised = True
        i = len(chs_meta)
        ctx.case(('chs-raise', N, q), branch='chspline:raises')
        chs_meta.append(dict(kind='chspline-raises', N=N, q=q, raised=raised))
        kk = arange_k(torch, q) if q > 0 else 0
        if raised:
            chs_lits.append('(%d%%nat, %d%%nat, %s, %s, None, 0)' % (i, kk, qlit(q), qlist(pts.reshape(-1).tolist())))
        else:
            ctx.mismatch('chspline-raises', chs_meta[-1])
    for si, sh in enumerate(shard(chs_lits, 40)):
        files.append(('chs_%03d' % si, HDR_Q + 'Eval vm_compute in chs_bad %s.\n' % coq_list(sh)))
    if cnt_lits:
        files.append(('cnt_000', HDR_Q + 'Eval vm_compute in cnt_bad %s.\n' % coq_list(cnt_lits)))

    tA = time.time() - ctx.t0
    # ================================================================ B: bspline
    bsq_meta, bsq_lits = [], []
    bplan = []
    for N in (4, 5, 6, 60):
        bplan.append((N, 1, 4, False))
    for N in (1, 2, 3, 4, 60):
        bplan.append((N, 1, 2, True))
    bplan += [(3, 1, 4, False), (2, 1, 4, False)]                   # too few poses: raises
    for _ in range(ctx.scale(14, 150)):
        a, b = rng.choice(INTERVALS)
        ex = rng.random() < 0.4
        bplan.append((rng.randint(1 if ex else 4, 60), a, b, ex))
    for (N, a, b, ex) in bplan:
        q = a / b
        k = arange_k(torch, q)
        sh = rng.choice([(), (), (2,), (2, 2)])
        n = N * 3
        for s in sh:
            n *= s
        T = torch.tensor([dy(rng, 3, 8.0) for _ in range(n)], dtype=torch.float64).reshape(tuple(sh) + (N, 3))
        Q = torch.zeros(tuple(sh) + (N, 4), dtype=torch.float64)
        Q[..., 3] = 1.0
        X = pp.SE3(torch.cat([T, Q], -1))
        ctx.case(('bsq', N, a, b, ex, sh), branch='bspline:translation:%s' % ('extrapolate' if ex else 'plain'))
        try:
            out = pp.bspline(X, q, ex)
            raised = None
        except Exception as e:
            out, raised = None, repr(e)[:100]
        rep = dict(kind='bspline-translation', trans=T.tolist(), a=a, b=b, extrapolate=ex)
        if out is not None:
            ot = out.tensor()
            dq = (ot[..., 3:] - torch.tensor([0, 0, 0, 1.0], dtype=torch.float64)).abs().max().item()
            Np = N + 4 if ex else N
            if ot.shape[-2] != (Np - 3) * k + 1:
                viol('bspline:count', 'bspline returned %d samples for %d poses (extrapolate=%s), interval %s' % (ot.shape[-2], N, ex, q), rep)
                continue
            if dq > 1e-14:
                viol('bspline:translation-only', 'bspline of pure translations returned a rotation (quaternion deviation %g)' % dq, rep)
                continue
        ti = T.reshape(-1, N, 3)
        cols = [(bi, d) for bi in range(ti.shape[0]) for d in range(3)]
        rng.shuffle(cols)
        for (bi, d) in cols[:ctx.scale(2, 4)]:
            i = len(bsq_meta)
            bsq_meta.append(dict(rep, column=(bi, d), raised=raised))
            o = 'None' if out is None else '(Some %s)' % qlist(out.tensor().reshape(-1, out.shape[-2], 7)[bi, :, d].tolist())
            bsq_lits.append('(%d%%nat, %d%%nat, %s, %s, %s, %s, %s)' % (
                i, k, qlit(q), cbool(ex), qlist(ti[bi, :, d].tolist()), o, qlit(TOLQ * 64)))
    for si, sh in enumerate(shard(bsq_lits, 40)):
        files.append(('bsq_%03d' % si, HDR_Q + 'Eval vm_compute in bsq_bad %s.\n' % coq_list(sh)))
    # law checks on general poses
    lplan = [(4, 1, 4), (5, 1, 2), (8, 1, 10), (60, 1, 5), (17, 3, 10)]
    for _ in range(ctx.scale(8, 100)):
        a, b = rng.choice(INTERVALS)
        lplan.append((rng.randint(4, 60), a, b))
    for li, (N, a, b) in enumerate(lplan):
        data = [rand_pose(rng) for _ in range(N)]
        wins = sorted(set([0, N - 4] + [rng.randrange(N - 3) for _ in range(3)]))
        G = rand_pose(rng, 5.0)
        xi = [rng.uniform(-1, 1) for _ in range(3)] + [v * rng.uniform(0.05, 2.6) for v in small_q(rng, math.pi)[:3]]
        T0 = rand_pose(rng)
        checks = [('count', data, None), ('continuity', data, wins), ('left', data, dict(G=G)),
                  ('twist', None, dict(T0=T0, xi=xi, N=N)), ('endpoints', data, None),
                  ('endpoints', data[:rng.randint(1, 3)], None)]
        if N <= 12 or li % 3 == 0:
            bsh = rng.choice([(1,), (2,), (3,), (2, 2), (2, 1, 2), (1, 3)])
            checks.append(('batch', None, dict(sh=list(bsh), items=[[rand_pose(rng) for _ in range(N)] for _ in range(numel(bsh))])))
        for which, dat, extra in checks:
            ctx.case(('bs-law', which, N, a, b, repr(extra)[:40]), branch='bspline:law:' + which)
            why = bs_laws(pp, torch, dat, a, b, which, extra)
            if why:
                viol('bspline:' + which, why, dict(kind='bspline-law', which=which, data=dat, a=a, b=b, extra=extra))
    ctx.traces += len(lplan)

    tB = time.time() - ctx.t0
    # ================================================================ C: metrics
    mmeta, mlits = [], []
    sizes = [3, 4, 5, 8, 13, 30, 200] + [rng.randint(3, 200) for _ in range(ctx.scale(2, 40))]
    ci = 0
    for n in sizes:
        kind = 'exact' if ci % 3 == 0 else 'short'
        ref = gen_traj(rng, n, kind) if kind == 'exact' else short_traj(rng, n)
        est = short_traj(rng, n, ref) if kind == 'short' else gen_traj(rng, n, 'exact')
        dt, diff = 0.1, rng.choice([0.01, 0.02])
        t0 = rng.choice([0.0, 1311868163.0])
        rst = [t0 + i * dt for i in range(n)]
        est_st = [t + rng.uniform(-0.4, 0.4) * diff for t in rst]
        est_st.sort()
        estp = list(est)
        mode = ci % 5
        if mode == 1 and n > 4:          # estimate misses some poses
            keep = sorted(rng.sample(range(n), max(3, n - rng.randint(1, n // 3 + 1))))
            est_st, estp = [est_st[i] for i in keep], [estp[i] for i in keep]
        elif mode == 2 and n > 4:        # reference misses some poses (estimate longer)
            keep = sorted(rng.sample(range(n), max(3, n - rng.randint(1, n // 3 + 1))))
            rst, ref = [rst[i] for i in keep], [ref[i] for i in keep]
        elif mode == 3:                  # some estimate stamps too far away: unmatched
            for i in rng.sample(range(len(est_st)), max(1, len(est_st) // 5)):
                if 0 < i < len(est_st) - 1:
                    est_st[i] = rst[i] + 2.5 * diff
            est_st.sort()
        offset = 0.0
        if mode == 4:                    # estimate clock behind by `offset` seconds, compensated by offset=
            offset = 0.5
            est_st = [t - offset for t in est_st]
        nostamps = (ci % 7 == 6) and len(rst) == len(est_st)
        base = dict(rstamp=None if nostamps else rst, rpose=ref, estamp=None if nostamps else est_st, epose=estp,
                    diff=diff, offset=0.0 if nostamps else offset)
        ci += 1
        variants = []
        ets = ['translation', 'rotation', 'pose']
        for _ in range(ctx.scale(3, 5)):
            al = rng.choice([(False, False, False), (False, False, False), (True, False, False), (True, True, False),
                             (False, True, False), (False, False, True)])
            if (kind == 'exact' or n > 40) and (al[0] or al[1]):
                al = (False, False, True)            # the SVD result has 53-bit entries: keep those cases small
            v = dict(base, rpe=rng.random() < 0.6, etype=rng.choice(ets), align=al[0], scale=al[1], origin=al[2])
            if v['rpe']:
                v.update(associate=rng.choice(['frame', 'frame', 'distance']), all=rng.random() < 0.5, rpair=rng.random() < 0.5,
                         rtol=rng.choice([0.1, 0.25]))
                v['delta'] = float(rng.choice([1, 1, 2, 3, 5])) if v['associate'] == 'frame' else \
                    (float(rng.choice([1, 2, 3, 4])) if kind == 'exact' else round(rng.uniform(0.8, 4.0), 3))
            variants.append(v)
        for v in variants:
            res, svd, err = call_metric(pp, torch, v)
            i = len(mmeta)
            br = '%s:%s:%s%s' % ('rpe' if v['rpe'] else 'ape', v['etype'], v.get('associate', ''),
                                 ':align' if v['align'] or v['scale'] else (':origin' if v['origin'] else ''))
            ctx.case(('metric', i, n, br), nontrivial=True, branch=br if res is not None else br + ':raises',
                     sample=dict(call='rpe' if v['rpe'] else 'ape', poses=n, options={k: v[k] for k in v if k not in ('rpose', 'epose', 'rstamp', 'estamp')},
                                 result=res) if i % 23 == 4 else None)
            mmeta.append(dict(kind='metric', case=v, res=res, err=err))
            mlits.append(mcase_lit(i, v, res, svd))
            why = metric_laws(pp, torch, v, 'order')
            if why:
                viol('%s:stats-order' % ('rpe' if v['rpe'] else 'ape'), why, dict(kind='metric-law', which='order', case=v))
    # shard by total size: large trajectories alone
    cur, cur_n = [], 0
    mfiles = []
    for lit, m in zip(mlits, mmeta):
        w = len(m['case']['rpose']) + len(m['case']['epose'])
        if cur and cur_n + w > 500:
            mfiles.append(cur)
            cur, cur_n = [], 0
        cur.append(lit)
        cur_n += w
    if cur:
        mfiles.append(cur)
    for si, sh in enumerate(mfiles):
        files.append(('met_%03d' % si, HDR_Q + 'Eval vm_compute in metric_bad %s.\n' % coq_list(sh)))
    # pairs_by_frames on its own, exact
    import pypose.metric.ape_rpe as M
    pf_lits, pf_meta = [], []
    for _ in range(ctx.scale(60, 600)):
        n = rng.choice([1, 2, 3, 4, 5, 7, 10, 33, 200, rng.randint(1, 200)])
        d = rng.choice([0, 1, 1, 2, 3, 5, n - 1, n, n + 1, rng.randint(1, 12)])
        allp = rng.random() < 0.5
        tr = M.StampedSE3(None, pp.identity_SE3(n).to(torch.float64))
        try:
            s, t = M.pairs_by_frames(tr, d, allp)
            out = '(Some (%s, %s))' % (coq_list('%d%%nat' % x for x in s), coq_list('%d%%nat' % x for x in t))
        except AssertionError:
            out = 'None'
        ctx.case(('pf', n, d, allp), branch='pairs_by_frames:%s' % ('all' if allp else 'consecutive'))
        pf_meta.append(dict(kind='pairs_by_frames', n=n, delta=d, all=allp))
        pf_lits.append('(%d%%nat, %d%%nat, (%d)%%Z, %s, %s)' % (len(pf_meta) - 1, n, d, cbool(allp), out))
    files.append(('pf_000', HDR_Q + 'Eval vm_compute in pf_bad %s.\n' % coq_list(pf_lits)))

    tC = time.time() - ctx.t0
    # ---------------------------------------------------------------- law checks, every error type
    lawn = ctx.scale(10, 60)
    for li in range(lawn):
        n = [3, 4, 200][li] if li < 3 else rng.randint(3, 200)
        ref = gen_traj(rng, n, 'generic')
        est = perturb(rng, ref)
        diff = 0.01
        rst = [1311868163.0 + i * 0.05 for i in range(n)]
        est_st = sorted(t + rng.uniform(-0.4, 0.4) * diff for t in rst)
        for et in ['translation', 'rotation', 'pose', 'radian', 'degree']:
            base = dict(rstamp=rst, rpose=ref, estamp=est_st, epose=est, diff=diff, offset=0.0, etype=et,
                        align=False, scale=False, origin=False)
            rp = dict(base, rpe=True, associate=rng.choice(['frame', 'distance']), all=rng.random() < 0.5, rpair=rng.random() < 0.5,
                      rtol=0.1)
            rp['delta'] = float(rng.choice([1, 2, 3])) if rp['associate'] == 'frame' else round(rng.uniform(0.3, 1.5), 3)
            ap = dict(base, rpe=False)
            G = rand_pose(rng, 4.0)
            S = rand_pose(rng, 4.0) + [math.exp(rng.uniform(-0.7, 0.7))]
            jobs = [(rp, 'order', None), (ap, 'order', None),
                    (dict(ap, epose=ref, estamp=rst, origin=rng.random() < 0.3), 'identical', None),
                    (dict(rp, epose=ref, estamp=rst), 'identical', None),
                    (rp, 'left-r', dict(G=G)), (rp, 'left-e', dict(G=G)),
                    (dict(ap, align=True), 'align-rigid', dict(S=S[:7] + [1.0])),
                    (dict(ap, align=True, scale=True), 'align-sim', dict(S=S)),
                    (dict(ap, scale=True), 'align-sim', dict(S=S))]
            if et in ('radian', 'degree'):
                jobs.append((dict(ap, estamp=rst), 'angle-oracle', None))
                jobs.append((dict(rp, estamp=rst, associate='frame', delta=float(rng.choice([1, 2]))), 'angle-oracle', None))
            for (c, which, extra) in jobs:
                ctx.case(('mlaw', li, et, which, c['rpe']), branch='metric-law:%s:%s' % (which, et))
                why = metric_laws(pp, torch, c, which, extra)
                if why:
                    viol('%s:%s:%s' % ('rpe' if c['rpe'] else 'ape', which, et), why, dict(kind='metric-law', which=which, case=c, extra=extra))
    ctx.traces += lawn

    tD = time.time() - ctx.t0
    # ================================================================ D: geodesic loss
    gcases, gmeta = [], []
    gn = ctx.scale(24, 200)
    for gi in range(gn):
        g = GROUPS[gi % 4]
        B = 1 + (gi // 4) % 3
        kind = ['hurwitz', 'hurwitz', 'dyadic', 'same', 'opposite'][gi % 5]
        xs, ys = [], []
        for _ in range(B):
            qx = list(rng.choice(HURWITZ))
            qy = list(rng.choice(HURWITZ))
            if kind == 'dyadic':
                qx = [dy(rng, 3, 1.0) for _ in range(4)]
                if sum(v * v for v in qx) < 0.1:
                    qx[3] = 1.0
            elif kind == 'same':
                qy = list(qx)
            elif kind == 'opposite':
                qy = [-v for v in qx]
            t = [dy(rng, 3, 2.0) for _ in range(3)]
            s = rng.choice([0.5, 1.0, 2.0])
            xs.append(join_elt(g, t, qx, s))
            ys.append(join_elt(g, [dy(rng, 3, 2.0) for _ in range(3)], qy, s))
        red = gi % 3
        X, Y = LT(pp, torch, g, xs), LT(pp, torch, g, ys)
        try:
            out = pp.geodesic_loss(X, Y, ['none', 'mean', 'sum'][red]).reshape(-1).tolist()
        except Exception as e:
            viol('geodesic:raises', 'geodesic_loss raised %r' % (e,), dict(kind='geodesic', ltype=g, xs=xs, ys=ys))
            continue
        if any(not math.isfinite(v) for v in out):
            viol('geodesic:non-finite', 'geodesic_loss returned %s' % out, dict(kind='geodesic', ltype=g, xs=xs, ys=ys))
            continue
        ctx.case(('geo', g, kind, red, B, tuple(map(tuple, xs))), nontrivial=(kind not in ('same',)), branch='geodesic:%s:%s:%s' % (g, kind, ['none', 'mean', 'sum'][red]),
                 sample=dict(call='geodesic_loss', ltype=g, x=xs, y=ys, reduction=['none', 'mean', 'sum'][red], out=out) if gi % 17 == 2 else None)
        gmeta.append(dict(kind='geodesic', ltype=g, xs=xs, ys=ys, red=red, out=out))
        gcases.append(dict(idx=len(gmeta) - 1, expr='geodesic_l %s %d %d %s %s' % (EPSL, GID[g], red, coq_list(rlist(v) for v in xs), coq_list(rlist(v) for v in ys)),
                           comps=[(j, out[j], 1e-12 * (B if red == 2 else 1)) for j in range(len(out))]))
    # law checks on generic elements of all eight types
    for gi in range(ctx.scale(24, 400)):
        lt = ALGS8[gi % 8]
        B = rng.randint(1, 5)
        kind = gi % 3
        if lt[0].isupper():
            xs = [generic_elt(rng, lt, torch, torch.float64) for _ in range(B)]
            ys = [generic_elt(rng, lt, torch, torch.float64) for _ in range(B)]
            if kind == 1:      # nearly equal / nearly opposite rotations
                ys = [list(x) for x in xs]
        else:
            dim = ADIM[GROUPS[ALGS.index(lt)]]
            xs = [[rng.uniform(-1.5, 1.5) for _ in range(dim)] for _ in range(B)]
            ys = [[rng.uniform(-1.5, 1.5) for _ in range(dim)] for _ in range(B)]
        ctx.case(('geo-law', lt, gi), branch='geodesic-law:' + lt)
        why = geo_laws(pp, torch, lt, xs, ys)
        if why:
            viol('geodesic:%s' % ('range' if 'outside' in why else ('symmetry' if 'symmetric' in why else 'angle')), why,
                 dict(kind='geodesic-law', ltype=lt, xs=xs, ys=ys))

    # batch shapes (unbatched, multi-dimensional, broadcasting, empty), memory layouts, call forms, mixed types
    for gi in range(ctx.scale(90, 900)):
        c = gen_geo_shape(rng, torch, gi)
        bs = bcast_shape(c['sx'], c['sy'])
        ctx.case(('geo-shape', gi, c['lx'], c['ly'], tuple(c['sx']), tuple(c['sy']), c['layx'], c['layy'], repr(c['xs'][:1])),
                 branch='geodesic-shape:%s:%s' % ('empty' if bs is not None and numel(bs) == 0 else ('unbatched' if bs == () else
                        ('broadcast' if tuple(c['sx']) != tuple(c['sy']) else '%d-D' % len(bs))), 'mixed-types' if c['lx'] != c['ly'] else 'same-type'),
                 sample=dict(call='geodesic_loss', input=c['lx'] + str(c['sx']), target=c['ly'] + str(c['sy']), layouts=[c['layx'], c['layy']]) if gi % 37 == 9 else None)
        why = geo_shape_laws(pp, torch, c)
        if why:
            viol(geo_key(why), why, c)

    tE = time.time() - ctx.t0
    # ================================================================ E: autograd states and boundary rotations
    # geodesic_loss: arguments requiring grad / Parameters / grad modes, angles from exactly zero over 1e-9 .. 1e-2 to pi
    for gi in range(ctx.scale(16, 120)):
        c = gen_geo_grad(rng, torch, gi)
        ctx.case(('geo-grad', gi, c['lx'], c['ly'], repr(c['xs'][:1])), nontrivial=True, branch='geodesic-grad:%s:%s' % (c['lx'], 'same-type' if c['lx'] == c['ly'] else 'mixed-types'),
                 sample=dict(call='geodesic_loss', input=c['lx'], target=c['ly'], states=len(GRAD_MODES)) if gi % 9 == 2 else None)
        why = geo_grad_laws(pp, torch, c)
        if why:
            viol(geo_key(why), why, c)
    # ape / rpe: pose errors that are boundary rotations (exact half turns, identity, next to pi, tiny), every error type,
    # pairing options; order chain with NaN counted as a violation, radian / degree against the angle oracle, rpe invariance
    for bi in range(ctx.scale(20, 160)):
        scen, refk, small, base = gen_boundary_metric(rng, bi)
        G = rand_pose(rng, 4.0)
        for et in ['translation', 'rotation', 'pose', 'radian', 'degree']:
            ap = dict(base, etype=et, rpe=False)
            rps = [dict(base, etype=et, rpe=True, associate='frame', delta=float(dl), all=al, rpair=rpr, rtol=0.1)
                   for (dl, al, rpr) in ((1, False, False), (1, True, bi % 2 == 0), (2, bi % 2 == 1, True))
                   if dl < len(base['rpose'])]
            rd = dict(base, etype=et, rpe=True, associate='distance', delta=round(rng.uniform(0.3, 1.5), 3), all=bi % 2 == 0,
                      rpair=bi % 3 == 0, rtol=0.1)
            jobs = [(ap, 'order', None), (dict(ap, origin=True), 'order', None), (rd, 'order', None)]
            jobs += [(rp, 'order', None) for rp in rps]
            if et in ('radian', 'degree'):
                ex = dict(abs_tol=1e-10) if small else None
                jobs += [(ap, 'angle-oracle', ex)] + [(rp, 'angle-oracle', ex) for rp in rps]
            jobs += [(rps[bi % len(rps)], 'left-r', dict(G=G)), (rps[(bi + 1) % len(rps)], 'left-e', dict(G=G))]
            if bi % 5 == 0:
                jobs += [(ap, 'grad-state', None), (rps[0], 'grad-state', None)]
            for (c, which, extra) in jobs:
                ctx.case(('mbound', bi, et, which, c['rpe'], c.get('delta'), c.get('all'), c['origin']), nontrivial=True,
                         branch='metric-boundary:%s:%s:%s' % (scen, which, et),
                         sample=dict(call='rpe' if c['rpe'] else 'ape', scenario=scen, reference=refk, etype=et, law=which, poses=len(c['rpose'])) if (bi * 5 + len(et)) % 31 == 7 and which == 'order' else None)
                why = metric_laws(pp, torch, c, which, extra)
                if why:
                    viol('%s:%s:%s' % ('rpe' if c['rpe'] else 'ape', which, et), 'pose errors of kind %r (reference %s): %s' % (scen, refk, why),
                         dict(kind='metric-law', which=which, case=c, extra=extra))
    ctx.traces += ctx.scale(20, 160)
    # ape / rpe on generic trajectories (small rotation errors) in every autograd state
    for li in range(ctx.scale(3, 20)):
        n = rng.randint(3, 40)
        ref = gen_traj(rng, n, 'generic')
        est = perturb(rng, ref, sigma_r=rng.choice([1e-6, 1e-3, 0.05]))
        rst = [0.05 * i for i in range(n)]
        for et in ['translation', 'rotation', 'pose', 'radian', 'degree']:
            base = dict(rstamp=rst, rpose=ref, estamp=rst, epose=est, diff=0.01, offset=0.0, etype=et, align=li % 3 == 1, scale=False, origin=li % 3 == 2)
            for c in (dict(base, rpe=False), dict(base, rpe=True, associate='frame', delta=1.0, all=li % 2 == 0, rpair=False, rtol=0.1, align=False)):
                ctx.case(('mgrad', li, et, c['rpe']), nontrivial=True, branch='metric-grad:%s:%s' % ('rpe' if c['rpe'] else 'ape', et))
                why = metric_laws(pp, torch, c, 'grad-state')
                if why:
                    viol('%s:grad-state:%s' % ('rpe' if c['rpe'] else 'ape', et), why, dict(kind='metric-law', which='grad-state', case=c, extra=None))
    # splines in every autograd state
    for si in range(ctx.scale(6, 40)):
        a, b = rng.choice(INTERVALS)
        if si % 2 == 0:
            sh = rng.choice([(), (2,), (2, 2)])
            pts, _ = gen_points(rng, torch, rng.randint(2, 12), sh, rng.randint(1, 4), si % 4 == 0)
            c = dict(kind='spline-grad', fn='chspline', data=pts.tolist(), a=a, b=b, extrapolate=False)
        else:
            N = rng.randint(4, 10)
            c = dict(kind='spline-grad', fn='bspline', data=[[rand_pose(rng) for _ in range(N)] for _ in range(rng.randint(1, 2))], a=a, b=b,
                     extrapolate=si % 4 == 1)
        ctx.case(('spline-grad', si, c['fn'], a, b, c['extrapolate'], repr(c['data'])[:40]), nontrivial=True, branch='spline-grad:' + c['fn'])
        why = spline_grad_laws(pp, torch, c)
        if why:
            viol('%s:autograd-state' % c['fn'], why, c)

    # ================================================================ run Coq
    ctx.notes.append('python part (proof build, implementation calls, law checks), cumulative seconds after chspline / bspline / metric ties / metric laws / geodesic / autograd states and boundary rotations: %.0f %.0f %.0f %.0f %.0f %.0f' % (tA, tB, tC, tD, tE, time.time() - ctx.t0))
    from concurrent.futures import ThreadPoolExecutor as _TPE
    _ex = _TPE(max_workers=1)
    _fut = _ex.submit(run_enclosure, 'C19', 'Model.LieGroup Model.LieExp Model.LieLog Model.Spline Model.Metric', gcases,
                      80, ctx.scale(6, 20), 150, 'geo')
    res = run_case_files('C19', files, timeout=1200)
    fam_meta = dict(chs=chs_meta, cnt=cnt_meta, bsq=bsq_meta, met=None, pf=pf_meta)
    bad = dict(chs=[], cnt=[], bsq=[], met=[], pf=[])
    for name, (rc, out) in sorted(res.items()):
        ev = parse_evals(out)
        if rc != 0 or len(ev) != 1:
            ctx.obligation_broken('correspondence-file:' + name, out[-1500:])
            continue
        bad[name.split('_')[0]] += parse_nat_list(ev[0])
    r = _fut.result()
    _ex.shutdown()
    for name, out in r['broken']:
        ctx.obligation_broken('correspondence-file:' + name, out)
    ctx.notes.append('geodesic enclosure: %d proved within 1e-12, %d proved outside, %d undecided' % (len(r['ok']), len(set(i for i, _ in r['bad'])), len(r['undecided'])))
    ctx.hist['geodesic:undecided'] = len(r['undecided'])
    if len(r['undecided']) > max(3, len(gcases) // 10):
        ctx.obligation_broken('enclosure-undecided', '%d of %d geodesic cases undecided, e.g. %s' % (len(r['undecided']), len(gcases), [gmeta[i] for i in r['undecided'][:2]]))
    ctx.traces += len(r['ok'])

    # ================================================================ mismatches -> search
    for i in bad['chs']:
        m = chs_meta[i]
        mm = dict(family='chspline', case=dict(m, points=None) if m.get('points') and len(str(m['points'])) > 3000 else m, detail='')
        ctx.mismatches.append(mm)
        if m['kind'] == 'chspline':
            pts = torch.tensor(m['points'], dtype=torch.float64)
            why = chs_laws(pp, torch, pts, m['a'], m['b'], m['line'])
            if not why:
                # straight lines through the same knots / shapes
                for _ in range(20):
                    p2, ln = gen_points(rng, torch, pts.shape[-2], pts.shape[:-2], pts.shape[-1], True)
                    why = chs_laws(pp, torch, p2, m['a'], m['b'], ln)
                    if why:
                        pts, m = p2, dict(m, line=ln)
                        break
            if why:
                mm['explained'] = True
                viol(chs_key(why), why, chs_case_dict(pts, m['a'], m['b'], m['line']))
    for i in bad['cnt']:
        m = cnt_meta[i]
        mm = dict(family='chspline-count', case=dict(a=m['a'], b=m['b'], k=m['k']), detail='')
        ctx.mismatches.append(mm)
        # the property's own count: multiples j * (a/b) < 1, exact integers
        true_k = len([j for j in range(0, m['b'] + 1) if j * m['a'] < m['b']])
        if true_k != m['k']:
            mm['explained'] = True
            viol('chspline:count', 'interval %d/%d has %d multiples in [0,1) but chspline uses k = %d samples per unit interval' % (m['a'], m['b'], true_k, m['k']),
                 dict(kind='chspline-k', a=m['a'], b=m['b']))
    for i in bad['bsq']:
        m = bsq_meta[i]
        mm = dict(family='bspline-translation', case=m, detail='')
        ctx.mismatches.append(mm)
        # independent oracle: on pure translations the spline is the cumulative B-spline polynomial; check the
        # clauses (constant velocity = constant twist, end points, continuity) on the same knots
        N = torch.tensor(m['trans']).shape[-2]
        base = torch.tensor(m['trans'], dtype=torch.float64).reshape(-1, N, 3)[m['column'][0]]
        data = [row.tolist() + [0.0, 0.0, 0.0, 1.0] for row in base]
        for which, dat, extra in (('count', data, None), ('continuity', data, list(range(max(0, N - 4)))[:6]),
                                  ('endpoints', data, None), ('twist', None, dict(T0=data[0], xi=[1.0, -0.5, 0.25, 0, 0, 0], N=max(N, 4)))):
            if which in ('count', 'continuity') and N < 4:
                continue
            why = bs_laws(pp, torch, dat, m['a'], m['b'], which, extra)
            if why:
                mm['explained'] = True
                viol('bspline:' + which, why, dict(kind='bspline-law', which=which, data=dat, a=m['a'], b=m['b'], extra=extra))
                break
    for i in bad['met']:
        m = mmeta[i]
        c = m['case']
        slim = {k: c[k] for k in c if k not in ('rpose', 'epose', 'rstamp', 'estamp')}
        mm = dict(family='metric:%s:%s' % ('rpe' if c['rpe'] else 'ape', c['etype']), case=dict(options=slim, poses=(len(c['rpose']), len(c['epose'])), impl=m['res'], err=m['err']), detail='')
        ctx.mismatches.append(mm)
        G = rand_pose(rng, 4.0)
        S = rand_pose(rng, 4.0) + [1.3]
        tries = [(c, 'order', None), (dict(c, epose=c['rpose'], estamp=c['rstamp'], align=False, scale=False), 'identical', None)]
        if c['rpe'] and not (c['align'] or c['scale'] or c['origin']):
            tries += [(c, 'left-r', dict(G=G)), (c, 'left-e', dict(G=G))]
        if not c['rpe']:
            tries += [(dict(c, align=True, scale=False, origin=False), 'align-rigid', dict(S=S[:7] + [1.0])),
                      (dict(c, align=True, scale=True, origin=False), 'align-sim', dict(S=S))]
        for (cc, which, extra) in tries:
            why = metric_laws(pp, torch, cc, which, extra)
            if why:
                mm['explained'] = True
                viol('%s:%s:%s' % ('rpe' if cc['rpe'] else 'ape', which, cc['etype']), why, dict(kind='metric-law', which=which, case=cc, extra=extra))
                break
    for i in bad['pf']:
        m = pf_meta[i]
        mm = dict(family='pairs_by_frames', case=m, detail='')
        ctx.mismatches.append(mm)
        why = pf_oracle(pp, torch, m['n'], m['delta'], m['all'])
        if why:
            mm['explained'] = True
            viol('rpe:pairs_by_frames', why, m)
    for i in sorted(set(i for i, _ in r['bad'])):
        m = gmeta[i]
        mm = dict(family='geodesic:' + m['ltype'], case=m, detail='')
        ctx.mismatches.append(mm)
        why = geo_laws(pp, torch, m['ltype'], m['xs'], m['ys'])
        if why:
            mm['explained'] = True
            viol('geodesic:%s' % ('range' if 'outside' in why else ('symmetry' if 'symmetric' in why else 'angle')), why,
                 dict(kind='geodesic-law', ltype=m['ltype'], xs=m['xs'], ys=m['ys']))
    ctx.exhaustive = False


def pf_oracle(pp, torch, n, d, allp):
    """pairs by index distance as the docstring states them"""
    import pypose.metric.ape_rpe as M
    tr = M.StampedSE3(None, pp.identity_SE3(n).to(torch.float64))
    try:
        s, t = M.pairs_by_frames(tr, d, allp)
    except AssertionError:
        return None if d < 1 else 'pairs_by_frames raised for delta = %d' % d
    if d < 1:
        return 'pairs_by_frames accepted delta = %d' % d
    exp = [(i, i + d) for i in range(n) if i + d < n] if allp else [(i, i + d) for i in range(0, n, d) if i + d < n]
    if list(zip(s, t)) != exp:
        return 'pairs_by_frames(n=%d, delta=%d, all=%s) = %s, expected %s' % (n, d, allp, list(zip(s, t))[:8], exp[:8])
    return None


def replay(ctx, c):
    pp = import_pypose()
    import torch
    k = c.get('kind')
    if k == 'chspline':
        return chs_laws(pp, torch, torch.tensor(c['points'], dtype=torch.float64), c['a'], c['b'], c.get('line'))
    if k == 'chspline-k':
        kk = arange_k(torch, c['a'] / c['b'])
        true_k = len([j for j in range(0, c['b'] + 1) if j * c['a'] < c['b']])
        return None if kk == true_k else 'interval %d/%d: %d multiples in [0,1), k = %d' % (c['a'], c['b'], true_k, kk)
    if k == 'arange':
        kk = arange_k(torch, 1.0 / c['n'])
        return None if kk in (c['n'], c['n'] + 1) else 'torch.arange(0,1,1/%d) has %d entries' % (c['n'], kk)
    if k == 'bspline-law':
        return bs_laws(pp, torch, c['data'], c['a'], c['b'], c['which'], c.get('extra'))
    if k == 'bspline-translation':
        T = torch.tensor(c['trans'], dtype=torch.float64)
        Q = torch.zeros(T.shape[:-1] + (4,), dtype=torch.float64)
        Q[..., 3] = 1.0
        try:
            out = pp.bspline(pp.SE3(torch.cat([T, Q], -1)), c['a'] / c['b'], c['extrapolate'])
        except Exception as e:
            return 'bspline raised %r' % (e,)
        N = T.shape[-2] + (4 if c['extrapolate'] else 0)
        kk = arange_k(torch, c['a'] / c['b'])
        if out.shape[-2] != (N - 3) * kk + 1:
            return 'bspline returned %d samples' % out.shape[-2]
        dq = (out.tensor()[..., 3:] - torch.tensor([0, 0, 0, 1.0], dtype=torch.float64)).abs().max().item()
        return 'bspline of pure translations returned a rotation (%g)' % dq if dq > 1e-14 else None
    if k == 'metric-law':
        return metric_laws(pp, torch, c['case'], c['which'], c.get('extra'))
    if k == 'pairs_by_frames':
        return pf_oracle(pp, torch, c['n'], c['delta'], c['all'])
    if k == 'geodesic-shape':
        return geo_shape_laws(pp, torch, c)
    if k == 'geodesic-grad':
        return geo_grad_laws(pp, torch, c)
    if k == 'spline-grad':
        return spline_grad_laws(pp, torch, c)
    if k in ('geodesic-law', 'geodesic'):
        return geo_laws(pp, torch, c['ltype'], c['xs'], c['ys'])
    return None
