"""C16 correspondence: pypose.module.IMUPreintegrator vs coq/Model/IMU.v.

The model takes, per frame, the rotation increment Exp(gyro*dt) and its right Jacobian as the
implementation itself computes them (pp.so3(gyro*dt).Exp(), .Jr()) - the two external routines of the
model - and everything else (prefix products, gravity removal, prefix sums, predict, buffers carried
between calls, covariance propagation, rank normalisation) is evaluated by Coq:

  exact route (Q)      : gyro = 0 (increments are exactly the identity), Hurwitz-unit rotations, dyadic
                         accelerations / gravity / covariances, dt a power of two -> float64 performs no
                         rounding for rot / vel / pos and the comparison is equality (tolerance 0); the
                         covariance is compared with tolerance 0 for short coarse streams, else K eps;
  tolerance route (fx) : arbitrary gyro / acc / dt / chunkings / batch sizes / dtypes; Coq evaluates the model
                         in 256-bit fixed point on the implementation's float inputs and increments and checks
                         |model - impl| <= (32 + 4 N) eps scale (N = frames fed since construction).
  Cases reach Coq as a flat stream of primitive 63-bit integer literals (Model/IMU.v [decode]): Z / Q
  literals cost ~1 ms each to elaborate, primitive ones ~30 us.

Independently of the Coq model, every scenario is also checked against the property's own statement:
a sequential 50-digit mpmath recursion written from the property text (rot / vel / pos), one call vs
consecutive chunks with reset=False, rank equivalence (H) / (F,H) / (B,F,H), covariance symmetric PSD.
"""
import math
from ..common import *

PID = 'C16'
RULE = ('a scenario = one module object + a list of calls (chunks of one stream); exact route: gyro = 0, Hurwitz-unit '
        'rotations, dyadic data, dt = 2^-k: float64 == model over Q (tolerance 0 for rot/vel/pos); tolerance route: '
        'generic float inputs, model evaluated by Coq in 256-bit fixed point on the implementation\'s own increments, '
        '|model-impl| <= (32+4 N) eps scale (N = frames since construction); every scenario also checked against a '
        'sequential mpmath recursion written from the property text, chunked-vs-single, rank equivalence, cov symmetric PSD; '
        'a scenario is non-trivial when it has >= 2 frames; distinct = distinct (route, dtype, B, chunking, flags, data hash)')
EPS = {'float64': 2.0 ** -52, 'float32': 2.0 ** -23}
KEY_COV = 'IMUPreintegrator.forward:cov:one-call-vs-chunks:F>=3'
STATS = {'oracle': 0.0, 'chunks': 0.0}     # worst observed error / tolerance (margins recorded in the evidence)

HURWITZ = []
for _i in range(4):
    for _s in (1.0, -1.0):
        _q = [0.0] * 4
        _q[_i] = _s
        HURWITZ.append(_q)
import itertools as _it
for _sg in _it.product((0.5, -0.5), repeat=4):
    HURWITZ.append(list(_sg))


# ------------------------------------------------------------------------------------------------
# literals
def dyad(x):
    f = Fraction(float(x))
    return f.numerator, f.denominator.bit_length() - 1


class Enc:
    """flat stream of 63-bit words read by Model/IMU.v [decode]: counts, flags, numbers.
    a number x = (-1)^s m / 2^k is the two words (2 m + s, k + 1100)"""

    def __init__(self):
        self.w = []

    def nat(self, n):
        self.w.append(int(n))

    def boo(self, b):
        self.w.append(1 if b else 0)

    def num(self, x):
        x = float(x)
        if x == 0.0:
            m, k = 0, 0
        else:
            mant, ex = math.frexp(abs(x))
            m, k = int(mant * (1 << 53)), 53 - ex          # |x| = m / 2^k exactly
            while m % 2 == 0:
                m //= 2
                k -= 1
            if k > 250:        # finer than the fixed-point grid: nearest multiple of 2^-250 (error <= 2^-251)
                m, k = int(round(Fraction(abs(x)) * (1 << 250))), 250
        assert -1100 <= k <= 250 and 0 <= m < (1 << 61), x
        self.w += [2 * m + (1 if x < 0 else 0), k + 1100]

    def v3(self, v):
        assert len(v) == 3
        for x in v:
            self.num(x)

    def q(self, v):
        assert len(v) == 4
        for x in v:
            self.num(x)

    def m3(self, rows):
        assert len(rows) == 3
        for r in rows:
            self.v3(r)

    def lst(self, items, item):
        self.nat(len(items))
        for x in items:
            item(x)

    def tens(self, rank, data, item):
        """data: [B][F] items"""
        self.nat(rank)
        if rank == 1:
            item(data[0][0])
        elif rank == 2:
            self.lst(data[0], item)
        else:
            self.lst(data, lambda row: self.lst(row, item))

    def case(self, idx, sc, run, tols):
        self.nat(idx)
        self.num(run['g'])
        self.v3(run['cg'])
        self.v3(run['ca'])
        self.boo(sc['prop_cov'])
        self.boo(sc['reset'])
        self.v3(sc['pos'])
        self.q(sc['rot'])
        self.v3(sc['vel'])
        triples = list(zip(sc['calls'], run['calls'], tols))     # no calls are recorded when the constructor raised
        self.nat(len(triples))
        for c, r, t in triples:
            rk = c['ranks']
            self.tens(rk[0], c['dt'], self.num)
            self.tens(rk[1], r['inc'], self.q)
            self.tens(rk[1], r['jr'], self.m3)
            self.tens(rk[2], c['acc'], self.v3)
            self.boo(c.get('rot') is not None)
            if c.get('rot') is not None:
                self.tens(rk[3], c['rot'], self.q)
            o = r['out']
            self.boo(o is not None)
            if o is not None:
                self.nat(len(o['rot']))
                for b in range(len(o['rot'])):
                    self.lst(o['rot'][b], self.q)
                    self.lst(o['vel'][b], self.v3)
                    self.lst(o['pos'][b], self.v3)
                    self.boo(o['cov'] is not None)
                    if o['cov'] is not None:
                        self.lst(o['cov'][b], lambda row: self.lst(row, self.num))
            for x in t:
                self.num(x)


def stream_file(mode, cases):
    """cases: list of word lists -> text of a Coq file evaluating imu_bad_<mode>s on them"""
    words = [len(cases)]
    for c in cases:
        words += c
    chunks = [words[i:i + 2000] for i in range(0, len(words), 2000)]
    return HEADER + 'Eval vm_compute in imu_bad_%ss %s.\n' % (mode, coq_list(coq_list(str(x) for x in ch) for ch in chunks))


HEADER = ('From PV Require Import Base.Num Model.IMU.\nFrom Coq Require Import List Uint63.\nImport ListNotations.\n'
          'Open Scope uint63_scope.\n')


# ------------------------------------------------------------------------------------------------
# the implementation
def shaped(torch, data, rank, dtype, last):
    t = torch.tensor(data, dtype=dtype)
    if last == 1:
        t = t.unsqueeze(-1)
    if rank == 2:
        t = t[0]
    elif rank == 1:
        t = t[0, 0]
    return t


def make_module(pp, torch, sc):
    dtype = getattr(torch, sc['dtype'])
    T = lambda x: torch.tensor(x, dtype=dtype)
    gc = sc['gyro_cov'] if isinstance(sc['gyro_cov'], float) else T(sc['gyro_cov'])
    ac = sc['acc_cov'] if isinstance(sc['acc_cov'], float) else T(sc['acc_cov'])
    m = pp.module.IMUPreintegrator(T(sc['pos']), pp.SO3(T(sc['rot'])), T(sc['vel']), gravity=sc['gravity'],
                                   gyro_cov=gc, acc_cov=ac, prop_cov=sc['prop_cov'], reset=sc['reset'])
    return m.to(dtype)


def call_module(pp, torch, m, c, dtype):
    rk = c['ranks']
    dt = shaped(torch, c['dt'], rk[0], dtype, 1)
    gyro = shaped(torch, c['gyro'], rk[1], dtype, 3)
    acc = shaped(torch, c['acc'], rk[2], dtype, 3)
    rot = None if c.get('rot') is None else pp.SO3(shaped(torch, c['rot'], rk[3], dtype, 4))
    return m(dt, gyro, acc, rot)


def run_impl(pp, torch, sc):
    """-> dict(ctor_raised, g, cg, ca, calls=[dict(out, inc, jr)])"""
    dtype = getattr(torch, sc['dtype'])
    try:
        m = make_module(pp, torch, sc)
    except RuntimeError as e:
        return dict(ctor_raised=True, err=str(e)[:200], g=sc['gravity'], cg=[0, 0, 0], ca=[0, 0, 0], calls=[])
    res = dict(ctor_raised=False, g=float(m.gravity[2]), cg=[float(x) for x in m.gyro_cov.reshape(-1)[:3]],
               ca=[float(x) for x in m.acc_cov.reshape(-1)[:3]], calls=[])
    for c in sc['calls']:
        g3 = torch.tensor(c['gyro'], dtype=dtype)
        d3 = torch.tensor(c['dt'], dtype=dtype).unsqueeze(-1)
        if g3.shape[:2] == d3.shape[:2]:
            inc = pp.so3(g3 * d3).Exp()
        else:
            inc = pp.identity_SO3(g3.shape[0], g3.shape[1], dtype=dtype)
        jr = inc.Jr()
        try:
            o = call_module(pp, torch, m, c, dtype)
        except Exception as e:  # the call raised: the model must say None
            o = None
            res.setdefault('errs', []).append(repr(e)[:200])
        out = None
        if o is not None:
            Bn, Fn = len(c['dt']), len(c['dt'][0])
            want = dict(rot=(Bn, Fn, 4), vel=(Bn, Fn, 3), pos=(Bn, Fn, 3))
            got = {k: tuple(o[k].shape) for k in want}
            if o.get('cov') is not None:
                want['cov'], got['cov'] = (Bn, 9, 9), tuple(o['cov'].shape)
            if got != want:
                res.setdefault('shape_errs', []).append('outputs have shapes %s, documented (B, F, H) / (B, 9, 9) = %s' % (got, want))
            else:
                out = dict(rot=o['rot'].tensor().tolist(), vel=o['vel'].tolist(), pos=o['pos'].tolist(),
                           cov=None if o.get('cov') is None else o['cov'].tolist())
        res['calls'].append(dict(out=out, inc=inc.tensor().tolist(), jr=jr.tolist()))
    return res


# ------------------------------------------------------------------------------------------------
# tolerances (absolute, per call): (32 + 4 N) eps * scale, N = frames fed since construction
def tolerances(sc, run, exact=False, cov_exact=False):
    eps = EPS[sc['dtype']]
    tols, N = [], 0
    g = abs(run['g'])
    vmag = math.sqrt(sum(x * x for x in sc['vel']))
    pmag = math.sqrt(sum(x * x for x in sc['pos']))
    A, T = 0.0, 0.0           # velocity budget, elapsed time (worst over the batch)
    for c, r in zip(sc['calls'], run['calls']):
        Fn = max(len(row) for row in c['dt'])
        if not sc['reset']:
            N += Fn
        else:
            N, A, T = Fn, 0.0, 0.0
        a_c, t_c = 0.0, 0.0
        for b in range(len(c['dt'])):
            ab = sum((math.sqrt(sum(x * x for x in c['acc'][b][k])) + g) * abs(c['dt'][b][k])
                     for k in range(min(len(c['dt'][b]), len(c['acc'][b]))))
            a_c = max(a_c, ab)
            t_c = max(t_c, sum(abs(x) for x in c['dt'][b]))
        A += a_c
        T += t_c
        K = (32 + 4 * N) * eps
        cm = 0.0
        if r['out'] is not None and r['out']['cov'] is not None:
            cm = max(abs(x) for M in r['out']['cov'] for row in M for x in row)
        tc = 0.0 if (cov_exact or cm == 0.0) else 4 * K * cm
        if exact:
            tols.append((0.0, 0.0, 0.0, tc))
        else:
            tols.append((K, K * (1 + vmag + A), K * (1 + pmag + (vmag + A) * T), tc))
    return tols


# ------------------------------------------------------------------------------------------------
# the property's own statement: sequential recursion in mpmath (independent of the Coq model)
def mp_qmul(mp, a, b):
    ax, ay, az, aw = a
    bx, by, bz, bw = b
    return [aw * bx + ax * bw + ay * bz - az * by, aw * by - ax * bz + ay * bw + az * bx,
            aw * bz + ax * by - ay * bx + az * bw, aw * bw - ax * bx - ay * by - az * bz]


def mp_rotate(mp, q, p):
    """R(q) p for a (near-)unit quaternion: q (0,p) q^*"""
    x, y, z, w = q
    r = mp_qmul(mp, mp_qmul(mp, q, [p[0], p[1], p[2], mp.mpf(0)]), [-x, -y, -z, w])
    return r[:3]


def mp_exp(mp, v):
    th = mp.sqrt(v[0] ** 2 + v[1] ** 2 + v[2] ** 2)
    if th == 0:
        return [mp.mpf(0), mp.mpf(0), mp.mpf(0), mp.mpf(1)]
    s = mp.sin(th / 2) / th
    return [v[0] * s, v[1] * s, v[2] * s, mp.cos(th / 2)]


def oracle(sc, g):
    """per call: [B][F] (rot, vel, pos) from the documented recursion
         dR <- dR Exp(w dt), dv <- dv + dR a dt, dp <- dp + dv dt + 1/2 dR a dt^2   (dR, dv of the previous step)
         R = R0 dR, v = v0 + R0 dv, p = p0 + R0 dp + v0 T,    a = acc - Rg^-1 gravity,
       Rg = supplied rotation of the frame, else the integrated rotation R0 dR after the frame's increment;
       reset=False: the next call starts from the last state.  g = gravity value held by the module."""
    import mpmath
    mp = mpmath.mp
    mp.dps = 50
    M = lambda l: [mp.mpf(float(x)) for x in l]
    grav = [mp.mpf(0), mp.mpf(0), mp.mpf(float(g))]
    init = None
    outs = []
    for c in sc['calls']:
        B = len(c['dt'])
        if init is None:
            init = [(M(sc['rot']), M(sc['vel']), M(sc['pos']))]
        st = init if len(init) == B else [init[0]] * B
        call_out, new = [], []
        for b in range(B):
            R0, v0, p0 = st[b]
            dR, dv, dp, T = [mp.mpf(0)] * 3 + [mp.mpf(1)], [mp.mpf(0)] * 3, [mp.mpf(0)] * 3, mp.mpf(0)
            rows = []
            for k in range(len(c['dt'][b])):
                dt = mp.mpf(float(c['dt'][b][k]))
                w = M(c['gyro'][b][k])
                acc = M(c['acc'][b][k])
                inc = mp_exp(mp, [x * dt for x in w])
                dRn = mp_qmul(mp, dR, inc)
                Rg = M(c['rot'][b][k]) if c.get('rot') is not None else mp_qmul(mp, R0, dRn)
                gi = mp_rotate(mp, [-Rg[0], -Rg[1], -Rg[2], Rg[3]], grav)
                a = [acc[i] - gi[i] for i in range(3)]
                Ra = mp_rotate(mp, dR, a)
                dp = [dp[i] + dv[i] * dt + Ra[i] * dt * dt / 2 for i in range(3)]
                dv = [dv[i] + Ra[i] * dt for i in range(3)]
                dR = dRn
                T = T + dt
                R = mp_qmul(mp, R0, dR)
                rv = mp_rotate(mp, R0, dv)
                rp = mp_rotate(mp, R0, dp)
                rows.append((R, [v0[i] + rv[i] for i in range(3)], [p0[i] + rp[i] + v0[i] * T for i in range(3)]))
            call_out.append(rows)
            new.append(rows[-1] if rows else st[b])
        outs.append(call_out)
        if not sc['reset']:
            init = new
    return outs


def check_oracle(sc, run):
    """implementation outputs vs the documented recursion; returns a description of the first failure"""
    if run['ctor_raised'] or any(r['out'] is None for r in run['calls']):
        return None
    tols = tolerances(sc, run)
    ref = oracle(sc, run['g'])
    for ci, (r, t) in enumerate(zip(run['calls'], tols)):
        o = r['out']
        for b in range(len(o['rot'])):
            for k in range(len(o['rot'][b])):
                R, v, p = ref[ci][b][k]
                # quaternion sign: the implementation never re-normalises the sign, neither does the recursion
                for name, got, exp, tol in (('rot', o['rot'][b][k], R, t[0]), ('vel', o['vel'][b][k], v, t[1]), ('pos', o['pos'][b][k], p, t[2])):
                    err = max(abs(float(got[i]) - float(exp[i])) for i in range(len(exp)))
                    if tol > 0:
                        STATS['oracle'] = max(STATS['oracle'], err / tol)
                    if not err <= tol:
                        return ('call %d item %d frame %d: %s = %s, documented recursion gives %s (|diff| = %.3g > %.3g)'
                                % (ci, b, k, name, [float(x) for x in got], [float(x) for x in exp], err, tol))
    return None


def check_cov_valid(sc, run):
    """returned covariance symmetric and positive semidefinite (relative to its largest entry)"""
    import numpy as np
    eps = EPS[sc['dtype']]
    N = 0
    for ci, (c, r) in enumerate(zip(sc['calls'], run['calls'])):
        N = len(c['dt'][0]) if sc['reset'] else N + len(c['dt'][0])
        if r['out'] is None or r['out']['cov'] is None:
            continue
        for b, Cm in enumerate(r['out']['cov']):
            C = np.array(Cm, dtype=np.float64)
            if C.shape != (9, 9) or not np.isfinite(C).all():
                return 'call %d item %d: covariance has shape %s / non-finite entries' % (ci, b, C.shape)
            sc_ = max(np.abs(C).max(), 1e-300)
            tol = (32 + 4 * N) * eps * sc_ * 16
            asym = np.abs(C - C.T).max()
            if not asym <= tol:
                return 'call %d item %d: covariance not symmetric: max |C - C^T| = %.3g (max |C| = %.3g)' % (ci, b, asym, sc_)
            lam = np.linalg.eigvalsh((C + C.T) / 2).min()
            if not lam >= -tol:
                return 'call %d item %d: covariance not PSD: smallest eigenvalue %.3g (max |C| = %.3g)' % (ci, b, lam, sc_)
    return None


def single_call(sc):
    """the same stream fed in one call"""
    c0 = sc['calls'][0]
    cat = lambda key: [sum((c[key][b] for c in sc['calls']), []) for b in range(len(c0[key]))]
    c = dict(ranks=[3, 3, 3, 3], dt=cat('dt'), gyro=cat('gyro'), acc=cat('acc'), rot=None if c0.get('rot') is None else cat('rot'))
    return dict(sc, calls=[c])


def check_chunks(pp, torch, sc, run):
    """reset=False: outputs of the chunked run = outputs of one call on the concatenated stream.
    returns (failure for rot/vel/pos or None, failure for cov or None, frames of the single call)"""
    if sc['reset'] or len(sc['calls']) < 2 or run['ctor_raised'] or any(r['out'] is None for r in run['calls']):
        return None, None, 0
    if any(c['ranks'] != [3, 3, 3, 3] for c in sc['calls']):
        return None, None, 0
    one = single_call(sc)
    r1 = run_impl(pp, torch, one)
    if r1['calls'][0]['out'] is None:
        return 'the single call on the concatenated stream raised: %s' % r1.get('errs'), None, 0
    t = tolerances(one, r1)[0]
    o1 = r1['calls'][0]['out']
    Ftot = len(one['calls'][0]['dt'][0])
    bad = None
    for key, tol in (('rot', t[0]), ('vel', t[1]), ('pos', t[2])):
        for b in range(len(o1[key])):
            chunked = sum((r['out'][key][b] for r in run['calls']), [])
            for k in range(Ftot):
                err = max(abs(x - y) for x, y in zip(chunked[k], o1[key][b][k]))
                if tol > 0:
                    STATS['chunks'] = max(STATS['chunks'], err / (2 * tol))
                if not err <= 2 * tol and bad is None:
                    bad = ('%s of item %d frame %d: chunks %s give %s, one call gives %s (|diff| = %.3g > %.3g)'
                           % (key, b, k, [len(c['dt'][0]) for c in sc['calls']], chunked[k], o1[key][b][k], err, 2 * tol))
    badc = None
    if o1['cov'] is not None and run['calls'][-1]['out']['cov'] is not None:
        for b in range(len(o1['cov'])):
            Cc, C1 = run['calls'][-1]['out']['cov'][b], o1['cov'][b]
            scl = max(max(abs(x) for row in C1 for x in row), 1e-300)
            err = max(abs(x - y) for rc, r1_ in zip(Cc, C1) for x, y in zip(rc, r1_))
            if not err <= 16 * t[3] + 1e-300 and badc is None:
                badc = ('final covariance of item %d: chunks %s vs one call of %d frames differ by %.3g (max |C| = %.3g, relative %.3g)'
                        % (b, [len(c['dt'][0]) for c in sc['calls']], Ftot, err, scl, err / scl))
    return bad, badc, Ftot


def check_ranks(pp, torch, sc):
    """(H) vs (1,1,H) and (F,H) vs (1,F,H): identical outputs"""
    c0 = sc['calls'][0]
    if len(c0['dt']) != 1 or c0['ranks'] != [3, 3, 3, 3]:
        return None
    ranks = [2] + ([1] if len(c0['dt'][0]) == 1 else [])
    base = run_impl(pp, torch, dict(sc, calls=[c0]))
    if base['ctor_raised'] or base['calls'][0]['out'] is None:
        return None
    for rk in ranks:
        alt = run_impl(pp, torch, dict(sc, calls=[dict(c0, ranks=[rk] * 4)]))
        if alt['ctor_raised'] or alt['calls'][0]['out'] != base['calls'][0]['out']:
            return 'inputs of rank %d and the same data as (1,F,H) give different outputs' % rk
    return None


def property_check(pp, torch, sc, run=None):
    """all clauses of the property on the implementation; returns list of (key, what)"""
    if run is None:
        run = run_impl(pp, torch, sc)
    res = []
    if run.get('shape_errs'):
        return [('IMUPreintegrator.forward:output-shape', run['shape_errs'][0])]
    w = check_oracle(sc, run)
    if w:
        res.append(('IMUPreintegrator.forward:differs-from-documented-recursion', w))
    w = check_cov_valid(sc, run)
    if w:
        res.append(('IMUPreintegrator.forward:cov-not-symmetric-psd', w))
    b, bc, Ftot = check_chunks(pp, torch, sc, run)
    if b:
        res.append(('IMUPreintegrator.forward:chunking-changes-states', b))
    if bc:
        res.append((KEY_COV if Ftot >= 3 else 'IMUPreintegrator.forward:cov:one-call-vs-chunks:F<3', bc))
    w = check_ranks(pp, torch, sc)
    if w:
        res.append(('IMUPreintegrator.forward:rank-normalisation', w))
    return res


# ------------------------------------------------------------------------------------------------
# generators
def dy(rng, bits, lim):
    n = int(lim * (1 << bits))
    return rng.randint(-n, n) / float(1 << bits)


def split_sizes(rng, F, nch):
    """nch positive chunk sizes summing to F"""
    nch = max(1, min(nch, F))
    cuts = sorted(rng.sample(range(1, F), nch - 1)) if nch > 1 else []
    return [b - a for a, b in zip([0] + cuts, cuts + [F])]


def gen_exact(rng, F, B, chunks, with_rot, gravity, reset=False, prop_cov=True, coarse=False, rank=3):
    """float64, no rounding: gyro = 0, Hurwitz-unit rotations, dyadic data, dt = 2^-k"""
    ab, al = (0, 3.0) if coarse else (4, 4.0)
    mk = lambda n: dict(
        dt=[[2.0 ** -rng.randint(1, 2 if coarse else 4) for _ in range(n)] for _ in range(B)],
        gyro=[[[0.0, 0.0, 0.0] for _ in range(n)] for _ in range(B)],
        acc=[[[dy(rng, ab, al) for _ in range(3)] for _ in range(n)] for _ in range(B)],
        rot=[[list(rng.choice(HURWITZ)) for _ in range(n)] for _ in range(B)] if with_rot else None,
        ranks=[rank] * 4)
    return dict(dtype='float64', gravity=gravity, gyro_cov=[2.0 ** -rng.randint(6, 9) for _ in range(3)],
                acc_cov=[2.0 ** -rng.randint(3, 6) for _ in range(3)], prop_cov=prop_cov, reset=reset,
                pos=[dy(rng, 2, 8.0) for _ in range(3)], rot=list(rng.choice(HURWITZ)), vel=[dy(rng, 3, 4.0) for _ in range(3)],
                calls=[mk(n) for n in chunks], route='exact', F=F, B=B)


def rand_unit(rng):
    v = [rng.gauss(0, 1) for _ in range(4)]
    n = math.sqrt(sum(x * x for x in v))
    return [x / n for x in v]


def gen_float(rng, dtype, F, B, chunks, with_rot, gravity, style, reset=False, prop_cov=True, rank=3):
    """generic floats; style: 'imu' (dt ~ 1e-2, small rates), 'wild' (dt in [1e-4,1], large rates), 'still' (gyro = 0)"""
    import struct

    def fl(x):
        return struct.unpack('f', struct.pack('f', x))[0] if dtype == 'float32' else float(x)

    def dtv():
        if style == 'imu':
            return fl(rng.choice([0.005, 0.01, 0.0025]) * rng.uniform(0.9, 1.1))
        return fl(math.exp(rng.uniform(math.log(1e-4), 0.0)))
    ws = {'imu': 0.5, 'wild': 6.0, 'still': 0.0}[style]
    mk = lambda n: dict(
        dt=[[dtv() for _ in range(n)] for _ in range(B)],
        gyro=[[[fl(rng.gauss(0, ws)) for _ in range(3)] for _ in range(n)] for _ in range(B)],
        acc=[[[fl(rng.gauss(0, 4.0) + (9.8 if i == 2 else 0)) for i in range(3)] for _ in range(n)] for _ in range(B)],
        rot=[[[fl(x) for x in rand_unit(rng)] for _ in range(n)] for _ in range(B)] if with_rot else None,
        ranks=[rank] * 4)
    cov = rng.random() < 0.5
    return dict(dtype=dtype, gravity=gravity, gyro_cov=(3.2e-3) ** 2 if cov else [fl(10 ** rng.uniform(-7, -3)) for _ in range(3)],
                acc_cov=(8e-2) ** 2 if cov else [fl(10 ** rng.uniform(-5, -1)) for _ in range(3)], prop_cov=prop_cov, reset=reset,
                pos=[fl(rng.uniform(-10, 10)) for _ in range(3)], rot=[fl(x) for x in rand_unit(rng)],
                vel=[fl(rng.uniform(-3, 3)) for _ in range(3)], calls=[mk(n) for n in chunks], route='float', F=F, B=B, style=style)


def witness():
    """regression case = the witness of C16_old_cov_chunk_invariance_refuted (coq/Proofs/IMU.v): three frames, gyro = 0,
    dt = 1/2, accelerations e_x, e_y, e_z, no gravity, unit sensor covariances; fed as [2,1] chunks vs one call.
    Before /repo 608b3d9 (cumprod with left=True in propagate_cov) cov[8,8] was 141/128 in one call, 149/128 in chunks."""
    mk = lambda accs: dict(dt=[[0.5] * len(accs)], gyro=[[[0.0, 0.0, 0.0]] * len(accs)], acc=[accs], rot=None, ranks=[3] * 4)
    return dict(dtype='float64', gravity=0.0, gyro_cov=[1.0, 1.0, 1.0], acc_cov=[1.0, 1.0, 1.0], prop_cov=True, reset=False,
                pos=[0.0, 0.0, 0.0], rot=[0.0, 0.0, 0.0, 1.0], vel=[0.0, 0.0, 0.0],
                calls=[mk([[1.0, 0.0, 0.0], [0.0, 1.0, 0.0]]), mk([[0.0, 0.0, 1.0]])], route='exact', F=3, B=1)


def sc_key(sc):
    return hashlib.md5(json.dumps(sc, sort_keys=True).encode()).hexdigest()[:12]


def slim(sc):
    """replayable description (the scenario itself)"""
    return dict(kind='scenario', scenario=sc)


# ------------------------------------------------------------------------------------------------
def run(ctx):
    pp = import_pypose()
    import torch
    ctx.rule = RULE
    rng = ctx.rng
    scen = []          # (scenario, run, route, cov_exact)

    def add(sc, cov_exact=False, coq=True):
        r = run_impl(pp, torch, sc)
        scen.append((sc, r, sc['route'], cov_exact, coq))
        nfr = sum(len(c['dt'][0]) for c in sc['calls'])
        ctx.case((sc['route'], sc_key(sc)), nontrivial=nfr >= 2,
                 branch='%s/%s/B%d/%s/%s/%s' % (sc['route'], sc['dtype'], sc.get('B', 0), 'rot' if sc['calls'] and sc['calls'][0].get('rot') is not None else 'norot',
                                                'g0' if sc['gravity'] == 0 else 'g', 'chunks%d' % len(sc['calls']) if len(sc['calls']) > 1 else 'single'),
                 sample=dict(route=sc['route'], dtype=sc['dtype'], B=sc.get('B'), chunks=[len(c['dt'][0]) for c in sc['calls']],
                             gravity=sc['gravity'], first_frame=dict(dt=sc['calls'][0]['dt'][0][0], gyro=sc['calls'][0]['gyro'][0][0], acc=sc['calls'][0]['acc'][0][0]),
                             impl_last_pos=(r['calls'][-1]['out'] or {}).get('pos', [[None]])[0][-1] if r['calls'] else None) if len(scen) % 23 == 3 else None)
        ctx.traces += 1
        ctx.count('frames', nfr * max(1, sc.get('B', 1)))
        return r

    # ---------------------------------------------------------------- 0: directed regression case (defect repaired in /repo 608b3d9)
    wsc = witness()
    wr = add(wsc, cov_exact=True)
    for key, what in property_check(pp, torch, wsc, wr):
        ctx.violation(key, what, slim(wsc))
    add(single_call(wsc), cov_exact=True)      # the one-call side of the witness, also compared with the model exactly

    # ---------------------------------------------------------------- A: directed block (every branch of the model)
    G = 9.8125
    d = []
    d.append(gen_exact(rng, 1, 1, [1], False, G, rank=1))                       # (H)
    d.append(gen_exact(rng, 1, 1, [1], True, G, rank=1))
    d.append(gen_exact(rng, 5, 1, [5], False, G, rank=2))                       # (F,H)
    d.append(gen_exact(rng, 6, 1, [6], True, 0.0, rank=2))
    d.append(gen_exact(rng, 3, 2, [3], False, G))                               # (B,F,H), broadcast initial state
    d.append(gen_exact(rng, 7, 3, [2, 4, 1], False, G))                         # chunks, state of size B carried, Rij carried
    d.append(gen_exact(rng, 7, 4, [1, 1, 5], True, G))
    d.append(gen_exact(rng, 4, 1, [2, 2], False, G, reset=True))                # reset=True: every call from the constructor state
    d.append(gen_exact(rng, 3, 2, [3], True, 0.0, reset=True, prop_cov=False))  # no covariance
    d.append(gen_exact(rng, 2, 1, [2], False, G, reset=False, prop_cov=False))  # constructor raises
    d.append(gen_exact(rng, 3, 1, [1, 1, 1], False, 0.0, coarse=True))
    d.append(gen_exact(rng, 3, 1, [3], True, 8.0, coarse=True))
    sc = gen_exact(rng, 3, 1, [3], False, G)                                    # assert on ranks fails
    sc['calls'][0]['ranks'] = [3, 2, 3, 3]
    d.append(sc)
    sc = gen_exact(rng, 4, 2, [2, 2], False, G)                                 # second call with another batch size
    sc['calls'][1] = gen_exact(rng, 2, 3, [2], False, G)['calls'][0]
    d.append(sc)
    sc = gen_exact(rng, 3, 1, [3], False, G)                                    # acc has fewer frames than dt
    sc['calls'][0]['acc'] = [sc['calls'][0]['acc'][0][:2]]
    d.append(sc)
    sc = gen_exact(rng, 3, 1, [3], True, G)                                     # rot has more frames than dt
    sc['calls'][0]['rot'] = [sc['calls'][0]['rot'][0] + [HURWITZ[5]]]
    d.append(sc)
    for i, sc in enumerate(d):
        add(sc, cov_exact=(i in (10, 11)))
    # exact route, random: moderate F with covariance, large F (incl. non powers of two) without
    Fs_small = [1, 2, 3, 4, 5, 6, 7, 9, 12, 13, 17]
    for k in range(ctx.scale(14, 60)):
        F = rng.choice(Fs_small)
        B = rng.randint(1, 4)
        add(gen_exact(rng, F, B, split_sizes(rng, F, rng.choice([1, 1, 2, 3])), rng.random() < 0.5, rng.choice([0.0, G, 9.75])))
    for F in ctx.scale([31, 33, 100, 127, 200], [24, 31, 33, 63, 65, 100, 127, 128, 129, 150, 199, 200]):
        add(gen_exact(rng, F, rng.randint(1, 4), [F], rng.random() < 0.5, rng.choice([0.0, G]), reset=True, prop_cov=False))

    # ---------------------------------------------------------------- B: tolerance route (generic floats)
    if ctx.thorough:
        Fs = list(range(1, 201))
    else:
        Fs = [1, 2, 3, 4, 5, 6, 7, 8, 9, 11, 15, 16, 17, 23, 31, 32, 33, 47, 64, 65, 100, 127, 128, 129, 150, 199, 200]
    # covariance through Coq costs ~40 ms per frame and item: budget of item-frames per run
    budget = [ctx.scale(700, 6000)]
    for F in Fs:
        reps = 1 if (F > 40 or not ctx.thorough) else 2
        for _ in range(reps):
            dtype = 'float64' if rng.random() < 0.7 else 'float32'
            B = rng.randint(1, 4)
            style = rng.choice(['imu', 'imu', 'wild', 'wild', 'still'])
            nch = rng.choice([1, 2, 2, 3, 5]) if F > 1 else 1
            chunks = split_sizes(rng, F, nch)
            sc = gen_float(rng, dtype, F, B, chunks, rng.random() < 0.4, rng.choice([0.0, 9.81007, 9.81007, 1.625]), style)
            cost = F * B
            coq = cost <= 60 and budget[0] >= cost
            if coq:
                budget[0] -= cost
            add(sc, coq=coq)
        if F > 24:
            # long streams through Coq without the covariance (reset=True, prop_cov=False, one call): the prefix scan
            dtype = 'float64' if rng.random() < 0.7 else 'float32'
            add(gen_float(rng, dtype, F, rng.randint(1, 3), [F], rng.random() < 0.4, rng.choice([0.0, 9.81007]),
                          rng.choice(['imu', 'wild']), reset=True, prop_cov=False))
    # one long chunked stream with covariance through Coq
    add(gen_float(rng, 'float64', 100, 1, [37, 1, 62], False, 9.81007, 'imu'))
    # one-frame calls repeated (pure history), float
    add(gen_float(rng, 'float64', 12, 2, [1] * 12, False, 9.81007, 'wild'))
    add(gen_float(rng, 'float32', 9, 1, [1] * 9, True, 9.81007, 'imu'))

    # ---------------------------------------------------------------- property clauses on the implementation
    for (sc, r, route, cov_exact, coq) in scen[1:]:
        for key, what in property_check(pp, torch, sc, r):
            ctx.violation(key, what, slim(sc))

    # ---------------------------------------------------------------- Coq: model on the same inputs
    files, index = [], {}
    shards = {'Q': [], 'fx': []}
    for i, (sc, r, route, cov_exact, coq) in enumerate(scen):
        if not coq:
            continue
        e = Enc()
        if route == 'exact':
            e.case(i, sc, r, tolerances(sc, r, exact=True, cov_exact=cov_exact))
            shards['Q'].append((i, e.w))
        else:
            e.case(i, sc, r, tolerances(sc, r))
            shards['fx'].append((i, e.w))
    for mode, items in shards.items():
        # shards of roughly equal cost (by stream length)
        items.sort(key=lambda t: -len(t[1]))
        nsh = max(1, min(NCPU, len(items)))
        bins = [[] for _ in range(nsh)]
        size = [0] * nsh
        for it in items:
            j = size.index(min(size))
            bins[j].append(it)
            size[j] += len(it[1])
        for j, bn in enumerate(bins):
            if bn:
                name = '%s_%02d' % (mode, j)
                files.append((name, stream_file(mode, [w for _, w in bn])))
                index[name] = [i for i, _ in bn]
    res = run_case_files(PID, files, timeout=1500)
    for name, (rc, out) in sorted(res.items()):
        ev = parse_evals(out)
        if rc != 0 or len(ev) != 1:
            ctx.obligation_broken('correspondence-file:' + name, out[-1500:])
            continue
        bad = parse_nat_list(ev[0])
        if 1000000 in bad:
            ctx.obligation_broken('correspondence-file:' + name, 'the case stream could not be decoded')
            continue
        for i in bad:
            sc = scen[i][0]
            ctx.mismatch('model-vs-impl:' + scen[i][2], dict(kind='scenario', scenario=sc))
    ctx.notes.append('worst error / tolerance: implementation vs mpmath recursion %.3g, chunked vs one call %.3g' % (STATS['oracle'], STATS['chunks']))
    ctx.notes.append('%d scenarios (%d through Coq: %d exact, %d fixed-point), frame counts %s' % (
        len(scen), len(shards['Q']) + len(shards['fx']), len(shards['Q']), len(shards['fx']),
        'every F in 1..200' if ctx.thorough else 'spread incl. non powers of two'))

    # ---------------------------------------------------------------- search around mismatches
    for m in ctx.mismatches[:20]:
        sc = m['case']['scenario']
        found = property_check(pp, torch, sc)
        if not found:
            # shrink / vary: single frames, prefixes, other chunkings of the same stream
            for sc2 in variants(rng, sc):
                found = property_check(pp, torch, sc2)
                if found:
                    sc = sc2
                    break
        for key, what in found[:1]:
            m['explained'] = True
            ctx.violation(key, what, slim(sc))


def variants(rng, sc):
    """scenarios derived from sc for the search: prefixes of the stream in one call, every 2-chunking of short prefixes"""
    if not sc['calls'] or any(c['ranks'] != [3, 3, 3, 3] for c in sc['calls']):
        return
    try:
        one = single_call(sc)
    except Exception:
        return
    c = one['calls'][0]
    Ftot = len(c['dt'][0])
    cut = lambda a, b: dict(ranks=[3, 3, 3, 3], dt=[r[a:b] for r in c['dt']], gyro=[r[a:b] for r in c['gyro']],
                            acc=[r[a:b] for r in c['acc']], rot=None if c.get('rot') is None else [r[a:b] for r in c['rot']])
    for n in [1, 2, 3, 4, 5, 8, Ftot]:
        if n <= Ftot:
            yield dict(sc, calls=[cut(0, n)], reset=False, prop_cov=True)
    for n in [2, 3, 4, 6, Ftot]:
        if n <= Ftot:
            for s in range(1, min(n, 4)):
                yield dict(sc, calls=[cut(0, s), cut(s, n)], reset=False, prop_cov=True)


def replay(ctx, case):
    pp = import_pypose()
    import torch
    if case.get('kind') != 'scenario':
        return None
    res = property_check(pp, torch, case['scenario'])
    res = [kw for kw in res if kw[0] not in ctx.known]
    return res[0][1] if res else None
