"""C16 correspondence: pypose.module.IMUPreintegrator vs coq/Model/IMU.v.

The model takes, per frame, the rotation increment Exp(gyro*dt) and its right Jacobian as the
implementation itself computes them (pp.so3(gyro*dt).Exp(), .Jr()) - the two external routines of the
model - and everything else (prefix products, gravity removal, prefix sums, predict, buffers carried
between calls, covariance propagation, rank normalisation) is evaluated by Coq:

  exact route (Q)      : gyro = 0 (increments are exactly the identity), Hurwitz-unit rotations, dyadic
                         accelerations / gravity / covariances, dt a power of two -> float64 performs no
                         rounding for rot / vel / pos and the comparison is equality (tolerance 0); the
                         covariance is compared with tolerance 0 for short coarse streams, else K eps;
  tolerance route (fx) : arbitrary gyro / acc / dt / chunkings / batch sizes / dtypes; Coq evaluates the model
                         in 256-bit fixed point on the implementation's float inputs and increments and checks
                         |model - impl| <= (32 + 4 N) eps scale (N = frames fed since construction).
  Cases reach Coq as a flat stream of primitive 63-bit integer literals (Model/IMU.v [decode]): Z / Q
  literals cost ~1 ms each to elaborate, primitive ones ~30 us.

Independently of the Coq model, every scenario is also checked against the property's own statement:
a sequential 50-digit mpmath recursion written from the property text (rot / vel / pos), one call vs
consecutive chunks with reset=False, rank equivalence (H) / (F,H) / (B,F,H), covariance symmetric PSD.

Call forms, histories, purity (strengthening): the optional arguments of forward (init_state, gyro_cov, acc_cov, rot positional /
keyword) are exercised with the constructor holding OTHER values; by the documented equivalence 'if not given, the value in the
constructor will be used' such scenarios reach the model as their constructor-form twin (model_view), the rest (init_state in the
middle of a history, one state per IMU, reset=True objects fed other batch sizes) is judged by the mpmath recursion.  Argument
tensors rotate through memory layouts (fresh / views of one stream tensor / transposed / strided / expanded) and every tensor given
to the constructor or a call - and the base of every view - is compared bit for bit after each call (mutation:...).  Further
oracles on the implementation: no raise on documented input, the same tensors fed again (and modified in place by the caller, then
fed again), batch item vs single IMU, call form vs constructor form, hand-over of the reached state to a second object.

Second strengthening (what the object is told vs what it holds; histories with and without optional arguments): the gravity constant
and the sensor covariances the oracle / the model work with are taken from the SCENARIO (the value given to the constructor, or the
documented default when the argument is omitted), never read back from the module object - so a constructor that stores another
value than it was given (falsy regimes 0.0 / int 0, negative, omitted = documented default, zero sensor covariances) is judged by
the mpmath recursion.  Optional arguments of forward are given to SOME calls of a history only (init_some, cov_some: init_state /
covariances to one call, none to the next, on reset=True and reset=False objects); every call of a reset=True object must equal the
same call on a fresh object, also after a call that was given other init_state / gyro_cov / acc_cov / rot (depends-on-earlier-calls);
zero sensor covariances give a zero covariance.

Third strengthening (what a rejected call leaves behind; quantities that are tiny themselves): a call that raises has delivered no
states, so the calls after it must return what they return in the same history without it (check_exception_safety: malformed sensor
covariances / carried covariance - rejected late, inside the covariance step - and rank / frame / batch mismatches - rejected early -
are put in front of every call of reset=False and reset=True histories; Model/IMU.v run_calls says the same: 'the call raised: buffers
unchanged').  The comparison with the mpmath recursion is RELATIVE to what the recursion sums up for the batch item (rel_scales: vector
part of the rotation vs |initial vector part| + sum |w dt| / 2, velocity vs |v0| + sum (|acc| + g) dt, position likewise) instead of
absolute with scale >= 1, and streams whose quantities are tiny are generated in every run: 0 < |gyro| dt <= about eps(dtype) in every
frame from the identity attitude (near-stationary IMU at high rate; at, just above and far below eps), batches mixing such items with
generic ones, tiny accelerations without gravity from rest.
"""
import math
from ..common import *

PID = 'C16'
RULE = ('a scenario = one module object + a list of calls (chunks of one stream); exact route: gyro = 0, Hurwitz-unit '
        'rotations, dyadic data, dt = 2^-k: float64 == model over Q (tolerance 0 for rot/vel/pos); tolerance route: '
        'generic float inputs, model evaluated by Coq in 256-bit fixed point on the implementation\'s own increments, '
        '|model-impl| <= (32+4 N) eps scale (N = frames since construction); every scenario also checked against a '
        'sequential mpmath recursion written from the property text, chunked-vs-single, rank equivalence, cov symmetric PSD, '
        'argument tensors unchanged bit for bit, same tensors fed again, batch item = single IMU, call-form = constructor-form '
        '(init_state / gyro_cov / acc_cov), state hand-over through init_state; memory layouts rotate; gravity and sensor covariances of '
        'the oracle / model = what the constructor was GIVEN (0.0, int 0, negative, omitted = documented default; zero covariances), never '
        'read back from the object; optional arguments given to some calls of a history only; every call of a reset=True object = the same '
        'call on a fresh object, also after a call given other init_state / covariances / rot; calls after a call that RAISED (malformed '
        'covariances: rejected inside the covariance step; rank / frame / batch mismatches) = the same calls without it; the mpmath comparison is '
        'relative to the magnitudes the recursion sums up per item ((32+4 N) eps x (|q0 vector part| + sum |w dt|/2), x (|v0| + sum (|acc|+g) dt), ...), '
        'with streams of 0 < |gyro| dt <= ~eps(dtype) from the identity attitude and tiny accelerations from rest in every run; '
        'a scenario is non-trivial when it has >= 2 frames; distinct = distinct (route, dtype, B, chunking, flags, data hash)')
EPS = {'float64': 2.0 ** -52, 'float32': 2.0 ** -23}
KEY_COV = 'IMUPreintegrator.forward:cov:one-call-vs-chunks:F>=3'
DEFAULTS = dict(gravity=9.81007, gyro_cov=(3.2e-3) ** 2, acc_cov=(8e-2) ** 2)     # documented constructor defaults


def f32(x):
    import struct
    return struct.unpack('f', struct.pack('f', float(x)))[0]


G32 = f32(9.81007)      # the documented default as a float32 number: the generators only use gravity values float32 holds exactly


def gravity_of(sc):
    """the gravity constant the object was TOLD to use: the constructor argument, or the documented default when omitted
    (the module keeps it in torch's default dtype, float32: every generated value is exactly representable there)"""
    g = sc.get('gravity')
    return f32(DEFAULTS['gravity'] if g is None else g)


def cov_of(torch, sc, key):
    """the three sensor variances the object was TOLD to use (constructor argument / documented default; a float is one value
    for the three axes, kept in float32), rounded to the module's dtype"""
    v = sc.get(key)
    v = DEFAULTS[key] if v is None else v
    if isinstance(v, float):
        return [f32(v)] * 3
    return [float(x) for x in torch.tensor(v, dtype=getattr(torch, sc['dtype'])).reshape(-1)[:3]]


STATS = {'oracle': 0.0, 'chunks': 0.0}     # worst observed error / tolerance (margins recorded in the evidence)

HURWITZ = []
for _i in range(4):
    for _s in (1.0, -1.0):
        _q = [0.0] * 4
        _q[_i] = _s
        HURWITZ.append(_q)
import itertools as _it
for _sg in _it.product((0.5, -0.5), repeat=4):
    HURWITZ.append(list(_sg))


# ------------------------------------------------------------------------------------------------
# literals
def dyad(x):
    f = Fraction(float(x))
    return f.numerator, f.denominator.bit_length() - 1


class Enc:
    """flat stream of 63-bit words read by Model/IMU.v [decode]: counts, flags, numbers.
    a number x = (-1)^s m / 2^k is the two words (2 m + s, k + 1100)"""

    def __init__(self):
        self.w = []

    def nat(self, n):
        self.w.append(int(n))

    def boo(self, b):
        self.w.append(1 if b else 0)

    def num(self, x):
        x = float(x)
        if x == 0.0:
            m, k = 0, 0
        else:
            mant, ex = math.frexp(abs(x))
            m, k = int(mant * (1 << 53)), 53 - ex          # |x| = m / 2^k exactly
            while m % 2 == 0:
                m //= 2
                k -= 1
            if k > 250:        # finer than the fixed-point grid: nearest multiple of 2^-250 (error <= 2^-251)
                m, k = int(round(Fraction(abs(x)) * (1 << 250))), 250
        assert -1100 <= k <= 250 and 0 <= m < (1 << 61), x
        self.w += [2 * m + (1 if x < 0 else 0), k + 1100]

    def v3(self, v):
        assert len(v) == 3
        for x in v:
            self.num(x)

    def q(self, v):
        assert len(v) == 4
        for x in v:
            self.num(x)

    def m3(self, rows):
        assert len(rows) == 3
        for r in rows:
            self.v3(r)

    def lst(self, items, item):
        self.nat(len(items))
        for x in items:
            item(x)

    def tens(self, rank, data, item):
        """data: [B][F] items"""
        self.nat(rank)
        if rank == 1:
            item(data[0][0])
        elif rank == 2:
            self.lst(data[0], item)
        else:
            self.lst(data, lambda row: self.lst(row, item))

    def case(self, idx, sc, run, tols):
        self.nat(idx)
        self.num(run['g'])
        self.v3(run['cg'])
        self.v3(run['ca'])
        self.boo(sc['prop_cov'])
        self.boo(sc['reset'])
        self.v3(sc['pos'])
        self.q(sc['rot'])
        self.v3(sc['vel'])
        triples = list(zip(sc['calls'], run['calls'], tols))     # no calls are recorded when the constructor raised
        self.nat(len(triples))
        for c, r, t in triples:
            rk = c['ranks']
            self.tens(rk[0], c['dt'], self.num)
            self.tens(rk[1], r['inc'], self.q)
            self.tens(rk[1], r['jr'], self.m3)
            self.tens(rk[2], c['acc'], self.v3)
            self.boo(c.get('rot') is not None)
            if c.get('rot') is not None:
                self.tens(rk[3], c['rot'], self.q)
            o = r['out']
            self.boo(o is not None)
            if o is not None:
                self.nat(len(o['rot']))
                for b in range(len(o['rot'])):
                    self.lst(o['rot'][b], self.q)
                    self.lst(o['vel'][b], self.v3)
                    self.lst(o['pos'][b], self.v3)
                    self.boo(o['cov'] is not None)
                    if o['cov'] is not None:
                        self.lst(o['cov'][b], lambda row: self.lst(row, self.num))
            for x in t:
                self.num(x)


def stream_file(mode, cases):
    """cases: list of word lists -> text of a Coq file evaluating imu_bad_<mode>s on them"""
    words = [len(cases)]
    for c in cases:
        words += c
    chunks = [words[i:i + 2000] for i in range(0, len(words), 2000)]
    return HEADER + 'Eval vm_compute in imu_bad_%ss %s.\n' % (mode, coq_list(coq_list(str(x) for x in ch) for ch in chunks))


HEADER = ('From PV Require Import Base.Num Model.IMU.\nFrom Coq Require Import List Uint63.\nImport ListNotations.\n'
          'Open Scope uint63_scope.\n')


# ------------------------------------------------------------------------------------------------
# the implementation
LAYOUTS = ('fresh', 'views', 'transposed', 'strided', 'expand')
DEFAULT_STATE = dict(pos=[0.0, 0.0, 0.0], rot=[0.0, 0.0, 0.0, 1.0], vel=[0.0, 0.0, 0.0])


def per_item(v):
    """a state component is one vector (broadcast over the batch) or a list of B vectors (one per IMU)"""
    return isinstance(v[0], (list, tuple))


def state_of(d):
    """(pos, rot, vel) components of a scenario / an init dict; None = the constructor's documented defaults"""
    return {k: (DEFAULT_STATE[k] if d.get(k) is None else d[k]) for k in ('pos', 'rot', 'vel')}


def state_items(d):
    """list (length 1 = broadcast, or B) of (rot, vel, pos) float vectors"""
    s = state_of(d)
    n = max([len(s[k]) for k in s if per_item(s[k])] or [1])
    pick = lambda v, b: (v[b] if per_item(v) else v)
    return [(pick(s['rot'], b), pick(s['vel'], b), pick(s['pos'], b)) for b in range(n)]


def all_states(sc):
    res = list(state_items(sc))
    for c in sc['calls']:
        if c.get('init') is not None:
            res += state_items(c['init'])
    return res


class Watch:
    """every tensor handed to the implementation (and the base of every view) is snapshotted before a call and
    compared bit for bit afterwards: forward / integrate / predict / propagate_cov have no trailing underscore"""

    def __init__(self, torch):
        self.torch, self.items, self.snaps = torch, [], []

    def add(self, name, t):
        if t is not None:
            self.items.append((name, t))
        return t

    def snap(self):
        self.snaps = [t.detach().clone() for _, t in self.items]

    def diff(self):
        torch = self.torch
        for (name, t), s in zip(self.items, self.snaps):
            t = t.detach()
            if t.shape != s.shape or t.dtype != s.dtype:
                return '%s changed shape / dtype: %s %s -> %s %s' % (name, tuple(s.shape), s.dtype, tuple(t.shape), t.dtype)
            if not (torch.equal(t, s) and torch.equal(torch.signbit(t), torch.signbit(s))):
                ne = ((t != s) | (torch.signbit(t) != torch.signbit(s))).nonzero()
                i = tuple(int(x) for x in ne[0])
                return ('%s was modified in place: element %s was %r, is %r after the call (%d elements differ)'
                        % (name, list(i), float(s[i]), float(t[i]), len(ne)))
        return None


def build_tensor(torch, data, rank, dtype, last, layout, watch, name):
    """data [B][F] (last == 1) or [B][F][last] -> tensor of the given rank with the given memory layout"""
    t = torch.tensor(data, dtype=dtype)
    if last == 1:
        t = t.unsqueeze(-1)
    if t.dim() == 3 and t.numel() > 0:
        B, F, H = t.shape
        if layout == 'transposed':                        # same values, reversed strides
            t = t.permute(2, 1, 0).contiguous().permute(2, 1, 0)
        elif layout == 'strided':                         # every second frame of a wider buffer
            big = torch.full((B, 2 * F + 1, H), 7.5, dtype=dtype)
            big[:, 1::2] = t
            watch.add(name + ' (buffer the strided view was taken from)', big)
            t = big[:, 1::2]
        elif layout == 'expand':                          # stride 0 where the data is constant
            if bool((t == t[:1, :1]).all()):
                t = watch.add(name + ' (tensor the expanded view was taken from)', t[:1, :1].clone()).expand(B, F, H)
            elif bool((t == t[:, :1]).all()):
                t = watch.add(name + ' (tensor the expanded view was taken from)', t[:, :1].clone()).expand(B, F, H)
    if rank == 2:
        t = t[0]
    elif rank == 1:
        t = t[0, 0]
    return watch.add(name, t)


def state_tensors(pp, torch, d, dtype, watch, name):
    """tensors of a (pos, rot, vel) description: one vector -> rank d['form'] (1: (H), 2: (1,H), 3: (1,1,H));
    one vector per IMU -> (B,1,H)"""
    s = state_of(d)
    form = d.get('form', 1)
    out = {}
    for k in ('pos', 'rot', 'vel'):
        t = torch.tensor(s[k], dtype=dtype)
        if per_item(s[k]):
            t = t.unsqueeze(1)
        else:
            for _ in range(form - 1):
                t = t.unsqueeze(0)
        watch.add('%s[%s]' % (name, k), t)
        out[k] = pp.SO3(t) if k == 'rot' else t
    return out


def cov_arg(torch, v, dtype, watch=None, name=''):
    if isinstance(v, float):
        return v
    t = torch.tensor(v, dtype=dtype)
    if watch is not None:
        watch.add(name, t)
    return t


def make_module(pp, torch, sc, watch=None):
    dtype = getattr(torch, sc['dtype'])
    watch = watch or Watch(torch)
    kw = dict(prop_cov=sc['prop_cov'], reset=sc['reset'])
    if sc.get('gravity') is not None:                       # None: argument omitted, the documented default applies
        kw['gravity'] = sc['gravity']
    if sc.get('gyro_cov') is not None:
        kw['gyro_cov'] = cov_arg(torch, sc['gyro_cov'], dtype, watch, 'constructor argument gyro_cov')
    if sc.get('acc_cov') is not None:
        kw['acc_cov'] = cov_arg(torch, sc['acc_cov'], dtype, watch, 'constructor argument acc_cov')
    if sc.get('pos') is None and sc.get('rot') is None and sc.get('vel') is None:
        m = pp.module.IMUPreintegrator(**kw)               # documented defaults: zero position / velocity, identity
    else:
        st = state_tensors(pp, torch, dict(sc, form=sc.get('state_form', 1)), dtype, watch, 'constructor argument')
        m = pp.module.IMUPreintegrator(st['pos'], st['rot'], st['vel'], **kw)
    return m.to(dtype)


def views_applicable(sc):
    cs = sc['calls']
    return (len(cs) >= 1 and all(c['ranks'] == [3, 3, 3, 3] for c in cs)
            and all((c.get('rot') is None) == (cs[0].get('rot') is None) for c in cs)
            and all(len(c[k]) == len(cs[0]['dt']) for c in cs for k in ('dt', 'gyro', 'acc'))
            and all(len(set(len(row) for k in ('dt', 'gyro', 'acc') + (('rot',) if c.get('rot') is not None else ()) for row in c[k])) == 1 for c in cs))


class Args:
    """the tensors of the calls of one scenario, in the scenario's memory layout"""

    def __init__(self, pp, torch, sc, watch, layout=None):
        self.pp, self.torch, self.sc, self.watch = pp, torch, sc, watch
        self.dtype = getattr(torch, sc['dtype'])
        self.layout = layout or sc.get('layout', 'fresh')
        self.full = None
        if self.layout == 'views':
            if views_applicable(sc):                      # every chunk is a view of one tensor holding the whole stream
                cs = sc['calls']
                cat = lambda key: [sum((c[key][b] for c in cs), []) for b in range(len(cs[0]['dt']))]
                self.full = {}
                for key, last in (('dt', 1), ('gyro', 3), ('acc', 3), ('rot', 4)):
                    if key == 'rot' and cs[0].get('rot') is None:
                        continue
                    self.full[key] = build_tensor(torch, cat(key), 3, self.dtype, last, 'fresh', watch, 'the stream tensor %s' % key)
                self.offs = [0]
                for c in cs:
                    self.offs.append(self.offs[-1] + len(c['dt'][0]))
            else:
                self.layout = 'fresh'

    def call(self, ci):
        """-> (positional dt, gyro, acc), keyword arguments"""
        pp, torch, sc, w = self.pp, self.torch, self.sc, self.watch
        c = sc['calls'][ci]
        rk = c['ranks']
        pos = []
        rot = None
        if self.full is not None:
            a, b = self.offs[ci], self.offs[ci + 1]
            pos = [w.add('call %d argument %s' % (ci, k), self.full[k][:, a:b]) for k in ('dt', 'gyro', 'acc')]
            if 'rot' in self.full:
                rot = pp.SO3(w.add('call %d argument rot' % ci, self.full['rot'][:, a:b]))
        else:
            for key, r, last in (('dt', rk[0], 1), ('gyro', rk[1], 3), ('acc', rk[2], 3)):
                pos.append(build_tensor(torch, c[key], r, self.dtype, last, self.layout, w, 'call %d argument %s' % (ci, key)))
            if c.get('rot') is not None:
                rot = pp.SO3(build_tensor(torch, c['rot'], rk[3], self.dtype, 4, self.layout, w, 'call %d argument rot' % ci))
        kw = {}
        if rot is not None:
            kw['rot'] = rot
        cc = c.get('cov') or sc.get('call_cov')             # c['cov']: this call only; sc['call_cov']: every call
        if cc is not None:                                  # per-call sensor covariances (optional arguments of forward)
            for key in ('gyro_cov', 'acc_cov'):             # form 1: (3), form 3: (B,1,3) as the module builds it itself
                v = [[cc[key]]] * len(c['dt']) if cc.get('form', 1) == 3 else cc[key]
                kw[key] = cov_arg(torch, v, self.dtype, w, 'call %d argument %s' % (ci, key))
        if c.get('init') is not None:                       # init_state (optional argument of forward)
            kw['init_state'] = state_tensors(pp, torch, c['init'], self.dtype, w, 'call %d argument init_state' % ci)
        return pos, kw


def do_call(m, pos, kw, positional_rot=False):
    if positional_rot and set(kw) <= {'rot'}:
        return m(*pos, kw.get('rot'))
    return m(*pos, **kw)


def extract(torch, o, c):
    """outputs of one call as lists, or a description of wrong shapes"""
    Bn, Fn = len(c['dt']), len(c['dt'][0])
    want = dict(rot=(Bn, Fn, 4), vel=(Bn, Fn, 3), pos=(Bn, Fn, 3))
    got = {k: tuple(o[k].shape) for k in want}
    if o.get('cov') is not None:
        want['cov'], got['cov'] = (Bn, 9, 9), tuple(o['cov'].shape)
    if got != want:
        return None, 'outputs have shapes %s, documented (B, F, H) / (B, 9, 9) = %s' % (got, want)
    return dict(rot=o['rot'].tensor().tolist(), vel=o['vel'].tolist(), pos=o['pos'].tolist(),
                cov=None if o.get('cov') is None else o['cov'].tolist()), None


def run_impl(pp, torch, sc, layout=None):
    """-> dict(ctor_raised, g, cg, ca, calls=[dict(out, inc, jr)], mutated, errs, shape_errs)"""
    dtype = getattr(torch, sc['dtype'])
    watch = Watch(torch)
    try:
        m = make_module(pp, torch, sc, watch)
    except RuntimeError as e:
        return dict(ctor_raised=True, err=str(e)[:200], g=gravity_of(sc), cg=[0, 0, 0], ca=[0, 0, 0], calls=[])
    # what the object was told (scenario), NOT what it holds: a constructor storing other values must show up as a difference
    res = dict(ctor_raised=False, g=gravity_of(sc), cg=cov_of(torch, sc, 'gyro_cov'), ca=cov_of(torch, sc, 'acc_cov'), calls=[])
    if sc.get('call_cov') is not None:                      # the values the calls are given, in the module's dtype
        r3 = lambda v: [float(x) for x in torch.tensor([v] * 3 if isinstance(v, float) else v, dtype=dtype)]
        res['cg'], res['ca'] = r3(sc['call_cov']['gyro_cov']), r3(sc['call_cov']['acc_cov'])
    args = Args(pp, torch, sc, watch, layout)
    for ci, c in enumerate(sc['calls']):
        g3 = torch.tensor(c['gyro'], dtype=dtype)
        d3 = torch.tensor(c['dt'], dtype=dtype).unsqueeze(-1)
        if g3.shape[:2] == d3.shape[:2]:
            inc = pp.so3(g3 * d3).Exp()
        else:
            inc = pp.identity_SO3(g3.shape[0], g3.shape[1], dtype=dtype)
        jr = inc.Jr()
        out = None
        held = None
        try:
            pos, kw = args.call(ci)
            watch.snap()
            held = dict(kw['init_state']) if 'init_state' in kw else None
            o = do_call(m, pos, kw, positional_rot=(ci % 2 == 0))
        except Exception as e:  # the call raised: the model must say None
            o = None
            res.setdefault('errs', []).append('call %d: %r' % (ci, e))
            res['errs'][-1] = res['errs'][-1][:240]
        d = watch.diff() if len(watch.snaps) == len(watch.items) else None
        if d is None and held is not None and (set(held) != set(kw['init_state']) or any(kw['init_state'][k] is not held[k] for k in held)):
            d = 'the caller\'s init_state dict was modified: keys %s -> %s' % (sorted(held), sorted(kw['init_state']))
        if d and 'mutated' not in res:
            res['mutated'] = 'call %d (%s): %s' % (ci, 'raised' if o is None else 'returned', d)
        if o is not None:
            out, err = extract(torch, o, c)
            if err:
                res.setdefault('shape_errs', []).append(err)
        res['calls'].append(dict(out=out, inc=inc.tensor().tolist(), jr=jr.tolist()))
    return res


def wellformed(sc):
    """inside the documented domain: equal ranks, one B and one F >= 1 per call, batch sizes compatible with the states;
    such a scenario must not raise"""
    if not sc['reset'] and not sc['prop_cov']:
        return False
    if sc.get('gravity') is not None and not isinstance(sc['gravity'], float):
        return False                                        # documented type of gravity: float (an int may be refused, see check_oracle)
    Bs = []
    for c in sc['calls']:
        keys = ('dt', 'gyro', 'acc') + (('rot',) if c.get('rot') is not None else ())
        if len(set(c['ranks'][:len(keys)])) != 1:
            return False
        B = len(c['dt'])
        Fs = set(len(row) for k in keys for row in c[k])
        if any(len(c[k]) != B for k in keys) or len(Fs) != 1 or min(Fs) < 1:
            return False
        if c['ranks'][0] < 3 and B != 1 or c['ranks'][0] == 1 and Fs != {1}:
            return False
        n = len(state_items(c['init'])) if c.get('init') is not None else 1
        if n not in (1, B):
            return False
        Bs.append(B)
    n = len(state_items(sc))
    if n != 1 and any(B != n for B in Bs):
        return False
    if not sc['reset'] and len(set(Bs)) > 1:
        return False
    return True


def model_view(sc, run):
    """the scenario as the Coq model sees it (the model has no per-call init_state / covariance arguments): documented
    equivalences - init_state given to the first call of a reset=False object, or to every call of a reset=True object,
    = that state given to the constructor; covariances given to every call = given to the constructor.
    None when the scenario has no such equivalent (oracle-only)."""
    inits = [c.get('init') for c in sc['calls']]
    if any(c.get('cov') is not None for c in sc['calls']):
        return None                                         # covariances given to some calls only: oracle-only
    if sc.get('gravity') is not None and not isinstance(sc['gravity'], float):
        return None                                         # outside the documented type (float): the model has no such case
    if sc['reset'] and wellformed(sc) and len(set(len(c['dt']) for c in sc['calls'])) > 1:
        # Model/IMU.v run_calls keeps the state list of a reset=True object at the batch size of its first call (the code keeps
        # the (1,1,H) constructor buffers), so the model refuses a later call with another batch size: oracle-only
        return None
    if len(state_items(sc)) != 1 or any(i is not None and len(state_items(i)) != 1 for i in inits):
        return None
    flat = lambda d: dict(zip(('rot', 'vel', 'pos'), state_items(d)[0]))      # one state, also when written as a list of one
    st = flat(sc)
    if any(i is not None for i in inits):
        first = flat(inits[0]) if inits[0] is not None else None
        if not sc['reset'] and first is not None and all(i is None for i in inits[1:]):
            st = first
        elif sc['reset'] and first is not None and all(i is not None and flat(i) == first for i in inits):
            st = first
        else:
            return None
    calls = [{k: v for k, v in c.items() if k != 'init'} for c in sc['calls']]
    return dict(sc, pos=st['pos'], rot=st['rot'], vel=st['vel'], calls=calls), run


# ------------------------------------------------------------------------------------------------
# tolerances (absolute, per call): (32 + 4 N) eps * scale, N = frames fed since construction
def tolerances(sc, run, exact=False, cov_exact=False):
    eps = EPS[sc['dtype']]
    tols, N = [], 0
    g = abs(run['g'])
    sts = all_states(sc)
    vmag = max(math.sqrt(sum(x * x for x in v)) for _, v, _ in sts)
    pmag = max(math.sqrt(sum(x * x for x in p)) for _, _, p in sts)
    A, T = 0.0, 0.0           # velocity budget, elapsed time (worst over the batch)
    for c, r in zip(sc['calls'], run['calls']):
        Fn = max(len(row) for row in c['dt'])
        if not sc['reset']:
            N += Fn
        else:
            N, A, T = Fn, 0.0, 0.0
        a_c, t_c = 0.0, 0.0
        for b in range(len(c['dt'])):
            ab = sum((math.sqrt(sum(x * x for x in c['acc'][b][k])) + g) * abs(c['dt'][b][k])
                     for k in range(min(len(c['dt'][b]), len(c['acc'][b]))))
            a_c = max(a_c, ab)
            t_c = max(t_c, sum(abs(x) for x in c['dt'][b]))
        A += a_c
        T += t_c
        K = (32 + 4 * N) * eps
        cm = 0.0
        if r['out'] is not None and r['out']['cov'] is not None:
            cm = max(abs(x) for M in r['out']['cov'] for row in M for x in row)
        tc = 0.0 if (cov_exact or cm == 0.0) else 4 * K * cm
        if exact:
            tols.append((0.0, 0.0, 0.0, tc))
        else:
            tols.append((K, K * (1 + vmag + A), K * (1 + pmag + (vmag + A) * T), tc))
    return tols


# ------------------------------------------------------------------------------------------------
# the property's own statement: sequential recursion in mpmath (independent of the Coq model)
def mp_qmul(mp, a, b):
    ax, ay, az, aw = a
    bx, by, bz, bw = b
    return [aw * bx + ax * bw + ay * bz - az * by, aw * by - ax * bz + ay * bw + az * bx,
            aw * bz + ax * by - ay * bx + az * bw, aw * bw - ax * bx - ay * by - az * bz]


def mp_rotate(mp, q, p):
    """R(q) p for a (near-)unit quaternion: q (0,p) q^*"""
    x, y, z, w = q
    r = mp_qmul(mp, mp_qmul(mp, q, [p[0], p[1], p[2], mp.mpf(0)]), [-x, -y, -z, w])
    return r[:3]


def mp_exp(mp, v):
    th = mp.sqrt(v[0] ** 2 + v[1] ** 2 + v[2] ** 2)
    if th == 0:
        return [mp.mpf(0), mp.mpf(0), mp.mpf(0), mp.mpf(1)]
    s = mp.sin(th / 2) / th
    return [v[0] * s, v[1] * s, v[2] * s, mp.cos(th / 2)]


def oracle(sc, g):
    """per call: [B][F] (rot, vel, pos) from the documented recursion
         dR <- dR Exp(w dt), dv <- dv + dR a dt, dp <- dp + dv dt + 1/2 dR a dt^2   (dR, dv of the previous step)
         R = R0 dR, v = v0 + R0 dv, p = p0 + R0 dp + v0 T,    a = acc - Rg^-1 gravity,
       Rg = supplied rotation of the frame, else the integrated rotation R0 dR after the frame's increment;
       reset=False: the next call starts from the last state; a call given init_state starts from that state
       ('the initial state of the integration'), otherwise from the carried / constructor state (documented defaults:
       zero position and velocity, identity).  g = gravity value held by the module."""
    import mpmath
    mp = mpmath.mp
    mp.dps = 50
    M = lambda l: [mp.mpf(float(x)) for x in l]
    grav = [mp.mpf(0), mp.mpf(0), mp.mpf(float(g))]
    S = lambda d: [(M(r), M(v), M(p)) for r, v, p in state_items(d)]
    init = S(sc)
    outs = []
    for c in sc['calls']:
        B = len(c['dt'])
        base = S(c['init']) if c.get('init') is not None else init
        st = base if len(base) == B else [base[0]] * B
        call_out, new = [], []
        for b in range(B):
            R0, v0, p0 = st[b]
            dR, dv, dp, T = [mp.mpf(0)] * 3 + [mp.mpf(1)], [mp.mpf(0)] * 3, [mp.mpf(0)] * 3, mp.mpf(0)
            rows = []
            for k in range(len(c['dt'][b])):
                dt = mp.mpf(float(c['dt'][b][k]))
                w = M(c['gyro'][b][k])
                acc = M(c['acc'][b][k])
                inc = mp_exp(mp, [x * dt for x in w])
                dRn = mp_qmul(mp, dR, inc)
                Rg = M(c['rot'][b][k]) if c.get('rot') is not None else mp_qmul(mp, R0, dRn)
                gi = mp_rotate(mp, [-Rg[0], -Rg[1], -Rg[2], Rg[3]], grav)
                a = [acc[i] - gi[i] for i in range(3)]
                Ra = mp_rotate(mp, dR, a)
                dp = [dp[i] + dv[i] * dt + Ra[i] * dt * dt / 2 for i in range(3)]
                dv = [dv[i] + Ra[i] * dt for i in range(3)]
                dR = dRn
                T = T + dt
                R = mp_qmul(mp, R0, dR)
                rv = mp_rotate(mp, R0, dv)
                rp = mp_rotate(mp, R0, dp)
                rows.append((R, [v0[i] + rv[i] for i in range(3)], [p0[i] + rp[i] + v0[i] * T for i in range(3)]))
            call_out.append(rows)
            new.append(rows[-1] if rows else st[b])
        outs.append(call_out)
        if not sc['reset']:
            init = new
    return outs


def rel_scales(sc, run):
    """per call, per batch item: the magnitudes the documented recursion builds its outputs from - the RELATIVE oracle
         rotation (vector part of the quaternion)  <=  |vector part of the initial rotation| + sum |w dt| / 2   (capped at 1)
         velocity                                  <=  |v0| + sum (|acc| + g) dt                       =: |v0| + A
         position                                  <=  |p0| + (|v0| + A) T
       sums over the frames integrated since the state the call started from was given (constructor / init_state / carried).
       A floating-point evaluation of the recursion is wrong by at most (32 + 4 N) eps times these magnitudes; the absolute
       allowance of tolerances() (scale 1 + ...) hides every error in streams whose quantities are themselves tiny (gyro dt
       below eps(dtype) from an identity attitude: a near-stationary IMU at high rate; tiny accelerations without gravity)."""
    g = abs(run['g'])
    nrm = lambda v: math.sqrt(sum(float(x) * float(x) for x in v))
    base0 = [(nrm(r[:3]), nrm(v), nrm(p)) for r, v, p in state_items(sc)]
    acc = None            # per item [q0, v0, p0, theta, A, T]
    res = []
    for c in sc['calls']:
        B = len(c['dt'])
        if c.get('init') is not None:
            base = [(nrm(r[:3]), nrm(v), nrm(p)) for r, v, p in state_items(c['init'])]
            acc = None
        else:
            base = base0
        if acc is None or sc['reset'] or len(acc) != B:
            acc = [list(base[b] if len(base) == B else base[0]) + [0.0, 0.0, 0.0] for b in range(B)]
        row = []
        for b in range(B):
            n = min(len(c['dt'][b]), len(c['gyro'][b]), len(c['acc'][b])) if b < min(len(c['gyro']), len(c['acc'])) else 0
            a = acc[b]
            for k in range(n):
                h = abs(c['dt'][b][k])
                a[3] += nrm(c['gyro'][b][k]) * h
                a[4] += (nrm(c['acc'][b][k]) + g) * h
                a[5] += h
            row.append((min(1.0, a[0] + a[3] / 2), a[1] + a[4], a[2] + (a[1] + a[4]) * a[5]))
        res.append(row)
    return res


def check_oracle(sc, run):
    """implementation outputs vs the documented recursion; returns a description of the first failure.
    Tolerance per output: (32 + 4 N) eps times the magnitude of what the recursion adds up for THAT batch item (rel_scales; never
    more than the absolute allowance of tolerances()); the real part of the quaternion keeps the absolute allowance."""
    if run['ctor_raised'] or any(r['out'] is None for r in run['calls']):
        return None
    tols = tolerances(sc, run)
    rels = rel_scales(sc, run)
    ref = oracle(sc, run['g'])
    for ci, (r, t) in enumerate(zip(run['calls'], tols)):
        o = r['out']
        for b in range(len(o['rot'])):
            s = rels[ci][b]
            tq, tv, tp = min(t[0], t[0] * s[0]), min(t[1], t[0] * s[1]), min(t[2], t[0] * s[2])
            for k in range(len(o['rot'][b])):
                R, v, p = ref[ci][b][k]
                # quaternion sign: the implementation never re-normalises the sign, neither does the recursion
                for name, got, exp, tol in (('rot (vector part)', o['rot'][b][k][:3], R[:3], tq), ('rot (real part)', o['rot'][b][k][3:], R[3:], t[0]),
                                            ('vel', o['vel'][b][k], v, tv), ('pos', o['pos'][b][k], p, tp)):
                    err = max(abs(float(got[i]) - float(exp[i])) for i in range(len(exp)))
                    if tol > 0:
                        STATS['oracle'] = max(STATS['oracle'], err / tol)
                    if not err <= tol:
                        mag = max(abs(float(x)) for x in exp)
                        return ('call %d item %d frame %d: %s = %s, documented recursion gives %s (|diff| = %.3g > %.3g = (32 + 4 N) eps x %.3g, '
                                'the magnitude the recursion sums up for this item; relative to the expected value: %.3g)'
                                % (ci, b, k, name, [float(x) for x in got], [float(x) for x in exp], err, tol,
                                   tol / t[0] if t[0] > 0 else 0.0, err / mag if mag > 0 else float('inf')))
    return None


def check_cov_valid(sc, run):
    """returned covariance symmetric and positive semidefinite (relative to its largest entry)"""
    import numpy as np
    eps = EPS[sc['dtype']]
    N = 0
    for ci, (c, r) in enumerate(zip(sc['calls'], run['calls'])):
        N = len(c['dt'][0]) if sc['reset'] else N + len(c['dt'][0])
        if r['out'] is None or r['out']['cov'] is None:
            continue
        for b, Cm in enumerate(r['out']['cov']):
            C = np.array(Cm, dtype=np.float64)
            if C.shape != (9, 9) or not np.isfinite(C).all():
                return 'call %d item %d: covariance has shape %s / non-finite entries' % (ci, b, C.shape)
            sc_ = max(np.abs(C).max(), 1e-300)
            tol = (32 + 4 * N) * eps * sc_ * 16
            asym = np.abs(C - C.T).max()
            if not asym <= tol:
                return 'call %d item %d: covariance not symmetric: max |C - C^T| = %.3g (max |C| = %.3g)' % (ci, b, asym, sc_)
            lam = np.linalg.eigvalsh((C + C.T) / 2).min()
            if not lam >= -tol:
                return 'call %d item %d: covariance not PSD: smallest eigenvalue %.3g (max |C| = %.3g)' % (ci, b, lam, sc_)
    return None


def single_call(sc):
    """the same stream fed in one call"""
    c0 = sc['calls'][0]
    cat = lambda key: [sum((c[key][b] for c in sc['calls']), []) for b in range(len(c0[key]))]
    c = dict(ranks=[3, 3, 3, 3], dt=cat('dt'), gyro=cat('gyro'), acc=cat('acc'), rot=None if c0.get('rot') is None else cat('rot'))
    if c0.get('init') is not None:
        c['init'] = c0['init']
    return dict(sc, calls=[c])


def check_chunks(pp, torch, sc, run):
    """reset=False: outputs of the chunked run = outputs of one call on the concatenated stream.
    returns (failure for rot/vel/pos or None, failure for cov or None, frames of the single call)"""
    if sc['reset'] or len(sc['calls']) < 2 or run['ctor_raised'] or any(r['out'] is None for r in run['calls']):
        return None, None, 0
    if any(c['ranks'] != [3, 3, 3, 3] for c in sc['calls']) or not views_applicable(sc) or any(c.get('init') is not None for c in sc['calls'][1:]):
        return None, None, 0
    if any(c.get('cov') is not None for c in sc['calls']):
        return None, None, 0
    one = single_call(sc)
    r1 = run_impl(pp, torch, one)
    if r1['calls'][0]['out'] is None:
        return 'the single call on the concatenated stream raised: %s' % r1.get('errs'), None, 0
    t = tolerances(one, r1)[0]
    o1 = r1['calls'][0]['out']
    Ftot = len(one['calls'][0]['dt'][0])
    bad = None
    for key, tol in (('rot', t[0]), ('vel', t[1]), ('pos', t[2])):
        for b in range(len(o1[key])):
            chunked = sum((r['out'][key][b] for r in run['calls']), [])
            for k in range(Ftot):
                err = max(abs(x - y) for x, y in zip(chunked[k], o1[key][b][k]))
                if tol > 0:
                    STATS['chunks'] = max(STATS['chunks'], err / (2 * tol))
                if not err <= 2 * tol and bad is None:
                    bad = ('%s of item %d frame %d: chunks %s give %s, one call gives %s (|diff| = %.3g > %.3g)'
                           % (key, b, k, [len(c['dt'][0]) for c in sc['calls']], chunked[k], o1[key][b][k], err, 2 * tol))
    badc = None
    if o1['cov'] is not None and run['calls'][-1]['out']['cov'] is not None:
        for b in range(len(o1['cov'])):
            Cc, C1 = run['calls'][-1]['out']['cov'][b], o1['cov'][b]
            scl = max(max(abs(x) for row in C1 for x in row), 1e-300)
            err = max(abs(x - y) for rc, r1_ in zip(Cc, C1) for x, y in zip(rc, r1_))
            if not err <= 16 * t[3] + 1e-300 and badc is None:
                badc = ('final covariance of item %d: chunks %s vs one call of %d frames differ by %.3g (max |C| = %.3g, relative %.3g)'
                        % (b, [len(c['dt'][0]) for c in sc['calls']], Ftot, err, scl, err / scl))
    return bad, badc, Ftot


def check_ranks(pp, torch, sc):
    """(H) vs (1,1,H) and (F,H) vs (1,F,H): identical outputs"""
    c0 = sc['calls'][0]
    if len(c0['dt']) != 1 or c0['ranks'] != [3, 3, 3, 3]:
        return None
    ranks = [2] + ([1] if len(c0['dt'][0]) == 1 else [])
    base = run_impl(pp, torch, dict(sc, calls=[c0]))
    if base['ctor_raised'] or base['calls'][0]['out'] is None:
        return None
    for rk in ranks:
        alt = run_impl(pp, torch, dict(sc, calls=[dict(c0, ranks=[rk] * 4)]))
        if alt['ctor_raised'] or alt['calls'][0]['out'] != base['calls'][0]['out']:
            return 'inputs of rank %d and the same data as (1,F,H) give different outputs' % rk
    return None


def out_diff(oa, ob, t, factor=2.0):
    """first difference between two output dicts beyond factor * tolerance (rot, vel, pos; cov with 16 t[3])"""
    if (oa is None) != (ob is None):
        return 'one of the two runs raised'
    if oa is None:
        return None
    for key, tol in (('rot', t[0]), ('vel', t[1]), ('pos', t[2])):
        for b in range(len(oa[key])):
            for k in range(len(oa[key][b])):
                err = max(abs(x - y) for x, y in zip(oa[key][b][k], ob[key][b][k]))
                if not err <= factor * tol:
                    return '%s of item %d frame %d: %s vs %s (|diff| = %.3g > %.3g)' % (key, b, k, oa[key][b][k], ob[key][b][k], err, factor * tol)
    if (oa['cov'] is None) != (ob['cov'] is None):
        return 'one run returns a covariance, the other none'
    if oa['cov'] is not None:
        for b in range(len(oa['cov'])):
            scl = max(max(abs(x) for row in oa['cov'][b] for x in row), 1e-300)
            err = max(abs(x - y) for ra, rb in zip(oa['cov'][b], ob['cov'][b]) for x, y in zip(ra, rb))
            if not err <= 16 * t[3] + 1e-300:
                return 'covariance of item %d differs by %.3g (max |C| = %.3g, relative %.3g)' % (b, err, scl, err / scl)
    return None


def check_reuse(pp, torch, sc, run):
    """histories on one reset=True object with the SAME argument tensors: op(X); op(X) again; modify X in place; op(X)
    = op(fresh copy of X) on a fresh object.  Returns a description of the first failure."""
    if not wellformed(sc) or run['ctor_raised'] or not run['calls'] or run['calls'][0]['out'] is None:
        return None
    c0 = sc['calls'][0]
    sc1 = dict(sc, reset=True, calls=[c0])
    dtype = getattr(torch, sc['dtype'])
    watch = Watch(torch)
    m = make_module(pp, torch, sc1, watch)
    pos, kw = Args(pp, torch, sc1, watch, 'fresh').call(0)
    t = tolerances(sc1, dict(run, calls=run['calls'][:1]))[0]
    outs = []
    for rep in range(2):
        try:
            o, err = extract(torch, do_call(m, pos, kw), c0)
        except Exception as e:
            return 'call %d on one reset=True object with the same argument tensors raised %r' % (rep + 1, e)
        if err:
            return err
        outs.append(o)
    d = out_diff(run['calls'][0]['out'], outs[0], t)
    if d:
        return 'the first call on a reset=True object differs from the first call on the reset=%s object: %s' % (sc['reset'], d)
    d = out_diff(outs[0], outs[1], t)
    if d:
        return 'the same tensors fed twice to one reset=True object give different outputs (2nd vs 1st call): ' + d
    # modify the caller's tensors in place, call again
    pos[2].mul_(0.5)
    pos[1].neg_()
    c1 = dict(c0, gyro=[[[-x for x in v] for v in row] for row in c0['gyro']],
              acc=[[[0.5 * x for x in v] for v in row] for row in c0['acc']])
    try:
        o3, err = extract(torch, do_call(m, pos, kw), c0)
    except Exception as e:
        return 'third call (arguments modified in place by the caller) raised %r' % (e,)
    sc2 = dict(sc1, calls=[c1], layout='fresh')
    r2 = run_impl(pp, torch, sc2)
    if r2['ctor_raised'] or r2['calls'][0]['out'] is None:
        return None
    d = out_diff(r2['calls'][0]['out'], o3, tolerances(sc2, r2)[0])
    if d:
        return ('after the caller halves acc and negates gyro in place, a further call on the same object differs from a '
                'fresh object on fresh tensors of the same values: ' + d)
    return None


def check_per_item(pp, torch, sc, run):
    """item b of a batched history = the same history of a single IMU fed item b's data (and item b's state)"""
    if not wellformed(sc) or not run['calls'] or any(r['out'] is None for r in run['calls']):
        return None
    B = len(sc['calls'][0]['dt'])
    if B < 2 or any(len(c['dt']) != B for c in sc['calls']):
        return None
    one = lambda v, b: (v if v is None or not per_item(v) else v[b])
    tols = tolerances(sc, run)
    for b in range(B):
        calls = []
        for c in sc['calls']:
            c1 = dict(c, ranks=[3, 3, 3, 3], dt=[c['dt'][b]], gyro=[c['gyro'][b]], acc=[c['acc'][b]],
                      rot=None if c.get('rot') is None else [c['rot'][b]])
            if c.get('init') is not None:
                c1['init'] = dict(c['init'], **{k: one(c['init'].get(k), b) for k in ('pos', 'rot', 'vel')})
            calls.append(c1)
        sb = dict(sc, calls=calls, layout='fresh', **{k: one(sc.get(k), b) for k in ('pos', 'rot', 'vel')})
        rb = run_impl(pp, torch, sb)
        if rb['ctor_raised'] or any(r['out'] is None for r in rb['calls']):
            return 'item %d alone (B = 1) raises: %s' % (b, rb.get('errs') or rb.get('err'))
        for ci, (ra, r1, t) in enumerate(zip(run['calls'], rb['calls'], tols)):
            oa = {k: (None if ra['out'][k] is None else [ra['out'][k][b]]) for k in ('rot', 'vel', 'pos', 'cov')}
            d = out_diff(oa, r1['out'], t)
            if d:
                return 'call %d: item %d of the batch of %d differs from the same data fed alone (B = 1): %s' % (ci, b, B, d)
    return None


def check_call_forms(pp, torch, sc, run):
    """documented equivalence of call forms: 'If not given, the initial state / covariance in constructor will be used' -
    so init_state / gyro_cov / acc_cov given to the call(s) = the same values given to the constructor"""
    if sc.get('call_cov') is None and all(c.get('init') is None for c in sc['calls']):
        return None
    if not wellformed(sc) or run['ctor_raised'] or any(r['out'] is None for r in run['calls']):
        return None
    mv = model_view(sc, run)
    if mv is None:
        return None
    plain = dict(mv[0], layout='fresh')
    if sc.get('call_cov') is not None:
        plain['gyro_cov'], plain['acc_cov'] = sc['call_cov']['gyro_cov'], sc['call_cov']['acc_cov']
        del plain['call_cov']
    rp = run_impl(pp, torch, plain)
    if rp['ctor_raised'] or any(r['out'] is None for r in rp['calls']):
        return None
    for ci, (ra, r1, t) in enumerate(zip(run['calls'], rp['calls'], tolerances(sc, run))):
        d = out_diff(ra['out'], r1['out'], t)
        if d:
            return ('call %d: arguments given to the call (init_state: %s, covariances: %s) and the same values given to the '
                    'constructor give different outputs: %s' % (ci, sc['calls'][ci].get('init') is not None, sc.get('call_cov') is not None, d))
    return None


def check_handover(pp, torch, sc, run):
    """the state a reset=False object has reached, handed to ANOTHER object through init_state (documented keys pos / rot /
    vel taken from the returned dict, plus the carried cov / Rij), continues the stream exactly like the first object"""
    if (sc['reset'] or len(sc['calls']) < 2 or not wellformed(sc) or run['ctor_raised']
            or any(r['out'] is None for r in run['calls']) or any(c.get('init') is not None for c in sc['calls'][1:])):
        return None
    dtype = getattr(torch, sc['dtype'])
    w = Watch(torch)
    a = make_module(pp, torch, sc, w)
    args = Args(pp, torch, sc, w, 'fresh')
    tols = tolerances(sc, run)
    other = dict(sc, pos=[1.5, -2.0, 0.25], rot=[0.5, -0.5, 0.5, 0.5], vel=[-0.75, 0.5, 2.0], state_form=1)
    for ci in range(len(sc['calls']) - 1):
        pos, kw = args.call(ci)
        o = do_call(a, pos, kw)
        init = dict(pos=o['pos'][:, -1:].clone(), rot=o['rot'][:, -1:].clone(), vel=o['vel'][:, -1:].clone())
        full = dict(init, cov=a.cov.clone(), Rij=a.Rij.clone()) if getattr(a, 'Rij', None) is not None and a.cov is not None else None
        pos, kw = Args(pp, torch, sc, Watch(torch), 'fresh').call(ci + 1)
        for name, st in (('pos / rot / vel of the last returned frame', init), ('pos / rot / vel / cov / Rij', full)):
            if st is None:
                continue
            b = make_module(pp, torch, other)
            try:
                ob, err = extract(torch, do_call(b, pos, dict(kw, init_state=st)), sc['calls'][ci + 1])
            except Exception as e:
                return 'call %d on a second object with init_state = %s of the first raised %r' % (ci + 1, name, e)
            if err:
                return err
            ref = dict(run['calls'][ci + 1]['out'])
            if st is init:
                ref['cov'], ob['cov'] = None, None
            d = out_diff(ref, ob, tols[ci + 1])
            if d:
                return ('call %d: a second object given init_state = %s reached by the first object after call %d does not '
                        'continue the stream like the first object: %s' % (ci + 1, name, ci, d))
    return None


def told_covs(torch, sc, c):
    """(gyro, acc) sensor variances call c is to work with: given to the call, else to every call, else to the constructor"""
    cc = c.get('cov') or sc.get('call_cov')
    if cc is not None:
        r3 = lambda v: [float(x) for x in torch.tensor([v] * 3 if isinstance(v, float) else v, dtype=getattr(torch, sc['dtype']))]
        return r3(cc['gyro_cov']), r3(cc['acc_cov'])
    return cov_of(torch, sc, 'gyro_cov'), cov_of(torch, sc, 'acc_cov')


def check_cov_zero(pp, torch, sc, run):
    """documented recursion C <- A C A^T + B diag(Cg, Ca) B^T from C = 0: noise-free sensors (Cg = Ca = 0 in every call so far)
    give the zero covariance"""
    if run['ctor_raised']:
        return None
    for ci, (c, r) in enumerate(zip(sc['calls'], run['calls'])):
        cg, ca = told_covs(torch, sc, c)
        if any(x != 0.0 for x in cg + ca):
            return None
        if r['out'] is None or r['out']['cov'] is None:
            continue
        for b, Cm in enumerate(r['out']['cov']):
            worst = max(abs(x) for row in Cm for x in row)
            if not worst == 0.0:
                return ('call %d item %d: gyro_cov = acc_cov = 0 (noise-free sensors) but the returned covariance has an entry of '
                        'magnitude %.3g, the documented recursion gives the zero matrix' % (ci, b, worst))
    return None


DECOY_STATE = dict(pos=[1.5, -2.0, 0.25], rot=[0.5, -0.5, 0.5, 0.5], vel=[-0.75, 0.5, 2.0], form=3)
DECOY_COV = dict(gyro_cov=[0.25, 0.5, 0.125], acc_cov=[2.0, 0.5, 1.0], form=1)


def check_history(pp, torch, sc, run):
    """a reset=True object starts every call from what THAT call is given (init_state, covariances, rot) or else from what the
    constructor was given - whatever was fed before ('Default initial values are used if reset is True'):
      (a) every later call of a reset=True history = the same call alone on a fresh object;
      (b) the first call, made after ANOTHER call on other data that was given init_state / gyro_cov / acc_cov and the opposite
          choice of rot, = the first call on a fresh object."""
    if not wellformed(sc) or run['ctor_raised'] or not run['calls'] or any(r['out'] is None for r in run['calls']):
        return None
    tols = tolerances(sc, run)
    if sc['reset']:
        for ci in range(1, len(sc['calls'])):
            solo = dict(sc, calls=[sc['calls'][ci]], layout='fresh')
            rs = run_impl(pp, torch, solo)
            if rs['ctor_raised'] or rs['calls'][0]['out'] is None:
                return 'call %d of the history returns, alone on a fresh object it raises: %s' % (ci, rs.get('errs') or rs.get('err'))
            d = out_diff(rs['calls'][0]['out'], run['calls'][ci]['out'], tols[ci])
            if d:
                given = lambda c: [k for k in ('init', 'cov', 'rot') if c.get(k) is not None] or ['no optional argument']
                return ('reset=True: call %d (given %s) after %d earlier call(s) (given %s) differs from the same call alone on a fresh '
                        'object (fresh vs history): %s' % (ci, given(sc['calls'][ci]), ci, [given(c) for c in sc['calls'][:ci]], d))
    c0 = sc['calls'][0]
    decoy = dict(c0, dt=[[2.0 * x for x in row] for row in c0['dt']], gyro=[[[0.5 * x for x in v] for v in row] for row in c0['gyro']],
                 acc=[[[1.0 - x for x in v] for v in row] for row in c0['acc']],
                 rot=[[list(HURWITZ[(3 * b + k) % len(HURWITZ)]) for k in range(len(row))] for b, row in enumerate(c0['dt'])] if c0.get('rot') is None else None,
                 init=DECOY_STATE, cov=DECOY_COV)
    two = dict(sc, reset=True, layout='fresh', calls=[decoy, c0])
    r2 = run_impl(pp, torch, two)
    if r2['ctor_raised'] or r2['calls'][0]['out'] is None:
        return 'a call inside the documented domain (init_state, gyro_cov, acc_cov, rot given) raised: %s' % (r2.get('errs') or r2.get('err'))
    if r2['calls'][1]['out'] is None:
        return 'the call returns on a fresh object, after another call on the same reset=True object it raises: %s' % r2.get('errs')
    d = out_diff(run['calls'][0]['out'], r2['calls'][1]['out'], tols[0])
    if d:
        return ('reset=True: the call made after another call (other data, given init_state %s, gyro_cov %s, acc_cov %s, rot %s) differs '
                'from the same call as the first call of a fresh object (fresh vs after): %s'
                % (DECOY_STATE['pos'], DECOY_COV['gyro_cov'], DECOY_COV['acc_cov'], 'given' if decoy['rot'] is not None else 'not given', d))
    return None


def rejected_calls(pp, torch, pos, kw, B, F, dtype):
    """calls OUTSIDE the documented domain derived from a valid call (pos = [dt, gyro, acc], kw): candidates for a call the
    module refuses.  They fail at different depths of forward: rank / frame / batch mismatches early (assert, integrate, predict),
    malformed sensor covariances and a malformed carried covariance late (inside the covariance step, after integrate and predict).
    -> list of (description, positional arguments, keyword arguments)"""
    dt, gyro, acc = pos
    out = []
    for name in ('gyro_cov', 'acc_cov'):
        for shape in ((B, 3), (B + 1, 1, 3), (B, F + 1, 3), (B + 2, F + 2, 3), (2, 2)):
            out.append(('%s of shape %s (documented: (3) or (B, 1, 3)), B = %d, F = %d' % (name, shape, B, F), pos,
                        dict(kw, **{name: torch.full(shape, 2.0 ** -10, dtype=dtype)})))
    st = state_tensors(pp, torch, DECOY_STATE, dtype, Watch(torch), 'init_state')
    out.append(('init_state with a carried covariance of shape (B, 3, 3) instead of (B, 9, 9)', pos,
                dict(kw, init_state=dict(st, cov=torch.zeros(B, 3, 3, dtype=dtype)))))
    out.append(('init_state with a carried covariance for B + 1 IMUs', pos, dict(kw, init_state=dict(st, cov=torch.zeros(B + 1, 9, 9, dtype=dtype)))))
    two = acc.dim() >= 2
    out.append(('acc one frame shorter than dt and gyro', [dt, gyro, acc[..., :-1, :]], kw) if two and F >= 2 else None)
    out.append(('dt one frame longer than gyro and acc', [torch.cat([dt, dt[..., -1:, :]], dim=-2), gyro, acc], kw) if two else None)
    if two and kw.get('rot') is not None:
        r = kw['rot'].tensor()
        out.append(('rot one frame longer than dt', pos, dict(kw, rot=pp.SO3(torch.cat([r, r[..., -1:, :]], dim=-2)))))
    else:
        out.append(None)
    out.append(('gyro of lower rank than dt and acc', [dt, gyro[0], acc], kw) if two else None)
    if acc.dim() == 3:
        more = lambda t: torch.cat([t, t[-1:]], dim=0)
        kw2 = dict(kw, rot=pp.SO3(more(kw['rot'].tensor()))) if kw.get('rot') is not None else kw
        out.append(('a batch of B + 1 IMUs', [more(dt), more(gyro), more(acc)], kw2))
    else:
        out.append(None)
    return out


def check_exception_safety(pp, torch, sc, run):
    """a call that RAISES has delivered no states: the stream the object has integrated is the stream of the calls that
    returned, so the calls after a rejected one must return what they return in the same history without it (reset=False: the
    carried pos / rot / vel / cov / Rij are what they were; reset=True: the constructor's).  Every kind of rejected call is tried
    in front of every call of the history; a candidate the module accepts (it returns) is not judged."""
    if not wellformed(sc) or run['ctor_raised'] or not run['calls'] or any(r['out'] is None for r in run['calls']):
        return None
    dtype = getattr(torch, sc['dtype'])
    tols = tolerances(sc, run)
    B0, F0 = len(sc['calls'][0]['dt']), len(sc['calls'][0]['dt'][0])
    pos0, kw0 = Args(pp, torch, sc, Watch(torch), 'fresh').call(0)
    nkinds = len(rejected_calls(pp, torch, pos0, kw0, B0, F0, dtype))       # 5 gyro_cov + 5 acc_cov shapes, 2 carried covariances, 5 early ones
    h = int(sc_key(sc), 16)
    if sc.get('rejections') == 'all':
        kinds = list(range(nkinds))                         # directed scenarios: every kind
    else:                                                   # a malformed sensor covariance, a malformed carried covariance, an early one -
        kinds = [(h % 10), 10 + (h // 10) % 2, 12 + (h // 20) % 5]         # chosen by the scenario (replayable); ~5 ms per call
        if len(sc['calls']) > 4:
            kinds = [kinds[0], kinds[1 + (h // 100) % 2]]
    for kind in kinds:
        m = make_module(pp, torch, sc)
        args = Args(pp, torch, sc, Watch(torch), 'fresh')
        rej = None                                          # the latest rejected call of this history
        for ci, c in enumerate(sc['calls']):
            pos, kw = args.call(ci)
            B, F = len(c['dt']), len(c['dt'][0])
            cand = rejected_calls(pp, torch, pos, kw, B, F, dtype)[kind]
            if cand is not None:
                try:
                    do_call(m, cand[1], cand[2])
                    break                                   # accepted (broadcast): the object has legitimately moved on - not judged
                except Exception as e:
                    rej = (cand[0], '%s: %s' % (type(e).__name__, str(e).split('\n')[0][:100]), ci)
            try:
                o, err = extract(torch, do_call(m, pos, kw), c)
            except Exception as e:
                if rej is None:
                    break
                return ('call %d returns in the plain history; made after a call with the data of call %d that the module rejected (%s; it '
                        'raised %s) it raises %r' % (ci, rej[2], rej[0], rej[1], e))
            if err:
                return err
            d = out_diff(run['calls'][ci]['out'], o, tols[ci])
            if d and rej is None:
                break                                       # no rejected call so far in this history: judged by the other clauses
            if d:
                return ('reset=%s: call %d of the history, made after a call with the data of call %d that the module REJECTED (%s; it raised '
                        '%s), differs from call %d of the same history without the rejected call - a call that raised changed the object '
                        '(plain history vs history with the rejected call): %s' % (sc['reset'], ci, rej[2], rej[0], rej[1], ci, d))
    return None


def property_check(pp, torch, sc, run=None):
    """all clauses of the property on the implementation; returns list of (key, what)"""
    if run is None:
        run = run_impl(pp, torch, sc)
    res = []
    if run.get('shape_errs'):
        return [('IMUPreintegrator.forward:output-shape', run['shape_errs'][0])]
    if run.get('mutated'):
        res.append(('mutation:IMUPreintegrator.forward', run['mutated']))
    if wellformed(sc) and (run['ctor_raised'] or run.get('errs')):
        res.append(('IMUPreintegrator.forward:raises-on-documented-input', str(run.get('err') or run['errs'][0])))
    w = check_oracle(sc, run)
    if w:
        res.append(('IMUPreintegrator.forward:differs-from-documented-recursion', w))
    w = check_cov_valid(sc, run)
    if w:
        res.append(('IMUPreintegrator.forward:cov-not-symmetric-psd', w))
    w = check_cov_zero(pp, torch, sc, run)
    if w:
        res.append(('IMUPreintegrator.forward:cov-nonzero-for-noise-free-sensors', w))
    b, bc, Ftot = check_chunks(pp, torch, sc, run)
    if b:
        res.append(('IMUPreintegrator.forward:chunking-changes-states', b))
    if bc:
        res.append((KEY_COV if Ftot >= 3 else 'IMUPreintegrator.forward:cov:one-call-vs-chunks:F<3', bc))
    w = check_ranks(pp, torch, sc)
    if w:
        res.append(('IMUPreintegrator.forward:rank-normalisation', w))
    for key, fn in (('IMUPreintegrator.forward:same-tensors-fed-again', check_reuse), ('IMUPreintegrator.forward:batch-item-vs-single', check_per_item),
                    ('IMUPreintegrator.forward:call-argument-vs-constructor-argument', check_call_forms),
                    ('IMUPreintegrator.forward:init_state-handover', check_handover),
                    ('IMUPreintegrator.forward:depends-on-earlier-calls', check_history),
                    ('IMUPreintegrator.forward:changed-by-a-call-that-raised', check_exception_safety)):
        w = fn(pp, torch, sc, run)
        if w:
            res.append((key, w))
    return res


# ------------------------------------------------------------------------------------------------
# generators
def dy(rng, bits, lim):
    n = int(lim * (1 << bits))
    return rng.randint(-n, n) / float(1 << bits)


def split_sizes(rng, F, nch):
    """nch positive chunk sizes summing to F"""
    nch = max(1, min(nch, F))
    cuts = sorted(rng.sample(range(1, F), nch - 1)) if nch > 1 else []
    return [b - a for a, b in zip([0] + cuts, cuts + [F])]


def gen_exact(rng, F, B, chunks, with_rot, gravity, reset=False, prop_cov=True, coarse=False, rank=3):
    """float64, no rounding: gyro = 0, Hurwitz-unit rotations, dyadic data, dt = 2^-k"""
    ab, al = (0, 3.0) if coarse else (4, 4.0)
    mk = lambda n: dict(
        dt=[[2.0 ** -rng.randint(1, 2 if coarse else 4) for _ in range(n)] for _ in range(B)],
        gyro=[[[0.0, 0.0, 0.0] for _ in range(n)] for _ in range(B)],
        acc=[[[dy(rng, ab, al) for _ in range(3)] for _ in range(n)] for _ in range(B)],
        rot=[[list(rng.choice(HURWITZ)) for _ in range(n)] for _ in range(B)] if with_rot else None,
        ranks=[rank] * 4)
    return dict(dtype='float64', gravity=gravity, gyro_cov=[2.0 ** -rng.randint(6, 9) for _ in range(3)],
                acc_cov=[2.0 ** -rng.randint(3, 6) for _ in range(3)], prop_cov=prop_cov, reset=reset,
                pos=[dy(rng, 2, 8.0) for _ in range(3)], rot=list(rng.choice(HURWITZ)), vel=[dy(rng, 3, 4.0) for _ in range(3)],
                calls=[mk(n) for n in chunks], route='exact', F=F, B=B)


def rand_unit(rng):
    v = [rng.gauss(0, 1) for _ in range(4)]
    n = math.sqrt(sum(x * x for x in v))
    return [x / n for x in v]


def gen_float(rng, dtype, F, B, chunks, with_rot, gravity, style, reset=False, prop_cov=True, rank=3):
    """generic floats; style: 'imu' (dt ~ 1e-2, small rates), 'wild' (dt in [1e-4,1], large rates), 'still' (gyro = 0), 'slow' (0 < |gyro| dt
    <= about eps(dtype)), 'faint' (slow and tiny accelerations), 'mixed' / 'mixed_slow' (one kind per batch item)"""
    import struct

    def fl(x):
        return struct.unpack('f', struct.pack('f', x))[0] if dtype == 'float32' else float(x)

    def dtv():
        if style == 'imu':
            return fl(rng.choice([0.005, 0.01, 0.0025]) * rng.uniform(0.9, 1.1))
        if style in ('slow', 'faint', 'mixed_slow'):        # high-rate sampling
            return fl(rng.choice([1e-3, 1.2e-4, 0.0025, 0.01]) * rng.uniform(0.9, 1.1))
        return fl(math.exp(rng.uniform(math.log(1e-4), 0.0)))
    WS = {'imu': 0.5, 'wild': 6.0, 'still': 0.0, 'slow': None, 'faint': None}
    MIX = {'mixed': ['still', 'wild', 'imu'], 'mixed_slow': ['slow', 'imu', 'still', 'slow']}
    kinds = [MIX[style][b % len(MIX[style])] if style in MIX else style for b in range(B)]   # mixed: special and generic IMUs in one batch
    eps = EPS[dtype]

    def gyro(b, h):
        """'slow' / 'faint' (a near-stationary IMU at high rate): the rotation angle |w| dt of a frame is at or below eps(dtype),
        from eps 2^-30 up to the threshold eps itself, some frames just above it (up to 4 eps)"""
        if WS[kinds[b]] is not None:
            return [fl(rng.gauss(0, WS[kinds[b]])) for _ in range(3)]
        u = [rng.gauss(0, 1) for _ in range(3)]
        n = math.sqrt(sum(x * x for x in u)) or 1.0
        r = rng.random()
        th = eps * (1.0 if r < 0.1 else rng.uniform(1.0, 4.0) if r < 0.25 else 2.0 ** -rng.randint(0, 30) * rng.uniform(0.5, 1.0))
        return [fl(x / n * th / h) for x in u]

    def accel(b):
        if kinds[b] == 'faint':                             # tiny specific force (free fall, gravity = 0): velocity and position are tiny themselves
            return [fl(rng.gauss(0, 2.0 ** -rng.randint(20, 40))) for _ in range(3)]
        return [fl(rng.gauss(0, 4.0) + (9.8 if i == 2 else 0)) for i in range(3)]

    def mk(n):
        dts = [[dtv() for _ in range(n)] for _ in range(B)]
        return dict(dt=dts, gyro=[[gyro(b, dts[b][k]) for k in range(n)] for b in range(B)],
                    acc=[[accel(b) for _ in range(n)] for b in range(B)],
                    rot=[[[fl(x) for x in rand_unit(rng)] for _ in range(n)] for _ in range(B)] if with_rot else None,
                    ranks=[rank] * 4)
    cov = rng.random() < 0.5
    return dict(dtype=dtype, gravity=gravity, gyro_cov=(3.2e-3) ** 2 if cov else [fl(10 ** rng.uniform(-7, -3)) for _ in range(3)],
                acc_cov=(8e-2) ** 2 if cov else [fl(10 ** rng.uniform(-5, -1)) for _ in range(3)], prop_cov=prop_cov, reset=reset,
                pos=[fl(rng.uniform(-10, 10)) for _ in range(3)], rot=[fl(x) for x in rand_unit(rng)],
                vel=[fl(rng.uniform(-3, 3)) for _ in range(3)], calls=[mk(n) for n in chunks], route='float', F=F, B=B, style=style)


def at_rest(rng, sc, how):
    """the initial attitude is the identity (given, or the constructor default) - the integrated rotation of a 'slow' stream is then
    tiny itself and only a relative comparison sees it; how = 'faint': zero initial velocity and position too"""
    sc = dict(sc)
    if how == 'faint' or rng.random() < 0.3:
        sc.update(pos=None, rot=None, vel=None) if rng.random() < 0.5 else sc.update(DEFAULT_STATE)
    else:
        sc['rot'] = [0.0, 0.0, 0.0, 1.0]
    return sc


def witness():
    """regression case = the witness of C16_old_cov_chunk_invariance_refuted (coq/Proofs/IMU.v): three frames, gyro = 0,
    dt = 1/2, accelerations e_x, e_y, e_z, no gravity, unit sensor covariances; fed as [2,1] chunks vs one call.
    Before /repo 608b3d9 (cumprod with left=True in propagate_cov) cov[8,8] was 141/128 in one call, 149/128 in chunks."""
    mk = lambda accs: dict(dt=[[0.5] * len(accs)], gyro=[[[0.0, 0.0, 0.0]] * len(accs)], acc=[accs], rot=None, ranks=[3] * 4)
    return dict(dtype='float64', gravity=0.0, gyro_cov=[1.0, 1.0, 1.0], acc_cov=[1.0, 1.0, 1.0], prop_cov=True, reset=False,
                pos=[0.0, 0.0, 0.0], rot=[0.0, 0.0, 0.0, 1.0], vel=[0.0, 0.0, 0.0],
                calls=[mk([[1.0, 0.0, 0.0], [0.0, 1.0, 0.0]]), mk([[0.0, 0.0, 1.0]])], route='exact', F=3, B=1)


def rand_state(rng, route, dtype='float64', B=None):
    """a (pos, rot, vel) description: one state, or one per IMU when B is given"""
    import struct
    fl = (lambda x: struct.unpack('f', struct.pack('f', x))[0]) if dtype == 'float32' else float

    def one():
        if route == 'exact':
            return dict(pos=[dy(rng, 2, 8.0) for _ in range(3)], rot=list(rng.choice(HURWITZ)), vel=[dy(rng, 3, 4.0) for _ in range(3)])
        return dict(pos=[fl(rng.uniform(-10, 10)) for _ in range(3)], rot=[fl(x) for x in rand_unit(rng)], vel=[fl(rng.uniform(-3, 3)) for _ in range(3)])
    if B is None:
        return one()
    items = [one() for _ in range(B)]
    return {k: [it[k] for it in items] for k in ('pos', 'rot', 'vel')}


def decorate(rng, sc, mode):
    """call forms / histories the plain generators do not produce (the scenario stays inside the documented domain):
      init_first : the initial state goes to init_state of the first call (reset=False), the constructor gets ANOTHER state
                   (or its defaults); init_all: the same for every call of a reset=True object;
      cov_call   : sensor covariances as per-call arguments, the constructor gets other values;
      reanchor   : a later call of the history is given a new init_state;
      per_item   : one initial state per IMU, (B,1,H), to the constructor or to init_state;
      mixed_rot  : calls with and without a supplied rotation on one object;
      init_some  : init_state to SOME calls of a history (at least once: a call with, then a call without), reset=True or False;
      cov_some   : covariances to SOME calls of a reset=True history (each its own values), the others use the constructor's;
      defaults   : constructor arguments omitted (gravity, gyro_cov, acc_cov, state: any subset) - the documented defaults apply;
      noise_free : zero sensor covariances (float 0.0 or zero vectors), to the constructor or to the calls"""
    sc = dict(sc, calls=[dict(c) for c in sc['calls']])
    route, dtype, B = sc['route'], sc['dtype'], len(sc['calls'][0]['dt'])
    st = dict(pos=sc['pos'], rot=sc['rot'], vel=sc['vel'])
    decoy = lambda: (rand_state(rng, route, dtype) if rng.random() < 0.7 else dict(pos=None, rot=None, vel=None))
    if mode in ('init_first', 'init_all'):
        sc.update(decoy())
        sc['state_form'] = rng.choice([1, 2, 3])
        for i, c in enumerate(sc['calls']):
            if i == 0 or mode == 'init_all':
                c['init'] = dict(st, form=rng.choice([1, 2, 3]))
        if mode == 'init_all':
            sc['reset'] = True
    elif mode == 'cov_call':
        v3 = lambda v: [v] * 3 if isinstance(v, float) else v
        sc['call_cov'] = dict(gyro_cov=v3(sc['gyro_cov']), acc_cov=v3(sc['acc_cov']), form=rng.choice([1, 3]))
        if rng.random() < 0.7:
            sc['gyro_cov'], sc['acc_cov'] = [0.25, 0.5, 0.125], [2.0, 0.5, 1.0]
        else:
            sc['gyro_cov'], sc['acc_cov'] = None, None
    elif mode == 'reanchor':
        for i, c in enumerate(sc['calls']):
            if i >= 1 and (i == len(sc['calls']) - 1 or rng.random() < 0.4):
                c['init'] = dict(rand_state(rng, route, dtype, B if rng.random() < 0.4 else None), form=rng.choice([1, 2, 3]))
    elif mode == 'per_item':
        if rng.random() < 0.5:
            sc.update(rand_state(rng, route, dtype, B))
        else:
            sc.update(decoy())
            sc['calls'][0]['init'] = rand_state(rng, route, dtype, B)
    elif mode == 'mixed_rot':
        for i, c in enumerate(sc['calls']):
            if i % 2 == 1:
                c['rot'] = None
    elif mode == 'init_some':
        n = len(sc['calls'])
        sc['reset'] = rng.random() < 0.7
        if not sc['reset']:
            sc['prop_cov'] = True
        if n >= 2:
            k = rng.randrange(n - 1)                        # call k with init_state, call k + 1 without
            for i, c in enumerate(sc['calls']):
                if i == k or (i != k + 1 and rng.random() < 0.4):
                    c['init'] = dict(rand_state(rng, route, dtype, B if rng.random() < 0.3 else None), form=rng.choice([1, 2, 3]))
        sc['state_form'] = rng.choice([1, 2, 3])
    elif mode == 'cov_some':
        sc['reset'] = True
        n = len(sc['calls'])
        k = rng.randrange(max(1, n - 1))
        for i, c in enumerate(sc['calls']):
            if i == k or (i != k + 1 and rng.random() < 0.4):
                c['cov'] = dict(gyro_cov=[2.0 ** -rng.randint(2, 9) for _ in range(3)], acc_cov=[2.0 ** -rng.randint(0, 6) for _ in range(3)],
                                form=rng.choice([1, 3]))
    elif mode == 'defaults':
        omit = [k for k in ('gravity', 'gyro_cov', 'acc_cov', 'state') if rng.random() < 0.6] or ['gravity']
        for k in omit:
            if k == 'state':
                sc.update(pos=None, rot=None, vel=None)
            else:
                sc[k] = None
    elif mode == 'noise_free':
        zero = lambda: (0.0 if rng.random() < 0.5 else [0.0, 0.0, 0.0])
        if rng.random() < 0.5:
            sc['gyro_cov'], sc['acc_cov'] = zero(), zero()
        else:
            sc['call_cov'] = dict(gyro_cov=[0.0, 0.0, 0.0], acc_cov=[0.0, 0.0, 0.0], form=rng.choice([1, 3]))
    return sc


def sc_key(sc):
    return hashlib.md5(json.dumps(sc, sort_keys=True).encode()).hexdigest()[:12]


def slim(sc):
    """replayable description (the scenario itself)"""
    return dict(kind='scenario', scenario=sc)


# ------------------------------------------------------------------------------------------------
def run(ctx):
    pp = import_pypose()
    import torch
    ctx.rule = RULE
    rng = ctx.rng
    scen = []          # (scenario, run, route, cov_exact)

    def add(sc, cov_exact=False, coq=True):
        if 'layout' not in sc:
            sc['layout'] = LAYOUTS[len(scen) % len(LAYOUTS)]      # memory layout of the argument tensors: rotates
        r = run_impl(pp, torch, sc)
        scen.append((sc, r, sc['route'], cov_exact, coq))
        nfr = sum(len(c['dt'][0]) for c in sc['calls'])
        form = '+'.join(['init_state'] * any(c.get('init') is not None for c in sc['calls']) + ['call_cov'] * (sc.get('call_cov') is not None)
                        + ['per_item_state'] * (len(all_states(sc)) > 1 + sum(c.get('init') is not None for c in sc['calls']))) or 'plain'
        ctx.count('form:' + form)
        ctx.count('layout:' + sc['layout'])
        has = [c.get('init') is not None for c in sc['calls']]
        if sc['reset'] and any(a and not b for a, b in zip(has, has[1:])):
            ctx.count('history:reset=True, call with init_state then call without')
        if sc['gravity'] is None or sc['gravity'] == 0:
            ctx.count('gravity:' + ('omitted' if sc['gravity'] is None else repr(sc['gravity'])))
        ctx.case((sc['route'], sc_key(sc)), nontrivial=nfr >= 2,
                 branch='%s/%s/B%d/%s/%s/%s' % (sc['route'], sc['dtype'], sc.get('B', 0), 'rot' if sc['calls'] and sc['calls'][0].get('rot') is not None else 'norot',
                                                'g0' if sc['gravity'] == 0 else 'g', 'chunks%d' % len(sc['calls']) if len(sc['calls']) > 1 else 'single'),
                 sample=dict(route=sc['route'], dtype=sc['dtype'], B=sc.get('B'), chunks=[len(c['dt'][0]) for c in sc['calls']],
                             gravity=sc['gravity'], first_frame=dict(dt=sc['calls'][0]['dt'][0][0], gyro=sc['calls'][0]['gyro'][0][0], acc=sc['calls'][0]['acc'][0][0]),
                             impl_last_pos=(r['calls'][-1]['out'] or {}).get('pos', [[None]])[0][-1] if r['calls'] else None) if len(scen) % 23 == 3 else None)
        ctx.traces += 1
        ctx.count('frames', nfr * max(1, sc.get('B', 1)))
        return r

    # ---------------------------------------------------------------- 0: directed regression case (defect repaired in /repo 608b3d9)
    wsc = witness()
    wsc['layout'] = 'fresh'
    wr = add(wsc, cov_exact=True)
    for key, what in property_check(pp, torch, wsc, wr):
        ctx.violation(key, what, slim(wsc))
    add(single_call(wsc), cov_exact=True)      # the one-call side of the witness, also compared with the model exactly

    # ---------------------------------------------------------------- A: directed block (every branch of the model)
    G = 9.8125
    d = []
    d.append(gen_exact(rng, 1, 1, [1], False, G, rank=1))                       # (H)
    d.append(gen_exact(rng, 1, 1, [1], True, G, rank=1))
    d.append(gen_exact(rng, 5, 1, [5], False, G, rank=2))                       # (F,H)
    d.append(gen_exact(rng, 6, 1, [6], True, 0.0, rank=2))
    d.append(gen_exact(rng, 3, 2, [3], False, G))                               # (B,F,H), broadcast initial state
    d.append(gen_exact(rng, 7, 3, [2, 4, 1], False, G))                         # chunks, state of size B carried, Rij carried
    d.append(gen_exact(rng, 7, 4, [1, 1, 5], True, G))
    d.append(gen_exact(rng, 4, 1, [2, 2], False, G, reset=True))                # reset=True: every call from the constructor state
    d.append(gen_exact(rng, 3, 2, [3], True, 0.0, reset=True, prop_cov=False))  # no covariance
    d.append(gen_exact(rng, 2, 1, [2], False, G, reset=False, prop_cov=False))  # constructor raises
    d.append(gen_exact(rng, 3, 1, [1, 1, 1], False, 0.0, coarse=True))
    d.append(gen_exact(rng, 3, 1, [3], True, 8.0, coarse=True))
    sc = gen_exact(rng, 3, 1, [3], False, G)                                    # assert on ranks fails
    sc['calls'][0]['ranks'] = [3, 2, 3, 3]
    d.append(sc)
    sc = gen_exact(rng, 4, 2, [2, 2], False, G)                                 # second call with another batch size
    sc['calls'][1] = gen_exact(rng, 2, 3, [2], False, G)['calls'][0]
    d.append(sc)
    sc = gen_exact(rng, 3, 1, [3], False, G)                                    # acc has fewer frames than dt
    sc['calls'][0]['acc'] = [sc['calls'][0]['acc'][0][:2]]
    d.append(sc)
    sc = gen_exact(rng, 3, 1, [3], True, G)                                     # rot has more frames than dt
    sc['calls'][0]['rot'] = [sc['calls'][0]['rot'][0] + [HURWITZ[5]]]
    d.append(sc)
    # call forms: init_state / gyro_cov / acc_cov as arguments of forward (the constructor holds OTHER values), several
    # calls on a reset=True object (other batch size, other frame count, with / without rot), one state per IMU
    d.append(decorate(rng, gen_exact(rng, 5, 2, [2, 3], False, G), 'init_first'))
    d.append(decorate(rng, gen_exact(rng, 5, 1, [3, 2], False, G), 'init_all'))
    d.append(decorate(rng, gen_exact(rng, 4, 2, [1, 3], True, G), 'cov_call'))
    d.append(decorate(rng, decorate(rng, gen_exact(rng, 6, 3, [2, 1, 3], False, 9.75), 'cov_call'), 'init_first'))
    sc = gen_exact(rng, 4, 2, [2, 2], True, G, reset=True)
    sc['calls'][1] = gen_exact(rng, 3, 3, [3], False, G)['calls'][0]
    d.append(sc)
    d.append(decorate(rng, gen_exact(rng, 6, 2, [2, 2, 2], False, G), 'reanchor'))
    d.append(decorate(rng, gen_exact(rng, 5, 3, [4, 1], False, G), 'per_item'))
    d.append(decorate(rng, gen_exact(rng, 6, 2, [1, 2, 3], True, G), 'mixed_rot'))
    # what the constructor is told: regimes of gravity (exactly zero as float and as int, negative, tiny, omitted = documented
    # default, int), zero / omitted sensor covariances; optional arguments given to some calls of a history only
    for g in (0.0, 0, -G, 2.0 ** -20, None, 8):
        d.append(gen_exact(rng, 4, 2, [3, 1], g in (0, -G), g, reset=(g in (0.0, None))))
    d.append(decorate(rng, gen_exact(rng, 5, 2, [2, 3], False, 0.0), 'noise_free'))
    d.append(decorate(rng, gen_exact(rng, 4, 1, [4], True, G, reset=True), 'noise_free'))
    d.append(decorate(rng, gen_exact(rng, 5, 2, [2, 3], False, G), 'defaults'))
    d.append(decorate(rng, gen_exact(rng, 6, 2, [2, 1, 3], False, G), 'init_some'))
    d.append(decorate(rng, gen_exact(rng, 6, 1, [3, 3], True, 0.0), 'init_some'))
    d.append(decorate(rng, gen_exact(rng, 6, 2, [2, 2, 2], False, G), 'cov_some'))
    # every kind of rejected call in front of every call (check_exception_safety): reset=False histories with B not in {1, F},
    # with / without rot, init_state to the first call, a reset=True object
    d.append(dict(gen_exact(rng, 8, 2, [3, 5], False, G), rejections='all'))
    d.append(dict(gen_exact(rng, 9, 3, [4, 1, 4], True, 0.0), rejections='all'))
    d.append(dict(decorate(rng, gen_exact(rng, 7, 2, [3, 4], False, G), 'init_first'), rejections='all'))
    d.append(dict(gen_exact(rng, 7, 2, [3, 4], True, G, reset=True), rejections='all'))
    for i, sc in enumerate(d):
        add(sc, cov_exact=(i in (10, 11)))
    MODES = [None, None, None, 'init_first', 'init_all', 'cov_call', 'reanchor', 'per_item', 'mixed_rot', 'init_some', 'init_some', 'cov_some',
             'defaults', 'noise_free']

    def form(sc):
        mode = rng.choice(MODES)
        return sc if mode is None else decorate(rng, sc, mode)
    # exact route, random: moderate F with covariance, large F (incl. non powers of two) without
    Fs_small = [1, 2, 3, 4, 5, 6, 7, 9, 12, 13, 17]
    for k in range(ctx.scale(14, 60)):
        F = rng.choice(Fs_small)
        B = rng.randint(1, 4)
        add(form(gen_exact(rng, F, B, split_sizes(rng, F, rng.choice([1, 1, 2, 3])), rng.random() < 0.5, rng.choice([0.0, G, 9.75]))))
    for F in ctx.scale([31, 33, 100, 127, 200], [24, 31, 33, 63, 65, 100, 127, 128, 129, 150, 199, 200]):
        add(gen_exact(rng, F, rng.randint(1, 4), [F], rng.random() < 0.5, rng.choice([0.0, G]), reset=True, prop_cov=False))

    # ---------------------------------------------------------------- B: tolerance route (generic floats)
    if ctx.thorough:
        Fs = list(range(1, 201))
    else:
        Fs = [1, 2, 3, 4, 5, 6, 7, 8, 9, 11, 15, 16, 17, 23, 31, 32, 33, 47, 64, 65, 100, 127, 128, 129, 150, 199, 200]
    # covariance through Coq costs ~40 ms per frame and item: budget of item-frames per run
    budget = [ctx.scale(700, 6000)]
    for F in Fs:
        reps = 1 if (F > 40 or not ctx.thorough) else 2
        for _ in range(reps):
            dtype = 'float64' if rng.random() < 0.7 else 'float32'
            B = rng.randint(1, 4)
            style = rng.choice(['imu', 'imu', 'wild', 'wild', 'still', 'mixed', 'slow', 'mixed_slow'])
            nch = rng.choice([1, 2, 2, 3, 5]) if F > 1 else 1
            chunks = split_sizes(rng, F, nch)
            sc = gen_float(rng, dtype, F, B, chunks, rng.random() < 0.4, rng.choice([0.0, G32, G32, 1.625, None, -G32]), style)
            sc = form(at_rest(rng, sc, style) if style in ('slow', 'mixed_slow') and rng.random() < 0.7 else sc)
            cost = F * B
            coq = cost <= 60 and budget[0] >= cost
            if coq:
                budget[0] -= cost
            add(sc, coq=coq)
        if F > 24:
            # long streams through Coq without the covariance (reset=True, prop_cov=False, one call): the prefix scan
            dtype = 'float64' if rng.random() < 0.7 else 'float32'
            sc = gen_float(rng, dtype, F, rng.randint(1, 3), [F], rng.random() < 0.4, rng.choice([0.0, G32, None]),
                           rng.choice(['imu', 'wild']), reset=True, prop_cov=False)
            add(decorate(rng, sc, 'init_all') if rng.random() < 0.3 else sc)
    # one long chunked stream with covariance through Coq
    add(gen_float(rng, 'float64', 100, 1, [37, 1, 62], False, G32, 'imu'))
    # one-frame calls repeated (pure history), float
    add(gen_float(rng, 'float64', 12, 2, [1] * 12, False, G32, 'wild'))
    add(gen_float(rng, 'float32', 9, 1, [1] * 9, True, None, 'imu'))
    # call forms on generic floats (every run): init_state to the first call / to every call of a reset=True object,
    # per-call covariances, re-anchoring in the middle of a history, one state per IMU, calls with and without rot
    for mode, dtype, F, B, nch, wr_ in (('init_first', 'float64', 23, 3, 4, False), ('init_first', 'float32', 9, 2, 2, False),
                                        ('init_all', 'float64', 12, 2, 3, False), ('cov_call', 'float64', 8, 2, 2, True),
                                        ('reanchor', 'float64', 14, 2, 3, False), ('per_item', 'float32', 10, 3, 2, False),
                                        ('per_item', 'float64', 16, 4, 3, True), ('mixed_rot', 'float64', 11, 2, 4, True),
                                        ('init_some', 'float64', 13, 2, 3, False), ('init_some', 'float32', 10, 1, 4, True),
                                        ('cov_some', 'float64', 9, 2, 3, False), ('defaults', 'float64', 12, 2, 2, False),
                                        ('defaults', 'float32', 7, 1, 1, True), ('noise_free', 'float64', 10, 2, 2, False)):
        add(decorate(rng, gen_float(rng, dtype, F, B, split_sizes(rng, F, nch), wr_, rng.choice([G32, 0.0]), rng.choice(['imu', 'wild', 'mixed'])), mode))

    # near-stationary IMUs at high rate (every run): 0 < |gyro| dt <= about eps(dtype) in every frame, from the identity attitude -
    # the integrated rotation is tiny itself (relative oracle, rel_scales); batches mixing such items with generic ones; 'faint':
    # tiny accelerations without gravity from rest (velocity and position tiny themselves).  Five short ones also through Coq.
    for dtype, F, B, nch, style, g, kwargs, coq in (
            ('float32', 200, 2, 1, 'slow', None, dict(reset=True, prop_cov=False), False),
            ('float64', 200, 2, 1, 'slow', G32, dict(reset=True, prop_cov=False), False),
            ('float32', 64, 1, 1, 'slow', G32, dict(reset=True, prop_cov=False), True),
            ('float64', 48, 2, 1, 'slow', 0.0, dict(reset=True, prop_cov=False), False),
            ('float64', 12, 2, 3, 'slow', G32, {}, True), ('float32', 10, 1, 2, 'slow', None, {}, False),
            ('float32', 12, 4, 2, 'mixed_slow', G32, {}, True), ('float64', 9, 3, 3, 'mixed_slow', 0.0, {}, False),
            ('float64', 150, 4, 4, 'mixed_slow', G32, {}, False), ('float32', 1, 2, 1, 'slow', G32, {}, True),
            ('float64', 16, 2, 2, 'faint', 0.0, {}, True), ('float32', 100, 1, 3, 'faint', 0.0, dict(reset=True), False),
            ('float32', 7, 3, 7, 'faint', 0.0, {}, False)):
        sc = gen_float(rng, dtype, F, B, split_sizes(rng, F, nch), False, g, style, **kwargs)
        if (F, B) == (12, 2):
            sc['rejections'] = 'all'
        add(at_rest(rng, sc, style), coq=coq)
        ctx.count('regime:|gyro| dt <= eps, identity attitude (%s)' % style)

    # ---------------------------------------------------------------- property clauses on the implementation
    for (sc, r, route, cov_exact, coq) in scen[1:]:
        for key, what in property_check(pp, torch, sc, r):
            ctx.violation(key, what, slim(sc))

    # ---------------------------------------------------------------- Coq: model on the same inputs
    files, index = [], {}
    shards = {'Q': [], 'fx': []}
    for i, (sc, r, route, cov_exact, coq) in enumerate(scen):
        mv = model_view(sc, r) if coq else None
        if mv is None:
            continue
        sc, r = mv
        e = Enc()
        if route == 'exact':
            e.case(i, sc, r, tolerances(sc, r, exact=True, cov_exact=cov_exact))
            shards['Q'].append((i, e.w))
        else:
            e.case(i, sc, r, tolerances(sc, r))
            shards['fx'].append((i, e.w))
    for mode, items in shards.items():
        # shards of roughly equal cost (by stream length)
        items.sort(key=lambda t: -len(t[1]))
        nsh = max(1, min(NCPU, len(items)))
        bins = [[] for _ in range(nsh)]
        size = [0] * nsh
        for it in items:
            j = size.index(min(size))
            bins[j].append(it)
            size[j] += len(it[1])
        for j, bn in enumerate(bins):
            if bn:
                name = '%s_%02d' % (mode, j)
                files.append((name, stream_file(mode, [w for _, w in bn])))
                index[name] = [i for i, _ in bn]
    res = run_case_files(PID, files, timeout=1500)
    for name, (rc, out) in sorted(res.items()):
        ev = parse_evals(out)
        if rc != 0 or len(ev) != 1:
            ctx.obligation_broken('correspondence-file:' + name, out[-1500:])
            continue
        bad = parse_nat_list(ev[0])
        if 1000000 in bad:
            ctx.obligation_broken('correspondence-file:' + name, 'the case stream could not be decoded')
            continue
        for i in bad:
            sc = scen[i][0]
            ctx.mismatch('model-vs-impl:' + scen[i][2], dict(kind='scenario', scenario=sc))
    ctx.notes.append('worst error / tolerance: implementation vs mpmath recursion %.3g, chunked vs one call %.3g' % (STATS['oracle'], STATS['chunks']))
    ctx.notes.append('%d scenarios (%d through Coq: %d exact, %d fixed-point), frame counts %s' % (
        len(scen), len(shards['Q']) + len(shards['fx']), len(shards['Q']), len(shards['fx']),
        'every F in 1..200' if ctx.thorough else 'spread incl. non powers of two'))

    # ---------------------------------------------------------------- search around mismatches
    for m in ctx.mismatches[:20]:
        sc = m['case']['scenario']
        found = property_check(pp, torch, sc)
        if not found:
            # shrink / vary: single frames, prefixes, other chunkings of the same stream
            for sc2 in variants(rng, sc):
                found = property_check(pp, torch, sc2)
                if found:
                    sc = sc2
                    break
        for key, what in found[:1]:
            m['explained'] = True
            ctx.violation(key, what, slim(sc))


def variants(rng, sc):
    """scenarios derived from sc for the search: prefixes of the stream in one call, every 2-chunking of short prefixes"""
    if not sc['calls'] or not views_applicable(sc) or any(c.get('init') is not None for c in sc['calls'][1:]):
        return
    if any(c.get('cov') is not None for c in sc['calls']):
        return
    try:
        one = single_call(sc)
    except Exception:
        return
    c = one['calls'][0]
    Ftot = len(c['dt'][0])
    cut = lambda a, b: dict(ranks=[3, 3, 3, 3], dt=[r[a:b] for r in c['dt']], gyro=[r[a:b] for r in c['gyro']],
                            acc=[r[a:b] for r in c['acc']], rot=None if c.get('rot') is None else [r[a:b] for r in c['rot']],
                            init=c.get('init') if a == 0 else None)
    for n in [1, 2, 3, 4, 5, 8, Ftot]:
        if n <= Ftot:
            yield dict(sc, calls=[cut(0, n)], reset=False, prop_cov=True)
    for n in [2, 3, 4, 6, Ftot]:
        if n <= Ftot:
            for s in range(1, min(n, 4)):
                yield dict(sc, calls=[cut(0, s), cut(s, n)], reset=False, prop_cov=True)


def replay(ctx, case):
    pp = import_pypose()
    import torch
    if case.get('kind') != 'scenario':
        return None
    res = property_check(pp, torch, case['scenario'])
    res = [kw for kw in res if kw[0] not in ctx.known]
    return res[0][1] if res else None
