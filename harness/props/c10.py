"""C10 correspondence: pypose.optim.solver (PINV, LSTSQ, Cholesky, CG) and pypose.sparse.ops
(bsr_bsc_matmul, _sparse_csr_mm) vs Model/Solver.v and Model/BSR.v.

* block-sparse products: exact route over Z.  Integer-valued blocks; every operand is handed to Coq
  together with torch's to_dense() of it and the implementation's result (crow, col, values and its
  to_dense()); Coq checks the model's result field by field and against the dense product (bsr_bad).
  The dense product is also checked on the implementation directly (integer arithmetic in Python from
  the pattern description: the independent oracle used by search / replay).  Exhaustive patterns for one
  block row x one block column with 1..4 inner blocks and for 2x2x2 grids, directed patterns (empty
  operands, empty rows / columns, full, stored zero blocks), random grids for all block shapes 1..4 and
  densities 0..1; all 36 layout pairs of _sparse_csr_mm with its callees instrumented (path taken,
  raise / return, value) against the dispatch table (disp_bad).
* CG: the iterates of small dyadic SPD systems are observed through CG(maxiter=k), k = 0..n+2 and the
  default, with / without initial guess and preconditioner, dense / CSR / COO / BSR storage, column and
  1-d right-hand sides; Coq evaluates the model over Q (exact rationals, one pass: cg_sq_values, proved
  equal to CG(maxiter=k) of the model) and compares with the float64 values up to 1e-7 relative (float64
  rounds the divisions; the tolerance test may be decided with tol(1 +- 2^-20)).  The property's own
  clause (|b - A x| <= tol |b| with the exact rational residual, zero rhs) is checked on the
  implementation for sizes 1..40 and condition numbers up to 1e3.
* direct solvers: what the theorems ASSUME about torch (the four Penrose equations for pinv, least-squares
  / minimum-norm property of lstsq, L L^T = A and info = 0 for SPD input, info != 0 otherwise,
  cholesky_solve) is measured on sizes 1..40, batches, condition numbers up to 1e8, rank-deficient
  (exact integer rank factorisations), indefinite and singular matrices; the wrappers' raise / return
  decisions go through Coq (wrap_bad); the property itself (least squares, minimum norm, SPD solution,
  failure clause) is checked on the wrappers' return values.  The least-squares oracle uses the
  CONSTRUCTION of each matrix (orthonormal factors and singular values, or an exact integer rank
  factorisation solved over Q): smallest attainable residual and minimum-norm solution are known without
  any solver, so a cut-off that discards singular values inside the quantifier (cond <= 1e8 in float64,
  <= 1e3 in float32) shows up as an O(1) residual excess.  Every problem is judged in every call form:
  default / explicit cut-off, all LSTSQ drivers, float64 / float32 input, BOTH process default dtypes
  (torch.set_default_dtype, restored), memory layouts, reused solver objects; arguments are snapshotted.
  Batches are judged item by item, each against its own construction, and their items are made as unlike
  as the quantifier allows: scales differing by up to 2^80 (item_scales; exact power-of-two scaling),
  independent condition numbers, full-rank next to exactly rank-deficient items (family 'mixed') - the
  answer for one item must not depend on its neighbours.  Cholesky batches likewise (residual per item).
  This validates hypotheses about torch on samples; it proves nothing about LAPACK.
* Cholesky failure clause (repaired in /repo 3f16d24, `fixed:` in known_findings.txt): the former witnesses
  (A=[[1,2],[2,1]], [[1,1],[1,1]], [[-1]]) are kept as directed cases and every generated indefinite /
  singular matrix (alone or as one member of a batch) must raise; a return is a VIOLATION."""
import itertools, math
from ..common import *

RULE = ('bsr case = (block grid sm x sn x sp, block shape dm x dn x dp, the two sparsity patterns, integer block values); '
        'non-trivial = at least one matching block pair (k1, k2); distinct by pattern + shape.  '
        'cg case = (A, b, x0, M, tol, maxiter, storage); non-trivial = at least one loop body executed.  '
        'direct case = (solver, shape, batch, rank, conditioning class); non-trivial = every case (distinct by matrix hash)')

KEY_CHOL = 'Cholesky.forward:non-PD-returns'
EPS = 2.0 ** -52


# ------------------------------------------------------------------------------------------------
# small helpers
class default_dtype:
    """run a block under the process default dtype `name` ('float32' / 'float64' / None = leave) and restore it:
    what a solver returns for given tensors must not depend on this global"""
    def __init__(self, torch, name):
        self.torch, self.name = torch, name

    def __enter__(self):
        self.old = self.torch.get_default_dtype()
        if self.name:
            self.torch.set_default_dtype(getattr(self.torch, self.name))

    def __exit__(self, *a):
        self.torch.set_default_dtype(self.old)
        return False


def nat(n):
    return '%d%%nat' % n


def zz(v):
    return '(%d)%%Z' % int(v)


def natlist(l):
    return coq_list(nat(x) for x in l)


def zmat(M):
    return coq_list(coq_list(zz(v) for v in row) for row in M)


def qmat(M):
    return coq_list(qlist(row) for row in M)


def opt(x, f):
    return 'None' if x is None else '(Some %s)' % f(x)


def shard(items, n):
    return [items[k:k + n] for k in range(0, len(items), n)]


def imat(t):
    """2-D tensor with integer values -> list of lists of int"""
    return [[int(v) for v in row] for row in t.tolist()]


def int_matmul(A, B):
    n = len(B)
    p = len(B[0]) if B else 0
    return [[sum(A[i][k] * B[k][j] for k in range(n)) for j in range(p)] for i in range(len(A))]


# ------------------------------------------------------------------------------------------------
# block-sparse operands
def pattern_to_compressed(pat):
    """pat: list of rows, each a sorted list of inner indices -> (ptr, idx)"""
    ptr, idx = [0], []
    for r in pat:
        idx += list(r)
        ptr.append(len(idx))
    return ptr, idx


def dense_from_blocks(outer, inner, bh, bw, pat, blocks, transposed):
    """independent densification.  transposed=False: BSR (pat rows = block rows, entries = block cols);
    True: BSC (pat rows = block columns, entries = block rows)"""
    R, C = (inner, outer) if transposed else (outer, inner)
    D = [[0] * (C * bw) for _ in range(R * bh)]
    k = 0
    for o, lst in enumerate(pat):
        for t in lst:
            br, bc = (t, o) if transposed else (o, t)
            for u in range(bh):
                for v in range(bw):
                    D[br * bh + u][bc * bw + v] = blocks[k][u][v]
            k += 1
    return D


def make_operands(torch, sm, sn, sp, dm, dn, dp, patA, patB, valsA, valsB):
    crow, col = pattern_to_compressed(patA)
    ccol, row = pattern_to_compressed(patB)
    i64 = torch.int64
    va = torch.tensor(valsA, dtype=torch.float64).reshape(len(col), dm, dn)
    vb = torch.tensor(valsB, dtype=torch.float64).reshape(len(row), dn, dp)
    A = torch.sparse_bsr_tensor(torch.tensor(crow, dtype=i64), torch.tensor(col, dtype=i64), va, size=(sm * dm, sn * dn))
    B = torch.sparse_bsc_tensor(torch.tensor(ccol, dtype=i64), torch.tensor(row, dtype=i64), vb, size=(sn * dn, sp * dp))
    return A, B, (crow, col), (ccol, row)


def rand_blocks(rng, k, h, w, zero_prob):
    return [[[0 if rng.random() < zero_prob else rng.randint(-4, 4) for _ in range(w)] for _ in range(h)] for _ in range(k)]


def rand_pattern(rng, outer, inner, density):
    return [[t for t in range(inner) if rng.random() < density] for _ in range(outer)]


def zbs_lit(rows, cols, bh, bw, ptr, idx, vals):
    return '(%s, %s, %s, %s, %s, %s, %s)' % (nat(rows), nat(cols), nat(bh), nat(bw), natlist(ptr), natlist(idx),
                                             coq_list(zmat(b) for b in vals))


def run_bsr_case(torch, ops, c):
    """runs the implementation on one case dict; returns (A, B, result or None, error string)"""
    A, B, _, _ = make_operands(torch, c['sm'], c['sn'], c['sp'], c['dm'], c['dn'], c['dp'], c['patA'], c['patB'], c['valsA'], c['valsB'])
    try:
        R = ops._sparse_csr_mm(A, B)
        return A, B, R, None
    except BaseException as e:  # noqa
        return A, B, None, '%s: %s' % (type(e).__name__, str(e)[:200])


def bsr_oracle(c):
    """the dense product from the case description alone (no torch)"""
    DA = dense_from_blocks(c['sm'], c['sn'], c['dm'], c['dn'], c['patA'], c['valsA'], False)
    DB = dense_from_blocks(c['sp'], c['sn'], c['dn'], c['dp'], c['patB'], c['valsB'], True)
    return DA, DB, int_matmul(DA, DB)


def bsr_cases(ctx):
    rng = ctx.rng
    cases = []

    def add(branch, sm, sn, sp, dm, dn, dp, patA, patB, zero_prob=0.0):
        nA = sum(len(r) for r in patA)
        nB = sum(len(r) for r in patB)
        cases.append(dict(kind='bsr', branch=branch, sm=sm, sn=sn, sp=sp, dm=dm, dn=dn, dp=dp, patA=patA, patB=patB,
                          valsA=rand_blocks(rng, nA, dm, dn, zero_prob), valsB=rand_blocks(rng, nB, dn, dp, zero_prob)))
    # exhaustive: one block row x one block column, every pair of subsets of sn inner indices
    for sn in (1, 2, 3, 4):
        subs = [[t for t in range(sn) if (mask >> t) & 1] for mask in range(2 ** sn)]
        for sa in subs:
            for sb in subs:
                add('exhaustive-1x%dx1' % sn, 1, sn, 1, 1, 1, 1, [sa], [sb])
    # exhaustive 2 x 2 x 2 grids of 1x1 blocks (state carried across cells: result_step, coo order)
    subs2 = [[t for t in range(2) if (mask >> t) & 1] for mask in range(4)]
    for pa in itertools.product(subs2, repeat=2):
        for pb in itertools.product(subs2, repeat=2):
            add('exhaustive-2x2x2', 2, 2, 2, 1, 1, 1, [list(x) for x in pa], [list(x) for x in pb])
    # directed
    for (dm, dn, dp) in [(1, 1, 1), (2, 3, 1), (4, 4, 4), (3, 1, 2)]:
        add('empty-both', 2, 3, 2, dm, dn, dp, [[], []], [[], []])
        add('empty-A', 2, 3, 2, dm, dn, dp, [[], []], [[0, 1, 2], [1]])
        add('empty-B', 2, 3, 2, dm, dn, dp, [[0, 2], [1]], [[], []])
        add('full', 2, 3, 2, dm, dn, dp, [[0, 1, 2]] * 2, [[0, 1, 2]] * 2)
        add('empty-row-col', 3, 3, 3, dm, dn, dp, [[0, 1], [], [2]], [[], [0, 2], [1, 2]])
        add('disjoint', 2, 4, 2, dm, dn, dp, [[0, 1], [0, 1]], [[2, 3], [2, 3]])
        add('last-only', 2, 4, 2, dm, dn, dp, [[3], [0, 3]], [[0, 1, 2, 3], [3]])
        add('zero-blocks', 2, 3, 2, dm, dn, dp, [[0, 1, 2]] * 2, [[0, 1, 2]] * 2, zero_prob=1.0)
    # random: every block size 1..4, densities 0..1
    nr = ctx.scale(400, 3000)
    dens = [0.0, 0.1, 0.25, 0.5, 0.75, 0.9, 1.0]
    smax = ctx.scale(4, 6)
    for t in range(nr):
        dm, dn, dp = rng.randint(1, 4), rng.randint(1, 4), rng.randint(1, 4)
        if t < 64:
            dm, dn, dp = 1 + (t % 4), 1 + (t // 4) % 4, 1 + (t // 16) % 4
        sm, sn, sp = rng.randint(1, smax), rng.randint(1, smax + 1), rng.randint(1, smax)
        da, db = rng.choice(dens), rng.choice(dens)
        add('random', sm, sn, sp, dm, dn, dp, rand_pattern(rng, sm, sn, da), rand_pattern(rng, sp, sn, db),
            zero_prob=rng.choice([0.0, 0.0, 0.3, 0.7]))
    return cases


def count_matches(c):
    return sum(len(set(ra) & set(rb)) for ra in c['patA'] for rb in c['patB'])


def check_bsr(ctx, torch, ops, files, tables):
    cases = bsr_cases(ctx)
    lits = []
    for i, c in enumerate(cases):
        A, B, R, err = run_bsr_case(torch, ops, c)
        DA, DB, DP = bsr_oracle(c)
        nm = count_matches(c)
        ctx.case(('bsr', c['sm'], c['sn'], c['sp'], c['dm'], c['dn'], c['dp'], str(c['patA']), str(c['patB'])),
                 nontrivial=nm > 0, branch='bsr:' + c['branch'], sample=dict(c, valsA='...', valsB='...') if i in (100, 640, 900) else None)
        ctx.count('bsr-blocksize:%dx%dx%d' % (c['dm'], c['dn'], c['dp']))
        ctx.count('bsr-matches:' + ('0' if nm == 0 else '1' if nm == 1 else '2-5' if nm <= 5 else '6+'))
        # the property, directly on the implementation
        why = bsr_property(torch, c, A, B, R, err, DA, DB, DP)
        if why:
            ctx.violation('bsr_bsc_matmul:wrong-product', why, c)
        ta, tb = imat(A.to_dense()), imat(B.to_dense())
        a_lit = zbs_lit(c['sm'] * c['dm'], c['sn'] * c['dn'], c['dm'], c['dn'], *pattern_to_compressed(c['patA']), c['valsA'])
        b_lit = zbs_lit(c['sn'] * c['dn'], c['sp'] * c['dp'], c['dn'], c['dp'], *pattern_to_compressed(c['patB']), c['valsB'])
        if R is None:
            impl = 'None'
        else:
            rv = R.values()
            r_lit = zbs_lit(R.shape[0], R.shape[1], rv.shape[-2], rv.shape[-1], R.crow_indices().tolist(), R.col_indices().tolist(),
                            [imat(blk) for blk in rv])
            impl = '(Some (%s, %s))' % (r_lit, zmat(imat(R.to_dense())))
        lits.append('(%s, %s, %s, %s, %s, %s)' % (nat(i), a_lit, b_lit, zmat(ta), zmat(tb), impl))
    hdr = 'From PV Require Import Base.Num Model.Solver Model.BSR.\nFrom Coq Require Import List ZArith Bool. Import ListNotations.\n'
    per = 120
    for si, sh in enumerate(shard(lits, per)):
        files.append(('bsr_%03d' % si, hdr + 'Definition cs : list bsr_case := %s.\nEval vm_compute in bsr_bad cs.\n' % coq_list(sh)))
    tables['bsr'] = (cases, per)


def bsr_property(torch, c, A, B, R, err, DA, DB, DP):
    """None if the call returned exactly the dense product (or raised); else a description"""
    if R is None:
        return 'bsr_bsc_matmul raised on a valid BSR x BSC pair: %s' % err   # valid operands must be multiplied
    got = imat(R.to_dense())
    if imat(A.to_dense()) != DA or imat(B.to_dense()) != DB:
        return None   # torch's own to_dense disagrees with the format definition: not this property's business
    if got != DP:
        bad = [(i, j) for i in range(len(DP)) for j in range(len(DP[0])) if got[i][j] != DP[i][j]][:3]
        return ('_sparse_csr_mm(BSR %dx%d blocks %dx%d, BSC blocks %dx%d).to_dense() differs from the dense product at %s: got %s, expected %s'
                % (len(DA), len(DA[0]), c['dm'], c['dn'], c['dn'], c['dp'], bad, [got[i][j] for i, j in bad], [DP[i][j] for i, j in bad]))
    return None


# ------------------------------------------------------------------------------------------------
# layout dispatch
LAYS = ['strided', 'csr', 'csc', 'bsr', 'bsc', 'coo']


def to_layout(torch, D, lay, bs):
    if lay == 'strided':
        return D.clone()
    if lay == 'csr':
        return D.to_sparse_csr()
    if lay == 'csc':
        return D.to_sparse_csc()
    if lay == 'bsr':
        return D.to_sparse_bsr(bs)
    if lay == 'bsc':
        return D.to_sparse_bsc(bs)
    return D.to_sparse()


def lay_code(torch, t):
    if isinstance(t, tuple):
        return 'tuple'
    return {torch.strided: 0, torch.sparse_csr: 1, torch.sparse_csc: 2, torch.sparse_bsr: 3, torch.sparse_bsc: 4, torch.sparse_coo: 5}[t.layout]


def run_dispatch(torch, ops, c):
    """run _sparse_csr_mm with its callees instrumented; returns (trace, terminal code, result or None, err)"""
    DA = torch.tensor(c['A'], dtype=torch.float64)
    DB = torch.tensor(c['B'], dtype=torch.float64)
    m1 = to_layout(torch, DA, LAYS[c['l1']], tuple(c['bsA']))
    m2 = to_layout(torch, DB, LAYS[c['l2']], tuple(c['bsB']))
    trace, term = [], [None]
    orig_mm, orig_bb, orig_addmm = ops._sparse_csr_mm, ops.bsr_bsc_matmul, torch.addmm

    def mm(a, b):
        trace.append((lay_code(torch, a), lay_code(torch, b)))
        return orig_mm(a, b)

    def bb(a, b):
        term[0] = 0
        return orig_bb(a, b)

    def addmm(z, a, b, **kw):
        if isinstance(z, tuple):
            term[0] = 20 + lay_code(torch, z[0])
        else:
            term[0] = 10 + lay_code(torch, z)
        return orig_addmm(z, a, b, **kw)
    ops._sparse_csr_mm, ops.bsr_bsc_matmul, torch.addmm = mm, bb, addmm
    try:
        try:
            R = ops._sparse_csr_mm(m1, m2)
            err = None
        except BaseException as e:  # noqa
            R, err = None, '%s: %s' % (type(e).__name__, str(e)[:120])
    finally:
        ops._sparse_csr_mm, ops.bsr_bsc_matmul, torch.addmm = orig_mm, orig_bb, orig_addmm
    return trace, term[0], R, err


def check_dispatch(ctx, torch, ops, files, tables):
    rng = ctx.rng
    cases, lits = [], []
    for rep in range(ctx.scale(2, 8)):
        for l1 in range(6):
            for l2 in range(6):
                bh, bw, bp = rng.randint(1, 3), rng.randint(1, 3), rng.randint(1, 3)
                gm, gn, gp = rng.randint(1, 3), rng.randint(1, 3), rng.randint(1, 3)
                dens = rng.choice([0.0, 0.3, 0.7, 1.0])
                A = [[(rng.randint(-4, 4) if rng.random() < dens else 0) for _ in range(gn * bw)] for _ in range(gm * bh)]
                B = [[(rng.randint(-4, 4) if rng.random() < dens else 0) for _ in range(gp * bp)] for _ in range(gn * bw)]
                c = dict(kind='dispatch', l1=l1, l2=l2, A=A, B=B, bsA=(bh, bw), bsB=(bw, bp))
                trace, term, R, err = run_dispatch(torch, ops, c)
                i = len(cases)
                cases.append(c)
                ctx.case(('dispatch', l1, l2, rep), nontrivial=True, branch='dispatch:%s' % ('returns' if R is not None else 'raises'))
                ctx.count('layout-pair:%s,%s' % (LAYS[l1], LAYS[l2]))
                if R is not None:
                    got = imat(R.to_dense())
                    exp = int_matmul(A, B)
                    if got != exp:
                        ctx.violation('_sparse_csr_mm:wrong-product', '_sparse_csr_mm(%s, %s) returned a tensor whose to_dense() is not the dense product' % (LAYS[l1], LAYS[l2]), c)
                    if term is None:
                        term = 98
                elif term is None:
                    # raised before any callee: NotImplemented, or torch.zeros refused the layout in the last branch
                    term = 1 if (l1, l2) == (4, 3) else 20 + trace[-1][0]
                lits.append('(%s, %s, %s, %s, %s, %s)' % (nat(i), nat(l1), nat(l2), coq_list('(%s, %s)' % (nat(a), nat(b)) for a, b in trace), nat(term), 'true' if R is not None else 'false'))
    hdr = 'From PV Require Import Base.Num Model.Solver Model.BSR.\nFrom Coq Require Import List ZArith Bool. Import ListNotations.\n'
    files.append(('disp', hdr + 'Eval vm_compute in disp_bad %s.\n' % coq_list(lits)))
    tables['disp'] = (cases, 10 ** 9)


# ------------------------------------------------------------------------------------------------
# CG
def dy(rng, lo, hi, den):
    return rng.randint(lo * den, hi * den) / den


def spd_dyadic(rng, n):
    """G G^T / 16 + diag: small dyadic SPD matrix with a modest condition number"""
    G = [[rng.randint(-4, 4) for _ in range(n)] for _ in range(n)]
    A = [[sum(G[i][k] * G[j][k] for k in range(n)) / 16.0 for j in range(n)] for i in range(n)]
    for i in range(n):
        A[i][i] += rng.choice([1.0, 2.0, 0.5, 4.0])
    return A


def cg_store(torch, A, how):
    T = torch.tensor(A, dtype=torch.float64)
    n = T.shape[0]
    if how == 'dense':
        return T
    if how == 'csr':
        return T.to_sparse_csr()
    if how == 'coo':
        return T.to_sparse()
    if how == 'bsr':
        bsz = 2 if n % 2 == 0 else (3 if n % 3 == 0 else 1)
        return T.to_sparse_bsr((bsz, bsz))
    raise ValueError(how)


def run_cg(torch, CG, c):
    """the implementation's value for one case: list of floats, 'nonfinite', or ('raised', text)"""
    A = cg_store(torch, c['A'], c['storeA'])
    M = None if c['M'] is None else cg_store(torch, c['M'], c['storeM'])
    b = torch.tensor(c['b'], dtype=torch.float64)
    b = b.reshape(-1, 1) if c['bcol'] else b
    x0 = None if c['x0'] is None else torch.tensor(c['x0'], dtype=torch.float64).reshape(-1, 1)
    dense = lambda t: None if t is None else (t.to_dense() if t.layout != torch.strided else t).clone()
    snap = [dense(t) for t in (A, b, x0, M)]
    try:
        with default_dtype(torch, c.get('defdtype')):
            solver = CG(maxiter=c['maxiter'], tol=c['tol'])
            # history: the same solver object has already solved systems of these sizes (a solver must not
            # carry anything over from one call to the next)
            for m in c.get('prime_sizes') or []:
                solver(torch.eye(m, dtype=torch.float64) * 2.0, torch.ones(m, 1, dtype=torch.float64))
            x = solver(A, b, x0, M)
    except BaseException as e:  # noqa
        return ('raised', '%s: %s' % (type(e).__name__, str(e)[:200]))
    for nm, t0, t1 in zip(('A', 'b', 'x0', 'M'), snap, (A, b, x0, M)):
        if t0 is not None and not torch.equal(t0, dense(t1)):
            return ('raised', 'no exception, but the argument %s was modified in place by the call' % nm)
    if x.dtype != torch.float64:
        return ('raised', 'no exception, but a %s result for float64 input (process default dtype %s)' % (x.dtype, c.get('defdtype')))
    v = tolist(x)
    if not all(math.isfinite(t) for t in v):
        return 'nonfinite'
    return v


def cg_cases(ctx):
    rng = ctx.rng
    cases = []

    def add(branch, A, b, x0, M, tol, maxiters, storeA='dense', storeM='dense', bcol=True):
        cases.append(dict(kind='cg', branch=branch, A=A, b=b, x0=x0, M=M, tol=tol, maxiters=maxiters, storeA=storeA, storeM=storeM, bcol=bcol,
                          defdtype=('float32', 'float64')[len(cases) % 2]))
    I2 = [[1.0, 0.0], [0.0, 1.0]]
    S4 = [[4.0, 1.0, 0, 0], [1.0, 3.0, 0, 0], [0, 0, 2.0, 0.5], [0, 0, 0.5, 1.0]]
    # directed: every branch of the model
    add('zero-rhs', S4, [0.0] * 4, None, None, 1e-5, [None, 0, 3])
    add('zero-rhs-with-guess', S4, [0.0] * 4, [1.0, 2.0, 3.0, 4.0], None, 1e-5, [None])
    add('maxiter-0', S4, [1.0, 2.0, 3.0, 4.0], None, None, 1e-5, [0])
    add('maxiter-0-guess', S4, [1.0, 2.0, 3.0, 4.0], [1.0, 0.0, 0.0, 0.5], None, 1e-5, [0])
    add('guess-all-zero', S4, [1.0, 2.0, 3.0, 4.0], [0.0] * 4, None, 1e-5, [None, 1, 2])
    add('guess-is-solution', I2, [1.0, 2.0], [1.0, 2.0], None, 1e-5, [None, 3])
    add('identity-one-step', I2, [1.0, 2.0], None, None, 1e-5, [None, 1, 2])
    add('tol-0-nonfinite', I2, [1.0, 2.0], None, None, 0.0, [None, 1, 2, 3])
    add('tol-0-1x1', [[2.0]], [1.0], None, None, 0.0, [None, 1, 2])
    add('tol-big-exit-at-once', S4, [1.0, 2.0, 3.0, 4.0], None, None, 2.0, [None, 5])
    add('first-spin-only', S4, [1.0, 2.0, 3.0, 4.0], None, None, 1e-5, [1])
    add('precond-jacobi', S4, [1.0, 2.0, 3.0, 4.0], None, [[0.25, 0, 0, 0], [0, 0.5, 0, 0], [0, 0, 0.5, 0], [0, 0, 0, 1.0]], 1e-5, [None, 1, 2, 3])
    add('1-d rhs', S4, [1.0, 2.0, 3.0, 4.0], None, None, 1e-5, [None, 2], bcol=False)
    for st in ('csr', 'coo', 'bsr'):
        add('storage-' + st, S4, [1.0, 2.0, 3.0, 4.0], [0.5, 0.0, -1.0, 0.0], None, 1e-5, [None, 1, 2, 3], storeA=st)
        if st != 'bsr':
            add('precond-storage-' + st, S4, [1.0, 2.0, 3.0, 4.0], None, [[0.25, 0, 0, 0], [0, 0.5, 0, 0], [0, 0, 0.5, 0], [0, 0, 0, 1.0]], 1e-5, [None, 2], storeM=st)
    # random small dyadic SPD systems, iterates x_0 .. x_{n+2} and the default
    for t in range(ctx.scale(60, 400)):
        n = rng.randint(1, 5)
        A = spd_dyadic(rng, n)
        b = [dy(rng, -4, 4, 4) for _ in range(n)]
        if all(v == 0 for v in b):
            b[0] = 1.0
        x0 = rng.choice([None, None, [dy(rng, -2, 2, 4) for _ in range(n)]])
        Mk = rng.choice(['none', 'none', 'jacobi', 'spd'])
        M = None if Mk == 'none' else ([[(2.0 ** -round(math.log2(A[i][i])) if i == j else 0.0) for j in range(n)] for i in range(n)] if Mk == 'jacobi' else spd_dyadic(rng, n))
        tol = rng.choice([1e-5, 1e-5, 1e-3, 0.25, 1e-8])
        storeA = rng.choice(['dense', 'dense', 'csr', 'coo', 'bsr'])
        storeM = rng.choice(['dense', 'csr', 'coo'])
        add('random-n%d' % n, A, b, x0, M, tol, [None] + list(range(0, n + 3)), storeA=storeA, storeM=storeM, bcol=rng.random() < 0.8)
    return cases


def check_cg(ctx, torch, CG, files, tables):
    cases = cg_cases(ctx)
    lits = []
    for i, c in enumerate(cases):
        n = len(c['b'])
        vals, eps = [], 0.0
        for mi in c['maxiters']:
            v = run_cg(torch, CG, dict(c, maxiter=mi))
            k = 10 * n if mi is None else mi
            if isinstance(v, tuple):
                ctx.violation('CG.forward:raises', 'CG(maxiter=%s, tol=%s) raised on an SPD system stored as %s: %s' % (mi, c['tol'], c['storeA'], v[1]), dict(c, maxiter=mi))
                continue
            if v == 'nonfinite':
                vals.append((k, None))
            else:
                vals.append((k, v))
                eps = max(eps, 1e-7 * (1.0 + max(abs(t) for t in v)))
            ctx.case(('cg', str(c['A']), str(c['b']), str(c['x0']), str(c['M']), c['tol'], mi, c['storeA'], c['storeM'], c['bcol']),
                     nontrivial=(mi != 0 and any(c['b'])), branch='cg:' + c['branch'].split('-n')[0])
            ctx.count('cg-storage:' + c['storeA'])
        c['impl'] = vals
        if i in (3, 40):
            ctx.samples.append(dict(c))
        ctx.traces += 1
        K = max([k for k, _ in vals] + [0])
        lits.append('(%s, %s, %s, %s, %s, %s, %s, %s, %s)' % (
            nat(i), qmat(c['A']), qlist(c['b']), opt(c['x0'], qlist), opt(c['M'], qmat), qlit(c['tol']), nat(K),
            coq_list('(%s, %s)' % (nat(k), opt(v, qlist)) for k, v in vals), qlit(eps)))
    hdr = 'From PV Require Import Base.Num Model.Solver.\nFrom Coq Require Import List ZArith QArith Bool. Import ListNotations.\n'
    per = 6
    for si, sh in enumerate(shard(lits, per)):
        files.append(('cg_%03d' % si, hdr + 'Definition cs : list cg_case := %s.\nEval vm_compute in cg_bad cs.\n' % coq_list(sh)))
    tables['cg'] = (cases, per)


def frac_residual(A, b, x):
    """exact |b - A x|^2 and |b|^2 for float data"""
    n = len(b)
    r2 = Fraction(0)
    for i in range(n):
        s = F(b[i])
        for j in range(n):
            if A[i][j] != 0.0:
                s -= F(A[i][j]) * F(x[j])
        r2 += s * s
    return r2, sum(F(v) * F(v) for v in b)


def cg_property(torch, CG, c):
    """the property's own statement on the implementation (default maxiter): a returned x satisfies
    |b - A x| <= tol |b| (exact rational evaluation of the residual, slack for the rounding of the
    recursively updated residual), zero for b = 0.  Returns a description of the failure or None."""
    v = run_cg(torch, CG, dict(c, maxiter=None))
    if isinstance(v, tuple):
        return 'CG raised: ' + v[1]
    if v == 'nonfinite':
        return 'CG returned a non-finite vector for SPD A (n=%d)' % len(c['b'])
    if not any(c['b']):
        return None if not any(v) else 'CG returned a non-zero vector %s for b = 0' % v[:4]
    r2, b2 = frac_residual(c['A'], c['b'], v)
    na = max(sum(abs(t) for t in row) for row in c['A'])
    slack = 1e3 * EPS * len(v) * (na * max(abs(t) for t in v) + max(abs(t) for t in c['b'])) * math.sqrt(len(v))
    lim = c['tol'] * math.sqrt(float(b2)) + slack
    if math.sqrt(float(r2)) > lim:
        return 'CG(tol=%g) returned x with |b - A x| = %.3e > tol |b| = %.3e (n=%d, storage %s)' % (c['tol'], math.sqrt(float(r2)), c['tol'] * math.sqrt(float(b2)), len(v), c['storeA'])
    return None


def rand_orth(torch, n, gen):
    Q, _ = torch.linalg.qr(torch.randn(n, n, generator=gen, dtype=torch.float64))
    return Q


def check_cg_property(ctx, torch, CG):
    rng = ctx.rng
    gen = torch.Generator().manual_seed(ctx.seed * 7919 + 17)
    sizes = list(range(1, 41)) if ctx.thorough else sorted(set([1, 2, 3, 5, 8, 13, 21, 32, 40] + [rng.randint(1, 40) for _ in range(6)]))
    for n in sizes:
        for rep in range(ctx.scale(2, 6)):
            kappa = rng.choice([1.0, 10.0, 100.0, 1000.0])
            Q = rand_orth(torch, n, gen)
            lam = torch.tensor([kappa ** (k / max(n - 1, 1)) for k in range(n)], dtype=torch.float64)
            A = (Q * lam) @ Q.T
            A = (A + A.T) / 2
            b = torch.randn(n, generator=gen, dtype=torch.float64)
            store = rng.choice(['dense', 'csr', 'coo', 'bsr'])
            Mk = rng.choice([None, None, 'jacobi'])
            M = None if Mk is None else torch.diag(1.0 / torch.diag(A)).tolist()
            x0 = None if rng.random() < 0.6 else torch.randn(n, generator=gen, dtype=torch.float64).tolist()
            c = dict(kind='cg-prop', A=A.tolist(), b=b.tolist() if rep or n % 5 else [0.0] * n, x0=x0, M=M, tol=rng.choice([1e-5, 1e-5, 1e-3, 1e-8]),
                     maxiter=None, storeA=store, storeM=rng.choice(['dense', 'csr']), bcol=True, kappa=kappa, defdtype=('float32', 'float64')[(n + rep) % 2])
            if rep == 1:
                # one solver object reused: smaller systems first, then this one
                c['prime_sizes'] = sorted(rng.sample(range(1, max(2, n)), min(2, max(1, n - 1)))) if n > 1 else [1]
                if n >= 8:
                    c['kappa'] = kappa = 1000.0
                    lam = torch.tensor([kappa ** (k / max(n - 1, 1)) for k in range(n)], dtype=torch.float64)
                    A2 = (Q * lam) @ Q.T
                    c['A'] = ((A2 + A2.T) / 2).tolist()
            why = cg_property(torch, CG, c)
            ctx.case(('cg-prop', n, rep, kappa, store), nontrivial=True, branch='cg-property:kappa<=%g%s' % (kappa, ':reused-solver' if c.get('prime_sizes') else ''))
            ctx.count('cg-property-size:%s' % ('1-4' if n <= 4 else '5-16' if n <= 16 else '17-40'))
            if why:
                ctx.violation('CG.forward:tolerance-not-met', why, c)


# ------------------------------------------------------------------------------------------------
# direct solvers: the oracle contracts, measured
SCALE_EXPS = [-40, -27, -13, 0, 0, 0, 13, 27, 40]


def item_scales(rng, nb):
    """power-of-two exponents e_t, one per batch item: item t is multiplied by 2^e_t (exact in floating
    point, so the construction of the item stays exact).  A solver treats the items of a batch as
    independent problems: nothing in the answer for one item may depend on the magnitude (or rank, or
    conditioning) of its neighbours.  Modes: all items on one scale, independent scales 2^-40 .. 2^40
    (ratios up to 1e24), one item far above / below the others."""
    if nb == 1:
        return [rng.choice(SCALE_EXPS)]
    mode = rng.choice(['same', 'independent', 'independent', 'one-large', 'one-small'])
    if mode == 'same':
        return [rng.choice(SCALE_EXPS)] * nb
    if mode == 'independent':
        return [rng.choice(SCALE_EXPS) for _ in range(nb)]
    es = [rng.choice([-3, 0, 0, 3]) for _ in range(nb)]
    es[rng.randrange(nb)] = rng.randint(45, 60) * (1 if mode == 'one-large' else -1)
    return es


def mat_family(torch, rng, gen, m, n, fam, e=0):
    """returns (A, info dict).  Families: 'full' (random, cond ~ kappa), 'rankdef' (exact integer product
    of rank r, scaled by powers of two), 'spd', 'indefinite', 'singular-psd'.  e: the matrix is scaled
    by 2^e (through its construction: singular values / the left factor / the eigenvalues)."""
    T = torch
    if fam == 'full':
        kappa = 10.0 ** rng.choice([0, 2, 4, 6, 8])
        r = min(m, n)
        U = rand_orth(T, m, gen)[:, :r]
        V = rand_orth(T, n, gen)[:, :r]
        s = T.tensor([kappa ** (-k / max(r - 1, 1)) for k in range(r)], dtype=T.float64) * 2.0 ** e
        return (U * s) @ V.T, dict(kappa=kappa, rank=r, U=U, s=s, V=V, fam=fam)
    if fam == 'rankdef':
        r = rng.randint(1, max(1, min(m, n, 6) - (1 if min(m, n) > 1 else 0)))
        while True:
            B = T.tensor([[rng.randint(-3, 3) for _ in range(r)] for _ in range(m)], dtype=T.float64)
            C = T.tensor([[rng.randint(-3, 3) for _ in range(n)] for _ in range(r)], dtype=T.float64)
            if T.linalg.matrix_rank(B) == r and T.linalg.matrix_rank(C) == r:
                break
        sc = rng.choice([0, 0, 4, 8])
        d1 = T.tensor([2.0 ** (rng.randint(-sc, sc) + e) for _ in range(m)], dtype=T.float64)
        d2 = T.tensor([2.0 ** rng.randint(-sc // 2, sc // 2) for _ in range(n)], dtype=T.float64)
        A = (d1[:, None] * B) @ (C * d2[None, :])
        sv = T.linalg.svdvals(A)
        return A, dict(kappa=float(sv[0] / sv[r - 1]), rank=r, B=(d1[:, None] * B), C=(C * d2[None, :]), fam=fam)
    if fam == 'spd':
        kappa = 10.0 ** rng.choice([0, 2, 4, 6, 8])
        Q = rand_orth(T, n, gen)
        lam = T.tensor([kappa ** (-k / max(n - 1, 1)) for k in range(n)], dtype=T.float64) * 2.0 ** e
        A = (Q * lam) @ Q.T
        return (A + A.T) / 2, dict(kappa=kappa, rank=n)
    if fam == 'indefinite':
        Q = rand_orth(T, n, gen)
        lam = T.tensor([rng.choice([-1.0, 1.0]) * rng.uniform(0.5, 2.0) for _ in range(n)], dtype=T.float64)
        lam[rng.randrange(n)] = -rng.uniform(0.5, 2.0)
        A = (Q * lam) @ Q.T
        return (A + A.T) / 2, dict(kappa=4.0, rank=n)
    if fam == 'singular-psd':
        # an SPD matrix with one zero row and column inserted: the pivot there is exactly 0 in floating
        # point as well (a singular matrix whose zero pivot is only reached through rounding is on the
        # boundary of the SPD set and LAPACK cannot be expected to tell)
        k = rng.randrange(n)
        A = T.zeros(n, n, dtype=T.float64)
        if n > 1:
            S, _ = mat_family(T, rng, gen, n - 1, n - 1, 'spd')
            keep = [i for i in range(n) if i != k]
            A[T.tensor(keep)[:, None], T.tensor(keep)[None, :]] = S
        return A, dict(kappa=float('inf'), rank=n - 1)
    raise ValueError(fam)


def nrm(t):
    return float(t.norm())


LS_DRIVERS = [None, 'gelsy', 'gelsd', 'gelss', 'gels']
LS_LAYOUTS = [None, 'transposed', 'slice']


def frac_solve(G, H):
    """exact solution Y of G Y = H over the rationals (G square, non-singular): Gauss-Jordan"""
    n = len(G)
    M = [list(G[i]) + list(H[i]) for i in range(n)]
    for col in range(n):
        p = next(i for i in range(col, n) if M[i][col] != 0)
        M[col], M[p] = M[p], M[col]
        inv = 1 / M[col][col]
        M[col] = [v * inv for v in M[col]]
        for i in range(n):
            if i != col and M[i][col] != 0:
                f = M[i][col]
                M[i] = [u - f * v for u, v in zip(M[i], M[col])]
    return [row[n:] for row in M]


def ls_reference(T, c, t, b):
    """the smallest attainable residual |A x - b| and the minimum-norm least-squares solution of item t
    for every column of b (m x k, float64), from the CONSTRUCTION of the matrix, never from a solver:
    'full': A = U diag(s) V^T with orthonormal U, V: min residual |(I - U U^T) b|, x* = V diag(1/s) U^T b;
    'rankdef': A = B C exactly (integer factors scaled by powers of two, B of full column rank, C of full
    row rank): range(A) = range(B); the normal equations of B and the minimum-norm preimage under C are
    solved exactly over the rationals.  The items of one batch may be of either kind (family 'mixed').  Returns (list of k residual norms, x* as n x k float64 tensor)."""
    if c.get('U') is not None and c['U'][t] is not None:
        U = T.tensor(c['U'][t], dtype=T.float64)
        V = T.tensor(c['V'][t], dtype=T.float64)
        s = T.tensor(c['s'][t], dtype=T.float64)
        cb = U.T @ b
        return (b - U @ cb).norm(dim=0).tolist(), V @ (cb / s[:, None])
    B, C = c['B'][t], c['C'][t]
    m, r, n, k = len(B), len(B[0]), len(C[0]), b.shape[1]
    Bf = [[F(v) for v in row] for row in B]
    Cf = [[F(v) for v in row] for row in C]
    bf = [[F(v) for v in row] for row in b.tolist()]
    G = [[sum(Bf[i][p] * Bf[i][q] for i in range(m)) for q in range(r)] for p in range(r)]
    H = [[sum(Bf[i][p] * bf[i][j] for i in range(m)) for j in range(k)] for p in range(r)]
    Y = frac_solve(G, H)                                   # B Y = projection of b on range(A);  C x = Y
    r2 = [sum(bf[i][j] ** 2 for i in range(m)) - sum(H[p][j] * Y[p][j] for p in range(r)) for j in range(k)]
    CCt = [[sum(Cf[p][i] * Cf[q][i] for i in range(n)) for q in range(r)] for p in range(r)]
    Z = frac_solve(CCt, Y)
    xs = [[float(sum(Cf[p][i] * Z[p][j] for p in range(r))) for j in range(k)] for i in range(n)]
    return [math.sqrt(max(0.0, float(v))) for v in r2], T.tensor(xs, dtype=T.float64).reshape(n, k)


def ls_refs(T, c):
    """ls_reference for every batch item of the case, on the right-hand side as the solver sees it"""
    dt = getattr(T, c.get('dtype') or 'float64')
    bf = T.tensor(c['b'], dtype=T.float64).to(dt).double().reshape(-1, c['m'], c['k'])
    return [ls_reference(T, c, t, bf[t]) for t in range(bf.shape[0])]


def relayout(T, X, how):
    """a tensor with the values of X and another memory layout; returns (tensor, base or None)"""
    if how == 'transposed':
        return X.mT.contiguous().mT, None
    if how == 'slice':
        base = T.zeros(X.shape[:-2] + (2 * X.shape[-2] + 1, 2 * X.shape[-1] + 1), dtype=X.dtype)
        Y = base[..., 1::2, 1::2]
        Y.copy_(X)
        return Y, base
    return X.clone(), None


def ls_call(T, solver, c, A, b):
    """the judged call: a fresh solver object that has already solved other systems (c['history']), under the
    process default dtype c['defdtype'] (restored afterwards)"""
    dt = A.dtype
    old = T.get_default_dtype()
    try:
        if c.get('defdtype'):
            T.set_default_dtype(getattr(T, c['defdtype']))
        if c['solver'] == 'PINV':
            obj = solver.PINV(rtol=c['tolcut'])
        else:
            obj = solver.LSTSQ(rcond=c['tolcut'], driver=c.get('driver'))
        g = T.Generator().manual_seed(77)
        for hm, hn in c.get('history') or []:
            obj(T.randn(hm, hn, generator=g, dtype=T.float64).to(dt), T.randn(hm, 2, generator=g, dtype=T.float64).to(dt))
        return obj(A, b)
    finally:
        T.set_default_dtype(old)


def ls_property(T, solver, c, ref=None):
    """PINV / LSTSQ on one (batched) case, written from the property text.  Every returned column must be
    a least-squares solution:
      (a) residual: |A x - b| <= (smallest attainable residual, known from the construction of A)
          + 1e3 max(m,n) eps (|A| (|x| + |x*|) + |b|)   [backward-stable solve; PINV, which forms the
          pseudo-inverse explicitly, gets cond |b| instead of |b|];
      (b) normal equations A^T (A x - b) = 0 relative to |A| (|A| |x| + |b|), tolerance 1e3 max(m,n) eps cond;
    and, for PINV (always) and LSTSQ (where the least-squares solution is unique, or rank-deficient A),
      (c) minimum norm: no component in the null space of A; distance to the minimum-norm solution x* of
          the construction <= 1e3 max(m,n) eps (cond (|x| + |x*|) + cond^2 min-residual / |A|)  [Wedin].
    The call is made with the optional arguments / driver / memory layout / input dtype / process default
    dtype / solver history recorded in the case; the arguments must come back unchanged.  eps is that of
    the dtype of A.  Returns (failure description or None, {quantity: measured / allowed})."""
    dt = getattr(T, c.get('dtype') or 'float64')
    eps = float(T.finfo(dt).eps)
    A64 = T.tensor(c['A'], dtype=T.float64)
    b64 = T.tensor(c['b'], dtype=T.float64)
    m, n, k = c['m'], c['n'], c['k']
    batch = tuple(c['batch'])
    A, baseA = relayout(T, A64.to(dt), c.get('layout'))
    b, baseb = relayout(T, b64.to(dt), c.get('layout'))
    snap = [A.clone(), b.clone(), None if baseA is None else baseA.clone(), None if baseb is None else baseb.clone()]
    how = '%s(%s%s)(A, b) [A %dx%d %s, batch %s, k=%d, family %s%s, layout %s, default dtype %s, after %d other solves]' % (
        c['solver'], 'rtol=%s' % c['tolcut'] if c['solver'] == 'PINV' else 'rcond=%s' % c['tolcut'],
        '' if c['solver'] == 'PINV' else ', driver=%s' % c.get('driver'), m, n, str(dt)[6:], batch, k, c['fam'],
        '' if not c.get('scales') else ', items scaled by 2^%s' % c['scales'],
        c.get('layout') or 'contiguous', c.get('defdtype') or 'unchanged', len(c.get('history') or []))
    try:
        x = ls_call(T, solver, c, A, b)
    except Exception as e:  # noqa
        return '%s raised %s on a finite matrix: %s' % (how, type(e).__name__, str(e)[:160]), {}
    if not (T.equal(A, snap[0]) and T.equal(b, snap[1]) and (baseA is None or T.equal(baseA, snap[2])) and (baseb is None or T.equal(baseb, snap[3]))):
        return '%s modified its arguments (or the storage around them) in place' % how, {}
    if not isinstance(x, T.Tensor) or tuple(x.shape) != batch + (n, k) or x.dtype != dt:
        return '%s returned %s of shape %s, expected %s of shape %s' % (how, getattr(x, 'dtype', type(x).__name__), tuple(getattr(x, 'shape', ())), dt, batch + (n, k)), {}
    if not bool(T.isfinite(x).all()):
        return '%s returned a non-finite solution' % how, {}
    Af, bf, xf = A.double().reshape(-1, m, n), b.double().reshape(-1, m, k), x.double().reshape(-1, n, k)
    ratios, why = {}, None
    per = lambda key, t: None if c.get(key) is None else c[key][t]     # per-item part of the construction (or None)
    for t in range(Af.shape[0]):
        a, kp = Af[t], c['kappas'][t]
        unique = (per('U', t) is not None and m >= n)                   # full column rank: one least-squares solution
        na = nrm(a)
        scale = 1e3 * max(m, n) * eps
        # (a) residual against the construction
        if per('U', t) is not None or per('B', t) is not None:
            if ref is None:
                ref = ls_refs(T, c)
            rmin, xs = ref[t]
            for j in range(k):
                xj, bj, sj = xf[t][:, j], bf[t][:, j], xs[:, j]
                res = nrm(a @ xj - bj)
                lim = scale * (na * (nrm(xj) + nrm(sj)) + (kp if c['solver'] == 'PINV' else 1.0) * nrm(bj))
                r = (res - rmin[j]) / lim if lim > 0 else (0.0 if res <= rmin[j] else float('inf'))
                ratios['residual'] = max(ratios.get('residual', 0.0), r)
                if not r <= 1.0 and why is None:
                    why = ('%s returned x (item %d, column %d, cond %.1e) with |A x - b| = %.6e, but the smallest attainable residual is %.6e '
                           '(x* of norm %.3e; |x| = %.3e; slack allowed %.1e): not a least-squares solution' % (how, t, j, kp, res, rmin[j], nrm(sj), nrm(xj), lim))
                if (c['solver'] == 'PINV' or unique) and not c.get('lsonly'):
                    err = nrm(xj - sj)
                    lim = scale * (kp * (nrm(xj) + nrm(sj)) + kp * kp * rmin[j] / na) + 1e-300
                    r = err / lim
                    ratios['distance-to-x*'] = max(ratios.get('distance-to-x*', 0.0), r)
                    if not r <= 1.0 and why is None:
                        why = ('%s returned x (item %d, column %d, cond %.1e) at distance %.3e from the %s least-squares solution x* (|x*| = %.3e, |x| = %.3e, allowed %.1e)'
                               % (how, t, j, kp, err, 'unique' if unique else 'minimum-norm', nrm(sj), nrm(xj), lim))
        # (b) normal equations
        g = a.T @ (a @ xf[t] - bf[t])
        lim = scale * kp * na * (na * nrm(xf[t]) + nrm(bf[t]))
        r = nrm(g) / lim if lim > 0 else (0.0 if nrm(g) == 0 else float('inf'))
        ratios['normal-equations'] = max(ratios.get('normal-equations', 0.0), r)
        if not r <= 1.0 and why is None:
            why = ('%s (cond %.1e) returned x with |A^T (A x - b)| = %.3e, allowed %.3e: not a least-squares solution' % (how, kp, nrm(g), lim))
        # (c) null-space component (rank-deficient family)
        if per('C', t) is not None and not c.get('lsonly'):
            C = T.tensor(c['C'][t], dtype=T.float64)
            proj = xf[t] - C.T @ T.linalg.solve(C @ C.T, C @ xf[t])
            lim = scale * kp * kp * nrm(xf[t]) + 1e-300
            r = nrm(proj) / lim
            ratios['minimum-norm'] = max(ratios.get('minimum-norm', 0.0), r)
            if not r <= 1.0 and why is None:
                why = ('%s (A of rank %d, cond %.1e) returned x with a null-space component %.3e (|x| = %.3e): not the minimum-norm solution'
                       % (how, C.shape[0], kp, nrm(proj), nrm(xf[t])))
    return why, ratios


def ls_base(fam, m, n, batch, k, infos, A, b, scales=None):
    """the replayable description of one generated least-squares problem (with the construction of A, item by
    item: orthonormal factors and singular values, or an exact rank factorisation)"""
    c = dict(kind='ls', fam=fam, m=m, n=n, batch=batch, k=k, kappas=[i['kappa'] for i in infos], A=A.tolist(), b=b.tolist(),
             C=None, B=None, U=None, s=None, V=None, dtype='float64', scales=scales, fams=[i['fam'] for i in infos])
    part = lambda key: [i[key].tolist() if key in i else None for i in infos]
    if any('C' in i for i in infos):
        c.update(C=part('C'), B=part('B'))
    if any('U' in i for i in infos):
        c.update(U=part('U'), s=part('s'), V=part('V'))
    return c


def ls_variants(rng, base, thorough):
    """the call forms judged on one problem"""
    full = base['fam'] == 'full'
    cut = None if full else 1e-11
    hist = lambda: rng.choice([None, [[3, 2], [2, 4]], [[base['n'], base['m']]]])
    out = []
    for dd in ('float32', 'float64'):
        out.append(dict(base, solver='PINV', tolcut=cut, defdtype=dd, layout=rng.choice(LS_LAYOUTS), history=hist()))
        out.append(dict(base, solver='LSTSQ', tolcut=cut, driver=None, defdtype=dd, layout=rng.choice(LS_LAYOUTS), history=hist()))
    for drv in LS_DRIVERS[1:]:
        if drv == 'gels' and not full:
            continue                                        # documented: gels assumes full rank
        for dd in (('float32', 'float64') if thorough else (rng.choice(['float32', 'float64']),)):
            out.append(dict(base, solver='LSTSQ', tolcut=cut, driver=drv, defdtype=dd, layout=rng.choice(LS_LAYOUTS), history=hist()))
    if not full:
        # default cut-off on exactly rank-deficient input: rounding decides the numerical rank, so only the
        # least-squares clause is judged
        for name, drv in (('PINV', None), ('LSTSQ', None), ('LSTSQ', 'gelsd')):
            out.append(dict(base, solver=name, tolcut=None, driver=drv, defdtype=rng.choice(['float32', 'float64']), layout=None, history=None, lsonly=True))
    else:
        # single-precision input (condition numbers up to 1e3 only), under both process defaults
        for name, drv in (('PINV', None), ('LSTSQ', None), ('LSTSQ', rng.choice(LS_DRIVERS[1:]))):
            for dd in ('float32', 'float64'):
                out.append(dict(base, solver=name, tolcut=None, driver=drv, defdtype=dd, layout=rng.choice(LS_LAYOUTS), history=hist(), dtype='float32'))
    return out


def check_direct(ctx, torch, solver, files, tables):
    rng = ctx.rng
    T = torch
    gen = T.Generator().manual_seed(ctx.seed * 104729 + 5)
    wrap = []          # (kind, nan, info, raised) -> Coq decision table
    wmeta = []
    worst = {}

    def note(name, val, lim, c):
        worst[name] = max(worst.get(name, 0.0), val / lim if lim > 0 else 0.0)
        if not (val <= lim):
            ctx.mismatch('oracle:' + name, dict(c, kind='oracle', measured=val, limit=lim))

    sizes = list(range(1, 41)) if ctx.thorough else sorted(set([1, 2, 3, 4, 7, 12, 20, 33, 40] + [rng.randint(1, 40) for _ in range(5)]))
    refs = {}
    # ---- PINV / LSTSQ
    for n0 in [v for v in sizes for _ in range(3)]:
        # 'mixed': a batch whose items are of different kinds (full rank with any conditioning next to exactly
        # rank-deficient ones); in every family the items of a batch are put on scales that differ by up to
        # 2^80 (item_scales): each item is judged against its own construction, so an answer for one item that
        # depends on its neighbours (a cut-off, a norm, a rank taken over the whole batch) is an O(1) excess
        for fam in ('full', 'rankdef', 'mixed'):
            for shape in (('square', 'tall', 'wide') if fam != 'mixed' else (rng.choice(['square', 'tall', 'wide']),)):
                m, n = (n0, n0) if shape == 'square' else ((n0, rng.randint(1, n0)) if shape == 'tall' else (rng.randint(1, n0), n0))
                batch = rng.choice([(), (), (2,), (2, 3)] if fam != 'mixed' else [(2,), (3,), (2, 3), (4, 1)])
                nb = 1
                for d in batch:
                    nb *= d
                fams = [fam] * nb
                if fam == 'mixed':
                    fams = [rng.choice(['full', 'rankdef']) for _ in range(nb)]
                    fams[0], fams[-1] = rng.sample(['full', 'rankdef'], 2)
                scales = item_scales(rng, nb)
                mats, infos = zip(*[mat_family(T, rng, gen, m, n, fams[t], scales[t]) for t in range(nb)])
                A = T.stack(mats).reshape(batch + (m, n))
                k = rng.choice([1, 1, 3])
                consistent = rng.random() < 0.4
                b = T.randn(batch + (m, k), generator=gen, dtype=T.float64)
                if consistent:
                    b = A @ T.randn(batch + (n, k), generator=gen, dtype=T.float64)
                elif rng.random() < 0.5:
                    # right-hand sides of the magnitude of their matrices
                    b = (b.reshape(nb, m, k) * T.tensor([2.0 ** e for e in scales], dtype=T.float64)[:, None, None]).reshape(batch + (m, k))
                kap = max(i['kappa'] for i in infos)
                cdesc = dict(kind='direct', solver='PINV/LSTSQ', fam=fam, m=m, n=n, batch=batch, k=k, kappa=kap)
                ctx.case(('direct', fam, m, n, batch, k, float(A.sum())), nontrivial=True, branch='direct:%s-%s' % (fam, shape))
                ctx.count('direct-cond:%s' % ('<=1e2' if kap <= 1e2 else '<=1e5' if kap <= 1e5 else '<=1e8+'))
                spread = max(scales) - min(scales)
                ctx.count('direct-batch-scale-spread:%s' % ('single item' if nb == 1 else '1' if spread == 0 else '<=2^30' if spread <= 30 else '<=2^53' if spread <= 53 else '>2^53'))
                rtol_p = None if fam == 'full' else 1e-11
                P = T.linalg.pinv(A, rtol=rtol_p)
                # --- wrapper tie: PINV is exactly pinv(A) @ b
                tie_dd = rng.choice(['float32', 'float64'])      # the wrappers are tied under either process default dtype
                try:
                    with default_dtype(T, tie_dd):
                        xp = solver.PINV(rtol=rtol_p)(A, b)
                    if not T.equal(xp, P @ b):
                        ctx.mismatch('wrapper:PINV', dict(ls_base(fam, m, n, batch, k, infos, A, b, scales), solver='PINV', tolcut=rtol_p,
                                                          what='PINV(A,b) is not pinv(A) @ b'))
                except Exception as e:  # noqa
                    ctx.violation('PINV.forward:raises', 'PINV raised %s: %s on a finite %dx%d matrix' % (type(e).__name__, str(e)[:120], m, n),
                                  dict(kind='ls', solver='PINV', fam=fam, m=m, n=n, batch=batch, k=k, tolcut=rtol_p, kappas=[i['kappa'] for i in infos], A=A.tolist(), b=b.tolist(), C=None))
                try:
                    ls = solver.LSTSQ(rcond=None if fam == 'full' else 1e-11)
                    with default_dtype(T, tie_dd):
                        xl = ls(A, b)
                    raised = False
                except AssertionError:
                    xl, raised = None, True
                except Exception as e:  # noqa
                    ctx.violation('LSTSQ.forward:raises', 'LSTSQ raised %s: %s on a finite %dx%d matrix' % (type(e).__name__, str(e)[:120], m, n),
                                  dict(kind='ls', solver='LSTSQ', fam=fam, m=m, n=n, batch=batch, k=k, tolcut=None if fam == 'full' else 1e-11, kappas=[i['kappa'] for i in infos], A=A.tolist(), b=b.tolist(), C=None))
                    continue
                sol = T.linalg.lstsq(A, b, rcond=None if fam == 'full' else 1e-11).solution
                wrap.append((0, bool(T.isnan(sol).any()), 0, raised))
                wmeta.append(dict(cdesc, wrapper='LSTSQ'))
                if xl is not None and not T.equal(xl, sol):
                    # replayable: the search phase judges this very call by the property's statement
                    ctx.mismatch('wrapper:LSTSQ', dict(ls_base(fam, m, n, batch, k, infos, A, b, scales), solver='LSTSQ', tolcut=None if fam == 'full' else 1e-11,
                                                       what='LSTSQ(A,b) is not lstsq(A,b).solution'))
                # --- contracts of the pinv oracle (per batch item)
                Af, Pf = A.reshape(nb, m, n), P.reshape(nb, n, m)
                for t in range(nb):
                    a, p_, kp = Af[t], Pf[t], infos[t]['kappa']
                    na = nrm(a)
                    scale = 1e3 * max(m, n) * EPS
                    note('pinv:A P A = A', nrm(a @ p_ @ a - a), scale * kp * na, cdesc)
                    note('pinv:P A P = P', nrm(p_ @ a @ p_ - p_), scale * kp * nrm(p_), cdesc)
                    note('pinv:(A P)^T = A P', nrm((a @ p_).T - a @ p_), scale * kp, cdesc)
                    note('pinv:(P A)^T = P A', nrm((p_ @ a).T - p_ @ a), scale * kp, cdesc)
                # --- the property itself on the wrappers' return values (least squares, minimum norm), for every
                # call form: both process default dtypes, every LSTSQ driver, default and explicit cut-off,
                # memory layouts, a solver object that has solved other systems before
                for c in ls_variants(rng, ls_base(fam, m, n, batch, k, infos, A, b, scales), ctx.thorough):
                    if c.get('dtype') == 'float32' and kap > 1e3:
                        continue
                    refs.setdefault(c.get('dtype') or 'float64', None)
                    if refs[c.get('dtype') or 'float64'] is None:
                        refs[c.get('dtype') or 'float64'] = ls_refs(T, c)
                    why, ratios = ls_property(T, solver, c, refs[c.get('dtype') or 'float64'])
                    name = c['solver']
                    ctx.case(('ls', name, fam, m, n, batch, k, c.get('driver'), c.get('defdtype'), c.get('layout'), c.get('dtype'), c['tolcut'], float(A.sum())),
                             nontrivial=True, branch='ls:%s:%s' % (name, fam))
                    ctx.count('ls-call-form:%s driver=%s cut=%s' % (name, c.get('driver'), 'default' if c['tolcut'] is None else 'explicit'))
                    ctx.count('ls-default-dtype:%s input:%s' % (c.get('defdtype'), c.get('dtype') or 'float64'))
                    ctx.count('ls-layout:%s history:%d' % (c.get('layout') or 'contiguous', len(c.get('history') or [])))
                    for kname, v in ratios.items():
                        kk = '%s%s:%s' % (name, '' if (c.get('dtype') or 'float64') == 'float64' else '[float32]', kname)
                        worst[kk] = max(worst.get(kk, 0.0), v)
                    if why:
                        ctx.violation('%s.forward:not-least-squares' % name, why, c)
                refs.clear()
    # ---- Cholesky
    nonpd = []
    for n0 in sizes:
        for fam in ('spd', 'indefinite', 'singular-psd'):
            if fam == 'indefinite' and n0 == 1 and False:
                continue
            batch = rng.choice([(), (), (2,), (3, 2)])
            nb = 1
            for d in batch:
                nb *= d
            scales = item_scales(rng, nb)                  # SPD members of one batch on very different scales
            mats, infos = zip(*[mat_family(T, rng, gen, n0, n0, fam, scales[t]) for t in range(nb)])
            if fam != 'spd' and nb > 1 and rng.random() < 0.5:
                # only one member of the batch is bad
                mats = list(mats)
                for t in range(1, nb):
                    mats[t] = mat_family(T, rng, gen, n0, n0, 'spd', scales[t])[0]
            A = T.stack(list(mats)).reshape(batch + (n0, n0))
            k = rng.choice([1, 1, 2])
            b = T.randn(batch + (n0, k), generator=gen, dtype=T.float64)
            upper = rng.random() < 0.3
            cdesc = dict(kind='cholesky', fam=fam, n=n0, batch=batch, k=k, upper=upper, A=A.tolist(), b=b.tolist(), defdtype=rng.choice(['float32', 'float64']),
                         scales=scales)
            ctx.case(('chol', fam, n0, batch, upper, float(A.sum())), nontrivial=True, branch='cholesky:' + fam)
            L, info = T.linalg.cholesky_ex(A, upper=upper)
            try:
                with default_dtype(T, cdesc['defdtype']):
                    x = solver.Cholesky(upper=upper)(A, b)
                raised = False
            except AssertionError:
                x, raised = None, True
            except Exception as e:  # noqa
                ctx.violation('Cholesky.forward:raises-other', 'Cholesky raised %s: %s (n=%d, %s)' % (type(e).__name__, str(e)[:120], n0, fam), cdesc)
                continue
            wrap.append((2 if upper else 1, bool(T.isnan(L).any()), int(info.reshape(-1).abs().max()), raised))
            wmeta.append(dict(kind='wrapper', wrapper='Cholesky', fam=fam, n=n0, upper=upper))
            if fam == 'spd':
                kp = max(i['kappa'] for i in infos)
                scale = 1e3 * n0 * EPS
                note('cholesky_ex:info = 0 on SPD', float(info.abs().max()), 0.0, dict(cdesc, A='...', b='...'))
                LLt = (L.mT @ L) if upper else (L @ L.mT)
                note('cholesky_ex:L L^T = A', nrm(LLt - A), scale * nrm(A), dict(cdesc, A='...', b='...'))
                if x is not None:
                    why = replay(ctx, cdesc)
                    if why:
                        ctx.violation('Cholesky.forward:wrong-solution-on-SPD', why, cdesc)
                    note('cholesky_solve:(L L^T) x = b', nrm(LLt @ b.cholesky_solve(L, upper=upper) - b), scale * kp * (nrm(A) * nrm(x) + nrm(b)), dict(cdesc, A='...', b='...'))
                    if not T.equal(x, b.cholesky_solve(L, upper=upper)):
                        ctx.mismatch('wrapper:Cholesky', dict(cdesc, kind='oracle', A='...', b='...', what='Cholesky(A,b) is not b.cholesky_solve(L)'))
                else:
                    ctx.violation('Cholesky.forward:raises-on-SPD', 'Cholesky(upper=%s) raised on an SPD matrix (n=%d, cond %g)' % (upper, n0, kp), cdesc)
            else:
                if int(info.abs().max()) == 0:
                    ctx.mismatch('oracle:cholesky_ex:info != 0 on non-PD', dict(cdesc, kind='oracle', A='...', b='...'))
                nonpd.append((cdesc, x))
    # the failure clause, on the implementation: a non-PD matrix must raise
    witness = dict(kind='cholesky', fam='indefinite', n=2, batch=(), k=1, upper=False, A=[[1.0, 2.0], [2.0, 1.0]], b=[[1.0], [1.0]])
    # directed: the witnesses of C10_cholesky_old_raises_refuted(_witness) (the defect repaired in 3f16d24)
    for cdesc in [witness, dict(witness, upper=True), dict(witness, fam='singular-psd', A=[[1.0, 1.0], [1.0, 1.0]]),
                  dict(witness, n=1, A=[[-1.0]], b=[[1.0]])] + [c for c, _ in nonpd]:
        why = replay(ctx, cdesc)
        ctx.count('cholesky-failure-clause:' + ('returned' if why else 'raised'))
        if why:
            ctx.violation(KEY_CHOL, why, cdesc)
    # NaN in the input is the one thing the assertion catches
    An = T.tensor([[float('nan'), 0.0], [0.0, 1.0]], dtype=T.float64)
    L, info = T.linalg.cholesky_ex(An)
    try:
        solver.Cholesky()(An, T.ones(2, 1, dtype=T.float64))
        raised = False
    except AssertionError:
        raised = True
    wrap.append((1, bool(T.isnan(L).any()), int(info), raised))
    wmeta.append(dict(kind='wrapper', wrapper='Cholesky', fam='nan-input', n=2, upper=False))
    ctx.case(('chol', 'nan-input'), nontrivial=True, branch='cholesky:nan-input')
    Ai = T.tensor([[float('inf'), 0.0], [0.0, 1.0]], dtype=T.float64)   # gelsy answers NaN for this one
    try:
        sol = T.linalg.lstsq(Ai, T.ones(2, 1, dtype=T.float64)).solution
        try:
            solver.LSTSQ()(Ai, T.ones(2, 1, dtype=T.float64))
            raised = False
        except AssertionError:
            raised = True
        wrap.append((0, bool(T.isnan(sol).any()), 0, raised))
        wmeta.append(dict(kind='wrapper', wrapper='LSTSQ', fam='inf-input', n=2))
        ctx.case(('lstsq', 'inf-input'), nontrivial=True, branch='lstsq:nan-solution' if bool(T.isnan(sol).any()) else 'lstsq:inf-input')
    except RuntimeError:
        pass    # torch itself refused the input: loud enough
    hdr = 'From PV Require Import Base.Num Model.Solver.\nFrom Coq Require Import List ZArith QArith Bool. Import ListNotations.\n'
    files.append(('wrap', hdr + 'Eval vm_compute in wrap_bad %s.\n' % coq_list(
        '(%s, %s, %s, %s, %s)' % (nat(i), nat(kd), 'true' if nan else 'false', zz(info), 'true' if r else 'false') for i, (kd, nan, info, r) in enumerate(wrap))))
    tables['wrap'] = (wmeta, 10 ** 9)
    ctx.notes.append('oracle contracts, worst measured / allowed: ' + ', '.join('%s %.2g' % kv for kv in sorted(worst.items())))


# ------------------------------------------------------------------------------------------------
def run(ctx):
    pp = import_pypose()
    import torch
    import pypose.optim.solver as solver
    from pypose.sparse import ops
    ctx.rule = RULE
    files, tables = [], {}
    check_bsr(ctx, torch, ops, files, tables)
    check_dispatch(ctx, torch, ops, files, tables)
    check_cg(ctx, torch, solver.CG, files, tables)
    check_cg_property(ctx, torch, solver.CG)
    check_direct(ctx, torch, solver, files, tables)
    ctx.assumptions = [
        'torch.linalg.pinv returns a matrix satisfying the four Penrose conditions (measured here, not proved)',
        'torch.linalg.lstsq returns a least-squares solution, NaN-free for finite input (measured here, not proved)',
        'torch.linalg.cholesky_ex: info = 0 and L L^T = A for SPD A, info != 0 otherwise; cholesky_solve solves L L^T x = b (measured here, not proved)',
        'torch.addmm(zeros, A, B, beta=0, alpha=1) and torch.bmm / scatter_add_ / index select compute what their documentation says',
        'CG: exact real arithmetic in the theorems; float64 iterates agree with the exact ones to 1e-7 on the sampled systems',
    ]
    res = run_case_files('C10', files, timeout=900)
    for name, (rc, out) in sorted(res.items()):
        ev = parse_evals(out)
        if rc != 0 or len(ev) != 1:
            ctx.obligation_broken('correspondence-file:' + name, out[-1500:])
            continue
        fam = name.split('_')[0]
        table, per = tables[fam]
        off = int(name.split('_')[1]) * per if '_' in name else 0
        for i in parse_nat_list(ev[0]):
            ctx.mismatch(fam, table[i] if i < len(table) else dict(index=i))
    # ---- search: the property's own statement at the mismatching inputs
    perfam = {}
    for m in ctx.mismatches:
        perfam.setdefault(m['family'], []).append(m)
    for m in [x for fam in perfam.values() for x in fam[:25]]:
        c = m['case']
        if not isinstance(c, dict) or 'kind' not in c:
            continue
        why = replay(ctx, c)
        if why:
            m['explained'] = True
            ctx.violation('%s:model-mismatch' % c['kind'], why, c)


# ------------------------------------------------------------------------------------------------
def replay(ctx, c):
    """re-run one case against the property's statement (independent oracles: integer / rational
    arithmetic in Python); a description if it fails, else None"""
    pp = import_pypose()
    import torch
    import pypose.optim.solver as solver
    from pypose.sparse import ops
    k = c.get('kind')
    if k == 'bsr':
        A, B, R, err = run_bsr_case(torch, ops, c)
        DA, DB, DP = bsr_oracle(c)
        return bsr_property(torch, c, A, B, R, err, DA, DB, DP)
    if k == 'dispatch':
        trace, term, R, err = run_dispatch(torch, ops, c)
        if R is not None and imat(R.to_dense()) != int_matmul(c['A'], c['B']):
            return '_sparse_csr_mm(%s, %s) returned a tensor whose to_dense() is not the dense product' % (LAYS[c['l1']], LAYS[c['l2']])
        return None
    if k in ('cg', 'cg-prop'):
        if k == 'cg' and c.get('maxiter') is not None:
            # a truncated run promises nothing by itself: check the default run of the same system
            pass
        if c.get('tol', 0) <= 0:
            return None
        return cg_property(torch, solver.CG, c)
    if k == 'ls':
        return ls_property(torch, solver, c)[0]
    if k == 'cholesky':
        A = torch.tensor(c['A'], dtype=torch.float64)
        b = torch.tensor(c['b'], dtype=torch.float64)
        snap = (A.clone(), b.clone())
        try:
            with default_dtype(torch, c.get('defdtype')):
                x = solver.Cholesky(upper=c.get('upper', False))(A, b)
        except AssertionError:
            return None if c['fam'] != 'spd' else 'Cholesky raised AssertionError on an SPD matrix (n=%d)' % c['n']
        except Exception as e:  # noqa
            return 'Cholesky raised %s: %s' % (type(e).__name__, str(e)[:160])
        if not (torch.equal(A, snap[0]) and torch.equal(b, snap[1])):
            return 'Cholesky(upper=%s)(A, b) modified its arguments in place (n=%d, %s)' % (c.get('upper', False), c['n'], c['fam'])
        if c['fam'] == 'spd':
            if x.dtype != torch.float64 or x.shape != b.shape:
                return 'Cholesky returned %s of shape %s for float64 A, b of shape %s (process default dtype %s)' % (x.dtype, tuple(x.shape), tuple(b.shape), c.get('defdtype'))
            # item by item: the members of a batch are independent systems (their scales may differ by 2^80)
            n = c['n']
            for t, (a, xt, bt) in enumerate(zip(A.reshape(-1, n, n), x.reshape(-1, n, x.shape[-1]), b.reshape(-1, n, b.shape[-1]))):
                r = float((a @ xt - bt).norm())
                lim = 1e3 * n * EPS * float(a.norm() * xt.norm() + bt.norm())
                if not r <= lim:
                    return ('Cholesky(upper=%s) returned x with |A x - b| = %.3e (allowed %.3e) for item %d of SPD A (n=%d, batch %s%s)'
                            % (c.get('upper', False), r, lim, t, n, tuple(c.get('batch', ())), '' if not c.get('scales') else ', items scaled by 2^%s' % c['scales']))
            return None
        ev = torch.linalg.eigvalsh(A).reshape(-1, c['n'])[:, 0].min()
        xs = x.reshape(-1).tolist()
        return ('Cholesky(upper=%s)(A, b) returned %s instead of raising; A (n=%d, batch %s, %s) is not positive definite: smallest eigenvalue %.3g'
                % (c.get('upper', False), '[' + ', '.join('%.4g' % v for v in xs[:4]) + (', ...]' if len(xs) > 4 else ']'), c['n'], tuple(c.get('batch', ())), c['fam'], float(ev)))
    return None
