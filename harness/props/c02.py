"""C02 correspondence (enclosure route): Log on SO3 / SE3 / RxSO3 / Sim3 vs Model/LieLog.v, plus the
property's clauses (Exp(Log X) = X as transformations, |rotation part| <= pi, Log(-q) = Log(q),
Log(Inv X) = -Log X, Log(Exp x) = x) evaluated on the implementation inside the search.  Every element is also
evaluated as a later call on an object with a history (other value, in-place overwrite) and as an item of batches that
mix special and generic elements in several shapes / memory layouts; those results must equal the fresh single-element
result or satisfy the clauses themselves.  Process-global state (anything remembered between calls outside the objects:
caches keyed by nothing, pinned by the first / previous call's dtype, group, op or shape) is searched by replaying a
sample of the elements in FRESH interpreters under several call orders (all float32 before all float64 and the reverse,
strict alternation, an Exp of the other dtype as the very first call) and comparing with this process's results.  Every
element is finally evaluated on LieTensors that came into being in another way than the native constructor call: copies
(copy.deepcopy, copy.copy, pickle, torch.save + load, clone, detach, ...) and dtype conversions / constructor forms (.to,
.double(), .float(), pp.LieTensor / pp.SO3 ... of the converted tensor, the default dtype), from the other dtype where the
data are representable in it; the route must give a LieTensor of the same Lie type / dtype / data and Log, Inv, Exp on it
(and on the same route's image of Log X and Inv X) must give the native results or satisfy the clauses."""
import math
from ..common import *
from ..lie import *
from .c01 import K_EPS, K_SQRT, direction, regime

RULE = ('X = (unit quaternion from axis-angle, translation, scale); angle from {0, ladder around eps and sqrt(eps), O(1), ladder approaching pi from '
        'both sides incl. |w| around eps, the same ladders around the OTHER dtype\'s eps}, both hemispheres; translation 1e-6..1e6; scale e^-8..e^8; a case is (group, dtype, X); non-trivial = '
        'not the identity; distinct by value; tolerances %d eps (rotation, log-scale), %d sqrt(eps) (translation block); each X also as a later call on a '
        'reused, overwritten LieTensor (Log, Exp, Inv), as an item of mixed batches (shapes, strided / transposed / expanded views) and, for a sample, '
        'in fresh interpreters under other call orders (dtype blocks in both orders, alternation, Exp first); each X also held by a copy of its LieTensor '
        '(deepcopy / copy / pickle / torch.save+load / clone / detach) and by the result of a dtype conversion or another constructor form '
        '(.to, .double() / .float(), LieTensor / alias constructors of the converted tensor, default dtype)' % (K_EPS, K_SQRT))


def gen_angle(rng, eps, kind):
    se = math.sqrt(eps)
    if kind == 'zero':
        return 0.0
    if kind == 'eps':
        return 2 * eps * rng.choice([0.25, 0.5, 1 - 2 ** -10, 1 + 2 ** -10, 2, 4, 1024])     # |v| ~ angle/2 around eps
    if kind == 'sqrteps':
        return se * rng.choice([0.5, 1, 4, 64])
    if kind == 'tiny':
        return 10 ** rng.uniform(-12, -3)
    if kind == 'one':
        return rng.uniform(0.05, 3.0)
    if kind == 'nearpi':
        return math.pi - 10 ** rng.uniform(-12, -3)
    if kind == 'pi-eps':
        return math.pi - 2 * eps * rng.choice([0.0, 0.25, 0.5, 1 - 2 ** -10, 1 + 2 ** -10, 2, 8, 1024])  # |w| around eps
    if kind == 'beyondpi':
        return math.pi + 10 ** rng.uniform(-12, -1)      # w < 0
    if kind == 'far':
        return rng.uniform(math.pi + 0.1, 2 * math.pi - 0.05)
    raise ValueError(kind)


# '-x': the ladder around the thresholds of the OTHER dtype (float64 elements around the float32 eps and vice versa)
ANG = ['zero', 'eps', 'sqrteps', 'tiny', 'one', 'nearpi', 'pi-eps', 'beyondpi', 'far', 'eps-x', 'sqrteps-x', 'pi-eps-x']


def gen_X(rng, g, eps, kind, torch, dtype, unit_scale=False):
    if kind.endswith('-x'):
        eps, kind = (2.0 ** -23 if eps < 1e-10 else 2.0 ** -52), kind[:-2]
    ang = gen_angle(rng, eps, kind)
    ax = direction(rng) if rng.random() < 0.8 else rng.choice([[1.0, 0, 0], [0, 1.0, 0], [0, 0, -1.0]])
    s, c = math.sin(ang / 2), math.cos(ang / 2)
    if kind == 'pi-eps':
        # sin/cos of pi/2 - d: make w exactly the small number
        d = (math.pi - ang) / 2
        s, c = math.cos(d), math.sin(d)
    q = [s * a for a in ax] + [c]
    if rng.random() < 0.3:
        q = [-v for v in q]
    t = [10 ** rng.uniform(-6, 6) * rng.choice([1, -1]) if rng.random() < 0.8 else 0.0 for _ in range(3)]
    sc = [math.exp(rng.uniform(-8, 8))] if rng.random() < 0.7 else [rng.choice([1.0, 1.0, math.exp(rng.choice([1, -1]) * eps * rng.choice([0.5, 4, 2 ** 20]))])]
    if unit_scale:
        sc = [1.0]
    x = {'SO3': q, 'SE3': t + q, 'RxSO3': q + sc, 'Sim3': t + q + sc}[g]
    return [float(v) for v in torch.tensor(x, dtype=dtype).tolist()]


def tolerances(g, out, eps):
    se = math.sqrt(eps)
    rot = [(i, K_EPS * eps * math.pi) for i in range(3)]
    if g == 'SO3':
        return rot
    if g == 'RxSO3':
        return rot + [(3, K_EPS * eps * max(1.0, abs(out[3])))]
    tn = max(abs(v) for v in out[:3])
    tt = K_SQRT * se * max(tn, 1e-300)
    if g == 'SE3' and math.sqrt(sum(v * v for v in out[3:6])) >= 0.05:
        # closed-form branch of so3_Jl_inv, no scale: tau = Jl_inv(phi) t is well conditioned for every angle in [0.05, pi]
        # (the half-angle form of the K^2 coefficient has no cancellation up to and including pi); measured on the unchanged
        # tree <= 3 eps |tau|_inf over all angle classes, both dtypes - the sqrt(eps) band would hide a coefficient that
        # cancels near pi (7 lost digits in float64)
        tt = K_EPS * eps * max(tn, 1e-300)
    comps = [(i, tt) for i in range(3)] + [(3 + i, K_EPS * eps * math.pi) for i in range(3)]
    if g == 'Sim3':
        comps.append((6, K_EPS * eps * max(1.0, abs(out[6]))))
    return comps


def mp_log_reference(g, X):
    """principal logarithm at 60 digits, no thresholds"""
    import mpmath as mp
    mp.mp.dps = 60
    Xm = [mp.mpf(Fraction(v).numerator) / mp.mpf(Fraction(v).denominator) for v in X]
    t, q, s = split_elt(g, Xm)
    v, w = q[:3], q[3]
    vn = mp.sqrt(sum(a * a for a in v))
    if vn == 0:
        phi = [mp.mpf(0)] * 3
    else:
        ang = 2 * mp.atan2(vn, abs(w))
        f = ang / vn * (1 if w >= 0 else -1)
        phi = [f * a for a in v]
    if g == 'SO3':
        return phi
    sg = mp.log(s) if g in ('RxSO3', 'Sim3') else mp.mpf(0)
    if g == 'RxSO3':
        return phi + [sg]
    # translation: tau = V^{-1} t with V = int_0^1 exp(u (K + sigma I)) du, computed from expm of the generator
    G = mp.matrix(4, 4)
    K = [[0, -phi[2], phi[1]], [phi[2], 0, -phi[0]], [-phi[1], phi[0], 0]]
    for i in range(3):
        for j in range(3):
            G[i, j] = K[i][j] + (sg if i == j else 0)
    # V = column block of expm([[G3, I],[0, 0]]) : use the augmented 6x6 trick
    A = mp.matrix(6, 6)
    for i in range(3):
        for j in range(3):
            A[i, j] = G[i, j]
        A[i, 3 + i] = 1
    E = mp.expm(A)
    V = mp.matrix(3, 3)
    for i in range(3):
        for j in range(3):
            V[i, j] = E[i, 3 + j]
    tau = mp.lu_solve(V, mp.matrix([t[0], t[1], t[2]]))
    res = [tau[0], tau[1], tau[2]] + phi
    if g == 'Sim3':
        res.append(sg)
    return res


def impl_log(pp, torch, g, X, dtype):
    return pp.LieTensor(torch.tensor(X, dtype=dtype), ltype=getattr(pp, g + '_type')).Log().tensor().tolist()


def impl_invlog(pp, torch, g, X, dtype):
    return pp.LieTensor(torch.tensor(X, dtype=dtype), ltype=getattr(pp, g + '_type')).Inv().Log().tensor().tolist()


def impl_exp(pp, torch, g, x, dtype):
    alg = ALGS[GROUPS.index(g)]
    return pp.LieTensor(torch.tensor(x, dtype=dtype), ltype=getattr(pp, alg + '_type')).Exp().tensor().tolist()


def inv_clause(g, out, li, eps):
    """Log(Inv X) = -Log X away from rotation angle pi; out = Log X, li = Log(Inv X) as obtained from the implementation"""
    if any(not math.isfinite(v) for v in li):
        return 'Log(Inv X) is not finite: %s' % li
    rot = out[0:3] if g in ('SO3', 'RxSO3') else out[3:6]
    n = math.sqrt(sum(a * a for a in rot))
    # (skipped at angle pi where the two-valued log makes the sign arbitrary)
    if abs(n - math.pi) > 1e3 * eps:
        tols = dict(tolerances(g, out, eps))
        bad = [j for j in tols if abs(li[j] + out[j]) > 8 * tols[j] + 8 * K_SQRT * math.sqrt(eps) * abs(out[j]) * (1 if j < 3 and g in ('SE3', 'Sim3') else 0)]
        if bad:
            return 'Log(Inv X) != -Log X in components %s: %s vs %s' % (bad, li, out)
    return None


def confirm(pp, torch, g, dname, X, out=None, li=None):
    """the property's clauses about Log X against the 60-digit principal logarithm; out / li: the values of Log X and
    Log(Inv X) to be judged when they were obtained in another way (history on one object, item of a batch) than by a
    fresh single-element call"""
    import mpmath as mp
    dtype = torch.float64 if dname == 'float64' else torch.float32
    eps = float(torch.finfo(dtype).eps)
    if out is None:
        out = impl_log(pp, torch, g, X, dtype)
    if any(not math.isfinite(v) for v in out):
        return 'Log returned a non-finite value %s' % out
    ref = mp_log_reference(g, X)
    worst = []
    for j, tol in tolerances(g, out, eps):
        err = abs(mp.mpf(out[j]) - ref[j])
        if err > 0.99 * tol:
            # at exactly angle pi the principal log is two-valued (+-): accept the other sign
            rot = list(range(3)) if g in ('SO3', 'RxSO3') else list(range(3, 6))
            if j in rot and abs(mp.sqrt(sum(ref[k] ** 2 for k in rot)) - mp.pi) < 64 * eps and abs(mp.mpf(out[j]) + ref[j]) <= tol:
                continue
            worst.append('Log component %d off by %.3g (tolerance %.3g)' % (j, float(err), tol))
    rot = out[0:3] if g in ('SO3', 'RxSO3') else out[3:6]
    n = math.sqrt(sum(a * a for a in rot))
    if n > math.pi * (1 + K_EPS * eps):
        worst.append('rotation part of Log has norm %.17g > pi' % n)
    # Log(Inv X) = -Log X
    if li is None:
        li = impl_invlog(pp, torch, g, X, dtype)
    w = inv_clause(g, out, li, eps)
    if w:
        worst.append(w)
    return '; '.join(worst) if worst else None


def roundtrip(pp, torch, g, dname, X, out=None, back=None):
    """Exp(Log X) is the same transformation as X (quaternion sign irrelevant): checked on the implementation itself.
    Skipped inside the input class of C01's recorded finding (sim3 Exp with both the log-scale and the angle tiny).
    out / back: values of Log X / Exp(Log X) obtained elsewhere (history on one object, item of a batch)."""
    dtype = torch.float64 if dname == 'float64' else torch.float32
    eps = float(torch.finfo(dtype).eps)
    if out is None:
        out = impl_log(pp, torch, g, X, dtype)
    t, q, s = split_elt(g, X)
    if g == 'Sim3':
        sg = abs(math.log(s)) if s > 0 else float('inf')
        th = math.sqrt(sum(a * a for a in out[3:6]))
        if regime(sg, eps) == 'cancel' and th <= math.sqrt(eps) / 16:
            return None
    if any(not math.isfinite(v) for v in out):
        return 'Log returned a non-finite value %s' % out
    if back is None:
        back = impl_exp(pp, torch, g, out, dtype)
    if any(not math.isfinite(v) for v in back):
        return 'Exp(Log X) is not finite: %s' % back
    tb, qb, sb = split_elt(g, back)
    qn = math.sqrt(sum(a * a for a in q)) or 1.0
    sgn = 1.0 if sum(a * b for a, b in zip(q, qb)) >= 0 else -1.0
    dq = max(abs(a / qn - sgn * b) for a, b in zip(q, qb))
    bad = []
    if dq > 8 * K_EPS * eps:
        bad.append('rotation quaternion differs by %.3g (beyond sign)' % dq)
    if g in ('RxSO3', 'Sim3') and abs(sb - s) > 8 * K_EPS * eps * abs(s):
        bad.append('scale %.9g instead of %.9g' % (sb, s))
    if g in ('SE3', 'Sim3'):
        tn = max(max(abs(a) for a in t), 1e-300)
        dt = max(abs(a - b) for a, b in zip(t, tb))
        if dt > 8 * K_SQRT * math.sqrt(eps) * tn:
            bad.append('translation differs by %.3g (|t| = %.3g)' % (dt, tn))
    return ('Exp(Log X) is not X: ' + '; '.join(bad)) if bad else None


# ---- histories on one object, batches, memory layouts -------------------------------------------------------------
HOWS = ['copy_', 'setitem', 'setitem-tensor', 'alias', 'fill', 'data', 'retract']
LAYOUTS = ['contig', 'contig', 'stride2', 'featstride', 'transposed', 'expand']


def same(a, b):
    """bit-for-bit up to the sign of zero; NaN equals NaN"""
    return len(a) == len(b) and all((x == y) or (x != x and y != y) for x, y in zip(a, b))


def close(g, a, ref, eps):
    """a is within 1/8 of the tie's tolerance of ref (a result of the same call made on a fresh single element, which the
    tie compares with the model): rounding differences between kernels, not worth a 60-digit judgement"""
    return all(math.isfinite(v) for v in a) and all(abs(a[j] - ref[j]) <= tol / 8 for j, tol in tolerances(g, ref, eps))


def tname_of(g, op):
    return ALGS[GROUPS.index(g)] if op == 'Exp' else g


def second_call(pp, torch, g, op, prev, X, dtype, how, form, rg=False, batched=False):
    """op(T) as a SECOND call on the object T: T first answers op for another value `prev`, is then overwritten in place
    with X (how), and is asked again (form: method T.op() / function pp.op(T)).  Returns (value T holds at the judged call,
    result of the judged call, whether the judged call changed T)."""
    lt = getattr(pp, tname_of(g, op) + '_type')
    raw = lambda v: torch.tensor([v] if batched else v, dtype=dtype)
    mk = lambda v: pp.LieTensor(raw(v), ltype=lt)
    call = (lambda A: getattr(A, op)()) if form == 'method' else (lambda A: getattr(pp, op)(A))
    T = mk(prev)
    if rg:
        T.requires_grad_(True)
    call(T)
    call(T)
    with torch.no_grad():
        if how == 'copy_':
            T.copy_(mk(X))
        elif how == 'setitem':
            T[...] = mk(X)
        elif how == 'setitem-tensor':
            T[:] = raw(X)
        elif how == 'alias':
            T.tensor().copy_(raw(X))
        elif how == 'fill':
            T.zero_()
            T.tensor().add_(raw(X))
        elif how == 'data':
            T.data.copy_(raw(X))
        elif how == 'retract':
            # X.add_(a) is the retraction Exp(a) X: the value held afterwards is read back from the object
            a = [0.25 * (v - u) for u, v in zip(prev, X)][:ADIM[g]]
            T.add_(raw(a))
        else:
            raise ValueError(how)
    snap = T.tensor().detach().clone()
    res = call(T)
    cur = T.tensor().detach()
    changed = not torch.equal(snap, cur)
    return snap.reshape(-1).tolist(), res.tensor().detach().reshape(-1).tolist(), changed


def judge_history(pp, torch, g, dname, op, cur, res, X=None):
    """cur: the value the object held; res: what the second call of op returned.  Judged by the property's clauses only."""
    dtype = torch.float64 if dname == 'float64' else torch.float32
    eps = float(torch.finfo(dtype).eps)
    if op == 'Log':
        fresh = impl_log(pp, torch, g, cur, dtype)
        if same(res, fresh):
            return None
        why = roundtrip(pp, torch, g, dname, cur, out=res)
        if why or close(g, res, fresh, eps):
            return why
        return confirm(pp, torch, g, dname, cur, out=res)
    if op == 'Exp':
        # cur is the algebra element x = Log X of a fresh call: Exp x must be the transformation X again
        if same(res, impl_exp(pp, torch, g, cur, dtype)):
            return None
        return roundtrip(pp, torch, g, dname, X, out=cur, back=res)
    if op == 'Inv':
        fresh = pp.LieTensor(torch.tensor(cur, dtype=dtype), ltype=getattr(pp, g + '_type')).Inv().tensor().tolist()
        if same(res, fresh):
            return None
        li = impl_log(pp, torch, g, res, dtype)
        return inv_clause(g, impl_log(pp, torch, g, cur, dtype), li, eps)
    raise ValueError(op)


def run_history(pp, torch, g, dname, h, X):
    """-> failure text or None; h = dict(op, prev, how, form, rg, batched).  op = Log / Inv: the object is overwritten with X;
    op = Exp: with x = Log X of a fresh single call"""
    dtype = torch.float64 if dname == 'float64' else torch.float32
    val = X
    if h['op'] == 'Exp':
        val = impl_log(pp, torch, g, X, dtype)
        if any(not math.isfinite(v) for v in val):
            return None
    cur, res, changed = second_call(pp, torch, g, h['op'], h['prev'], val, dtype, h['how'], h['form'], h.get('rg', False), h.get('batched', False))
    if changed:
        return '%s changed its argument in place: now %s' % (h['op'], cur)
    if h['how'] != 'retract' and not same(cur, val):
        return 'in-place update (%s) lost: object holds %s instead of %s' % (h['how'], cur, val)
    why = judge_history(pp, torch, g, dname, h['op'], cur, res, X)
    if why:
        why = '%s on an object holding %s that answered %s for %s before and was overwritten in place (%s, %s form%s): %s' % (
            h['op'], cur, h['op'], h['prev'], h['how'], h['form'], ', requires_grad' if h.get('rg') else '', why)
    return why


def make_batch(torch, Xs, shape, layout, dtype):
    """-> (batch tensor of shape shape + (d,), its base, index of the element of Xs held by each item in row-major order)"""
    n, d = len(Xs), len(Xs[0])
    base = torch.tensor(Xs, dtype=dtype).reshape(n, d)
    idx = torch.arange(n)
    if layout == 'contig':
        return base.reshape(tuple(shape) + (d,)), base, idx.tolist()
    if layout == 'stride2':
        big = torch.full((2 * n, d), 0.5, dtype=dtype)
        big[::2] = base
        return big[::2], big, idx.tolist()
    if layout == 'featstride':
        big = torch.full((n, 2 * d), 0.5, dtype=dtype)
        big[:, ::2] = base
        return big[:, ::2].reshape(tuple(shape) + (d,)), big, idx.tolist()
    if layout == 'transposed':
        a, b = shape if len(shape) == 2 else (1, n)
        big = base.reshape(b, a, d)
        return big.transpose(0, 1), big, idx.reshape(b, a).transpose(0, 1).reshape(-1).tolist()
    if layout == 'expand':
        k = 3
        return base.reshape(1, n, d).expand(k, n, d), base, idx.repeat(k).tolist()
    raise ValueError(layout)


def batch_eval(pp, torch, g, dname, Xs, shape, layout):
    """Log, Log . Inv and Exp . Log of a whole batch.  -> (index map, Log items, Log(Inv) items, Exp(Log) items, mutation text)"""
    dtype = torch.float64 if dname == 'float64' else torch.float32
    B, base, idx = make_batch(torch, Xs, shape, layout, dtype)
    snap = base.clone()
    T = pp.LieTensor(B, ltype=getattr(pp, g + '_type'))
    L = T.Log()
    LI = T.Inv().Log()
    E = L.Exp()
    mut = None if torch.equal(snap, base) else 'Log / Inv / Exp changed the batch they were called on'
    if tuple(L.shape) != tuple(B.shape[:-1]) + (ADIM[g],) or tuple(E.shape) != tuple(B.shape):
        return idx, None, None, None, 'Log of a batch of shape %s has shape %s, Exp(Log) %s' % (tuple(B.shape), tuple(L.shape), tuple(E.shape))
    f = lambda A: A.tensor().detach().reshape(-1, A.shape[-1]).tolist()
    return idx, f(L), f(LI), f(E), mut


def judge_item(pp, torch, g, dname, X, single, L, LI, E):
    """item of a batch against the single-element results single = (Log X, Log Inv X, Exp Log X): identical, or else
    judged by the property's clauses"""
    dtype = torch.float64 if dname == 'float64' else torch.float32
    eps = float(torch.finfo(dtype).eps)
    if single is None:
        out = impl_log(pp, torch, g, X, dtype)
        single = (out, impl_invlog(pp, torch, g, X, dtype), impl_exp(pp, torch, g, out, dtype) if all(math.isfinite(v) for v in out) else None)
    if not same(L, single[0]):
        why = roundtrip(pp, torch, g, dname, X, out=L, back=E)
        if why or (close(g, L, single[0], eps) and close(g, LI, single[1], eps)):
            return why
        return confirm(pp, torch, g, dname, X, out=L, li=LI)
    if single[2] is not None and not same(E, single[2]):
        return roundtrip(pp, torch, g, dname, X, out=L, back=E)
    if not same(LI, single[1]):
        return inv_clause(g, L, LI, eps)
    return None


def run_batch(pp, torch, g, dname, b, singles=None):
    """b = dict(Xs, shape, layout); -> list of (item number, X, failure text)"""
    try:
        idx, L, LI, E, mut = batch_eval(pp, torch, g, dname, b['Xs'], b['shape'], b['layout'])
    except Exception as e:
        return [(0, b['Xs'][0], 'Log / Inv / Exp of the batch raised %r' % (e,))]
    fails = []
    if L is None:
        return [(0, b['Xs'][0], mut)]
    if mut:
        fails.append((0, b['Xs'][0], mut))
    for k, i in enumerate(idx):
        why = judge_item(pp, torch, g, dname, b['Xs'][i], singles[i] if singles else None, L[k], LI[k], E[k])
        if why:
            fails.append((k, b['Xs'][i], 'item %d of a batch of shape %s (%s) differs from the same element alone: %s' % (k, tuple(b['shape']), b['layout'], why)))
    return fails


def empty_batch(pp, torch, g, dname):
    dtype = torch.float64 if dname == 'float64' else torch.float32
    for shape in ((0,), (2, 0), (0, 3)):
        T = pp.LieTensor(torch.zeros(shape + (GDIM[g],), dtype=dtype), ltype=getattr(pp, g + '_type'))
        try:
            got = (tuple(T.Log().shape), tuple(T.Inv().Log().shape), tuple(T.Log().Exp().shape))
        except Exception as e:
            return 'Log / Inv / Exp of an empty batch of shape %s raised %r' % (shape, e)
        if got != (shape + (ADIM[g],), shape + (ADIM[g],), shape + (GDIM[g],)):
            return 'empty batch of shape %s: Log, Log Inv, Exp Log have shapes %s' % (shape, got)
    return None


# ---- provenance: the same element obtained in another way -----------------------------------------------------------
# The property speaks about every valid element of the four types in float32 / float64, not about how the LieTensor that
# holds it came into being.  TWINS: copies of a LieTensor (same dtype) that hold bit-for-bit the same data.  CASTS: the
# documented ways of obtaining the float32 / float64 element from a LieTensor / tensor of the other (or the same) dtype.
# Every route must give a LieTensor of the same Lie type, dtype, shape and data, on which Log / Inv / Exp give what they
# give on a natively constructed element (which the model is tied to), or else satisfy the clauses.
TWINS = ['deepcopy', 'copy', 'pickle', 'torch.save', 'clone', 'detach', 'contiguous-cpu', 'parameter-deepcopy', 'deepcopy-of-deepcopy', 'getitem-of-pickled-batch']
CASTS = ['to(dtype)', 'to(dtype=)', 'to(tensor)', 'to(device,dtype)', 'double()/float()', 'LieTensor(cast tensor)', 'alias(cast tensor)',
         'alias(cast LieTensor)', 'alias(list) under set_default_dtype', 'cast-then-deepcopy', 'pickle-then-cast']
# not judged (the unchanged tree does not give a usable LieTensor at all, reported to the maintainers of the framework):
# copy.deepcopy of a leaf LieTensor with requires_grad=True (every later call raises "A view was created in no_grad mode..."),
# pickle / torch.save / copy.copy of a pp.Parameter (comes back as a plain torch.nn.Parameter), X.type(dtype), X.type_as(),
# X.half().float() (plain Tensors)


def _dt(torch, dname):
    return torch.float64 if dname == 'float64' else torch.float32


def obtain(pp, torch, S, tname, dtype, route):
    """the LieTensor S (Lie type tname) -> the `same` element of dtype `dtype` by the route"""
    import copy, pickle, io
    cast = lambda T: T.double() if dtype == torch.float64 else T.float()
    if route == 'deepcopy':
        return copy.deepcopy(S)
    if route == 'deepcopy-of-deepcopy':
        return copy.deepcopy(copy.deepcopy(S))
    if route == 'copy':
        return copy.copy(S)
    if route == 'pickle':
        return pickle.loads(pickle.dumps(S))
    if route == 'getitem-of-pickled-batch':
        B = pp.LieTensor(torch.stack([S.tensor().detach(), S.tensor().detach()]), ltype=S.ltype)
        return pickle.loads(pickle.dumps(B))[1]
    if route == 'torch.save':
        b = io.BytesIO()
        torch.save(S, b)
        b.seek(0)
        return torch.load(b, weights_only=False)
    if route == 'clone':
        return S.clone()
    if route == 'detach':
        return S.detach()
    if route == 'contiguous-cpu':
        return S.cpu()
    if route == 'parameter-deepcopy':
        return copy.deepcopy(pp.Parameter(S.detach()))
    if route == 'to(dtype)':
        return S.to(dtype)
    if route == 'to(dtype=)':
        return S.to(dtype=dtype, copy=True)
    if route == 'to(tensor)':
        return S.to(torch.zeros(2, dtype=dtype))
    if route == 'to(device,dtype)':
        return S.to('cpu', dtype)
    if route == 'double()/float()':
        return cast(S)
    if route == 'LieTensor(cast tensor)':
        return pp.LieTensor(cast(S.tensor()), ltype=getattr(pp, tname + '_type'))
    if route == 'alias(cast tensor)':
        return getattr(pp, tname)(cast(S.tensor()))
    if route == 'alias(cast LieTensor)':
        return getattr(pp, tname)(cast(S))
    if route == 'alias(list) under set_default_dtype':
        old = torch.get_default_dtype()
        try:
            torch.set_default_dtype(dtype)
            return getattr(pp, tname)(S.tensor().detach().tolist())
        finally:
            torch.set_default_dtype(old)
    if route == 'cast-then-deepcopy':
        return copy.deepcopy(cast(S))
    if route == 'pickle-then-cast':
        return cast(pickle.loads(pickle.dumps(S)))
    raise ValueError(route)


def wellformed(pp, torch, Y, tname, dtype, vals, shape, what):
    """Y must be a LieTensor of Lie type tname, dtype, shape, holding vals bit-for-bit -> failure text or None"""
    if not isinstance(Y, pp.LieTensor):
        return '%s is a %s, not a LieTensor' % (what, type(Y).__name__)
    want = type(getattr(pp, tname + '_type')).__name__
    if type(getattr(Y, 'ltype', None)).__name__ != want:
        return '%s has Lie type %s instead of %s' % (what, type(getattr(Y, 'ltype', None)).__name__, want)
    if Y.dtype != dtype:
        return '%s has dtype %s instead of %s' % (what, Y.dtype, dtype)
    if tuple(Y.shape) != tuple(shape):
        return '%s has shape %s instead of %s' % (what, tuple(Y.shape), tuple(shape))
    got = Y.tensor().detach().reshape(-1).tolist()
    if vals is not None and not same(got, vals):
        return '%s holds %s instead of %s' % (what, got, vals)
    return None


def run_provenance(pp, torch, g, dname, p, X, single=None):
    """p = dict(route, src, batched, used, rg, form, inv): X (values of a dname element) is put into a LieTensor S of dtype
    p['src'], the dname element Y is obtained from S by the route; Log Y, Log(Inv Y) and Exp(Log Y) (Exp / the second Log
    called on what the same route makes of Log Y / Inv Y) are judged like an item of a batch: equal to what a natively
    constructed element gives (single, or computed here), or else by the property's clauses.  -> failure text or None"""
    dtype, sdt = _dt(torch, dname), _dt(torch, p['src'])
    alg = ALGS[GROUPS.index(g)]
    route = p['route']
    call = (lambda A, op: getattr(A, op)()) if p.get('form', 'method') == 'method' else (lambda A, op: getattr(pp, op)(A))
    raw = torch.tensor([X] if p.get('batched') else X, dtype=sdt)
    if raw.to(dtype).reshape(-1).tolist() != list(X):
        raise ValueError('X is not representable in the source dtype %s' % p['src'])
    snap = raw.clone()
    S = pp.LieTensor(raw, ltype=getattr(pp, g + '_type'))
    if p.get('rg'):
        S.requires_grad_(True)
    if p.get('used'):
        # the object the element is obtained from has already answered the three calls
        call(call(S, 'Log'), 'Exp')
        call(S, 'Inv')
    how = 'the %s %s element X=%s obtained by %s from a %s LieTensor%s%s' % (
        dname, g, X, route, p['src'], ' (batch of 1)' if p.get('batched') else '', ' that answered Log / Exp / Inv before' if p.get('used') else '')
    again = (lambda A, tn: obtain(pp, torch, A, tn, dtype, route)) if route not in ('parameter-deepcopy', 'getitem-of-pickled-batch') else (lambda A, tn: obtain(pp, torch, A, tn, dtype, 'deepcopy'))
    try:
        Y = obtain(pp, torch, S, g, dtype, route)
        why = wellformed(pp, torch, Y, g, dtype, list(X), raw.shape, 'the element')
        if why:
            return '%s: %s' % (how, why)
        L = call(Y, 'Log')
        why = wellformed(pp, torch, L, alg, dtype, None, tuple(raw.shape[:-1]) + (ADIM[g],), 'Log X')
        if why:
            return '%s: %s' % (how, why)
        I = call(Y, 'Inv')
        why = wellformed(pp, torch, I, g, dtype, None, raw.shape, 'Inv X')
        if why:
            return '%s: %s' % (how, why)
        if p.get('inv'):
            I = again(I.detach(), g)          # the same route applied to the result Inv X
        LI = call(I, 'Log')
        Lv = L.tensor().detach().reshape(-1).tolist()
        if all(math.isfinite(v) for v in Lv):
            A = again(L.detach(), alg)        # ... and to the algebra element Log X
            why = wellformed(pp, torch, A, alg, dtype, Lv, L.shape, 'the %s of Log X' % route)
            if why:
                return '%s: %s' % (how, why)
            E = call(A, 'Exp')
            why = wellformed(pp, torch, E, g, dtype, None, raw.shape, 'Exp(Log X)')
            if why:
                return '%s: %s' % (how, why)
            Ev = E.tensor().detach().reshape(-1).tolist()
        else:
            Ev = [float('nan')] * GDIM[g]
        if not torch.equal(snap, raw) or not same(Y.tensor().detach().reshape(-1).tolist(), list(X)):
            return '%s: Log / Inv / Exp changed the element they were called on' % how
    except Exception as e:
        return '%s: raised %r' % (how, e)
    why = judge_item(pp, torch, g, dname, X, single, Lv, LI.tensor().detach().reshape(-1).tolist(), Ev)
    return ('%s gives Log X = %s, Log(Inv X) = %s, Exp(Log X) = %s: %s' % (how, Lv, LI.tensor().detach().reshape(-1).tolist(), Ev, why)) if why else None


def representable(torch, X, dname):
    return torch.tensor(X, dtype=_dt(torch, dname)).double().tolist() == list(X)


# ---- fresh interpreters: process-global state ----------------------------------------------------------------------
# A step is dict(g, dtype, X[, batched, form]) -> Log X, Log(Inv X), Exp(Log X), or dict(g, dtype, x, exp=True[, batched])
# -> Exp x, Log(Exp x).  A schedule (list of steps) is executed in order by a NEW python process, so that whatever the
# implementation remembers between calls outside its arguments is set by the schedule's own first / previous calls.
MARK = '@@C02-FRESH@@'


def fresh_worker():
    """body of the fresh interpreter: read the schedule from stdin, write the per-step results to stdout"""
    import json
    steps = json.load(sys.stdin)['steps']
    pp = import_pypose()
    import torch
    res = []
    for st in steps:
        g, dtype = st['g'], (torch.float64 if st['dtype'] == 'float64' else torch.float32)
        call = (lambda A, op: getattr(A, op)()) if st.get('form', 'method') == 'method' else (lambda A, op: getattr(pp, op)(A))
        flat = lambda A: A.tensor().detach().reshape(-1).tolist()
        try:
            if st.get('exp'):
                raw = torch.tensor([st['x']] if st.get('batched') else st['x'], dtype=dtype)
                snap = raw.clone()
                T = pp.LieTensor(raw, ltype=getattr(pp, ALGS[GROUPS.index(g)] + '_type'))
                E = call(T, 'Exp')
                r = dict(E=flat(E), LE=flat(call(E, 'Log')))
            else:
                raw = torch.tensor([st['X']] if st.get('batched') else st['X'], dtype=dtype)
                snap = raw.clone()
                T = pp.LieTensor(raw, ltype=getattr(pp, g + '_type'))
                L = call(T, 'Log')
                r = dict(L=flat(L), LI=flat(call(call(T, 'Inv'), 'Log')), E=flat(call(L, 'Exp')))
            r['mut'] = not torch.equal(snap, raw)
        except Exception as e:
            r = dict(err=repr(e))
        res.append(r)
    sys.stdout.write('\n' + MARK + json.dumps(res) + '\n')
    sys.stdout.flush()


def run_fresh(steps, timeout=900):
    """-> list of per-step results of the schedule executed by a new interpreter (same pypose tree), or a text on failure"""
    import json
    try:
        p = subprocess.run([sys.executable, '-W', 'ignore', '-m', 'harness.props.c02', '--fresh-worker'], input=json.dumps(dict(steps=steps)),
                           capture_output=True, text=True, cwd=VERIF, timeout=timeout)
    except subprocess.TimeoutExpired:
        return 'the fresh interpreter did not finish %d steps within %d s' % (len(steps), timeout)
    for line in p.stdout.splitlines():
        if line.startswith(MARK):
            return json.loads(line[len(MARK):])
    return 'the fresh interpreter ended with status %s: %s' % (p.returncode, p.stderr[-1500:])


def step_text(st):
    if st.get('exp'):
        return 'Exp, Log(Exp) of the %s %s vector %s%s' % (st['dtype'], ALGS[GROUPS.index(st['g'])], st['x'], ' (batch of 1)' if st.get('batched') else '')
    return 'Log, Log(Inv), Exp(Log) of the %s %s element %s%s' % (st['dtype'], st['g'], st['X'], ' (batch of 1)' if st.get('batched') else '')


def judge_step(pp, torch, st, r, single=None):
    """result r of a step obtained in a fresh interpreter: equal to what this process gives for the same input, or else
    judged by the property's clauses"""
    g, dname = st['g'], st['dtype']
    dtype = torch.float64 if dname == 'float64' else torch.float32
    eps = float(torch.finfo(dtype).eps)
    if 'err' in r:
        return 'raised %s' % r['err']
    if r.get('mut'):
        return 'Log / Inv / Exp changed the tensor they were called on'
    if st.get('exp'):
        x = st['x']
        E = impl_exp(pp, torch, g, x, dtype)
        LE = pp.LieTensor(torch.tensor(E, dtype=dtype), ltype=getattr(pp, g + '_type')).Log().tensor().tolist()
        if same(r['E'], E) and same(r['LE'], LE):
            return None
        if any(not math.isfinite(v) for v in r['E'] + r['LE']):
            return 'Exp x = %s, Log(Exp x) = %s not finite' % (r['E'], r['LE'])
        # Log(Exp x) = x (rotation part of x shorter than pi by construction), and Exp(Log(Exp x)) = Exp x
        tols = dict(tolerances(g, x, eps))
        bad = [j for j in tols if abs(r['LE'][j] - x[j]) > 8 * tols[j]]
        if bad:
            return 'Log(Exp x) != x in components %s: %s' % (bad, r['LE'])
        return roundtrip(pp, torch, g, dname, r['E'], out=r['LE'])
    if len(r['L']) != ADIM[g] or len(r['LI']) != ADIM[g] or len(r['E']) != GDIM[g]:
        return 'results have %d, %d, %d components' % (len(r['L']), len(r['LI']), len(r['E']))
    return judge_item(pp, torch, g, dname, st['X'], single, r['L'], r['LI'], r['E'])


def fresh_fail(pp, torch, steps, single=None):
    """the LAST step of the schedule, executed in a fresh interpreter after the others -> failure text or None"""
    res = run_fresh(steps)
    if isinstance(res, str):
        return res
    if len(res) != len(steps):
        return 'the fresh interpreter answered %d of %d steps' % (len(res), len(steps))
    why = judge_step(pp, torch, steps[-1], res[-1], single)
    if why:
        r = res[-1]
        why = 'in a fresh interpreter, %s%s gives %s: %s' % (
            step_text(steps[-1]), (' as step %d, after [%s]' % (len(steps), '; '.join(step_text(s) for s in steps[:-1][:3]) + ('; ...' if len(steps) > 4 else ''))) if len(steps) > 1 else ' as the very first call',
            {k: r[k] for k in ('L', 'LI', 'E', 'LE') if k in r}, why)
    return why


def shrink_fresh(pp, torch, steps, k, single=None):
    """step k of the schedule failed: the shortest of a few sub-schedules ending in step k that still fails (each tried in
    its own fresh interpreter) -> (sub-schedule, failure text) or None when none of them fails again"""
    cands = []
    other = [s for s in steps[:k] if s['dtype'] != steps[k]['dtype']]
    for pre in ([], steps[:1], other[:1], other[-1:], steps[max(0, k - 1):k]):
        c = list(pre) + [steps[k]]
        if c not in cands and len(c) <= k + 1:
            cands.append(c)
    cands.append(steps[:k + 1])
    for c in cands:
        why = fresh_fail(pp, torch, c, single)
        if why:
            return c, why
    return None


def schedules(hr, elems):
    """elems: steps (dict(g, dtype, X)) in the order this process evaluated them -> {name: schedule}; every schedule
    contains every element once"""
    f32 = [e for e in elems if e['dtype'] == 'float32']
    f64 = [e for e in elems if e['dtype'] == 'float64']

    def alternate(a, b):
        out = []
        for i in range(max(len(a), len(b))):
            out += a[i:i + 1] + b[i:i + 1]
        return out

    def warm(dname):
        w = []
        for g in hr.sample(GROUPS, len(GROUPS)):
            x = [hr.uniform(-1.5, 1.5) for _ in range(ADIM[g])]
            w.append(dict(g=g, dtype=dname, x=[float(v) for v in x], exp=True, batched=hr.random() < 0.5, form=hr.choice(['method', 'function'])))
        return w

    vary = lambda es: [dict(e, batched=hr.random() < 0.3, form=hr.choice(['method', 'function'])) for e in es]
    return {
        'float32-block-first': f32 + f64,
        'float64-block-first': f64 + f32,
        'exp-float32-first-then-alternating': warm('float32') + alternate(vary(f64[::-1]), vary(f32[::-1])),
        'exp-float64-first-then-alternating': warm('float64') + alternate(vary(f32[::-1]), vary(f64[::-1])),
    }


def key_of(g, dname, X, eps):
    t, q, s = split_elt(g, X)
    vn = math.sqrt(sum(a * a for a in q[:3]))
    sg = abs(math.log(s)) if s > 0 else float('inf')
    if g == 'Sim3' and regime(sg, eps) == 'cancel':
        return 'log-accuracy:Sim3:%s:rxso3_Ws:eps<|sigma|<=sqrt(eps)/16' % dname
    reg = 'identity' if vn <= eps else ('angle-pi' if abs(q[3]) <= eps else 'generic')
    return 'log-accuracy:%s:%s:%s:sigma=%s' % (g, dname, reg, regime(sg, eps))


def run(ctx):
    pp = import_pypose()
    import torch
    ctx.rule = RULE
    rng = ctx.rng
    plan = []
    counts = {'SO3': ctx.scale(300, 6000), 'SE3': ctx.scale(300, 6000), 'RxSO3': ctx.scale(200, 4000), 'Sim3': ctx.scale(400, 8000)}
    for g in GROUPS:
        k = 0
        for kind in ANG:
            k += 1
            for dname in ('float64', 'float32'):
                plan.append((g, dname, kind))
        for _ in range(counts[g]):
            plan.append((g, 'float64' if rng.random() < 0.7 else 'float32', rng.choice(ANG)))
    cases, meta = [], []
    ncase = 0
    import random as _random
    hr = _random.Random(rng.getrandbits(64))      # histories / batches: own stream, the case generator is not disturbed
    reported = set()

    def report(key, what, rep):
        # one mpmath judgement per key is enough for a report; the rest is counted
        ctx.count('fail:' + key)
        if key not in reported:
            reported.add(key)
            ctx.violation(key, what, rep)

    for (g, dname, kind) in plan:
        dtype = torch.float64 if dname == 'float64' else torch.float32
        eps = float(torch.finfo(dtype).eps)
        ncase += 1
        # scale exactly 1 (log-scale 0: the |sigma| <= eps regimes of rxso3_Ws) for every second directed Sim3 / RxSO3 case
        X = gen_X(rng, g, eps, kind, torch, dtype, unit_scale=(g in ('Sim3', 'RxSO3') and ncase % 2 == 0))
        try:
            out = impl_log(pp, torch, g, X, dtype)
        except Exception as e:
            ctx.violation('log-raises:%s' % g, 'Log raised %r' % (e,), dict(g=g, dtype=dname, X=X))
            continue
        if any(not math.isfinite(v) for v in out):
            ctx.violation(key_of(g, dname, X, eps), 'Log returned a non-finite value %s for X=%s' % (out, X), dict(g=g, dtype=dname, X=X))
            continue
        i = len(meta)
        t, q, s = split_elt(g, X)
        vn = math.sqrt(sum(a * a for a in q[:3]))
        br = '%s:%s:%s' % (g, dname, 'regime3' if vn <= eps else ('regime2' if abs(q[3]) <= eps else ('regime1-w<0' if q[3] < 0 else 'regime1')))
        ctx.case((g, dname, tuple(X)), nontrivial=(vn != 0), branch=br, sample=dict(g=g, dtype=dname, X=X, impl=out) if i % 157 == 5 else None)
        try:
            li = impl_invlog(pp, torch, g, X, dtype)
            back = impl_exp(pp, torch, g, out, dtype)
        except Exception as e:
            ctx.violation('log-raises:%s' % g, 'Log(Inv X) / Exp(Log X) raised %r' % (e,), dict(g=g, dtype=dname, X=X))
            continue
        meta.append(dict(g=g, dtype=dname, X=X, impl=out, kind=kind, li=li, back=back))
        why = roundtrip(pp, torch, g, dname, X, out, back)
        if why:
            ctx.violation('exp-log-roundtrip:%s:%s' % (g, dname), '%s [%s %s] X=%s' % (why, g, dname, X), dict(g=g, dtype=dname, X=X, roundtrip=True))
        # the same element through an object with a history: every op judged as a later call on its object, after calls
        # with another value and an in-place overwrite
        for op in ('Log', 'Exp', 'Inv'):
            how = hr.choice([h for h in HOWS if not (op == 'Exp' and h == 'retract')])
            prev = gen_X(hr, g, eps, hr.choice(['one', 'one', 'far', 'zero']), torch, dtype)
            if op == 'Exp':
                prev = [hr.uniform(-1.5, 1.5) for _ in range(ADIM[g])]
            h = dict(op=op, prev=prev, how=how, form=hr.choice(['method', 'function']), rg=hr.random() < 0.25, batched=hr.random() < 0.3)
            key = 'history:%s:%s:%s' % (op, g, how)
            ctx.count('history:%s:%s' % (op, how))
            try:
                why = run_history(pp, torch, g, dname, h, X)
            except Exception as e:
                why = 'raised %r' % (e,)
            if why:
                report(key, '%s [%s %s]' % (why, g, dname), dict(g=g, dtype=dname, X=X, hist=h))
        epsl = 'E64' if dname == 'float64' else 'E32'
        cases.append(dict(idx=i, expr='log_l (NF:=@NF@) (TF:=TransIv) %s %d %s' % (epsl, GID[g], ivlist(X)), comps=[(j, out[j], tol) for j, tol in tolerances(g, out, eps)]))
    # batches: every element again as an item of a batch (mixed special / generic elements, shapes, memory layouts);
    # each item must be what the element gives alone, or at least satisfy the clauses
    nb = 0
    for g in GROUPS:
        for dname in ('float64', 'float32'):
            why = empty_batch(pp, torch, g, dname)
            if why:
                report('batch:empty:%s' % g, '%s [%s %s]' % (why, g, dname), dict(g=g, dtype=dname, X=[], empty=True))
            ids = [i for i, m in enumerate(meta) if m['g'] == g and m['dtype'] == dname]
            if not ids:
                continue
            groups = []
            generic = [i for i in ids if meta[i]['kind'] == 'one']
            for kind in ANG:            # directed: one special element next to one generic one, both orders
                sp = [i for i in ids if meta[i]['kind'] == kind]
                if sp and generic:
                    a, b = hr.choice(sp), hr.choice(generic)
                    groups.append(([a, b], (2,), 'contig'))
                    groups.append(([b, a, hr.choice(generic)], (3,), hr.choice(LAYOUTS)))
            pool = ids[:]
            hr.shuffle(pool)
            while pool:
                n = min(len(pool), hr.choice([1, 2, 3, 4, 6, 8, 12]))
                part, pool = pool[:n], pool[n:]
                shape = (n,)
                layout = hr.choice(LAYOUTS)
                divs = [a for a in (2, 3, 4) if n % a == 0 and n > a]
                if layout == 'transposed' or (divs and layout in ('contig', 'featstride') and hr.random() < 0.5):
                    a = hr.choice(divs) if divs else 1
                    shape = (a, n // a)
                groups.append((part, shape, layout))
            for part, shape, layout in groups:
                b = dict(Xs=[meta[i]['X'] for i in part], shape=list(shape), layout=layout)
                nb += 1
                ctx.count('batch:%s' % layout)
                for k, X, why in run_batch(pp, torch, g, dname, b, [(meta[i]['impl'], meta[i]['li'], meta[i]['back']) for i in part]):
                    report('batch:%s:%s:%s' % (g, dname, layout), '%s [%s %s] X=%s' % (why, g, dname, X), dict(g=g, dtype=dname, X=X, batch=b))
    # fresh interpreters: one element per (group, dtype, kind) and a random sample, replayed under other call orders; the
    # results must be those of this process (which the model is tied to) or satisfy the clauses
    by = {}
    for i, m in enumerate(meta):
        by.setdefault((m['g'], m['dtype'], m['kind']), []).append(i)
    pick = [hr.choice(v) for v in by.values()]
    rest = sorted(set(range(len(meta))) - set(pick))
    pick = sorted(pick + hr.sample(rest, min(len(rest), ctx.scale(60, 600))))
    elems = [dict(g=meta[i]['g'], dtype=meta[i]['dtype'], X=meta[i]['X'], id=i) for i in pick]
    single_of = lambda st: (meta[st['id']]['impl'], meta[st['id']]['li'], meta[st['id']]['back']) if 'id' in st else None
    scheds = schedules(hr, elems) if elems else {}
    with ThreadPoolExecutor(max_workers=max(1, min(NCPU, len(scheds) or 1))) as ex:
        answers = dict(zip(scheds, ex.map(run_fresh, scheds.values())))
    for name, steps in scheds.items():
        res = answers[name]
        if isinstance(res, str) or len(res) != len(steps):
            why = res if isinstance(res, str) else 'the fresh interpreter answered %d of %d steps' % (len(res), len(steps))
            report('fresh-process:%s' % name, 'schedule %s (first step: %s): %s' % (name, step_text(steps[0]), why),
                   dict(g=steps[0]['g'], dtype=steps[0]['dtype'], X=steps[0].get('X', steps[0].get('x')), fresh=dict(steps=steps)))
            continue
        ctx.count('fresh:%s' % name, len(steps))
        for k, st in enumerate(steps):
            why = judge_step(pp, torch, st, res[k], single_of(st))
            if not why:
                continue
            key = 'fresh-process:%s:%s' % (st['g'], st['dtype'])
            if key in reported:
                ctx.count('fail:' + key)
                continue
            sh = shrink_fresh(pp, torch, steps, k, single_of(st))
            if sh:
                sub, why = sh
            else:
                sub, why = steps[:k + 1], 'observed once as step %d of the schedule %s, not again in a re-run: %s' % (k + 1, name, why)
            report(key, '%s [%s %s, schedule %s]' % (why, st['g'], st['dtype'], name), dict(g=st['g'], dtype=st['dtype'], X=st.get('X', st.get('x')), fresh=dict(steps=sub)))
    # provenance: every element again as a copy of its LieTensor (TWINS) and as the result of a dtype conversion / of another
    # constructor form (CASTS), the routes taken in rotation per (group, dtype); every float32 element also widened to the
    # float64 element with the same data; exactly representable unit elements (valid in both dtypes) in both directions
    pr = _random.Random(hr.getrandbits(64))
    cyc = {}
    other = {'float64': 'float32', 'float32': 'float64'}

    def prov(g, dname, X, routes, src, single, tag):
        k = cyc[(g, dname, tag)] = cyc.get((g, dname, tag), -1) + 1
        route = routes[k % len(routes)]
        p = dict(route=route, src=src, batched=pr.random() < 0.3, used=pr.random() < 0.5, rg=(pr.random() < 0.25 and 'deepcopy' not in route),
                 form=pr.choice(['method', 'function']), inv=pr.random() < 0.5)
        ctx.count('provenance:%s' % route)
        try:
            why = run_provenance(pp, torch, g, dname, p, X, single)
        except Exception as e:
            why = 'provenance %s raised %r' % (p, e)
        if why:
            report('provenance:%s:%s' % (route, g), '%s [%s %s]' % (why, g, dname), dict(g=g, dtype=dname, X=X, prov=p))

    nwide = 0
    for m in meta:
        g, dname, X = m['g'], m['dtype'], m['X']
        single = (m['impl'], m['li'], m['back'])
        prov(g, dname, X, TWINS, dname, single, 'twin')
        src = other[dname] if (pr.random() < 0.7 and representable(torch, X, other[dname])) else dname
        prov(g, dname, X, CASTS, src, single, 'cast')
        if dname == 'float32':
            nwide += 1
            prov(g, 'float64', X, CASTS, 'float32', None, 'widen')
    nunit = 0
    for g in GROUPS:
        for dname in ('float64', 'float32'):
            seen = set()
            for _ in range(ctx.scale(10, 40)):
                X = [float(v) for v in unit_elt(pr, g)]
                if tuple(X) in seen:
                    continue
                seen.add(tuple(X))
                nunit += 1
                ctx.count('provenance:exact-unit-element')
                try:
                    why = confirm(pp, torch, g, dname, X) or roundtrip(pp, torch, g, dname, X)
                except Exception as e:
                    why = 'raised %r' % (e,)
                if why:
                    report('exact-unit:%s:%s' % (g, dname), 'Log(%s) [%s %s, exactly representable unit element]: %s' % (X, g, dname, why), dict(g=g, dtype=dname, X=X, both=True))
                    continue
                prov(g, dname, X, TWINS, dname, None, 'unit-twin')
                prov(g, dname, X, CASTS, other[dname], None, 'unit-cast')
    ctx.notes.append('every element also as a copy of its LieTensor (%s) and as the result of a conversion / constructor form (%s), from the other dtype where the data allow it; '
                     '%d float32 elements widened to float64; %d exactly representable unit elements converted in both directions' % (', '.join(TWINS), ', '.join(CASTS), nwide, nunit))
    ctx.notes.append('%d elements replayed in %d fresh interpreters under other call orders (%s)' % (len(elems), len(scheds), ', '.join(scheds)))
    ctx.notes.append('%d batches (mixed special/generic items, 2-D shapes, strided / transposed / expanded views, empty) compared item by item with single-element calls; every case also through Log / Exp / Inv histories on one object' % nb)
    r = run_interval('C02', 'Model.LieGroup Model.LieExp Model.LieLog', cases)
    for name, out in r['broken']:
        ctx.obligation_broken('correspondence-file:' + name, out)
    ctx.notes.append('enclosure: %d proved within tolerance, %d proved outside, %d undecided' % (len(r['ok']), len(set(i for i, _ in r['bad'])), len(r['undecided'])))
    ctx.hist['undecided'] = len(r['undecided'])
    if len(r['undecided']) > max(5, len(cases) // 20):
        ctx.obligation_broken('enclosure-undecided', '%d of %d cases undecided, e.g. %s' % (len(r['undecided']), len(cases), [meta[i] for i in r['undecided'][:3]]))
    for i in sorted(set(i for i, _ in r['bad'])):
        m = meta[i]
        mm = dict(family='log:' + m['g'], case=dict(m, components=[c for j, c in r['bad'] if j == i]), detail='')
        ctx.mismatches.append(mm)
        why = confirm(pp, torch, m['g'], m['dtype'], m['X'])
        rep = dict(g=m['g'], dtype=m['dtype'], X=m['X'])
        if not why:
            # the value that was tied came out of this run's call sequence; when a call made now gives another one the
            # implementation keeps state between calls: judge the observed value, and look for the shortest sequence
            # (previous case, this case) that shows it in a fresh interpreter
            seen = confirm(pp, torch, m['g'], m['dtype'], m['X'], out=m['impl'], li=m['li'])
            if seen:
                steps = [dict(g=p['g'], dtype=p['dtype'], X=p['X']) for p in meta[max(0, i - 1):i]] + [dict(rep)]
                rep = dict(rep, fresh=dict(steps=steps))
                why = fresh_fail(pp, torch, steps) or 'Log gave %s in this run (after %s), another value when called again: %s' % (
                    m['impl'], '; '.join(step_text(s) for s in steps[:-1]) or 'nothing', seen)
        if why:
            mm['explained'] = True
            eps = 2.0 ** -52 if m['dtype'] == 'float64' else 2.0 ** -23
            ctx.violation(key_of(m['g'], m['dtype'], m['X'], eps), 'Log(%s) [%s %s]: %s' % (m['X'], m['g'], m['dtype'], why), rep)
    for key in ctx.known:
        if key in ctx.known_hit:
            continue
        w = KNOWN_WITNESS.get(key)
        if w and confirm(pp, torch, *w):
            ctx.known_hit[key] = 'witness still fails'
    ctx.traces = len(r['ok'])


KNOWN_WITNESS = {}


def replay(ctx, c):
    pp = import_pypose()
    import torch
    if c.get('roundtrip'):
        return roundtrip(pp, torch, c['g'], c['dtype'], c['X'])
    if c.get('empty'):
        return empty_batch(pp, torch, c['g'], c['dtype'])
    if c.get('fresh'):
        return fresh_fail(pp, torch, c['fresh']['steps'])
    if c.get('hist'):
        return run_history(pp, torch, c['g'], c['dtype'], c['hist'], c['X'])
    if c.get('prov'):
        return run_provenance(pp, torch, c['g'], c['dtype'], c['prov'], c['X'])
    if c.get('both'):
        return confirm(pp, torch, c['g'], c['dtype'], c['X']) or roundtrip(pp, torch, c['g'], c['dtype'], c['X'])
    if c.get('batch'):
        fails = run_batch(pp, torch, c['g'], c['dtype'], c['batch'])
        return '; '.join(w for _, _, w in fails[:3]) if fails else None
    return confirm(pp, torch, c['g'], c['dtype'], c['X'])


if __name__ == '__main__' and '--fresh-worker' in sys.argv:
    fresh_worker()
