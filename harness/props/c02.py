"""C02 correspondence (enclosure route): Log on SO3 / SE3 / RxSO3 / Sim3 vs Model/LieLog.v, plus the
property's clauses (Exp(Log X) = X as transformations, |rotation part| <= pi, Log(-q) = Log(q),
Log(Inv X) = -Log X, Log(Exp x) = x) evaluated on the implementation inside the search."""
import math
from ..common import *
from ..lie import *
from .c01 import K_EPS, K_SQRT, direction, regime

RULE = ('X = (unit quaternion from axis-angle, translation, scale); angle from {0, ladder around eps and sqrt(eps), O(1), ladder approaching pi from '
        'both sides incl. |w| around eps}, both hemispheres; translation 1e-6..1e6; scale e^-8..e^8; a case is (group, dtype, X); non-trivial = '
        'not the identity; distinct by value; tolerances %d eps (rotation, log-scale), %d sqrt(eps) (translation block)' % (K_EPS, K_SQRT))


def gen_angle(rng, eps, kind):
    se = math.sqrt(eps)
    if kind == 'zero':
        return 0.0
    if kind == 'eps':
        return 2 * eps * rng.choice([0.25, 0.5, 1 - 2 ** -10, 1 + 2 ** -10, 2, 4, 1024])     # |v| ~ angle/2 around eps
    if kind == 'sqrteps':
        return se * rng.choice([0.5, 1, 4, 64])
    if kind == 'tiny':
        return 10 ** rng.uniform(-12, -3)
    if kind == 'one':
        return rng.uniform(0.05, 3.0)
    if kind == 'nearpi':
        return math.pi - 10 ** rng.uniform(-12, -3)
    if kind == 'pi-eps':
        return math.pi - 2 * eps * rng.choice([0.0, 0.25, 0.5, 1 - 2 ** -10, 1 + 2 ** -10, 2, 8, 1024])  # |w| around eps
    if kind == 'beyondpi':
        return math.pi + 10 ** rng.uniform(-12, -1)      # w < 0
    if kind == 'far':
        return rng.uniform(math.pi + 0.1, 2 * math.pi - 0.05)
    raise ValueError(kind)


ANG = ['zero', 'eps', 'sqrteps', 'tiny', 'one', 'nearpi', 'pi-eps', 'beyondpi', 'far']


def gen_X(rng, g, eps, kind, torch, dtype, unit_scale=False):
    ang = gen_angle(rng, eps, kind)
    ax = direction(rng) if rng.random() < 0.8 else rng.choice([[1.0, 0, 0], [0, 1.0, 0], [0, 0, -1.0]])
    s, c = math.sin(ang / 2), math.cos(ang / 2)
    if kind == 'pi-eps':
        # sin/cos of pi/2 - d: make w exactly the small number
        d = (math.pi - ang) / 2
        s, c = math.cos(d), math.sin(d)
    q = [s * a for a in ax] + [c]
    if rng.random() < 0.3:
        q = [-v for v in q]
    t = [10 ** rng.uniform(-6, 6) * rng.choice([1, -1]) if rng.random() < 0.8 else 0.0 for _ in range(3)]
    sc = [math.exp(rng.uniform(-8, 8))] if rng.random() < 0.7 else [rng.choice([1.0, 1.0, math.exp(rng.choice([1, -1]) * eps * rng.choice([0.5, 4, 2 ** 20]))])]
    if unit_scale:
        sc = [1.0]
    x = {'SO3': q, 'SE3': t + q, 'RxSO3': q + sc, 'Sim3': t + q + sc}[g]
    return [float(v) for v in torch.tensor(x, dtype=dtype).tolist()]


def tolerances(g, out, eps):
    se = math.sqrt(eps)
    rot = [(i, K_EPS * eps * math.pi) for i in range(3)]
    if g == 'SO3':
        return rot
    if g == 'RxSO3':
        return rot + [(3, K_EPS * eps * max(1.0, abs(out[3])))]
    tn = max(abs(v) for v in out[:3])
    tt = K_SQRT * se * max(tn, 1e-300)
    comps = [(i, tt) for i in range(3)] + [(3 + i, K_EPS * eps * math.pi) for i in range(3)]
    if g == 'Sim3':
        comps.append((6, K_EPS * eps * max(1.0, abs(out[6]))))
    return comps


def mp_log_reference(g, X):
    """principal logarithm at 60 digits, no thresholds"""
    import mpmath as mp
    mp.mp.dps = 60
    Xm = [mp.mpf(Fraction(v).numerator) / mp.mpf(Fraction(v).denominator) for v in X]
    t, q, s = split_elt(g, Xm)
    v, w = q[:3], q[3]
    vn = mp.sqrt(sum(a * a for a in v))
    if vn == 0:
        phi = [mp.mpf(0)] * 3
    else:
        ang = 2 * mp.atan2(vn, abs(w))
        f = ang / vn * (1 if w >= 0 else -1)
        phi = [f * a for a in v]
    if g == 'SO3':
        return phi
    sg = mp.log(s) if g in ('RxSO3', 'Sim3') else mp.mpf(0)
    if g == 'RxSO3':
        return phi + [sg]
    # translation: tau = V^{-1} t with V = int_0^1 exp(u (K + sigma I)) du, computed from expm of the generator
    G = mp.matrix(4, 4)
    K = [[0, -phi[2], phi[1]], [phi[2], 0, -phi[0]], [-phi[1], phi[0], 0]]
    for i in range(3):
        for j in range(3):
            G[i, j] = K[i][j] + (sg if i == j else 0)
    # V = column block of expm([[G3, I],[0, 0]]) : use the augmented 6x6 trick
    A = mp.matrix(6, 6)
    for i in range(3):
        for j in range(3):
            A[i, j] = G[i, j]
        A[i, 3 + i] = 1
    E = mp.expm(A)
    V = mp.matrix(3, 3)
    for i in range(3):
        for j in range(3):
            V[i, j] = E[i, 3 + j]
    tau = mp.lu_solve(V, mp.matrix([t[0], t[1], t[2]]))
    res = [tau[0], tau[1], tau[2]] + phi
    if g == 'Sim3':
        res.append(sg)
    return res


def impl_log(pp, torch, g, X, dtype):
    return pp.LieTensor(torch.tensor(X, dtype=dtype), ltype=getattr(pp, g + '_type')).Log().tensor().tolist()


def confirm(pp, torch, g, dname, X):
    import mpmath as mp
    dtype = torch.float64 if dname == 'float64' else torch.float32
    eps = float(torch.finfo(dtype).eps)
    out = impl_log(pp, torch, g, X, dtype)
    if any(not math.isfinite(v) for v in out):
        return 'Log returned a non-finite value %s' % out
    ref = mp_log_reference(g, X)
    worst = []
    for j, tol in tolerances(g, out, eps):
        err = abs(mp.mpf(out[j]) - ref[j])
        if err > 0.99 * tol:
            # at exactly angle pi the principal log is two-valued (+-): accept the other sign
            rot = list(range(3)) if g in ('SO3', 'RxSO3') else list(range(3, 6))
            if j in rot and abs(mp.sqrt(sum(ref[k] ** 2 for k in rot)) - mp.pi) < 64 * eps and abs(mp.mpf(out[j]) + ref[j]) <= tol:
                continue
            worst.append('Log component %d off by %.3g (tolerance %.3g)' % (j, float(err), tol))
    rot = out[0:3] if g in ('SO3', 'RxSO3') else out[3:6]
    n = math.sqrt(sum(a * a for a in rot))
    if n > math.pi * (1 + K_EPS * eps):
        worst.append('rotation part of Log has norm %.17g > pi' % n)
    # Log(Inv X) = -Log X
    Xt = pp.LieTensor(torch.tensor(X, dtype=dtype), ltype=getattr(pp, g + '_type'))
    li = Xt.Inv().Log().tensor().tolist()
    # (skipped at angle pi where the two-valued log makes the sign arbitrary)
    if abs(n - math.pi) > 1e3 * eps:
        tols = dict(tolerances(g, out, eps))
        bad = [j for j in tols if abs(li[j] + out[j]) > 8 * tols[j] + 8 * K_SQRT * math.sqrt(eps) * abs(out[j]) * (1 if j < 3 and g in ('SE3', 'Sim3') else 0)]
        if bad:
            worst.append('Log(Inv X) != -Log X in components %s: %s vs %s' % (bad, li, out))
    return '; '.join(worst) if worst else None


def roundtrip(pp, torch, g, dname, X, out=None):
    """Exp(Log X) is the same transformation as X (quaternion sign irrelevant): checked on the implementation itself.
    Skipped inside the input class of C01's recorded finding (sim3 Exp with both the log-scale and the angle tiny)."""
    dtype = torch.float64 if dname == 'float64' else torch.float32
    eps = float(torch.finfo(dtype).eps)
    if out is None:
        out = impl_log(pp, torch, g, X, dtype)
    t, q, s = split_elt(g, X)
    if g == 'Sim3':
        sg = abs(math.log(s)) if s > 0 else float('inf')
        th = math.sqrt(sum(a * a for a in out[3:6]))
        if regime(sg, eps) == 'cancel' and th <= math.sqrt(eps) / 16:
            return None
    alg = ALGS[GROUPS.index(g)]
    back = pp.LieTensor(torch.tensor(out, dtype=dtype), ltype=getattr(pp, alg + '_type')).Exp().tensor().tolist()
    if any(not math.isfinite(v) for v in back):
        return 'Exp(Log X) is not finite: %s' % back
    tb, qb, sb = split_elt(g, back)
    qn = math.sqrt(sum(a * a for a in q)) or 1.0
    sgn = 1.0 if sum(a * b for a, b in zip(q, qb)) >= 0 else -1.0
    dq = max(abs(a / qn - sgn * b) for a, b in zip(q, qb))
    bad = []
    if dq > 8 * K_EPS * eps:
        bad.append('rotation quaternion differs by %.3g (beyond sign)' % dq)
    if g in ('RxSO3', 'Sim3') and abs(sb - s) > 8 * K_EPS * eps * abs(s):
        bad.append('scale %.9g instead of %.9g' % (sb, s))
    if g in ('SE3', 'Sim3'):
        tn = max(max(abs(a) for a in t), 1e-300)
        dt = max(abs(a - b) for a, b in zip(t, tb))
        if dt > 8 * K_SQRT * math.sqrt(eps) * tn:
            bad.append('translation differs by %.3g (|t| = %.3g)' % (dt, tn))
    return ('Exp(Log X) is not X: ' + '; '.join(bad)) if bad else None


def key_of(g, dname, X, eps):
    t, q, s = split_elt(g, X)
    vn = math.sqrt(sum(a * a for a in q[:3]))
    sg = abs(math.log(s)) if s > 0 else float('inf')
    if g == 'Sim3' and regime(sg, eps) == 'cancel':
        return 'log-accuracy:Sim3:%s:rxso3_Ws:eps<|sigma|<=sqrt(eps)/16' % dname
    reg = 'identity' if vn <= eps else ('angle-pi' if abs(q[3]) <= eps else 'generic')
    return 'log-accuracy:%s:%s:%s:sigma=%s' % (g, dname, reg, regime(sg, eps))


def run(ctx):
    pp = import_pypose()
    import torch
    ctx.rule = RULE
    rng = ctx.rng
    plan = []
    counts = {'SO3': ctx.scale(300, 6000), 'SE3': ctx.scale(300, 6000), 'RxSO3': ctx.scale(200, 4000), 'Sim3': ctx.scale(400, 8000)}
    for g in GROUPS:
        k = 0
        for kind in ANG:
            k += 1
            for dname in ('float64', 'float32'):
                plan.append((g, dname, kind))
        for _ in range(counts[g]):
            plan.append((g, 'float64' if rng.random() < 0.7 else 'float32', rng.choice(ANG)))
    cases, meta = [], []
    ncase = 0
    for (g, dname, kind) in plan:
        dtype = torch.float64 if dname == 'float64' else torch.float32
        eps = float(torch.finfo(dtype).eps)
        ncase += 1
        # scale exactly 1 (log-scale 0: the |sigma| <= eps regimes of rxso3_Ws) for every second directed Sim3 / RxSO3 case
        X = gen_X(rng, g, eps, kind, torch, dtype, unit_scale=(g in ('Sim3', 'RxSO3') and ncase % 2 == 0))
        try:
            out = impl_log(pp, torch, g, X, dtype)
        except Exception as e:
            ctx.violation('log-raises:%s' % g, 'Log raised %r' % (e,), dict(g=g, dtype=dname, X=X))
            continue
        if any(not math.isfinite(v) for v in out):
            ctx.violation(key_of(g, dname, X, eps), 'Log returned a non-finite value %s for X=%s' % (out, X), dict(g=g, dtype=dname, X=X))
            continue
        i = len(meta)
        t, q, s = split_elt(g, X)
        vn = math.sqrt(sum(a * a for a in q[:3]))
        br = '%s:%s:%s' % (g, dname, 'regime3' if vn <= eps else ('regime2' if abs(q[3]) <= eps else ('regime1-w<0' if q[3] < 0 else 'regime1')))
        ctx.case((g, dname, tuple(X)), nontrivial=(vn != 0), branch=br, sample=dict(g=g, dtype=dname, X=X, impl=out) if i % 157 == 5 else None)
        meta.append(dict(g=g, dtype=dname, X=X, impl=out, kind=kind))
        why = roundtrip(pp, torch, g, dname, X, out)
        if why:
            ctx.violation('exp-log-roundtrip:%s:%s' % (g, dname), '%s [%s %s] X=%s' % (why, g, dname, X), dict(g=g, dtype=dname, X=X, roundtrip=True))
        epsl = 'E64' if dname == 'float64' else 'E32'
        cases.append(dict(idx=i, expr='log_l (NF:=@NF@) (TF:=TransIv) %s %d %s' % (epsl, GID[g], ivlist(X)), comps=[(j, out[j], tol) for j, tol in tolerances(g, out, eps)]))
    r = run_interval('C02', 'Model.LieGroup Model.LieExp Model.LieLog', cases)
    for name, out in r['broken']:
        ctx.obligation_broken('correspondence-file:' + name, out)
    ctx.notes.append('enclosure: %d proved within tolerance, %d proved outside, %d undecided' % (len(r['ok']), len(set(i for i, _ in r['bad'])), len(r['undecided'])))
    ctx.hist['undecided'] = len(r['undecided'])
    if len(r['undecided']) > max(5, len(cases) // 20):
        ctx.obligation_broken('enclosure-undecided', '%d of %d cases undecided, e.g. %s' % (len(r['undecided']), len(cases), [meta[i] for i in r['undecided'][:3]]))
    for i in sorted(set(i for i, _ in r['bad'])):
        m = meta[i]
        mm = dict(family='log:' + m['g'], case=dict(m, components=[c for j, c in r['bad'] if j == i]), detail='')
        ctx.mismatches.append(mm)
        why = confirm(pp, torch, m['g'], m['dtype'], m['X'])
        if why:
            mm['explained'] = True
            eps = 2.0 ** -52 if m['dtype'] == 'float64' else 2.0 ** -23
            ctx.violation(key_of(m['g'], m['dtype'], m['X'], eps), 'Log(%s) [%s %s]: %s' % (m['X'], m['g'], m['dtype'], why), dict(g=m['g'], dtype=m['dtype'], X=m['X']))
    for key in ctx.known:
        if key in ctx.known_hit:
            continue
        w = KNOWN_WITNESS.get(key)
        if w and confirm(pp, torch, *w):
            ctx.known_hit[key] = 'witness still fails'
    ctx.traces = len(r['ok'])


KNOWN_WITNESS = {}


def replay(ctx, c):
    pp = import_pypose()
    import torch
    if c.get('roundtrip'):
        return roundtrip(pp, torch, c['g'], c['dtype'], c['X'])
    return confirm(pp, torch, c['g'], c['dtype'], c['X'])
