"""C12 correspondence: pypose cumops/cumprod/cummul (and in-place variants) vs Model/Cumops.v.

Plain tensors carry the free 'segment' monoid (item = interval [first,last], a o b defined only for
adjacent intervals, anything else poisons) so that any wrong index schedule, wrong order or
dropped item is visible exactly.  LieTensor variants use exactly representable group elements
(quaternion group Q8, integer translations, power-of-two scales).
"""
import itertools
from ..common import *

RULE = ('plain tensors: every L in the tier range (exhaustive for the index schedule), segment-monoid '
        'items; a case is non-trivial when L >= 2; distinct = distinct (variant, shape, dim, order); '
        'LieTensor cases: Q8 x integer translations x power-of-two scales, distinct (type, L, order)')


def seg_ops(torch, order='right'):
    """ops(a, b) on tensors whose last dimension is (first, last); poison = (-1, -1)"""
    def right(a, b):
        ok = (a[..., 1] + 1 == b[..., 0]) & (a[..., 0] >= 0) & (b[..., 0] >= 0)
        out = torch.stack([a[..., 0], b[..., 1]], -1)
        return torch.where(ok.unsqueeze(-1), out, torch.full_like(out, -1))
    if order == 'right':
        return right
    return lambda a, b: right(b, a)


def seg_tensor(torch, shape, dim, left=False):
    """tensor of shape `shape`+(2,): along `dim` items are [base+i, base+i]; base differs per fibre"""
    import math
    L = shape[dim]
    other = [s for k, s in enumerate(shape) if k != dim]
    nf = int(math.prod(other)) if other else 1
    base = ((torch.arange(nf, dtype=torch.int64) + 1) * 100000).reshape(other) if other else torch.full((), 100000, dtype=torch.int64)
    base = base.unsqueeze(dim).expand(shape)
    idx = torch.arange(L, dtype=torch.int64).reshape([L if k == dim else 1 for k in range(len(shape))]).expand(shape)
    v = base - idx if left else base + idx
    return torch.stack([v, v], -1).contiguous(), base


class ShapeError(Exception):
    pass


def relayout(torch, x, layout):
    """the same values and shape as x in another memory layout: 'T' = non-contiguous (permuted) view of a contiguous
    buffer, 'S' = every second element of a larger buffer along the pair axis' neighbour; 'C' = contiguous"""
    if layout == 'T' and x.dim() >= 3:
        perm = list(range(x.dim() - 1))
        perm = perm[1:] + perm[:1] + [x.dim() - 1]
        inv = [perm.index(k) for k in range(x.dim())]
        return x.permute(perm).contiguous().permute(inv)
    if layout == 'S' and x.dim() >= 2 and x.shape[0] > 0:
        buf = torch.full((2 * x.shape[0],) + tuple(x.shape[1:]), -7, dtype=x.dtype)
        buf[::2] = x
        return buf[::2]
    return x.clone()


def deviations(t, base, dim, left=False):
    """per fibre: list of (i, first, last) where the output differs from [base, base+i]"""
    import torch
    if tuple(t.shape) != tuple(base.shape) + (2,):
        raise ShapeError('result has shape %s, expected %s' % (tuple(t.shape), tuple(base.shape) + (2,)))
    L = t.shape[dim]
    idx = torch.arange(L, dtype=torch.int64).reshape([L if k == dim else 1 for k in range(t.dim() - 1)]).expand(t.shape[:-1])
    if left:
        bad = (t[..., 0] != base - idx) | (t[..., 1] != base)
    else:
        bad = (t[..., 0] != base) | (t[..., 1] != base + idx)
    tm = t.movedim(dim, -2).reshape(-1, L, 2)
    bm = bad.movedim(dim, -1).reshape(-1, L)
    bb = base.movedim(dim, -1).reshape(-1, L)[:, 0] if L > 0 else []
    res = []
    for f in range(tm.shape[0]):
        d = [(int(i), int(tm[f, i, 0]), int(tm[f, i, 1])) for i in torch.nonzero(bm[f]).flatten().tolist()]
        res.append((int(bb[f]), d))
    return res


def seqfold(items, op):
    out, acc = [], None
    for x in items:
        acc = x if acc is None else op(acc, x)
        out.append(acc)
    return out


def devlit(d):
    if d is None:
        return 'None'
    return 'Some ' + coq_list('(%d, (%d, %d))%%Z' % t for t in d)


def run(ctx):
    pp = import_pypose()
    import torch
    ctx.rule = RULE
    rng = ctx.rng
    maxL = 4096
    # ---------------------------------------------------------------- (1) every L, 1-d, cumops
    impl_fail = {}   # L -> deviation list / None
    for L in range(1, maxL + 1):
        x, base = seg_tensor(torch, (L,), 0)
        x0 = x.clone()
        try:
            y = pp.cumops(x, 0, seg_ops(torch))
            d = deviations(y, base, 0)[0][1]
            if not torch.equal(x, x0):
                ctx.violation('cumops-mutates-input', 'pp.cumops changed its input', dict(kind='plain', L=L, shape=[L], dim=0, variant='cumops', order='right'))
        except Exception as e:  # noqa
            d = None
        ctx.case(('plain1d', L), nontrivial=L >= 2, branch='plain-1d')
        if d != []:
            impl_fail[L] = d
    ctx.samples.append(dict(kind='plain-1d', L=37, input='[[0,0],[1,1],...,[36,36]]', op='segment monoid',
                            impl_deviations_from_fold=impl_fail.get(37, [])))
    nsh = 16
    per = maxL // nsh
    files = []
    for k in range(nsh):
        lo = 1 + k * per
        exc = [L for L in impl_fail if lo <= L < lo + per]
        body = 'From PV Require Import Model.Cumops.\nFrom Coq Require Import List ZArith. Import ListNotations.\n'
        body += 'Eval vm_compute in seg_bad_range %d %d %s.\n' % (lo, per, coq_list('%d%%nat' % e for e in exc))
        # the excepted lengths are compared in full
        cases = ['(%d%%nat, false, 100000%%Z, %d%%nat, %s)' % (L, L, devlit(impl_fail[L])) for L in exc]
        body += 'Eval vm_compute in seg_bad %s.\n' % coq_list(cases)
        files.append(('range_%02d' % k, body))
    # ---------------------------------------------------------------- (2) ranks <= 4, every dim, variants
    nshape = ctx.scale(60, 600)
    cases = []
    meta = []
    shapes = []
    directed = [(1,), (2,), (3,), (5, 1), (1, 5), (3, 4), (2, 3, 4), (7, 2, 1), (2, 3, 2, 5), (1, 1, 1, 9), (6, 0), (0, 6)]
    for sh in directed:
        shapes.append(sh)
    while len(shapes) < nshape:
        r = rng.randint(1, 4)
        shapes.append(tuple(rng.choice([1, 2, 3, 5, 6, 7, 9, 12, 17, 31, 33]) if rng.random() < 0.8 else rng.randint(1, 70) for _ in range(r)))
    for sh in shapes:
        for dim in range(len(sh)):
            if sh[dim] == 0:
                continue
            for variant in ('cumops', 'cumops_'):
                order = rng.choice(['right', 'left'])
                usedim = dim if rng.random() < 0.5 else dim - len(sh) - 1   # negative dims count from the pair axis
                x, base = seg_tensor(torch, sh, dim, order == 'left')
                layout = rng.choice(['C', 'C', 'T', 'S'])
                x = relayout(torch, x, layout)
                x0 = x.clone()
                try:
                    fn = pp.cumops if variant == 'cumops' else pp.cumops_
                    y = fn(x, usedim, seg_ops(torch, order))
                    devs = deviations(y, base, dim, order == 'left')
                    same_in = torch.equal(x, x0)
                    same_res = torch.equal(x, y)
                except Exception as e:  # noqa
                    devs, same_in, same_res = None, None, None
                ctx.case((variant, sh, dim, order), nontrivial=sh[dim] >= 2, branch='%s-rank%d' % (variant, len(sh)))
                L = sh[dim]
                meta.append(dict(kind='plain', variant=variant, shape=list(sh), dim=usedim, order=order, L=L, layout=layout))
                cases.append((len(meta) - 1, L, devs, same_in, same_res, variant == 'cumops_', order == 'left'))
    body = 'From PV Require Import Model.Cumops.\nFrom Coq Require Import List ZArith Bool. Import ListNotations.\n'
    segcases, memcases = [], []
    for (i, L, devs, same_in, same_res, inplace, left) in cases:
        lf = 'true' if left else 'false'
        if devs is None:
            segcases.append('(%d%%nat, %s, 0%%Z, %d%%nat, None)' % (i, lf, L))
            continue
        # all fibres share the schedule: compare each distinct (deviation pattern) once per case
        seen = set()
        for (b, d) in devs:
            key = (tuple(d),) if d else ()
            if key in seen and not d:
                continue
            seen.add(key)
            segcases.append('(%d%%nat, %s, %d%%Z, %d%%nat, %s)' % (i, lf, b, L, devlit(d)))
        if not devs:
            continue      # tensor without elements: there are no values to compare
        memcases.append('(%d%%nat, %s, %d%%nat, %s, %s)' % (i, 'true' if inplace else 'false', L,
                                                         'true' if same_in else 'false', 'true' if same_res else 'false'))
    body += 'Eval vm_compute in seg_bad %s.\n' % coq_list(segcases)
    body += ('Eval vm_compute in map (fun c => match c with (i,_,_,_,_) => i end) (filter (fun c => match c with (_, ip, L, a, b) => '
             'match mem_flags ip L with Some (x, y) => negb (eqb x a && eqb y b) | None => true end end) %s).\n' % coq_list(memcases))
    files.append(('shapes', body))
    if len(ctx.samples) < 6 and meta:
        ctx.samples.append(dict(meta[min(len(meta) - 1, 17)], note='items along dim are [base+i,base+i]; other dims index independent fibres'))
    # ---------------------------------------------------------------- (3) LieTensor variants (exact group elements)
    lie_meta, lie_body = lie_cases(ctx, pp, torch)
    if lie_body:
        files.append(('lie', lie_body))
    # ---------------------------------------------------------------- run Coq, collect
    res = run_case_files('C12', files, timeout=1200)
    for name, (rc, out) in sorted(res.items()):
        ev = parse_evals(out)
        nexp = 2 if name != 'lie' else 1
        if rc != 0 or len(ev) != nexp:
            ctx.obligation_broken('correspondence-file:' + name, out[-1500:])
            continue
        if name.startswith('range_'):
            for L in parse_nat_list(ev[0]) + parse_nat_list(ev[1]):
                ctx.mismatch('plain-1d', dict(kind='plain', variant='cumops', shape=[L], dim=0, order='right', L=L))
        elif name == 'shapes':
            for i in sorted(set(parse_nat_list(ev[0]) + parse_nat_list(ev[1]))):
                ctx.mismatch('plain-shapes', meta[i])
        else:
            for i in parse_nat_list(ev[0]):
                ctx.mismatch('lie', lie_meta[i])
    ctx.traces = ctx.evaluations
    ctx.exhaustive = True
    ctx.notes.append('L = 1..%d all executed on implementation and model (16 Coq shards)' % maxL)
    # ---------------------------------------------------------------- search on mismatches
    for m in ctx.mismatches[:50]:
        c = m['case']
        bad = replay(ctx, c)
        if bad:
            m['explained'] = True
            ctx.violation('cumops-differs-from-fold', 'result differs from the sequential fold (or the call raises): %s' % bad, c)
        else:
            # look around: neighbouring lengths
            for L2 in sorted({max(1, c['L'] + d) for d in (-2, -1, 1, 2, 3)}):
                c2 = dict(c, L=L2, shape=[L2] if c['kind'] == 'plain' else c.get('shape'))
                if c['kind'] == 'plain':
                    c2['dim'] = 0
                b2 = replay(ctx, c2)
                if b2:
                    m['explained'] = True
                    ctx.violation('cumops-differs-from-fold', 'result differs from the sequential fold: %s' % b2, c2)
                    break


# ------------------------------------------------------------------------------------------------
Q8 = [(0, 0, 0, 1), (1, 0, 0, 0), (0, 1, 0, 0), (0, 0, 1, 0), (0, 0, 0, -1), (-1, 0, 0, 0), (0, -1, 0, 0), (0, 0, -1, 0)]


def lie_items(rng, ltype, n):
    items = []
    for idx in range(n):
        q = list(rng.choice(Q8))
        if n >= 2 and idx < 2:
            q = list([(1, 0, 0, 0), (0, 1, 0, 0)][idx])  # i and j do not commute: the order is observable
        t = [rng.randint(-3, 3) for _ in range(3)]
        s = [rng.choice([0.5, 1.0, 2.0])]
        if ltype == 'SO3':
            items.append(q)
        elif ltype == 'SE3':
            items.append(t + q)
        elif ltype == 'RxSO3':
            items.append(q + s)
        else:
            items.append(t + q + s)
    return items


def lie_cases(ctx, pp, torch):
    import os
    if not os.path.exists(os.path.join(COQ, 'Model', 'LieGroup.v')):
        ctx.notes.append('LieTensor variants skipped: Model/LieGroup.v absent')
        return [], ''
    rng = ctx.rng
    meta, cs = [], []
    directed = list(itertools.product(['SO3', 'SE3', 'RxSO3', 'Sim3'], ['function', 'method', 'method-positional'],
                                      ['cumprod', 'cummul', 'cumprod_', 'cummul_'], [True, False]))
    n = len(directed) + ctx.scale(24, 600)
    for k in range(n):
        if k < len(directed):
            lt, form, fn, left = directed[k]
            L = [2, 3, 5, 6, 7, 11][k % 6]
        else:
            lt = rng.choice(['SO3', 'SE3', 'RxSO3', 'Sim3'])
            form = rng.choice(['function', 'method', 'method-positional'])
            fn = rng.choice(['cumprod', 'cummul', 'cumprod_', 'cummul_'])
            left = rng.random() < 0.5
            L = rng.choice([1, 2, 3, 4, 5, 6, 7, 9, 10, 13])
        items = lie_items(rng, lt, L)
        x = pp.LieTensor(torch.tensor(items, dtype=torch.float64), ltype=getattr(pp, lt + '_type'))
        x0 = x.tensor().clone()
        try:
            if form == 'function':
                y = getattr(pp, fn)(x, 0, left=left)
            elif form == 'method':
                y = getattr(x, fn)(dim=0, left=left)
            else:
                y = getattr(x, fn)(0, left)
            out = [[Fraction(v) for v in row] for row in y.tensor().tolist()]
            if fn.endswith('_') and not torch.equal(x.tensor(), y.tensor()):
                ctx.violation('cum-inplace-not-overwritten', '%s (%s form) did not overwrite its input with the result' % (fn, form), dict(kind='lie', ltype=lt, L=L, left=left, fn=fn, form=form, items=items))
            if not fn.endswith('_') and not torch.equal(x.tensor(), x0):
                ctx.violation('cum-mutates-input', '%s (%s form) changed its input' % (fn, form), dict(kind='lie', ltype=lt, L=L, left=left, fn=fn, form=form, items=items))
        except Exception:
            out = None
        ctx.case(('lie', lt, L, left, fn, tuple(map(tuple, items))), nontrivial=L >= 2, branch='lie-' + lt)
        meta.append(dict(kind='lie', ltype=lt, L=L, left=left, fn=fn, form=form, items=items))
        gid = {'SO3': 0, 'SE3': 1, 'RxSO3': 2, 'Sim3': 3}[lt]
        lit_in = coq_list(qlist(r) for r in items)
        lit_out = 'None' if out is None else 'Some ' + coq_list(qlist(r) for r in out)
        cs.append('(%d%%nat, %d%%nat, %s, %s, %s)' % (len(meta) - 1, gid, 'true' if left else 'false', lit_in, lit_out))
    if meta and len(ctx.samples) < 6:
        ctx.samples.append(meta[9] if len(meta) > 9 else meta[0])
    body = ('From PV Require Import Base.Num Model.Cumops Model.LieGroup Model.CumLie.\nFrom Coq Require Import List ZArith QArith Bool. Import ListNotations.\n'
            'Eval vm_compute in lie_cum_bad %s.\n' % coq_list(cs))
    return meta, body


def replay(ctx, c):
    """run one case on the implementation against the sequential fold; returns a description of the
    failure or None"""
    pp = import_pypose()
    import torch
    if c['kind'] == 'plain':
        sh = tuple(c['shape'])
        dim = c['dim']
        pdim = dim if dim >= 0 else dim + len(sh) + 1
        left = c.get('order', 'right') == 'left'
        x, base = seg_tensor(torch, sh, pdim, left)
        fn = getattr(pp, c.get('variant', 'cumops'))
        xin = relayout(torch, x, c.get('layout', 'C'))
        x0 = xin.clone()
        try:
            y = fn(xin, dim, seg_ops(torch, c.get('order', 'right')))
        except Exception as e:
            return 'raises %s: %s' % (type(e).__name__, str(e)[:200])
        try:
            devs = deviations(y, base, pdim, left)
        except ShapeError as e:
            return str(e)
        bad = [(b, d[:3]) for b, d in devs if d]
        if bad:
            return 'positions differing from the fold (fibre base, [(i, first, last)]): %s' % bad[:2]
        lay = {'C': 'contiguous', 'T': 'non-contiguous (permuted view)', 'S': 'strided slice of a larger buffer'}[c.get('layout', 'C')]
        if c.get('variant', 'cumops').endswith('_') and y.numel() and not torch.equal(xin, y):
            return 'the in-place variant returned the fold but did not overwrite its %s input with it' % lay
        if not c.get('variant', 'cumops').endswith('_') and not torch.equal(xin, x0):
            return 'the out-of-place variant changed its %s input' % lay
        return None
    else:
        lt, left = c['ltype'], c['left']
        x = pp.LieTensor(torch.tensor(c['items'], dtype=torch.float64), ltype=getattr(pp, lt + '_type'))
        try:
            form = c.get('form', 'function')
            xc = x.clone()
            if form == 'function':
                y = getattr(pp, c['fn'])(xc, 0, left=left)
            elif form == 'method':
                y = getattr(xc, c['fn'])(dim=0, left=left)
            else:
                y = getattr(xc, c['fn'])(0, left)
        except Exception as e:
            return 'raises %s: %s' % (type(e).__name__, str(e)[:200])
        acc, exp = None, []
        for i in range(len(c['items'])):
            xi = x[i]
            acc = xi if acc is None else ((xi @ acc) if left else (acc @ xi))
            exp.append(acc.tensor())
        exp = torch.stack(exp)
        if not torch.equal(exp, y.tensor()):
            return 'LieTensor %s(left=%s) differs from the sequential product' % (c['fn'], left)
        return None
