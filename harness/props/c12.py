"""C12 correspondence: pypose cumops/cumprod/cummul (and in-place variants) vs Model/Cumops.v.

Plain tensors carry the free 'segment' monoid (item = interval [first,last], a o b defined only for
adjacent intervals, anything else poisons) so that any wrong index schedule, wrong order or
dropped item is visible exactly.  LieTensor variants use exactly representable group elements
(quaternion group Q8, integer translations, power-of-two scales).

Every judged call is embedded in a short history on its objects (the clause 'the out-of-place variants leave
the input untouched and the in-place ones overwrite it'): the result of an out-of-place call is scanned again in
place / written to and the input must keep its values (and the other way round), the input is modified in place
and the call repeated, in-place calls on views must leave the rest of the buffer alone.  Every dimension is
addressed by its non-negative and by its negative index, through every public call form.

The statement holds 'for every input': every family of cases is also run in every autograd state a caller can
be in (AGS below: leaf / non-leaf inputs that require grad with grad mode on, torch.no_grad(), torch.inference_mode();
float64 instead of int64 items), every length L in each of them, judged by the same oracle and tied to the same model.

'For any associative operation': the operation of cumops is a callback of the caller, who owns the tensors it is handed and
the tensor it returns.  Block (5) runs six associative operations, each written in every style such a callback can have
(new tensor; accumulating in place into either operand and returning it; returning an operand / a view of it; overwriting the
operands after use; one recycled result buffer; the product computed through the cumulative-product API itself; an unrelated
scan run inside the callback), and two scans whose passes alternate (two threads in lockstep); the LieTensor family has
cumops callbacks that re-enter cumprod / cummul / cumops / the in-place methods.  Judged by exact sequential folds.
"""
import os
import itertools
from ..common import *

RULE = ('plain tensors: every L in the tier range (exhaustive for the index schedule), segment-monoid '
        'items; a case is non-trivial when L >= 2; distinct = distinct (variant, shape, dim, order); '
        'LieTensor cases: Q8 x integer translations x power-of-two scales on batch shapes of rank 1..3, every batch '
        'dim by its non-negative and negative index, distinct (type, batch shape, dim, order, call, items); '
        'each case is a history: call, then in-place scan of / writes to the result, then the call repeated on the modified input; '
        'every family in every autograd state (no grad / leaf / non-leaf requiring grad / no_grad / inference_mode), every L in each state; '
        'callback cases: six associative operations (affine maps, rectangular / left-zero / right-zero band, 2x2 integer matrices, element-wise '
        'product) x ten ways of writing the callback (new tensor / in place into either operand / operand views / operands overwritten / recycled '
        'buffer / product through a nested cumops, cumops_, cumprod, cummul / unrelated scan inside) x cumops, cumops_ x both orders, distinct '
        '(operation, style, variant, order, shape, dim, state, items); two scans alternating pass by pass in two threads')


def seg_ops(torch, order='right'):
    """ops(a, b) on tensors whose last dimension is (first, last); poison = (-1, -1)"""
    def right(a, b):
        ok = (a[..., 1] + 1 == b[..., 0]) & (a[..., 0] >= 0) & (b[..., 0] >= 0)
        out = torch.stack([a[..., 0], b[..., 1]], -1)
        return torch.where(ok.unsqueeze(-1), out, torch.full_like(out, -1))
    if order == 'right':
        return right
    return lambda a, b: right(b, a)


def seg_tensor(torch, shape, dim, left=False):
    """tensor of shape `shape`+(2,): along `dim` items are [base+i, base+i]; base differs per fibre"""
    import math
    L = shape[dim]
    other = [s for k, s in enumerate(shape) if k != dim]
    nf = int(math.prod(other)) if other else 1
    base = ((torch.arange(nf, dtype=torch.int64) + 1) * 100000).reshape(other) if other else torch.full((), 100000, dtype=torch.int64)
    base = base.unsqueeze(dim).expand(shape)
    idx = torch.arange(L, dtype=torch.int64).reshape([L if k == dim else 1 for k in range(len(shape))]).expand(shape)
    v = base - idx if left else base + idx
    return torch.stack([v, v], -1).contiguous(), base


class ShapeError(Exception):
    pass


def relayout(torch, x, layout):
    """the same values and shape as x in another memory layout.  Returns (view, buffer, viewfn) with
    view = viewfn(buffer).  'C' = contiguous, 'T' = non-contiguous (permuted) view of a contiguous buffer,
    'S' = every second element of a larger buffer, 'P' = the interior of a buffer padded by one element on
    both sides of every dimension but the last (storage offset, every stride non-contiguous)"""
    if layout == 'T' and x.dim() >= 3:
        perm = list(range(x.dim() - 1))
        perm = perm[1:] + perm[:1] + [x.dim() - 1]
        inv = [perm.index(k) for k in range(x.dim())]
        buf = x.permute(perm).contiguous()
        vf = lambda b: b.permute(inv)
        return vf(buf), buf, vf
    if layout == 'S' and x.dim() >= 2 and x.shape[0] > 0:
        buf = torch.full((2 * x.shape[0],) + tuple(x.shape[1:]), -7, dtype=x.dtype)
        buf[::2] = x
        vf = lambda b: b[::2]
        return vf(buf), buf, vf
    if layout == 'P' and x.dim() >= 2:
        buf = torch.full(tuple(s + 2 for s in x.shape[:-1]) + (x.shape[-1],), -7, dtype=x.dtype)
        sl = tuple(slice(1, s + 1) for s in x.shape[:-1])
        buf[sl] = x
        vf = lambda b: b[sl]
        return vf(buf), buf, vf
    buf = x.clone()
    vf = lambda b: b
    return buf, buf, vf


def outside(buf, vf):
    """the part of the buffer that does not belong to the view (the view zeroed)"""
    a = buf.clone()
    vf(a).zero_()
    return a


LAYOUTS = {'C': 'contiguous', 'T': 'non-contiguous (permuted view)', 'S': 'strided slice of a larger buffer',
           'P': 'interior view of a padded buffer', 'E': 'expanded (stride 0) along a non-scan dimension'}


# autograd states of a call: the property is stated for every input, whatever graph it belongs to and whatever the
# ambient grad mode is
AGS = {'off': None,
       'leaf': 'x is a leaf with requires_grad=True, grad mode on',
       'nonleaf': 'x is a non-leaf result (requires grad) of a graph, grad mode on',
       'nograd': 'x requires grad, call inside torch.no_grad()',
       'inference': 'x created and call made inside torch.inference_mode()'}
AG_OUT = ['off', 'leaf', 'nonleaf', 'nograd', 'inference']
AG_IN = ['off', 'nonleaf', 'nograd', 'inference']     # torch itself refuses in-place writes to a leaf that requires grad


def ag_context(torch, ag):
    if ag == 'nograd':
        return torch.no_grad()
    if ag == 'inference':
        return torch.inference_mode()
    return torch.enable_grad()


def ag_buffer(torch, buf, ag):
    """the (fresh, floating point) buffer put into the autograd state `ag`; call inside ag_context"""
    if ag in ('leaf', 'nograd'):
        return buf.requires_grad_(True)
    if ag == 'nonleaf':
        return buf.requires_grad_(True).clone()
    return buf


def ag_text(ag):
    return ' [%s]' % AGS[ag] if AGS.get(ag) else ''


def deviations(t, base, dim, left=False):
    """per fibre: list of (i, first, last) where the output differs from [base, base+i]"""
    import torch
    if tuple(t.shape) != tuple(base.shape) + (2,):
        raise ShapeError('result has shape %s, expected %s' % (tuple(t.shape), tuple(base.shape) + (2,)))
    L = t.shape[dim]
    idx = torch.arange(L, dtype=torch.int64).reshape([L if k == dim else 1 for k in range(t.dim() - 1)]).expand(t.shape[:-1])
    if left:
        bad = (t[..., 0] != base - idx) | (t[..., 1] != base)
    else:
        bad = (t[..., 0] != base) | (t[..., 1] != base + idx)
    tm = t.movedim(dim, -2).reshape(-1, L, 2)
    bm = bad.movedim(dim, -1).reshape(-1, L)
    bb = base.movedim(dim, -1).reshape(-1, L)[:, 0] if L > 0 else []
    res = []
    for f in range(tm.shape[0]):
        d = [(int(i), int(tm[f, i, 0]), int(tm[f, i, 1])) for i in torch.nonzero(bm[f]).flatten().tolist()]
        res.append((int(bb[f]), d))
    return res


def devlit(d):
    if d is None:
        return 'None'
    return 'Some ' + coq_list('(%d, (%d, %d))%%Z' % t for t in d)


KEY_FOLD = 'cumops-differs-from-fold'
KEY_ALIAS = 'cum-result-aliases-input'
KEY_MUT = 'cum-mutates-input'
KEY_INPL = 'cum-inplace-not-overwritten'
KEY_HIST = 'cum-depends-on-history'
KEY_CB = 'cumops-depends-on-callback-style'
KEY_REENT = 'cumops-not-reentrant'


def plain_exec(pp, torch, c, history=True):
    """plain_exec_ with every unexpected exception of a history step (e.g. a write to a result that turns out to be
    an expanded view of the input) turned into a reported failure of that input"""
    res = dict(devs=None, same_in=None, same_res=None, fail=None)
    try:
        with ag_context(torch, c.get('ag', 'off')):
            return plain_exec_(pp, torch, c, history, res)
    except Exception as e:
        res['fail'] = res['fail'] or (KEY_HIST, 'a step of the history around %s(x, %d, ops)%s on a %s tensor raises %s: %s'
                                      % (c.get('variant', 'cumops'), c['dim'], ag_text(c.get('ag', 'off')), LAYOUTS[c.get('layout', 'C')],
                                         type(e).__name__, str(e)[:200]))
        return res


def plain_exec_(pp, torch, c, history, res):
    """one plain-tensor case (segment monoid) on the implementation, judged by the property's own statement.
    Returns dict(devs, same_in, same_res) for the tie and fail = (key, text) | None"""
    sh = tuple(c['shape'])
    r = len(sh)
    dim = c['dim']
    pdim = dim if dim >= 0 else dim + r + 1          # negative dims count from the pair axis
    order = c.get('order', 'right')
    left = order == 'left'
    variant = c.get('variant', 'cumops')
    inplace = variant.endswith('_')
    layout = c.get('layout', 'C')
    ag = c.get('ag', 'off')
    ops = seg_ops(torch, order)
    if layout == 'E':
        e = c['edim']
        sh1 = tuple(1 if k == e else s for k, s in enumerate(sh))
        x, b1 = seg_tensor(torch, sh1, pdim, left)
        base = b1.expand(sh)
        vf = lambda b: b.expand(sh + (2,))
    else:
        x, base = seg_tensor(torch, sh, pdim, left)
    if ag != 'off':
        x = x.double()                    # the segment ends stay far below 2^53: still exact
    if layout == 'E':
        buf = x
    else:
        _, buf, vf = relayout(torch, x, layout)
    buf = ag_buffer(torch, buf, ag)
    xg = vf(buf)                               # the input in its autograd state
    xin, buf = xg.detach(), buf.detach()       # the same memory, for the writes of the history and the comparisons
    lay = LAYOUTS[layout] + ag_text(ag)
    x0 = xin.clone()
    buf0 = buf.clone()
    fn = getattr(pp, variant)
    call = '%s(x, %d, ops)%s' % (variant, dim, ag_text(ag))
    try:
        yg = fn(xg, dim, ops)
    except Exception as e:
        res['fail'] = (KEY_FOLD, '%s raises %s: %s' % (call, type(e).__name__, str(e)[:200]))
        return res
    if not torch.is_tensor(yg):
        res['fail'] = (KEY_FOLD, '%s returns a %s' % (call, type(yg).__name__))
        return res
    y = yg.detach()
    try:
        devs = deviations(y, base, pdim, left)
    except ShapeError as e:
        res['fail'] = (KEY_FOLD, '%s: %s' % (call, e))
        return res
    res.update(devs=devs, same_in=torch.equal(xin, x0), same_res=torch.equal(xin, y))
    bad = [(b, d[:3]) for b, d in devs if d]
    if bad:
        res['fail'] = (KEY_FOLD, '%s: positions differing from the fold (fibre base, [(i, first, last)]): %s' % (call, bad[:2]))
        return res
    if not y.numel():
        return res
    if inplace:
        if not torch.equal(xin, y):
            res['fail'] = (KEY_INPL, 'the in-place variant returned the fold but did not overwrite its %s input with it' % lay)
        elif not torch.equal(outside(buf, vf), outside(buf0, vf)):
            res['fail'] = (KEY_MUT, 'the in-place variant on a view (%s) wrote outside the view' % lay)
        return res
    if not torch.equal(xin, x0) or not torch.equal(buf, buf0):
        res['fail'] = (KEY_MUT, 'the out-of-place variant changed its %s input' % lay)
        return res
    # ---- histories on the two objects
    ysave = y.clone()
    try:
        yg.copy_(ysave)                   # a fresh tensor can be written to
    except RuntimeError as e:
        res['fail'] = (KEY_ALIAS, 'y = %s on a %s input: y cannot be written to (%s): the result is not a fresh tensor' % (call, lay, str(e)[:120]))
        return res
    # (a) the same input, addressed by the other index of the same dimension
    odim = pdim - r - 1 if dim >= 0 else pdim
    try:
        y2 = fn(xg, odim, ops).detach()
        if tuple(y2.shape) != tuple(ysave.shape) or not torch.equal(y2, ysave):
            res['fail'] = (KEY_FOLD, 'dim=%d and dim=%d name the same dimension of a rank-%d tensor but %s gives different results'
                           % (dim, odim, r + 1, variant))
            return res
    except Exception as e:
        res['fail'] = (KEY_FOLD, '%s(x, %d, ops) raises %s: %s (dim=%d works)' % (variant, odim, type(e).__name__, str(e)[:160], dim))
        return res
    if not torch.equal(xin, x0):
        res['fail'] = (KEY_MUT, 'the second out-of-place call changed its %s input' % lay)
        return res
    # (b) writing to the input afterwards must not reach the result
    if layout != 'E':
        xin.add_(3)
        if not torch.equal(y, ysave):
            res['fail'] = (KEY_ALIAS, 'y = %s; x.add_(3) changed y: the result shares memory with the input' % call)
            return res
        xin.copy_(x0)
    if not history:
        y.fill_(-5)
        if not torch.equal(xin, x0):
            res['fail'] = (KEY_ALIAS, 'y = %s; y.fill_(-5) changed x: the result shares memory with the input' % call)
        return res
    # (c) the result is scanned in place (along every dimension in turn): the input keeps its values and the
    #     result is what the same call gives on a fresh copy
    for d2 in sorted({pdim, (pdim + 1) % r}):
        if sh[d2] == 0:
            continue
        fresh = ysave.clone()
        try:
            pp.cumops_(fresh, d2, ops)
            pp.cumops_(yg, d2, ops)
        except Exception as e:
            res['fail'] = (KEY_FOLD, 'y = %s; cumops_(y, %d, ops) raises %s: %s' % (call, d2, type(e).__name__, str(e)[:160]))
            return res
        if not torch.equal(xin, x0):
            res['fail'] = (KEY_ALIAS, 'y = %s; cumops_(y, %d, ops) overwrote x: the result of the out-of-place call is (a view of) its input' % (call, d2))
            return res
        if not torch.equal(y, fresh):
            res['fail'] = (KEY_HIST, 'y = %s; cumops_(y, %d, ops) differs from cumops_ on a fresh copy of y' % (call, d2))
            return res
        y.copy_(ysave)
    y.fill_(-5)
    if not torch.equal(xin, x0):
        res['fail'] = (KEY_ALIAS, 'y = %s; y.fill_(-5) changed x: the result shares memory with the input' % call)
        return res
    # (d) the input is modified in place (items reversed) and the call repeated on the same object with the
    #     other order: position i must hold the ordered product of the new first i items
    if layout != 'E':
        L = sh[pdim]
        xin.copy_(x0.flip(pdim))
        oorder = 'left' if order == 'right' else 'right'
        base3 = base - (L - 1) if left else base + (L - 1)
        what = '%s; x.copy_(x.flip(%d)); %s(x, %d, ops of the %s order)' % (call, pdim, variant, dim, oorder)
        try:
            y3 = fn(xg, dim, seg_ops(torch, oorder)).detach()
            bad = [(b, d[:3]) for b, d in deviations(y3, base3, pdim, not left) if d]
        except Exception as e:
            res['fail'] = (KEY_HIST, '%s raises %s: %s' % (what, type(e).__name__, str(e)[:160]))
            return res
        if bad:
            res['fail'] = (KEY_HIST, '%s: the repeated call on the modified input differs from the fold of the new values: %s' % (what, bad[:2]))
            return res
    return res


# ------------------------------------------------------------------------------------------------
Q8 = [(0, 0, 0, 1), (1, 0, 0, 0), (0, 1, 0, 0), (0, 0, 1, 0), (0, 0, 0, -1), (-1, 0, 0, 0), (0, -1, 0, 0), (0, 0, -1, 0)]
GID = {'SO3': 0, 'SE3': 1, 'RxSO3': 2, 'Sim3': 3}
WIDTH = {'SO3': 4, 'SE3': 7, 'RxSO3': 5, 'Sim3': 8}
LIE_FNS = ['cumprod', 'cummul', 'cumops', 'cumprod_', 'cummul_', 'cumops_']
LIE_FORMS = ['function', 'method', 'method-positional', 'function-kw', 'function-positional', 'ltype', 'default', 'method-default']


def lie_items(rng, ltype, n):
    items = []
    for idx in range(n):
        q = list(rng.choice(Q8))
        if n >= 2 and idx < 2:
            q = list([(1, 0, 0, 0), (0, 1, 0, 0)][idx])  # i and j do not commute: the order is observable
        t = [rng.randint(-3, 3) for _ in range(3)]
        s = [rng.choice([0.5, 1.0, 2.0])]
        if idx >= 2 and rng.random() < 0.15:             # the identity element mixed with generic ones
            q, t, s = [0, 0, 0, 1], [0, 0, 0], [1.0]
        if ltype == 'SO3':
            items.append(q)
        elif ltype == 'SE3':
            items.append(t + q)
        elif ltype == 'RxSO3':
            items.append(q + s)
        else:
            items.append(t + q + s)
    return items


def lie_rows(rng, ltype, bshape, k):
    """items for a batch of shape bshape (flat, C order): every fibre along k starts with two non-commuting items"""
    import math
    L = bshape[k]
    inner = int(math.prod(bshape[k + 1:]))
    outer = int(math.prod(bshape[:k]))
    rows = [None] * (outer * L * inner)
    for o in range(outer):
        for j in range(inner):
            for i, it in enumerate(lie_items(rng, ltype, L)):
                rows[(o * L + i) * inner + j] = it
    return rows


def fibres(bshape, k):
    """flat (C order) indices of the fibres of a batch along axis k"""
    import math
    L = bshape[k]
    inner = int(math.prod(bshape[k + 1:]))
    outer = int(math.prod(bshape[:k]))
    return [[(o * L + i) * inner + j for i in range(L)] for o in range(outer) for j in range(inner)]


# exact group products (written from the definitions: unit quaternion (x, y, z, w), translation, scale)
def qmul(a, b):
    ax, ay, az, aw = a
    bx, by, bz, bw = b
    return [aw * bx + ax * bw + ay * bz - az * by,
            aw * by - ax * bz + ay * bw + az * bx,
            aw * bz + ax * by - ay * bx + az * bw,
            aw * bw - ax * bx - ay * by - az * bz]


def cross(u, v):
    return [u[1] * v[2] - u[2] * v[1], u[2] * v[0] - u[0] * v[2], u[0] * v[1] - u[1] * v[0]]


def qrot(q, v):
    u, w = q[:3], q[3]
    c1 = cross(u, v)
    c2 = cross(u, c1)
    return [v[i] + 2 * w * c1[i] + 2 * c2[i] for i in range(3)]


def gmul(lt, a, b):
    """a o b of two items with exact (Fraction) coordinates"""
    if lt == 'SO3':
        return qmul(a, b)
    if lt == 'RxSO3':
        return qmul(a[:4], b[:4]) + [a[4] * b[4]]
    if lt == 'SE3':
        r = qrot(a[3:7], b[:3])
        return [a[i] + r[i] for i in range(3)] + qmul(a[3:7], b[3:7])
    r = qrot(a[3:7], b[:3])
    return [a[i] + a[7] * r[i] for i in range(3)] + qmul(a[3:7], b[3:7]) + [a[7] * b[7]]


def fold_rows(lt, rows, bshape, k, left):
    """ordered products along axis k of a batch given as flat rows (C order): position i holds
    x_i o ... o x_1 (left) or x_1 o ... o x_i (right)"""
    import math
    inner = int(math.prod(bshape[k + 1:]))
    L = bshape[k]
    out = list(rows)
    for f in range(len(rows)):
        if (f // inner) % L > 0:
            prev = out[f - inner]
            out[f] = gmul(lt, rows[f], prev) if left else gmul(lt, prev, rows[f])
    return out


def frows(t, w):
    return [[Fraction(v) for v in row] for row in t.reshape(-1, w).tolist()]


LIE_CBS = ['plain', 'nested-lib', 'nested-cumops', 'nested-method_', 'nested-other']


def lie_call(pp, x, fn, form, dim, left, mulop='@', cb='plain'):
    """the public call forms of the six functions; cb: how the callback of cumops computes its product (LIE_CBS: directly,
    or re-entering the cumulative-product API: as the last item of a 2-term scan / after an unrelated scan)"""
    if fn.startswith('cumops'):
        import torch
        if cb == 'nested-lib':
            mul = lambda a, b: getattr(pp, 'cumprod' if mulop == '@' else 'cummul')(torch.stack([a, b]), 0, left=False)[1]
        elif cb == 'nested-cumops':
            mul = lambda a, b: pp.cumops(torch.stack([b, a]), 0, (lambda p, q: q @ p) if mulop == '@' else (lambda p, q: q * p))[1]
        elif cb == 'nested-method_':
            mul = lambda a, b: getattr(torch.stack([b, a], -2), 'cumprod_' if mulop == '@' else 'cummul_')(-2)[..., 1, :]
        elif cb == 'nested-other':
            def mul(a, b):
                pp.cumprod(pp.LieTensor(a.tensor().detach().flatten(0, -2).flip(0).repeat(3, 1)[:7], ltype=a.ltype), 0)
                return a @ b if mulop == '@' else a * b
        else:
            mul = (lambda a, b: a @ b) if mulop == '@' else (lambda a, b: a * b)
        ops = (lambda a, b: mul(b, a)) if left else mul
        if form == 'method':
            return getattr(x, fn)(dim=dim, ops=ops)
        if form in ('method-positional', 'method-default'):
            return getattr(x, fn)(dim, ops)
        if form == 'function-kw':
            return getattr(pp, fn)(input=x, dim=dim, ops=ops)
        if form == 'ltype':
            return getattr(x.ltype, fn)(x, dim, ops)
        return getattr(pp, fn)(x, dim, ops)
    if form == 'method':
        return getattr(x, fn)(dim=dim, left=left)
    if form == 'method-positional':
        return getattr(x, fn)(dim, left)
    if form == 'function-kw':
        return getattr(pp, fn)(input=x, dim=dim, left=left)
    if form == 'function-positional':
        return getattr(pp, fn)(x, dim, left)
    if form == 'ltype':
        return getattr(x.ltype, fn)(x, dim, left)
    if form == 'default' and left:
        return getattr(pp, fn)(x, dim)
    if form == 'method-default' and left:
        return getattr(x, fn)(dim)
    return getattr(pp, fn)(x, dim, left=left)


def first_diff(got, exp, bshape):
    import numpy as np
    for f, (g, e) in enumerate(zip(got, exp)):
        if g != e:
            return 'batch index %s: got %s, ordered product %s' % (list(map(int, np.unravel_index(f, bshape))), [float(v) for v in g], [float(v) for v in e])
    return None


def lie_exec(pp, torch, c):
    res = dict(calls=[], fail=None)
    try:
        with ag_context(torch, c.get('ag', 'off')):
            lie_exec_(pp, torch, c, res)
    except Exception as e:
        res['fail'] = res['fail'] or (KEY_HIST, 'a step of the history around %s%s.%s(dim=%s)%s raises %s: %s'
                                      % (c['ltype'], c.get('bshape'), c['fn'], c.get('dim', 0), ag_text(c.get('ag', 'off')),
                                         type(e).__name__, str(e)[:200]))
    if res['fail'] and c.get('cb', 'plain') != 'plain' and res['fail'][0] in (KEY_FOLD, KEY_HIST):
        res['fail'] = (KEY_REENT, res['fail'][1])
    return res


def lie_exec_(pp, torch, c, res):
    """one LieTensor history on the implementation, judged by exact sequential products.
    Returns dict(calls=[(k, left, rows_in, rows_out | None | 'shape')] for the tie, fail=(key, text) | None)"""
    lt, left, fn, form = c['ltype'], c['left'], c['fn'], c.get('form', 'function')
    items = c['items']
    bshape = tuple(c.get('bshape', [len(items)]))
    dim = c.get('dim', 0)
    k = dim if dim >= 0 else dim + len(bshape) + 1
    w = WIDTH[lt]
    layout = c.get('layout', 'C')
    mulop = c.get('mulop', '@')
    cb = c.get('cb', 'plain')
    inplace = fn.endswith('_')
    ag = c.get('ag', 'off')
    lay = LAYOUTS[layout] + ag_text(ag)
    rows0 = [[Fraction(v) for v in r] for r in items]
    t = torch.tensor(items, dtype=torch.float64).reshape(bshape + (w,))
    _, buf, vf = relayout(torch, t, layout)
    if ag == 'leaf' and layout == 'C':
        x = pp.LieTensor(buf, ltype=getattr(pp, lt + '_type')).requires_grad_(True)      # the LieTensor itself is the leaf
    else:
        buf = ag_buffer(torch, buf, ag)
        x = pp.LieTensor(vf(buf), ltype=getattr(pp, lt + '_type'))
    buf = buf.detach()
    raw = lambda z: z.tensor().detach()       # the memory of a LieTensor, for the writes of the history and the comparisons
    x0 = raw(x).clone()
    buf0 = buf.clone()
    call = '%s%s.%s [%s form](dim=%d, left=%s)%s' % (lt, list(bshape), fn, form, dim, left, ag_text(ag))
    if cb != 'plain':
        call += ' [ops computes its product re-entering the API: %s]' % cb

    def judged(y, rows_in, kk, lf, what):
        """records the call for the tie and compares with the ordered products"""
        if not hasattr(y, 'ltype') or y.ltype != x.ltype or tuple(y.shape) != bshape + (w,):
            res['calls'].append((kk, lf, rows_in, 'shape'))
            return (KEY_FOLD, '%s returns %s of shape %s, expected a %s LieTensor of shape %s'
                    % (what, getattr(getattr(y, 'ltype', None), '__class__', type(y)).__name__, list(getattr(y, 'shape', [])), lt, list(bshape + (w,))))
        got = frows(raw(y), w)
        res['calls'].append((kk, lf, rows_in, got))
        d = first_diff(got, fold_rows(lt, rows_in, bshape, kk, lf), bshape)
        return (KEY_FOLD, '%s is not the ordered product along batch dimension %d: %s' % (what, kk, d)) if d else None

    try:
        y = lie_call(pp, x, fn, form, dim, left, mulop, cb)
    except Exception as e:
        res['calls'].append((k, left, rows0, None))
        res['fail'] = (KEY_FOLD, '%s raises %s: %s' % (call, type(e).__name__, str(e)[:200]))
        return res
    res['fail'] = judged(y, rows0, k, left, call)
    if res['fail']:
        return res
    rows1 = res['calls'][0][3]
    if inplace:
        if not torch.equal(raw(x), raw(y)):
            res['fail'] = (KEY_INPL, '%s did not overwrite its %s input with the result' % (call, lay))
            return res
        if not torch.equal(outside(buf, vf), outside(buf0, vf)):
            res['fail'] = (KEY_MUT, '%s on a view (%s) wrote outside the view' % (call, lay))
            return res
    else:
        if not torch.equal(raw(x), x0) or not torch.equal(buf, buf0):
            res['fail'] = (KEY_MUT, '%s changed its %s input' % (call, lay))
            return res
        ysave = raw(y).clone()
        raw(x).add_(3)
        if not torch.equal(raw(y), ysave):
            res['fail'] = (KEY_ALIAS, 'y = %s; writing to x afterwards changed y: the result shares memory with the input' % call)
            return res
        raw(x).copy_(x0)
    # ---- the result object is scanned in place (another dimension when there is one)
    if c.get('then'):
        fn2, dim2, left2 = c['then']
        k2 = dim2 if dim2 >= 0 else dim2 + len(bshape) + 1
        what = 'y = %s; %s(y, %d, left=%s)' % (call, fn2, dim2, left2)
        try:
            y2 = lie_call(pp, y, fn2, 'function', dim2, left2, mulop)
        except Exception as e:
            res['calls'].append((k2, left2, rows1, None))
            res['fail'] = (KEY_FOLD, '%s raises %s: %s' % (what, type(e).__name__, str(e)[:200]))
            return res
        res['fail'] = judged(y2, rows1, k2, left2, what)
        if res['fail']:
            return res
        if not torch.equal(raw(y), raw(y2)):
            res['fail'] = (KEY_INPL, '%s did not overwrite y with the result' % what)
            return res
        if not inplace and not torch.equal(raw(x), x0):
            res['fail'] = (KEY_ALIAS, '%s overwrote x: the result of the out-of-place call is (a view of) its input' % what)
            return res
        if not torch.equal(outside(buf, vf), outside(buf0, vf)):
            res['fail'] = (KEY_MUT, '%s wrote outside the view x (%s)' % (what, lay))
            return res
    if inplace:
        return res
    raw(y).fill_(0.25)
    if not torch.equal(raw(x), x0):
        res['fail'] = (KEY_ALIAS, 'y = %s; writing to y changed x: the result shares memory with the input' % call)
        return res
    # ---- the input is modified in place (items reversed along the dimension) and the call repeated on the object
    raw(x).copy_(x0.flip(k))
    rows3 = frows(x0.flip(k), w)
    what = '%s; x.copy_(x.flip(%d)); the same call again' % (call, k)
    try:
        y3 = lie_call(pp, x, fn, form, dim, left, mulop, cb)
    except Exception as e:
        res['fail'] = (KEY_HIST, '%s raises %s: %s' % (what, type(e).__name__, str(e)[:200]))
        return res
    ncalls = len(res['calls'])
    f3 = judged(y3, rows3, k, left, what)
    del res['calls'][ncalls:]
    if f3:
        res['fail'] = (KEY_HIST, f3[1])
    return res


def lie_cases(ctx, pp, torch, direct):
    import os
    if not os.path.exists(os.path.join(COQ, 'Model', 'LieGroup.v')):
        ctx.notes.append('LieTensor variants skipped: Model/LieGroup.v absent')
        return [], ''
    rng = ctx.rng
    meta, cs = [], []
    LTS = ['SO3', 'SE3', 'RxSO3', 'Sim3']
    plan = []
    # (a) one batch dimension: every (type, call form, function, order), dim 0 by both of its indices
    for n, (lt, form, fn, left) in enumerate(itertools.product(LTS, ['function', 'method', 'method-positional'],
                                                                ['cumprod', 'cummul', 'cumprod_', 'cummul_'], [True, False])):
        L = [2, 3, 5, 6, 7, 11][n % 6]
        plan.append((lt, form, fn, left, (L,), 0 if (n // 6) % 2 == 0 else -2, 'C', (lambda a: a[(n // 2 + n // 8) % len(a)])(AG_IN if fn.endswith('_') else AG_OUT)))
    # (b) every (function incl. cumops, call form, batch rank 1..3, sign of the dim index); group type, order, shape
    #     (with extents 1), batch dimension and memory layout drawn per case
    SHR = {1: [(1,), (2,), (4,), (6,)], 2: [(3, 4), (1, 6), (4, 1), (5, 2), (2, 2)], 3: [(2, 3, 2), (2, 1, 3), (1, 1, 4), (3, 2, 2), (1, 3, 1)]}
    for fn, form, r, neg in itertools.product(LIE_FNS, LIE_FORMS, [1, 2, 3], [False, True]):
        bsh = rng.choice(SHR[r])
        k = rng.randrange(r)
        plan.append((rng.choice(LTS), form, fn, rng.random() < 0.5, bsh, k - r - 1 if neg else k, rng.choice('CTSP'),
                     rng.choice(AG_IN if fn.endswith('_') else AG_OUT)))
    # (c) random
    for _ in range(ctx.scale(24, 600)):
        r = rng.choice([1, 1, 2, 3])
        if r == 1:
            bsh = (rng.choice([1, 2, 3, 4, 5, 6, 7, 9, 10, 13]),)
        else:
            bsh = tuple(rng.choice([1, 2, 3, 4, 5]) for _ in range(r))
        k = rng.randrange(r)
        fn = rng.choice(LIE_FNS)
        plan.append((rng.choice(LTS), rng.choice(LIE_FORMS), fn, rng.random() < 0.5, bsh,
                     k if rng.random() < 0.5 else k - r - 1, rng.choice('CCTSP'), rng.choice(AG_IN if fn.endswith('_') else AG_OUT)))
    # (d) every autograd state x every function x both orders on lengths around the powers of two (the scan's passes)
    for n, (ag, fn, left) in enumerate(itertools.product(AG_OUT[1:], LIE_FNS, [True, False])):
        if ag == 'leaf' and fn.endswith('_'):
            continue
        plan.append((LTS[n % 4], LIE_FORMS[n % len(LIE_FORMS)], fn, left, ([3, 4, 5, 7, 8, 9, 12, 16, 17][n % 9],), 0 if n % 3 else -2, 'C', ag))
    # (e) cumops / cumops_ whose callback re-enters the cumulative-product API (2-term scans, an unrelated scan), every state
    for n, (cb, fn, left) in enumerate(itertools.product(LIE_CBS[1:], ['cumops', 'cumops_'], [True, False])):
        for rep in range(ctx.scale(2, 6)):
            m = 2 * n + rep
            bsh = [(3,), (4,), (5,), (2, 3), (6,), (9,), (3, 2, 2), (7,)][m % 8]
            k = (m // 3) % len(bsh)
            ags = AG_IN if fn.endswith('_') else AG_OUT
            plan.append((LTS[(m + m // 4) % 4], ['function', 'method', 'ltype', 'function-kw'][m % 4], fn, left, bsh, k if m % 2 else k - len(bsh) - 1,
                         'CCSP'[m % 4], ags[(m + m // 5) % len(ags)], cb))
    for p in plan:
        (lt, form, fn, left, bsh, dim, layout, ag), cb = p[:8], (p[8] if len(p) > 8 else 'plain')
        r = len(bsh)
        k = dim if dim >= 0 else dim + r + 1
        if form in ('default', 'method-default') and not fn.startswith('cumops'):
            left = True                                  # the documented default order
        items = lie_rows(rng, lt, bsh, k)
        k2 = (k + 1 + rng.randrange(max(r - 1, 1))) % r      # another batch dimension when there is one
        then = [rng.choice(['cumprod_', 'cummul_', 'cumops_']), k2 if rng.random() < 0.5 else k2 - r - 1, rng.random() < 0.5]
        if lt in ('RxSO3', 'Sim3') and k2 == k and bsh[k] > 8:
            then = None      # a scan of the scan multiplies up to L(L+1)/2 scales: the translations leave the exact range of float64
        c = dict(kind='lie', ltype=lt, L=bsh[k], left=left, fn=fn, form=form, items=items, bshape=list(bsh), dim=dim,
                 layout=layout, mulop=rng.choice('@*'), then=then, ag=ag)
        if cb != 'plain':
            c['cb'] = cb
            ctx.count('lie-callback-' + cb)
        ex = lie_exec(pp, torch, c)
        if ex['fail']:
            direct.append((ex['fail'], c))
        ctx.case(('lie', lt, tuple(bsh), dim, left, fn, form, tuple(map(tuple, items))), nontrivial=bsh[k] >= 2, branch='lie-' + lt)
        ctx.count('lie-rank%d-%s-dim' % (r + 1, 'neg' if dim < 0 else 'pos'))
        ctx.count('lie-form-' + form)
        ctx.count('lie-autograd-' + ag)
        meta.append(c)
        for ncall, (kk, lf, rin, rout) in enumerate(ex['calls']):
            if ncall and len(meta) % 3 and isinstance(rout, list):
                continue        # the second call of the history is judged by the exact products; tied for every third case
            fl = fibres(bsh, kk)
            for nf, fib in enumerate(fl):
                lit_in = coq_list(qlist(rin[f]) for f in fib)
                if rout is None:
                    lit_out = 'None'
                elif rout == 'shape':
                    lit_out = 'Some []'
                else:
                    lit_out = 'Some ' + coq_list(qlist(rout[f]) for f in fib)
                cs.append('(%d%%nat, %d%%nat, %s, %s, %s)' % (len(meta) - 1, GID[lt], 'true' if lf else 'false', lit_in, lit_out))
                if not isinstance(rout, list):
                    break
    if meta and len(ctx.samples) < 6:
        ctx.samples.append(meta[9] if len(meta) > 9 else meta[0])
        ctx.samples.append(meta[100] if len(meta) > 100 else meta[-1])
    body = ('From PV Require Import Base.Num Model.Cumops Model.LieGroup Model.CumLie.\nFrom Coq Require Import List ZArith QArith Bool. Import ListNotations.\n'
            'Eval vm_compute in lie_cum_bad %s.\n' % coq_list(cs))
    return meta, body


def run(ctx):
    pp = import_pypose()
    import torch
    ctx.rule = RULE
    rng = ctx.rng
    maxL = 4096
    direct = []      # ((key, text), case): failures of the property's own statement found while executing the cases
    # ---------------------------------------------------------------- (1) every L, 1-d, cumops
    impl_fail = {}   # L -> deviation list / None
    for L in range(1, maxL + 1):
        # dimension 0 by either index; the full history (result scanned in place, input modified and call repeated)
        # for the short lengths and a sample of the long ones, the aliasing / mutation checks for every length
        c = dict(kind='plain', L=L, shape=[L], dim=0 if L % 2 else -2, variant='cumops', order='right')
        ex = plain_exec(pp, torch, c, history=(L <= 40 or L % 128 in (0, 1, 127)))
        if ex['fail']:
            direct.append((ex['fail'], c))
        d = ex['devs'][0][1] if ex['devs'] is not None else None
        ctx.case(('plain1d', L), nontrivial=L >= 2, branch='plain-1d')
        # the same length in every other autograd state (the index schedule must not depend on it): the short lengths and
        # the neighbours of the powers of two in all of them, the others in one state in turn; out-of-place and in-place
        allst = L <= 72 or any(abs(L - (1 << b)) <= 1 for b in range(6, 13))
        for ag in (AG_OUT[1:] if allst else [AG_OUT[1 + L % 4]]):
            for variant in ('cumops', 'cumops_'):
                if ag == 'leaf' and variant == 'cumops_':
                    continue
                if variant == 'cumops_' and not allst and (L // 4) % 2:
                    continue
                c2 = dict(c, variant=variant, ag=ag, order='right' if (L + len(ag)) % 2 else 'left')
                ex2 = plain_exec(pp, torch, c2, history=allst and L % 3 == 0)
                ctx.case(('plain1d', L, variant, ag), nontrivial=L >= 2, branch='plain-1d-' + ag)
                if ex2['fail']:
                    direct.append((ex2['fail'], c2))     # judged by the oracle; the tie of these states is in (2) and (3)
        if d != []:
            impl_fail[L] = d
    ctx.samples.append(dict(kind='plain-1d', L=37, input='[[0,0],[1,1],...,[36,36]]', op='segment monoid',
                            impl_deviations_from_fold=impl_fail.get(37, [])))
    nsh = 16
    per = maxL // nsh
    files = []
    for k in range(nsh):
        lo = 1 + k * per
        exc = [L for L in impl_fail if lo <= L < lo + per]
        body = 'From PV Require Import Model.Cumops.\nFrom Coq Require Import List ZArith. Import ListNotations.\n'
        body += 'Eval vm_compute in seg_bad_range %d %d %s.\n' % (lo, per, coq_list('%d%%nat' % e for e in exc))
        # the excepted lengths are compared in full
        cases = ['(%d%%nat, false, 100000%%Z, %d%%nat, %s)' % (L, L, devlit(impl_fail[L])) for L in exc]
        body += 'Eval vm_compute in seg_bad %s.\n' % coq_list(cases)
        files.append(('range_%02d' % k, body))
    # ---------------------------------------------------------------- (2) ranks <= 4, every dim, variants
    nshape = ctx.scale(60, 600)
    cases = []
    meta = []
    shapes = []
    directed = [(1,), (2,), (3,), (5, 1), (1, 5), (3, 4), (2, 3, 4), (7, 2, 1), (2, 3, 2, 5), (1, 1, 1, 9), (6, 0), (0, 6),
                (1, 1), (1, 4, 1), (4, 1, 3), (1, 2, 1, 3)]
    for sh in directed:
        shapes.append(sh)
    while len(shapes) < nshape:
        r = rng.randint(1, 4)
        shapes.append(tuple(rng.choice([1, 2, 3, 5, 6, 7, 9, 12, 17, 31, 33]) if rng.random() < 0.8 else rng.randint(1, 70) for _ in range(r)))
    for ns, sh in enumerate(shapes):
        for dim in range(len(sh)):
            if sh[dim] == 0:
                continue
            for variant in ('cumops', 'cumops_'):
                order = rng.choice(['right', 'left'])
                usedim = dim if rng.random() < 0.5 else dim - len(sh) - 1   # negative dims count from the pair axis
                if ns < len(directed):
                    layout = 'CTSPE'[(ns + dim + (variant == 'cumops')) % 5]
                else:
                    layout = rng.choice(['C', 'C', 'T', 'S', 'P', 'E'])
                ags = AG_IN if variant == 'cumops_' else AG_OUT
                ag = ags[(ns + 2 * dim) % len(ags)] if ns < len(directed) else rng.choice(ags)
                c = dict(kind='plain', variant=variant, shape=list(sh), dim=usedim, order=order, L=sh[dim], layout=layout, ag=ag)
                if layout == 'E':
                    if variant == 'cumops' and len(sh) >= 2:
                        c['edim'] = (dim + 1 + rng.randrange(len(sh) - 1)) % len(sh)
                    else:
                        c['layout'] = 'C'     # writing through an expanded view is not defined
                ex = plain_exec(pp, torch, c)
                if ex['fail']:
                    direct.append((ex['fail'], c))
                ctx.case((variant, sh, dim, order), nontrivial=sh[dim] >= 2, branch='%s-rank%d' % (variant, len(sh)))
                ctx.count('plain-layout-' + c['layout'])
                ctx.count('plain-autograd-' + ag)
                meta.append(c)
                cases.append((len(meta) - 1, sh[dim], ex['devs'], ex['same_in'], ex['same_res'], variant == 'cumops_', order == 'left'))
    body = 'From PV Require Import Model.Cumops.\nFrom Coq Require Import List ZArith Bool. Import ListNotations.\n'
    segcases, memcases = [], []
    for (i, L, devs, same_in, same_res, inplace, left) in cases:
        lf = 'true' if left else 'false'
        if devs is None:
            segcases.append('(%d%%nat, %s, 0%%Z, %d%%nat, None)' % (i, lf, L))
            continue
        # all fibres share the schedule: compare each distinct (deviation pattern) once per case
        seen = set()
        for (b, d) in devs:
            key = (tuple(d),) if d else ()
            if key in seen and not d:
                continue
            seen.add(key)
            segcases.append('(%d%%nat, %s, %d%%Z, %d%%nat, %s)' % (i, lf, b, L, devlit(d)))
        if not devs:
            continue      # tensor without elements: there are no values to compare
        memcases.append('(%d%%nat, %s, %d%%nat, %s, %s)' % (i, 'true' if inplace else 'false', L,
                                                         'true' if same_in else 'false', 'true' if same_res else 'false'))
    body += 'Eval vm_compute in seg_bad %s.\n' % coq_list(segcases)
    body += ('Eval vm_compute in map (fun c => match c with (i,_,_,_,_) => i end) (filter (fun c => match c with (_, ip, L, a, b) => '
             'match mem_flags ip L with Some (x, y) => negb (eqb x a && eqb y b) | None => true end end) %s).\n' % coq_list(memcases))
    files.append(('shapes', body))
    if len(ctx.samples) < 6 and meta:
        ctx.samples.append(dict(meta[min(len(meta) - 1, 17)], note='items along dim are [base+i,base+i]; other dims index independent fibres'))
    # ---------------------------------------------------------------- (3) LieTensor variants (exact group elements)
    lie_meta, lie_body = lie_cases(ctx, pp, torch, direct)
    if lie_body:
        files.append(('lie', lie_body))
    # ---------------------------------------------------------------- (4) plain tensors of matrices through cumprod / cummul
    mat_cases(ctx, pp, torch, direct)
    # ---------------------------------------------------------------- (5) the operation as a callback: implementation styles, re-entrancy
    cb_cases(ctx, pp, torch, direct)
    # ---------------------------------------------------------------- the schedule regenerated from the source text
    # (second tie, harness/translate_cumops.py): the pass-count expression of cumops_ is translated into Coq integer
    # arithmetic and the generated file proves, for every length L, gen_strides L = strides L (hence gen_cumops =
    # cumops_model and the four wrappers = cumprod_model); the shape of cumops_ around it is matched, fail closed
    gen_notes = None
    try:
        from ..translate_cumops import translate as tr_cumops, N_LEMMAS
        gen_text, gen_notes = tr_cumops(os.environ.get('VERIF_REPO', '/repo'))
        files.append(('CumopsGen', gen_text))
    except Exception as e:     # Untranslatable, SyntaxError ...: fail closed
        ctx.obligation_broken('translation:pypose/basics/ops.py -> Coq', '%s: %s' % (type(e).__name__, str(e)[:2000]))
    # ---------------------------------------------------------------- run Coq, collect
    res = run_case_files('C12', files, timeout=1200)
    if 'CumopsGen' in res:
        rc, out = res.pop('CumopsGen')
        if rc != 0 or out.count('Closed under the global context') != N_LEMMAS:
            ctx.obligation_broken('proof:generated schedule = Model/Cumops.v (gen_count_eq, gen_strides_eq, gen_cumops_eq, gen_cumprod_eq ...)', out[-2500:])
        else:
            ctx.notes.append('translator tie: gen_count / gen_strides / gen_cumops and the four wrappers regenerated from the working tree and proved equal to '
                             'Model/Cumops.v for every length, with the property theorems restated for them (gen_cumops_is_fold, gen_cumprod_left, gen_cumprod_right; %d statements, closed under the global context); %s' % (N_LEMMAS, '; '.join(gen_notes)))
    for name, (rc, out) in sorted(res.items()):
        ev = parse_evals(out)
        nexp = 2 if name != 'lie' else 1
        if rc != 0 or len(ev) != nexp:
            ctx.obligation_broken('correspondence-file:' + name, out[-1500:])
            continue
        if name.startswith('range_'):
            for L in parse_nat_list(ev[0]) + parse_nat_list(ev[1]):
                ctx.mismatch('plain-1d', dict(kind='plain', variant='cumops', shape=[L], dim=0 if L % 2 else -2, order='right', L=L))
        elif name == 'shapes':
            for i in sorted(set(parse_nat_list(ev[0]) + parse_nat_list(ev[1]))):
                ctx.mismatch('plain-shapes', meta[i])
        else:
            for i in sorted(set(parse_nat_list(ev[0]))):
                ctx.mismatch('lie', lie_meta[i])
    ctx.traces = ctx.evaluations
    ctx.exhaustive = True
    ctx.notes.append('L = 1..%d all executed on implementation and model (16 Coq shards)' % maxL)
    # ---------------------------------------------------------------- search on mismatches
    for m in ctx.mismatches[:50]:
        c = m['case']
        bad = replay(ctx, c)
        if bad:
            m['explained'] = True
            ctx.violation(replay_key(ctx, c) or KEY_FOLD, 'result differs from the sequential fold (or the call raises): %s' % bad, c)
        else:
            # look around: neighbouring lengths
            for L2 in sorted({max(1, c['L'] + d) for d in (-2, -1, 1, 2, 3)}):
                if c['kind'] == 'plain':
                    c2 = dict(c, L=L2, shape=[L2], dim=0, layout='C')
                else:
                    c2 = dict(c, L=L2, bshape=[L2], dim=0, items=lie_items(rng, c['ltype'], L2), then=None, layout='C')
                b2 = replay(ctx, c2)
                if b2:
                    m['explained'] = True
                    ctx.violation(KEY_FOLD, 'result differs from the sequential fold: %s' % b2, c2)
                    break
    # failures of the property's own statement that the tie does not see (histories, aliasing, writes outside views)
    shown = {}
    for (key, text), c in direct:
        if shown.get(key, 0) < 3:
            shown[key] = shown.get(key, 0) + 1
            ctx.violation(key, text, c)


def mat_cases(ctx, pp, torch, direct):
    """pp.cumprod / cummul (and in-place variants) on plain tensors of 2x2 integer matrices: '@' is the free
    monoid on A = [[1,1],[0,1]], B = [[1,0],[1,1]] (order observable, exact), '*' the element-wise product"""
    rng = ctx.rng
    SH = [(1,), (2,), (7,), (3, 4), (1, 5), (5, 1), (2, 3, 4), (2, 1, 3), (19,), (4, 6)]
    n = 0
    for fn, left in itertools.product(['cumprod', 'cumprod_', 'cummul', 'cummul_'], [True, False]):
        for rep in range(ctx.scale(2, 12)):
            bsh = SH[n % len(SH)]
            n += 1
            for k in range(len(bsh)):
                dim = k if (n + k + rep) % 2 else k - len(bsh) - 2
                c = dict(kind='plainmat', fn=fn, left=left, bshape=list(bsh), dim=dim, L=bsh[k],
                         gens=[rng.randrange(2) for _ in range(int(torch.tensor(bsh).prod()))], layout='CSP'[(n + k) % 3],
                         ag=(AG_IN if fn.endswith('_') else AG_OUT)[(n + rep // 2 + k) % (4 if fn.endswith('_') else 5)])
                f = mat_exec(pp, torch, c)
                if f:
                    direct.append((f, c))
                ctx.case(('plainmat', fn, left, tuple(bsh), dim, tuple(c['gens'])), nontrivial=bsh[k] >= 2, branch='plain-matrices-' + fn)


def mat_exec(pp, torch, c):
    try:
        with ag_context(torch, c.get('ag', 'off')):
            return mat_exec_(pp, torch, c)
    except Exception as e:
        return (KEY_HIST, 'a step of the history around pp.%s(tensor%s of 2x2 matrices, dim=%d)%s raises %s: %s'
                % (c['fn'], c['bshape'], c['dim'], ag_text(c.get('ag', 'off')), type(e).__name__, str(e)[:200]))


def mat_exec_(pp, torch, c):
    import math
    fn, left, bsh, dim = c['fn'], c['left'], tuple(c['bshape']), c['dim']
    r = len(bsh)
    k = dim if dim >= 0 else dim + r + 2
    G = [[1, 1, 0, 1], [1, 0, 1, 1]]
    if fn.startswith('cummul'):
        G = [[2, 3, 1, -1], [1, -2, 3, 1]]
    rows = [G[g] for g in c['gens']]
    if fn.startswith('cumprod'):
        op = lambda a, b: [a[0] * b[0] + a[1] * b[2], a[0] * b[1] + a[1] * b[3], a[2] * b[0] + a[3] * b[2], a[2] * b[1] + a[3] * b[3]]
    else:
        op = lambda a, b: [a[i] * b[i] for i in range(4)]
    inner = int(math.prod(bsh[k + 1:]))
    exp = list(rows)
    for f in range(len(rows)):
        if (f // inner) % bsh[k] > 0:
            exp[f] = op(rows[f], exp[f - inner]) if left else op(exp[f - inner], rows[f])
    t = torch.tensor(rows, dtype=torch.float64).reshape(bsh + (2, 2))
    # relayout treats the last axis as the item: fold the matrix into one axis of 4 for the layout, view as 2x2
    view, buf, vf0 = relayout(torch, t.reshape(bsh + (4,)), c.get('layout', 'C'))
    vf = lambda b: vf0(b).unflatten(-1, (2, 2))
    ag = c.get('ag', 'off')
    buf = ag_buffer(torch, buf, ag)
    xg = vf(buf)                              # the input in its autograd state
    x, buf = xg.detach(), buf.detach()        # the same memory
    x0, buf0 = x.clone(), buf.clone()
    call = 'pp.%s(tensor%s of 2x2 matrices, dim=%d, left=%s)%s' % (fn, list(bsh), dim, left, ag_text(ag))
    try:
        y = getattr(pp, fn)(xg, dim, left=left)
    except Exception as e:
        return (KEY_FOLD, '%s raises %s: %s' % (call, type(e).__name__, str(e)[:200]))
    if not torch.is_tensor(y) or tuple(y.shape) != bsh + (2, 2):
        return (KEY_FOLD, '%s has shape %s' % (call, list(getattr(y, 'shape', []))))
    y = y.detach()
    got = [[int(v) for v in row] for row in y.reshape(-1, 4).tolist()]
    for f in range(len(rows)):
        if got[f] != exp[f]:
            return (KEY_FOLD, '%s: flat batch position %d is %s, ordered product %s' % (call, f, got[f], exp[f]))
    if fn.endswith('_'):
        if not torch.equal(x, y):
            return (KEY_INPL, '%s did not overwrite its input' % call)
        if not torch.equal(outside(buf, vf0), outside(buf0, vf0)):
            return (KEY_MUT, '%s on a view wrote outside the view' % call)
        return None
    if not torch.equal(x, x0) or not torch.equal(buf, buf0):
        return (KEY_MUT, '%s changed its input' % call)
    y.fill_(5)
    if not torch.equal(x, x0):
        return (KEY_ALIAS, 'y = %s; y.fill_(5) changed x: the result shares memory with the input' % call)
    return None


# ------------------------------------------------------------------------------------------------
# (5) the statement holds 'for any associative operation': the operation is a callback of the caller, and the
# callback owns the tensors it is handed and the tensor it returns.  The same monoids are implemented in every style a
# callback can be written in (fresh result / accumulating in place into either operand and returning it / returning an
# operand or a view of it / overwriting the operands after use / returning one recycled buffer / computing the product
# through the cumulative-product API itself / running an unrelated scan first), and two scans are interleaved pass by pass.
CB_MONOIDS = ['affine', 'band', 'lzero', 'rzero', 'mat', 'had']
CB_STYLES = ['fresh', 'into-first', 'into-second', 'operand-view', 'scribble', 'recycled',
             'nested-cumops', 'nested-cumops_', 'nested-lib', 'nested-other']
CB_WIDTH = {'affine': 2, 'band': 2, 'lzero': 2, 'rzero': 2, 'mat': 4, 'had': 3}
CB_TEXT = {'affine': 'composition of the integer affine maps t -> m t + c, items (m, c)',
           'band': 'the rectangular band (p1, q1) o (p2, q2) = (p1, q2)',
           'lzero': 'the left-zero band a o b = a', 'rzero': 'the right-zero band a o b = b',
           'mat': 'products of 2x2 integer matrices (free monoid on [[1,1],[0,1]], [[1,0],[1,1]]), items are the 4 entries',
           'had': 'the element-wise product of integer triples'}
CB_STYLE_TEXT = {'fresh': 'returns a new tensor', 'into-first': 'accumulates in place into the first factor and returns it',
                 'into-second': 'accumulates in place into the second factor and returns it',
                 'operand-view': 'returns (a view of) an operand when the product is that operand, else accumulates into a view of it',
                 'scribble': 'returns a new tensor and overwrites both operands afterwards',
                 'recycled': 'returns one buffer owned by the callback, overwritten by every call',
                 'nested-cumops': 'computes the product as the last item of a 2-term pp.cumops',
                 'nested-cumops_': 'computes the product as the last item of a 2-term pp.cumops_ (left order)',
                 'nested-lib': 'computes the product as the last item of a 2-term pp.cumprod / pp.cummul / pp.cumops',
                 'nested-other': 'runs an unrelated scan of another length before multiplying'}


def cb_pyop(monoid):
    """a o b on tuples of Python integers, from the definition of the monoid"""
    if monoid == 'affine':
        return lambda a, b: (a[0] * b[0], a[0] * b[1] + a[1])
    if monoid == 'band':
        return lambda a, b: (a[0], b[1])
    if monoid == 'lzero':
        return lambda a, b: a
    if monoid == 'rzero':
        return lambda a, b: b
    if monoid == 'mat':
        return lambda a, b: (a[0] * b[0] + a[1] * b[2], a[0] * b[1] + a[1] * b[3], a[2] * b[0] + a[3] * b[2], a[2] * b[1] + a[3] * b[3])
    return lambda a, b: tuple(u * v for u, v in zip(a, b))


def cb_rows(rng, monoid, n):
    if monoid == 'affine':
        return [(rng.choice([1, -1, -1, 2]), rng.randint(-3, 3)) for _ in range(n)]
    if monoid == 'mat':
        return [rng.choice([(1, 1, 0, 1), (1, 0, 1, 1)]) for _ in range(n)]
    if monoid == 'had':
        return [tuple(rng.choice([1, -1, -1, 2]) for _ in range(3)) for _ in range(n)]
    return [(10 * f + 1, 10 * f + 2) for f in range(n)]            # bands: every coordinate identifies its item


def cb_fresh(torch, monoid):
    """a o b as a new tensor"""
    if monoid == 'affine':
        return lambda a, b: torch.stack([a[..., 0] * b[..., 0], a[..., 0] * b[..., 1] + a[..., 1]], -1)
    if monoid == 'band':
        return lambda a, b: torch.stack([a[..., 0], b[..., 1]], -1)
    if monoid == 'lzero':
        return lambda a, b: a.clone()
    if monoid == 'rzero':
        return lambda a, b: b.clone()
    if monoid == 'mat':
        return lambda a, b: (a.unflatten(-1, (2, 2)) @ b.unflatten(-1, (2, 2))).flatten(-2)
    return lambda a, b: a * b


def cb_into(torch, monoid, which, view=False):
    """a o b accumulated in place into the first (which=0) or second factor, which is returned (view: through a view)"""
    def first(a, b):
        t = a[...] if view else a
        if monoid == 'affine':
            t[..., 1].addcmul_(t[..., 0], b[..., 1])
            t[..., 0].mul_(b[..., 0])
        elif monoid == 'band':
            t[..., 1] = b[..., 1]
        elif monoid == 'rzero':
            t.copy_(b)
        elif monoid == 'mat':
            t.copy_(cb_fresh(torch, 'mat')(a, b))
        elif monoid == 'had':
            t.mul_(b)
        return t

    def second(a, b):
        t = b[...] if view else b
        if monoid == 'affine':
            t[..., 1].mul_(a[..., 0]).add_(a[..., 1])
            t[..., 0].mul_(a[..., 0])
        elif monoid == 'band':
            t[..., 0] = a[..., 0]
        elif monoid == 'lzero':
            t.copy_(a)
        elif monoid == 'mat':
            t.copy_(cb_fresh(torch, 'mat')(a, b))
        elif monoid == 'had':
            t.mul_(a)
        return t
    return second if which else first


def cb_inner_scan(pp, torch, st, Lo, like):
    """an unrelated scan (segment monoid) of length Lo, judged by the fold; failures are left in st"""
    x, base = seg_tensor(torch, (Lo,), 0)
    if like.is_floating_point():
        x = x.to(like.dtype)
    y = (pp.cumops_ if st['n'] % 2 else pp.cumops)(x, 0, seg_ops(torch, 'right'))
    bad = [(b, d[:3]) for b, d in deviations(y.detach(), base, 0) if d]
    if bad and not st.get('inner'):
        st['inner'] = 'the scan of the segment items [100000+i, 100000+i], i < %d, run inside the callback differs from the fold: %s' % (Lo, bad[:1])


def cb_make(pp, torch, monoid, style, st, inner_L=3):
    """mop(a, b) = a o b as a callback written in the given style; st: the callback's own state"""
    fresh = cb_fresh(torch, monoid)
    if style == 'fresh':
        mop = fresh
    elif style == 'into-first':
        mop = cb_into(torch, monoid, 0)
    elif style == 'into-second':
        mop = cb_into(torch, monoid, 1)
    elif style == 'operand-view':
        mop = cb_into(torch, monoid, 1 if monoid == 'rzero' else 0, view=True)
    elif style == 'scribble':
        def mop(a, b):
            r = fresh(a, b)
            a.fill_(-99)
            b.fill_(-77)
            return r
    elif style == 'recycled':
        def mop(a, b):
            r = fresh(a, b)
            if st.get('buf') is None or st['buf'].dtype != r.dtype or r.requires_grad:
                st['buf'] = r if r.requires_grad else r.clone()
                return st['buf']
            st['buf'].fill_(-55)                        # whatever was returned before belongs to the callback
            st['buf'].resize_(r.shape).copy_(r)
            return st['buf']
    elif style == 'nested-cumops':
        mop = lambda a, b: pp.cumops(torch.stack([a, b], 0), 0, fresh)[1]
    elif style == 'nested-cumops_':
        mop = lambda a, b: pp.cumops_(torch.stack([b, a], -2), -2, lambda p, q: fresh(q, p)).select(-2, 1)
    elif style == 'nested-lib':
        if monoid == 'mat':
            mop = lambda a, b: pp.cumprod(torch.stack([a, b], 0).unflatten(-1, (2, 2)), 0, left=False)[1].flatten(-2)
        elif monoid == 'had':
            mop = lambda a, b: pp.cummul(torch.stack([b, a], 0), 0)[1]
        else:
            mop = lambda a, b: pp.cumops(torch.stack([b, a], 0), 0, lambda p, q: fresh(q, p))[1]
    else:
        def mop(a, b):
            cb_inner_scan(pp, torch, st, inner_L, a)
            return fresh(a, b)

    def counted(a, b):
        st['n'] = st.get('n', 0) + 1
        return mop(a, b)
    return counted


def cb_fold(rows, bsh, k, pyop, left):
    import math
    inner = int(math.prod(bsh[k + 1:]))
    out = list(rows)
    for f in range(len(rows)):
        if (f // inner) % bsh[k] > 0:
            out[f] = pyop(rows[f], out[f - inner]) if left else pyop(out[f - inner], rows[f])
    return out


def cb_diff(y, exp, bsh, w):
    """first position where the tensor y differs from the expected rows (or a shape complaint)"""
    import numpy as np
    if tuple(y.shape) != tuple(bsh) + (w,):
        return 'the result has shape %s, expected %s' % (list(y.shape), list(bsh) + [w])
    got = [tuple(int(v) for v in row) for row in y.reshape(-1, w).tolist()]
    for f, (g, e) in enumerate(zip(got, exp)):
        if g != tuple(e):
            return 'position %s holds %s, the ordered product is %s' % (list(map(int, np.unravel_index(f, bsh))), list(g), list(e))
    return None


def cb_exec(pp, torch, c):
    try:
        with ag_context(torch, c.get('ag', 'off')):
            return cb_exec_(pp, torch, c)
    except Exception as e:
        return (KEY_REENT if c['style'].startswith('nested') else KEY_CB,
                'a step of the history around %s(x, %d, ops)%s on a tensor of shape %s with items %s ..., ops(a, b) = %s of %s, written so that it %s, raises %s: %s'
                % (c['variant'], c['dim'], ag_text(c.get('ag', 'off')), c['shape'] + [CB_WIDTH[c['monoid']]],
                   [list(v) for v in cb_rows(__import__('random').Random(c['iseed']), c['monoid'], 4)], 'b o a' if c['order'] == 'left' else 'a o b',
                   CB_TEXT[c['monoid']], CB_STYLE_TEXT[c['style']], type(e).__name__, str(e)[:200]))


def cb_exec_(pp, torch, c):
    import random
    monoid, style, variant, order = c['monoid'], c['style'], c['variant'], c['order']
    bsh, dim, ag, layout = tuple(c['shape']), c['dim'], c.get('ag', 'off'), c.get('layout', 'C')
    r, w = len(bsh), CB_WIDTH[monoid]
    k = dim if dim >= 0 else dim + r + 1
    left = order == 'left'
    key = KEY_REENT if style.startswith('nested') else KEY_CB
    n = 1
    for s in bsh:
        n *= s
    rows = cb_rows(random.Random(c['iseed']), monoid, n)
    pyop = cb_pyop(monoid)
    exp = cb_fold(rows, bsh, k, pyop, left)
    t = torch.tensor(rows, dtype=torch.int64 if ag == 'off' else torch.float64).reshape(bsh + (w,))
    _, buf, vf = relayout(torch, t, layout)
    buf = ag_buffer(torch, buf, ag)
    xg = vf(buf)
    x, buf = xg.detach(), buf.detach()
    x0, buf0 = x.clone(), buf.clone()
    st = {}
    mop = cb_make(pp, torch, monoid, style, st, c.get('inner_L', 3))
    ops = (lambda p, q: mop(q, p)) if left else mop
    fn = getattr(pp, variant)
    call = ('%s(x, %d, ops)%s on the %s tensor x of shape %s with items %s%s along dim %d, ops(a, b) = %s of %s, written so that it %s'
            % (variant, dim, ag_text(ag), LAYOUTS[layout], list(bsh) + [w], [list(v) for v in rows[:4]], ', ...' if n > 4 else '', k,
               'b o a' if left else 'a o b', CB_TEXT[monoid], CB_STYLE_TEXT[style]))
    y = fn(xg, dim, ops)
    if not torch.is_tensor(y):
        return (key, '%s returns a %s' % (call, type(y).__name__))
    y = y.detach()
    d = cb_diff(y, exp, bsh, w)
    if d:
        return (key, '%s: %s' % (call, d))
    if st.get('inner'):
        return (KEY_REENT, '%s: %s' % (call, st['inner']))
    if variant.endswith('_'):
        if not torch.equal(x, y):
            return (KEY_INPL, '%s returned the fold but did not overwrite x with it' % call)
        if not torch.equal(outside(buf, vf), outside(buf0, vf)):
            return (KEY_MUT, '%s wrote outside the view x' % call)
        return None
    if not torch.equal(x, x0) or not torch.equal(buf, buf0):
        return (KEY_MUT, '%s changed its input' % call)
    # the same call again with the same callback object (its buffers now hold the previous products) and with a
    # fresh plain one: the same result, the first result untouched
    ysave = y.clone()
    y2 = fn(xg, dim, ops).detach()
    y3 = fn(xg, dim, (lambda p, q: cb_fresh(torch, monoid)(q, p)) if left else cb_fresh(torch, monoid)).detach()
    if not torch.equal(y, ysave):
        return (KEY_ALIAS, 'y = %s; the same call again changed y: the result shares memory with a tensor of the callback' % call)
    d = cb_diff(y2, exp, bsh, w) or cb_diff(y3, exp, bsh, w)
    if d:
        return (KEY_HIST, '%s; the same call again: %s' % (call, d))
    if not torch.equal(x, x0) or not torch.equal(buf, buf0):
        return (KEY_MUT, '%s, called three times, changed its input' % call)
    y.fill_(-5)
    if not torch.equal(x, x0):
        return (KEY_ALIAS, 'y = %s; y.fill_(-5) changed x: the result shares memory with the input' % call)
    return None


def cb_threads_exec(pp, torch, c):
    """two scans run by two threads in lockstep: every callback of scan A returns only after the matching callback of scan B
    (shifted by c['offset'] passes) has been entered, so that the passes of the two scans alternate; both are judged"""
    import random, threading
    LA, LB, off, monoid, ag = c['LA'], c['LB'], c['offset'], c['monoid'], c.get('ag', 'off')
    w = CB_WIDTH[monoid]
    pyop = cb_pyop(monoid)
    bar = threading.Barrier(2)
    out = {}

    def work(name, L, skip, seed, left):
        try:
            with ag_context(torch, ag):
                rows = cb_rows(random.Random(seed), monoid, L)
                t = ag_buffer(torch, torch.tensor(rows, dtype=torch.int64 if ag == 'off' else torch.float64), ag)
                fresh = cb_fresh(torch, monoid)
                st = dict(n=0)

                def ops(p, q):
                    st['n'] += 1
                    if st['n'] > skip:
                        try:
                            bar.wait(timeout=20)
                        except threading.BrokenBarrierError:
                            pass
                    return fresh(q, p) if left else fresh(p, q)
                y = (pp.cumops_ if name == 'B' and ag != 'leaf' else pp.cumops)(t, 0, ops).detach()
                d = cb_diff(y, cb_fold(rows, (L,), 0, pyop, left), (L,), w)
                out[name] = d and ('scan %s (L = %d, items %s%s, %s order): %s' % (name, L, [list(v) for v in rows[:4]], ', ...' if L > 4 else '',
                                                                                    'left' if left else 'right', d))
        except Exception as e:
            out[name] = 'scan %s (L = %d) raises %s: %s' % (name, L, type(e).__name__, str(e)[:160])
        finally:
            if name == 'A':
                bar.abort()          # B's remaining passes run free

    ths = [threading.Thread(target=work, args=('A', LA, 0, c['iseed'], False)),
           threading.Thread(target=work, args=('B', LB, off, c['iseed'] + 1, True))]
    for th in ths:
        th.start()
    for th in ths:
        th.join(120)
    bad = [out.get(nm) for nm in 'AB' if out.get(nm)]
    if any(th.is_alive() for th in ths):
        bad.append('a scan did not return within 120 s')
    if bad:
        return (KEY_REENT, 'two threads%s each scan their own tensor with cumops (ops = %s), a barrier in the callbacks makes pass j of scan A '
                'and pass j+%d of scan B overlap: %s' % (ag_text(ag), CB_TEXT[monoid], off, '; '.join(bad)))
    return None


def cb_cases(ctx, pp, torch, direct):
    rng = ctx.rng
    SH = [((1,), 0), ((2,), 0), ((3,), 0), ((4,), 0), ((5,), 0), ((7,), 0), ((8,), 0), ((9,), 0), ((13,), 0), ((17,), 0), ((33,), 0),
          ((3, 5), 1), ((6, 2), 0), ((2, 9, 2), 1), ((3, 1, 4), 2), ((1, 6), 1), ((2, 2, 3, 2), 2)]
    n = m = 0
    for rep in range(ctx.scale(1, 6)):
        for monoid, style, variant, left in itertools.product(CB_MONOIDS, CB_STYLES, ['cumops', 'cumops_'], [False, True]):
            ags = AG_IN if variant == 'cumops_' else AG_OUT
            m += 1
            for ag in ([ags[(m + m // 4) % len(ags)], 'off'] if rep == 0 else [rng.choice(ags)]):
                n += 1
                sh, k = SH[(n * 7 + rep) % len(SH)] if rep == 0 else rng.choice(SH)
                c = dict(kind='callback', monoid=monoid, style=style, variant=variant, order='left' if left else 'right', shape=list(sh),
                         dim=k if (n + rep) % 2 else k - len(sh) - 1, L=sh[k], ag=ag, layout='CSPT'[(n // 3) % 4] if n % 3 == 0 else 'C',
                         iseed=rng.randrange(1 << 30), inner_L=[2, 3, sh[k], 2 * sh[k] + 3, 7, 40, 1030][n % 7])
                f = cb_exec(pp, torch, c)
                if f:
                    direct.append((f, c))
                ctx.case(('callback', monoid, style, variant, left, sh, c['dim'], ag, c['iseed']), nontrivial=sh[k] >= 2, branch='callback-' + style)
                ctx.count('callback-autograd-' + ag)
    # two scans alternating pass by pass
    for m, (LA, LB, off) in enumerate([(5, 7, 0), (5, 9, 1), (8, 16, 1), (3, 5, 1), (9, 17, 1), (6, 6, 0), (4, 8, 1), (17, 40, 1)]):
        for ag in (['off', AG_OUT[1 + m % 4]] if not ctx.thorough else AG_OUT):
            c = dict(kind='callback-threads', LA=LA, LB=LB, L=LA, offset=off, monoid=['affine', 'mat', 'band'][m % 3], ag=ag, iseed=rng.randrange(1 << 30))
            f = cb_threads_exec(pp, torch, c)
            if f:
                direct.append((f, c))
            ctx.case(('callback-threads', LA, LB, off, ag, c['iseed']), nontrivial=True, branch='callback-two-scans-alternating')


def replay_key(ctx, c):
    f = execute(c)
    return f[0] if f else None


def execute(c):
    pp = import_pypose()
    import torch
    if c['kind'] == 'plain':
        return plain_exec(pp, torch, c)['fail']
    if c['kind'] == 'plainmat':
        return mat_exec(pp, torch, c)
    if c['kind'] == 'callback':
        return cb_exec(pp, torch, c)
    if c['kind'] == 'callback-threads':
        return cb_threads_exec(pp, torch, c)
    return lie_exec(pp, torch, c)['fail']


def replay(ctx, c):
    """run one case (a short history) on the implementation against the sequential fold and the memory clause;
    returns a description of the failure or None"""
    f = execute(c)
    return f[1] if f else None
